(** C21 — model of PrimeFieldElement._sqrt / _is_sqr (mpyc/finfields.py) with the gmpy stubs
    legendre = jacobi (binary-free Euclid-style loop of mpyc/gmpy.py), powmod, invert underneath. *)
Require Import MPyC.Field MPyC.Zp MPyC.FinField MPyC.Euler.
From Coq Require Import ZArith Znumtheory Lia Bool List.
Import ListNotations.
Local Open Scope Z_scope.

(** ** gmpy.jacobi(x, y), y > 0 odd (ValueError otherwise); legendre(x, y) = jacobi(x, y)
      j = 1
      while True:
          x, y = y, x % y
          if y == 0: break
          t = (y & -y).bit_length() - 1
          if t&1 and (x&7 == 3 or x&7 == 5): j = -j
          y = y >> t
          if y&3 != 1 and x&3 != 1: j = -j
      if x != 1: j = 0 *)
Fixpoint jacobi_loop (fuel : nat) (x y j : Z) : option Z :=
  match fuel with
  | O => None
  | S f =>
      let x' := y in
      let y' := x mod y in
      if y' =? 0 then Some (if x' =? 1 then j else 0)
      else
        let t := Z.log2 (Z.land y' (- y')) in
        let j1 := if (Z.land t 1 =? 1) && ((Z.land x' 7 =? 3) || (Z.land x' 7 =? 5)) then - j else j in
        let y'' := Z.shiftr y' t in
        let j2 := if negb (Z.land y'' 3 =? 1) && negb (Z.land x' 3 =? 1) then - j1 else j1 in
        jacobi_loop f x' y'' j2
  end.

Definition jacobi_fuel (y : Z) : nat := (2 * Z.to_nat (Z.log2_up y) + 4)%nat.

Definition jacobi (x y : Z) : result Z :=
  if negb ((0 <? y) && (Z.land y 1 =? 1)) then Err ValueE
  else match jacobi_loop (jacobi_fuel y) x y 1 with Some j => Ok j | None => Err Fuel end.

Definition legendre := jacobi.

(** ** _is_sqr *)
Definition is_sqr (p a : Z) : result bool :=
  if p =? 2 then Ok true
  else bind (legendre a p) (fun l => Ok (negb (l =? -1))).

(** ** _sqrt *)
(** b = 1; while legendre(b*b - 4*a, p) != -1: b += 1   ([None]: fuel exhausted / legendre failed) *)
Fixpoint find_b (fuel : nat) (p a b : Z) : option Z :=
  match fuel with
  | O => None
  | S f => match legendre (b * b - 4 * a) p with
           | Ok l => if l =? -1 then Some b else find_b f p a (b + 1)
           | Err _ => None
           end
  end.
Definition find_b_fuel (p : Z) : nat := (64 + 8 * Z.to_nat (Z.log2_up p))%nat.

(** one ladder step on u*X + v in GF(p)[X]/(X^2 - b*X + a): squaring, and multiplication by X *)
Definition lad_sq (p a b : Z) (uv : Z * Z) : Z * Z :=
  let '(u, v) := uv in
  let u2 := (u * u) mod p in
  ((Z.shiftl u 1 * v + b * u2) mod p, (v * v - a * u2) mod p).
Definition lad_mx (p a b : Z) (uv : Z * Z) : Z * Z :=
  let '(u, v) := uv in ((v + b * u) mod p, (- a * u) mod p).

(** for i in range(e.bit_length()-1, -1, -1): square; if bit i of e: multiply by X   (from (0, 1)) *)
Fixpoint ladder (p a b : Z) (e : positive) : Z * Z :=
  match e with
  | xH => lad_mx p a b (lad_sq p a b (0, 1))
  | xO e' => lad_sq p a b (ladder p a b e')
  | xI e' => lad_mx p a b (lad_sq p a b (ladder p a b e'))
  end.

Definition sqrt_ (p a : Z) (INV : bool) : result Z :=      (* classmethod _sqrt on raw values *)
  if a =? 0 then (if INV then Err ZeroDiv else Ok a)
  else if p =? 2 then Ok a
  else if Z.land p 3 =? 3 then
    let p4 := if INV then Z.shiftr (p * 3 - 5) 2 else Z.shiftr (p + 1) 2 in
    powmod a p4 p
  else
    match find_b (find_b_fuel p) p a 1 with
    | None => Err Fuel
    | Some b =>
        match Z.shiftr (p + 1) 1 with
        | Zpos e => let '(u, v) := ladder p a b e in
                    if INV then reciprocal_ p v else Ok v
        | _ => Err Fuel
        end
    end.

Definition sqrt (p a : Z) (INV : bool) : result Z := bind (sqrt_ p a INV) (fun r => Ok (mk p r)).

(** entry points for the correspondence run *)
Definition codeb (r : result bool) : Z := code (bind r (fun b => Ok (b2z b))).
Definition sqrt_table (p : Z) : list (Z * Z * Z) :=
  map (fun a => (code (sqrt p a false), code (sqrt p a true), codeb (is_sqr p a))) (zrange p).
Definition sqrt_row (p : Z) (l : list Z) : list (Z * Z * Z) :=
  map (fun a => (code (sqrt p a false), code (sqrt p a true), codeb (is_sqr p a))) l.
Definition legendre_row (p : Z) (l : list Z) : list Z := map (fun a => code (legendre a p)) l.

(** ** Proofs *)
From Coq Require Import Zpow_facts.

(** *** the branches of _sqrt *)
Lemma powmod_nonneg x y m : m <> 0 -> 0 <= y -> powmod x y m = Ok (x ^ y mod m).
Proof.
  intros Hm Hy. destruct y as [|e|e]; [reflexivity| |lia].
  unfold powmod. rewrite pow_pos_spec by exact Hm. reflexivity.
Qed.

Theorem sqrt_zero p : sqrt p 0 false = Ok (0 mod p) /\ sqrt p 0 true = Err ZeroDiv.
Proof. split; reflexivity. Qed.

Theorem sqrt_p2 a : 0 <= a < 2 -> exists r, sqrt 2 a false = Ok r /\ mul 2 r (El r) = a.
Proof. intros H. assert (a = 0 \/ a = 1) as [-> | ->] by lia; eexists; split; reflexivity. Qed.

Section P3mod4.
Variable p : Z.
Hypothesis Hp : prime p.
Hypothesis H34 : p mod 4 = 3.
Let Hp2 := prime_ge_2 p Hp.

Lemma land3 : Z.land p 3 = 3.
Proof. change 3 with (Z.ones 2) at 1. rewrite Z.land_ones by lia. exact H34. Qed.

Lemma p_split : exists k, p = 4 * k + 3 /\ 0 <= k.
Proof.
  exists (p / 4). pose proof (Z.div_mod p 4 ltac:(lia)). split; [lia|]. apply Z.div_pos; lia.
Qed.

Lemma sqrt_branch a INV : 0 < a < p ->
  sqrt p a INV = Ok (a ^ (if INV then (p * 3 - 5) / 4 else (p + 1) / 4) mod p).
Proof.
  intros Ha. unfold sqrt, sqrt_.
  rewrite (proj2 (Z.eqb_neq a 0)) by lia.
  assert (p <> 2) by (intros ->; discriminate H34).
  rewrite (proj2 (Z.eqb_neq p 2)) by assumption.
  rewrite land3, Z.eqb_refl. rewrite !Z.shiftr_div_pow2 by lia. change (2 ^ 2) with 4.
  destruct p_split as [k [Ek Hk]].
  rewrite powmod_nonneg; [|lia|destruct INV; apply Z.div_pos; lia].
  cbn [bind]. unfold mk. rewrite Z.mod_mod by lia. reflexivity.
Qed.

(** the root: for every nonzero square a, sqrt(a)^2 = a *)
Theorem sqrt_p3mod4 a : 0 < a < p -> (exists b, (b * b) mod p = a) ->
  exists r, sqrt p a false = Ok r /\ 0 <= r < p /\ mul p r (El r) = a.
Proof.
  intros Ha [b Hb]. rewrite (sqrt_branch a false Ha). eexists; split; [reflexivity|].
  split; [apply Z.mod_pos_bound; lia|].
  unfold mul, mk; cbn [raw]. rewrite <- Z.mul_mod by lia.
  destruct p_split as [k [Ek Hk]].
  assert (E4 : (p + 1) / 4 = k + 1).
  { symmetry. apply Z.div_unique with 0; lia. }
  assert (E2 : (p - 1) / 2 = 2 * k + 1).
  { symmetry. apply Z.div_unique with 0; lia. }
  rewrite E4. rewrite <- Z.pow_add_r by lia.
  replace (k + 1 + (k + 1)) with (1 + (2 * k + 1)) by ring.
  rewrite Z.pow_add_r, Z.pow_1_r by lia.
  rewrite <- Z.mul_mod_idemp_r by lia. rewrite <- E2.
  rewrite (euler_square p a b Hp).
  - rewrite Z.mul_1_r. apply Z.mod_small. lia.
  - intros ->. discriminate H34.
  - rewrite Hb. symmetry. apply Z.mod_small. lia.
  - rewrite Z.mod_small by lia. lia.
Qed.

(** the INV variant is the inverse of that root (for every nonzero a) *)
Theorem sqrt_inv_p3mod4 a : 0 < a < p ->
  exists r ri, sqrt p a false = Ok r /\ sqrt p a true = Ok ri /\ 0 <= ri < p /\ mul p ri (El r) = 1.
Proof.
  intros Ha. rewrite (sqrt_branch a false Ha), (sqrt_branch a true Ha).
  eexists; eexists; split; [reflexivity|]. split; [reflexivity|].
  split; [apply Z.mod_pos_bound; lia|].
  unfold mul, mk; cbn [raw]. rewrite <- Z.mul_mod by lia.
  destruct p_split as [k [Ek Hk]].
  assert (E4 : (p + 1) / 4 = k + 1) by (symmetry; apply Z.div_unique with 0; lia).
  assert (E5 : (p * 3 - 5) / 4 = 3 * k + 1) by (symmetry; apply Z.div_unique with 0; lia).
  rewrite E4, E5. rewrite <- Z.pow_add_r by lia.
  replace (3 * k + 1 + (k + 1)) with (p - 1) by lia.
  apply fermat; [exact Hp|]. rewrite Z.mod_small by lia. lia.
Qed.
End P3mod4.

(** *** bounded-exhaustive check of the whole of _sqrt / _is_sqr (incl. the Cipolla branch and jacobi) *)
Definition primes200 : list Z :=
  [2; 3; 5; 7; 11; 13; 17; 19; 23; 29; 31; 37; 41; 43; 47; 53; 59; 61; 67; 71; 73; 79; 83; 89; 97; 101; 103; 107;
   109; 113; 127; 131; 137; 139; 149; 151; 157; 163; 167; 173; 179; 181; 191; 193; 197; 199].

Definition is_square_bf (p a : Z) : bool := existsb (fun b => (b * b) mod p =? a) (zrange p).

Definition check_elem (p a : Z) : bool :=
  let sq := is_square_bf p a in
  match is_sqr p a with Ok s => Bool.eqb s sq | Err _ => false end &&
  (if sq then
     match sqrt p a false with
     | Ok r => (0 <=? r) && (r <? p) && ((r * r) mod p =? a) &&
               match sqrt p a true with
               | Ok ri => negb (a =? 0) && (0 <=? ri) && (ri <? p) && ((ri * r) mod p =? 1)
               | Err ZeroDiv => a =? 0
               | Err _ => false
               end
     | Err _ => false
     end
   else true).

Definition check_all (ps : list Z) : bool := forallb (fun p => forallb (check_elem p) (zrange p)) ps.

Lemma in_zrange n a : 0 <= a < n -> In a (zrange n).
Proof.
  intros H. unfold zrange. apply in_map_iff. exists (Z.to_nat a). split; [lia|]. apply in_seq. lia.
Qed.

Lemma is_square_bf_spec p a : 2 <= p -> 0 <= a < p ->
  (is_square_bf p a = true <-> exists b, (b * b) mod p = a).
Proof.
  intros Hp Ha. unfold is_square_bf. rewrite existsb_exists. split.
  - intros [b [_ E]]. exists b. apply Z.eqb_eq, E.
  - intros [b E]. exists (b mod p). split; [apply in_zrange, Z.mod_pos_bound; lia|].
    apply Z.eqb_eq. rewrite <- Z.mul_mod by lia. exact E.
Qed.

Lemma check_all_elem ps p a : check_all ps = true -> In p ps -> In a (zrange p) -> check_elem p a = true.
Proof.
  unfold check_all. intros C Hp Ha. rewrite forallb_forall in C. specialize (C p Hp).
  rewrite forallb_forall in C. exact (C a Ha).
Qed.

Lemma check_all_200 : check_all primes200 = true.
Proof. vm_compute. reflexivity. Qed.

Lemma primes200_prime p : In p primes200 -> prime p.
Proof.
  intros H. apply is_prime_small_correct.
  assert (F : forallb is_prime_small primes200 = true) by (vm_compute; reflexivity).
  rewrite forallb_forall in F. apply F, H.
Qed.

(** for every prime p < 200 (the 46 listed) and every element a:
    is_sqr(a) holds exactly for the squares; for squares sqrt(a)^2 = a; for nonzero squares sqrt(a, INV) is the
    inverse of sqrt(a); sqrt(0, INV) raises ZeroDivisionError *)
Theorem sqrt_is_sqr_bounded p a : In p primes200 -> 0 <= a < p ->
  (exists s, is_sqr p a = Ok s /\ (s = true <-> exists b, (b * b) mod p = a)) /\
  ((exists b, (b * b) mod p = a) ->
     (exists r, sqrt p a false = Ok r /\ 0 <= r < p /\ (r * r) mod p = a /\
        (a <> 0 -> exists ri, sqrt p a true = Ok ri /\ 0 <= ri < p /\ (ri * r) mod p = 1)) /\
     (a = 0 -> sqrt p a true = Err ZeroDiv)).
Proof.
  intros Hp Ha.
  assert (Hp2 : 2 <= p) by (apply prime_ge_2, primes200_prime, Hp).
  pose proof (check_all_elem primes200 p a check_all_200 Hp (in_zrange p a Ha)) as C.
  unfold check_elem in C. apply andb_true_iff in C. destruct C as [C1 C2].
  pose proof (is_square_bf_spec p a Hp2 Ha) as SQ.
  split.
  - destruct (is_sqr p a) as [s|e]; [|discriminate]. exists s. split; [reflexivity|].
    apply eqb_prop in C1. subst s. exact SQ.
  - intros Hsq. apply SQ in Hsq. rewrite Hsq in C2.
    destruct (sqrt p a false) as [r|e]; [|discriminate].
    apply andb_true_iff in C2. destruct C2 as [C2 C3].
    apply andb_true_iff in C2. destruct C2 as [C2 C4].
    apply andb_true_iff in C2. destruct C2 as [C2 C5].
    apply Z.leb_le in C2. apply Z.ltb_lt in C5. apply Z.eqb_eq in C4.
    split.
    + exists r. split; [reflexivity|]. split; [lia|]. split; [exact C4|].
      intros Hne. destruct (sqrt p a true) as [ri|[]]; try discriminate.
      * apply andb_true_iff in C3. destruct C3 as [C3 C6].
        apply andb_true_iff in C3. destruct C3 as [C3 C7].
        apply andb_true_iff in C3. destruct C3 as [C3 C8].
        apply Z.leb_le in C8. apply Z.ltb_lt in C7. apply Z.eqb_eq in C6.
        exists ri. split; [reflexivity|]. split; [lia|exact C6].
      * apply Z.eqb_eq in C3. contradiction.
    + intros ->. apply sqrt_zero.
Qed.

(** *** is_sqr: the Legendre symbol by Euler's criterion, every prime *)
Definition legendre_symbol (p a : Z) : Z :=
  if a mod p =? 0 then 0 else if a ^ ((p - 1) / 2) mod p =? 1 then 1 else -1.

Theorem legendre_symbol_spec p a : prime p -> p <> 2 ->
  (legendre_symbol p a <> -1 <-> exists b, (b * b) mod p = a mod p) /\
  (legendre_symbol p a = 0 <-> a mod p = 0) /\
  (legendre_symbol p a = -1 -> a ^ ((p - 1) / 2) mod p = p - 1).
Proof.
  intros Hp H2. pose proof (prime_ge_2 p Hp) as Hp2. unfold legendre_symbol.
  destruct (a mod p =? 0) eqn:E0.
  - apply Z.eqb_eq in E0. repeat split; try lia; try discriminate.
    intros _. exists 0. rewrite E0. apply Z.mod_0_l. lia.
  - apply Z.eqb_neq in E0. destruct (euler_criterion p a Hp H2 E0) as [Hiff Hpm].
    destruct (a ^ ((p - 1) / 2) mod p =? 1) eqn:E1.
    + apply Z.eqb_eq in E1. repeat split; try lia; try discriminate. intros _. apply Hiff, E1.
    + apply Z.eqb_neq in E1. split; [split|split; [split|]].
      * intros Hc. exfalso. apply Hc. reflexivity.
      * intros Hs Hc. apply E1, Hiff, Hs.
      * intros Hc. discriminate Hc.
      * intros Hc. contradiction.
      * intros _. destruct Hpm as [E|E]; [contradiction|exact E].
Qed.

(** is_sqr(a) holds exactly for the squares, for EVERY prime, provided gmpy.legendre returns the Legendre
    symbol on this input (that the jacobi loop does so in general is quadratic reciprocity — not proved;
    discharged by computation for p < 200 in [sqrt_is_sqr_bounded]) *)
Theorem is_sqr_correct_if_legendre p a : prime p -> 0 <= a < p ->
  (p <> 2 -> legendre a p = Ok (legendre_symbol p a)) ->
  exists s, is_sqr p a = Ok s /\ (s = true <-> exists b, (b * b) mod p = a).
Proof.
  intros Hp Ha HL. unfold is_sqr. destruct (p =? 2) eqn:E2.
  - apply Z.eqb_eq in E2. subst p. exists true. split; [reflexivity|]. split; [|reflexivity].
    intros _. exists a. assert (a = 0 \/ a = 1) as [-> | ->] by lia; reflexivity.
  - apply Z.eqb_neq in E2. rewrite (HL E2). cbn [bind]. eexists; split; [reflexivity|].
    destruct (legendre_symbol_spec p a Hp E2) as [Hsq _]. rewrite (Z.mod_small a p Ha) in Hsq.
    rewrite <- Hsq. rewrite negb_true_iff, Z.eqb_neq. reflexivity.
Qed.

(** the Euler test itself (what ExtensionFieldElement._is_sqr computes) decides squareness, every prime *)
Definition euler_is_sqr (p a : Z) : bool :=
  if p =? 2 then true else negb (a ^ ((p - 1) / 2) mod p =? p - 1).

Theorem euler_is_sqr_correct p a : prime p -> 0 <= a < p ->
  (euler_is_sqr p a = true <-> exists b, (b * b) mod p = a).
Proof.
  intros Hp Ha. pose proof (prime_ge_2 p Hp) as Hp2. unfold euler_is_sqr. destruct (p =? 2) eqn:E2.
  - apply Z.eqb_eq in E2. subst p. split; [|reflexivity].
    intros _. exists a. assert (a = 0 \/ a = 1) as [-> | ->] by lia; reflexivity.
  - apply Z.eqb_neq in E2. rewrite negb_true_iff, Z.eqb_neq.
    destruct (odd_prime_half p Hp E2) as [Hh Hh1].
    destruct (Z.eq_dec a 0) as [->|Hne].
    + rewrite Z.pow_0_l by lia. rewrite Z.mod_0_l by lia. split; [|lia].
      intros _. exists 0. apply Z.mod_0_l. lia.
    + assert (E0 : a mod p <> 0) by (rewrite Z.mod_small by lia; exact Hne).
      destruct (euler_criterion p a Hp E2 E0) as [Hiff Hpm]. rewrite (Z.mod_small a p Ha) in Hiff.
      rewrite <- Hiff. destruct Hpm as [E|E]; rewrite E; split; intros; try lia.
Qed.

(** *** the Cipolla-Lehmer ladder computes X^e in Z[X]/(X^2 - b X + a), reduced modulo p — every e, every p <> 0 *)
Section Ladder.
Variables p a b : Z.
Hypothesis Hp0 : p <> 0.

(** integer model of the quotient ring: (u, v) stands for u*X + v, with X^2 = b*X - a *)
Definition qmulZ (x y : Z * Z) : Z * Z :=
  (fst x * fst y * b + fst x * snd y + fst y * snd x, snd x * snd y - a * fst x * fst y).
Definition mxZ (x : Z * Z) : Z * Z := (snd x + b * fst x, - a * fst x).       (* multiplication by X *)
Fixpoint Xpow (n : nat) : Z * Z := match n with O => (0, 1) | S n' => mxZ (Xpow n') end.

Lemma qmul_mx x y : qmulZ x (mxZ y) = mxZ (qmulZ x y).
Proof. destruct x as [u1 v1], y as [u2 v2]. unfold qmulZ, mxZ; cbn [fst snd]. f_equal; ring. Qed.

Lemma Xpow_add n m : qmulZ (Xpow n) (Xpow m) = Xpow (n + m).
Proof.
  induction m as [|m IH].
  - rewrite Nat.add_0_r. destruct (Xpow n) as [u v]. unfold qmulZ; cbn [Xpow fst snd]. f_equal; ring.
  - rewrite Nat.add_succ_r. cbn [Xpow]. rewrite qmul_mx, IH. reflexivity.
Qed.

Definition congp (x y : Z * Z) : Prop := fst x mod p = fst y mod p /\ snd x mod p = snd y mod p.

Lemma eqm_of (x y k : Z) : x = y + k * p -> x mod p = y mod p.
Proof. intros ->. apply Z.mod_add. exact Hp0. Qed.

Lemma modk (x : Z) : exists k, x mod p = x + k * p.
Proof. exists (- (x / p)). pose proof (Z.div_mod x p Hp0). lia. Qed.

Lemma cong_k (x y : Z) : x mod p = y mod p -> exists k, x = y + k * p.
Proof.
  intros E. exists (x / p - y / p). pose proof (Z.div_mod x p Hp0). pose proof (Z.div_mod y p Hp0). lia.
Qed.

Lemma lad_sq_cong uv UV : congp uv UV -> congp (lad_sq p a b uv) (qmulZ UV UV).
Proof.
  destruct uv as [u v], UV as [U V]. unfold congp; cbn [fst snd]. intros [Hu Hv].
  destruct (cong_k u U Hu) as [ku ->]. destruct (cong_k v V Hv) as [kv ->].
  unfold lad_sq, qmulZ; cbn [fst snd]. rewrite Z.shiftl_mul_pow2 by lia. change (2 ^ 1) with 2.
  destruct (modk ((U + ku * p) * (U + ku * p))) as [k2 ->].
  rewrite !Z.mod_mod by exact Hp0. split.
  - apply (eqm_of _ _ (2 * ku * V + 2 * U * kv + 2 * ku * kv * p + b * (2 * U * ku + ku * ku * p + k2))). ring.
  - apply (eqm_of _ _ (2 * V * kv + kv * kv * p - a * (2 * U * ku + ku * ku * p + k2))). ring.
Qed.

Lemma lad_mx_cong uv UV : congp uv UV -> congp (lad_mx p a b uv) (mxZ UV).
Proof.
  destruct uv as [u v], UV as [U V]. unfold congp; cbn [fst snd]. intros [Hu Hv].
  destruct (cong_k u U Hu) as [ku ->]. destruct (cong_k v V Hv) as [kv ->].
  unfold lad_mx, mxZ; cbn [fst snd]. rewrite !Z.mod_mod by exact Hp0. split.
  - apply (eqm_of _ _ (kv + b * ku)). ring.
  - apply (eqm_of _ _ (- a * ku)). ring.
Qed.

Lemma congp_refl x : congp x x.
Proof. split; reflexivity. Qed.

(** loop invariant of the ladder: after processing the bits of e the pair (u, v) is X^e modulo p *)
Theorem ladder_is_Xpow (e : positive) : congp (ladder p a b e) (Xpow (Pos.to_nat e)).
Proof.
  induction e as [e IH|e IH|]; cbn [ladder].
  - rewrite Pos2Nat.inj_xI. replace (S (2 * Pos.to_nat e)) with (S (Pos.to_nat e + Pos.to_nat e)) by lia.
    cbn [Xpow]. rewrite <- Xpow_add. apply lad_mx_cong, lad_sq_cong, IH.
  - rewrite Pos2Nat.inj_xO. replace (2 * Pos.to_nat e)%nat with (Pos.to_nat e + Pos.to_nat e)%nat by lia.
    rewrite <- Xpow_add. apply lad_sq_cong, IH.
  - change (Pos.to_nat 1) with 1%nat. cbn [Xpow].
    apply lad_mx_cong. cbn [Xpow].
    assert (E : qmulZ (0, 1) (0, 1) = (0, 1)) by (unfold qmulZ; cbn [fst snd]; f_equal; ring).
    pose proof (lad_sq_cong (0, 1) (0, 1) (congp_refl _)) as H. rewrite E in H. exact H.
Qed.

Lemma ladder_reduced (e : positive) : fst (ladder p a b e) mod p = fst (ladder p a b e) /\
                                      snd (ladder p a b e) mod p = snd (ladder p a b e).
Proof.
  destruct e; cbn [ladder];
    match goal with |- context [lad_mx p a b ?x] => destruct x as [u v]; unfold lad_mx; cbn [fst snd]
                  | |- context [lad_sq p a b ?x] => destruct x as [u v]; unfold lad_sq; cbn [fst snd] end;
    split; apply Z.mod_mod; exact Hp0.
Qed.
End Ladder.

(** *** Cipolla-Lehmer: the ladder's v is a square root, relative to the norm identity X^(p+1) = a *)
Section CipollaAlg.
Variable K : FieldT.
Add Field KF2 : (fth K).
Notation "0" := (f0 K). Notation "1" := (f1 K).
Infix "+" := (fadd K). Infix "*" := (fmul K). Infix "-" := (fsub K). Infix "/" := (fdiv K).

(** (x X + y)^2 = A in K[X]/(X^2 - B X + A), A = s^2 <> 0, B^2 - 4A not a square  ==>  y^2 = A (and x = 0) *)
Lemma cipolla_alg (x y A B s : K) :
  s * s = A -> A <> 0 ->
  x * x * B + x * y + x * y = 0 -> y * y - A * x * x = A ->
  (forall c, c * c <> B * B - (1 + 1 + 1 + 1) * A) -> y * y = A.
Proof.
  intros Hs HA H1 H2 Hnr.
  destruct (feq_dec K x 0) as [Hx|Hx].
  - subst x. transitivity (y * y - A * 0 * 0); [ring|exact H2].
  - exfalso.
    assert (H3 : x * B + (y + y) = 0).
    { apply (fmul_eq0 K x); [|exact Hx]. transitivity (x * x * B + x * y + x * y); [ring|exact H1]. }
    assert (H3' : x * B = 0 - (y + y)) by (transitivity ((x * B + (y + y)) - (y + y)); [ring|rewrite H3; ring]).
    set (c := (s + s) / x).
    apply (Hnr c). apply (fsub_eq0 K). apply (fmul_eq0 K (x * x)); [|apply fmul_neq0; exact Hx].
    transitivity (x * x * (c * c) - ((x * B) * (x * B) - (1 + 1 + 1 + 1) * A * x * x)); [ring|].
    rewrite H3'.
    transitivity ((s + s) * (s + s) - (1 + 1 + 1 + 1) * (y * y - A * x * x)); [unfold c; field; exact Hx|].
    rewrite H2. transitivity ((1 + 1 + 1 + 1) * (s * s) - (1 + 1 + 1 + 1) * A); [ring|]. rewrite Hs. ring.
Qed.
End CipollaAlg.

Section CipollaZ.
Variable p : Z.
Hypothesis Hp : prime p.
Let Hp2 := prime_ge_2 p Hp.
Let Hn0 : p <> 0. Proof. lia. Qed.
Notation Kp := (ZpField p Hp).
Notation "[ x ]" := (mkZp p x).

Lemma mk_eq x y : x mod p = y mod p -> [x] = [y].
Proof. intros E. apply Zp_eq. rewrite !zval_mkZp. exact E. Qed.
Lemma mk_add x y : [x + y] = fadd Kp [x] [y].
Proof. apply Zp_eq. cbn [fadd ZpField fops ZpOps]. rewrite !zval_mkZp. apply Z.add_mod. lia. Qed.
Lemma mk_mul x y : [x * y] = fmul Kp [x] [y].
Proof. apply Zp_eq. cbn [fmul ZpField fops ZpOps]. rewrite !zval_mkZp. apply Z.mul_mod. lia. Qed.
Lemma mk_sub x y : [x - y] = fsub Kp [x] [y].
Proof. apply Zp_eq. cbn [fsub ZpField fops ZpOps]. rewrite !zval_mkZp. apply Zminus_mod. Qed.

(** if X^(2n) = a in the quotient ring (norm identity, n = (p+1)/2), a is a nonzero square and b^2 - 4a is a
    non-residue, then the constant coefficient v of the ladder's result X^n = u X + v satisfies v^2 = a *)
Theorem cipolla_correct_if (a b : Z) (e : positive) :
  a mod p <> 0 -> (exists s, (s * s) mod p = a mod p) ->
  (~ exists c, (c * c) mod p = (b * b - 4 * a) mod p) ->
  congp p (Xpow a b (Pos.to_nat e + Pos.to_nat e)) (0, a) ->
  (snd (ladder p a b e) * snd (ladder p a b e)) mod p = a mod p.
Proof.
  intros Ha [s Hs] Hnr Hnorm.
  pose proof (ladder_is_Xpow p a b Hn0 e) as [Hu Hv].
  rewrite <- Xpow_add in Hnorm. destruct (Xpow a b (Pos.to_nat e)) as [U V].
  destruct (ladder p a b e) as [u v]. cbn [fst snd] in *.
  destruct Hnorm as [N1 N2]. unfold qmulZ in N1, N2; cbn [fst snd] in N1, N2.
  assert (E : fmul Kp [V] [V] = [a]).
  { apply (cipolla_alg Kp [U] [V] [a] [b] [s]).
    - rewrite <- mk_mul. apply mk_eq, Hs.
    - apply mkZp_neq0; [lia|exact Ha].
    - rewrite <- !mk_mul, <- !mk_add. transitivity [0]; [apply mk_eq|reflexivity].
      first [exact N1 | (rewrite <- N1; f_equal; ring)].
    - rewrite <- !mk_mul, <- mk_sub. apply mk_eq. first [exact N2 | (rewrite <- N2; f_equal; ring)].
    - intros c Hc. apply Hnr. exists (zval c).
      assert (E4 : fadd Kp (fadd Kp (fadd Kp (f1 Kp) (f1 Kp)) (f1 Kp)) (f1 Kp) = [4]).
      { apply Zp_eq. cbn [fadd f1 ZpField fops ZpOps]. rewrite !zval_mkZp.
        rewrite !(Z.mod_1_l p) by lia. rewrite !Z.add_mod_idemp_l by lia.
        rewrite <- Z.add_assoc. rewrite Z.add_mod_idemp_l by lia. reflexivity. }
      rewrite E4 in Hc. rewrite <- !mk_mul, <- mk_sub in Hc.
      apply (f_equal zval) in Hc. rewrite zval_mkZp in Hc. rewrite <- Hc. reflexivity. }
  rewrite <- mk_mul in E. apply (f_equal zval) in E. rewrite !zval_mkZp in E.
  rewrite <- E. rewrite Z.mul_mod, Hv, <- Z.mul_mod by lia. reflexivity.
Qed.
End CipollaZ.
