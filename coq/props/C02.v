(** C02 — secure fixed-point arithmetic stays within its rounding bounds (scaled-integer model).
    Only statements; proofs are in theories/Fxp.v.  X = x * 2^f; "within u units" is stated
    multiplied out over Z.  p = odd field modulus; inrange p X: 2|X| < p (no wrap-around). *)
From Coq Require Import ZArith List Bool.
Require Import MPyC.Fxp.
Import ListNotations.
Local Open Scope Z_scope.

(** + - neg and comparisons are exact *)
Theorem C02_add_sub_neg_exact : forall a b,
  val (fadd a b) = val a + val b /\ val (fsub a b) = val a - val b /\ val (fneg a) = - val a.
Proof. intros. repeat split. Qed.
Print Assumptions C02_add_sub_neg_exact.

Theorem C02_cmp_exact : forall a b, (flt a b = true <-> val a < val b) /\ (feq a b = true <-> val a = val b).
Proof. intros. split; [apply flt_exact | apply feq_exact]. Qed.
Print Assumptions C02_cmp_exact.

(** runtime.trunc as coded reduces to floor((X + r) / 2^f) ... *)
Theorem C02_trunc_coded : forall l f r q X, 0 <= f -> f <= l - 1 ->
  trunc_coded l f r q X = trunc_r f r X.
Proof. exact trunc_coded_eq. Qed.
Print Assumptions C02_trunc_coded.

(** ... which is the floor or the ceiling of the exact quotient, for every mask r *)
Theorem C02_trunc_floor_or_ceil : forall f r X, 0 <= f -> 0 <= r < 2 ^ f ->
  trunc_r f r X = floor_div f X \/ trunc_r f r X = ceil_div f X.
Proof. exact trunc_r_floor_or_ceil. Qed.
Print Assumptions C02_trunc_floor_or_ceil.

(** both are reachable *)
Theorem C02_trunc_both_reachable : forall f X, 0 <= f ->
  trunc_r f 0 X = floor_div f X /\ trunc_r f (2 ^ f - 1) X = ceil_div f X.
Proof. intros. split; [apply trunc_r_floor | apply trunc_r_ceil; assumption]. Qed.
Print Assumptions C02_trunc_both_reachable.

(** secure x secure: strictly within one unit, for every rounding choice and both flag paths *)
Theorem C02_mul_ss_bound : forall p f bit a c,
  Z.odd p = true -> 0 < p -> 0 < f -> sound f a -> sound f c -> inrange p (val a * val c) ->
  Z.abs (val (mul p f bit a (Sec c)) * 2 ^ f - val a * val c) < 2 ^ f.
Proof. exact mul_ss_bound. Qed.
Print Assumptions C02_mul_ss_bound.

Theorem C02_mul_int_exact : forall p f bit a n, val (mul p f bit a (PInt n)) = val a * n.
Proof. exact mul_int_exact. Qed.
Print Assumptions C02_mul_int_exact.

(** public float b = bn/bd with B = round(b 2^f), |b 2^f - B| <= 1/2 (Python's round, outside the
    model): error <= 1 + |x|/2 units <= 2(1+|x|) units; multiplied by 2^(f+1) bd *)
Theorem C02_mul_float_bound : forall p f bit a B bn bd,
  Z.odd p = true -> 0 < p -> 0 < f -> sound f a ->
  inrange p (val a * arg_val f (PFloat B)) ->
  0 < bd -> 2 * Z.abs (bn * 2 ^ f - B * bd) <= bd ->
  let r := val (mul p f bit a (PFloat B)) in
  Z.abs (2 ^ f * 2 * bd * r - 2 ^ f * 2 * (val a * bn)) <= 2 ^ f * 2 * bd + Z.abs (val a) * bd
  /\ 2 ^ f * 2 * bd + Z.abs (val a) * bd <= 2 * (2 ^ f * 2 * bd) + 2 * (2 * Z.abs (val a) * bd).
Proof. exact mul_float_bound. Qed.
Print Assumptions C02_mul_float_bound.

(** Non-vacuity, SecFxp(32,16): 1.5 * 2.25 = 3.375 exactly representable; 3*2^-16 squared rounds
    to 0 or 1 unit; float factor 0.1 -> B = 6554 (one trailing zero stripped). *)
Example C02_nonvacuous :
  let p := 1208925819614629174706111 in
  let a := mkfx 98304 false in let c := mkfx 147456 false in
  Z.odd p = true /\ sound 16 a /\ sound 16 c /\ inrange p (val a * val c) /\
  val (mul p 16 false a (Sec c)) = 221184 /\
  val (mul p 16 false (mkfx 3 false) (Sec (mkfx 3 false))) = 0 /\
  val (mul p 16 true (mkfx 3 false) (Sec (mkfx 3 false))) = 1 /\
  mul_z 16 (PFloat 6554) = 1 /\ val (mul p 16 false a (PFloat 6554)) = 9831 /\
  2 * Z.abs (1 * 2 ^ 16 - 6554 * 10) <= 10 /\
  trunc_r 4 0 (-7) = -1 /\ trunc_r 4 15 (-7) = 0.
Proof.
  repeat split; try (intros H; discriminate H); try (vm_compute; reflexivity); try (vm_compute; intros H; discriminate H).
Qed.
