(** C36 — a crashed or disconnected party never makes others output wrong values.
    Model-level statement; the byte-level fact that a cut stream parses to a prefix of the same
    frames is Frame.v (C10), the label discipline that makes party behaviour a monotone function of
    the delivered (label, payload) set is C08/C09. *)
Require Import MPyC.Crash.
Require Import MPyC.CrashExec.
From Coq Require Import List ZArith.
Import ListNotations.

(** For ANY system whose parties' sending behaviour and completed outputs are monotone in the set
    of delivered messages, and ANY faulty variant that can only send a subset of what the correct
    system would send (one party stopping at an arbitrary byte of its output streams), under ANY
    delivery schedule of the faulty system: whatever a survivor outputs, it also outputs in every
    completed crash-free run. *)
Theorem C36_crash_outputs_subset_of_crash_free :
  forall (Msg Outp : Type) (send send' : (Msg -> Prop) -> Msg -> Prop) (res : (Msg -> Prop) -> Outp -> Prop),
    (forall A B, sub Msg A B -> sub Msg (send A) (send B)) ->
    (forall A B, sub Msg A B -> forall o, res A o -> res B o) ->
    (forall A, sub Msg (send' A) (send A)) ->
    forall S, closed Msg send S -> forall A, reach Msg send' A -> forall o, res A o -> res S o.
Proof. exact crash_safe. Qed.
Print Assumptions C36_crash_outputs_subset_of_crash_free.

(** ... hence never a different value for the same output. *)
Theorem C36_no_wrong_value :
  forall (Msg Outp : Type) (send send' : (Msg -> Prop) -> Msg -> Prop) (res : (Msg -> Prop) -> Outp -> Prop),
    (forall A B, sub Msg A B -> sub Msg (send A) (send B)) ->
    (forall A B, sub Msg A B -> forall o, res A o -> res B o) ->
    (forall A, sub Msg (send' A) (send A)) ->
    forall (oid oval : Outp -> nat) S, closed Msg send S ->
      (forall o1 o2, res S o1 -> res S o2 -> oid o1 = oid o2 -> oval o1 = oval o2) ->
      forall A, reach Msg send' A -> forall o o', res A o -> res S o' -> oid o = oid o' -> oval o = oval o'.
Proof. exact crash_no_wrong_value. Qed.
Print Assumptions C36_no_wrong_value.

(** every set of messages deliverable in the faulty system is deliverable in the correct one *)
Theorem C36_delivered_subset :
  forall (Msg : Type) (send send' : (Msg -> Prop) -> Msg -> Prop),
    (forall A B, sub Msg A B -> sub Msg (send A) (send B)) ->
    (forall A, sub Msg (send' A) (send A)) ->
    forall S, closed Msg send S -> forall A, reach Msg send' A -> sub Msg A S.
Proof. exact crashed_run_delivers_subset. Qed.
Print Assumptions C36_delivered_subset.

(** Non-vacuity: a two-message system (message 1 is sent initially, message 2 is the reply to 1);
    the faulty system never sends message 2. *)
Example C36_nonvacuous :
  let send := fun (A : nat -> Prop) (m : nat) => m = 1 \/ (A 1 /\ m = 2) in
  let send' := fun (A : nat -> Prop) (m : nat) => m = 1 in
  (forall A B, sub nat A B -> sub nat (send A) (send B)) /\
  (forall A, sub nat (send' A) (send A)) /\
  closed nat send (fun m => m = 1 \/ m = 2) /\
  reach nat send' (fun x => (fun _ => False) x \/ x = 1).
Proof.
  cbv zeta. repeat split.
  - intros A B H m [E|[H1 E]]; [left; exact E|right; split; [apply H; exact H1|exact E]].
  - intros A m E. left. exact E.
  - intros m [E|[_ E]]; [left; exact E|right; exact E].
  - apply reach_deliver; [apply reach_empty|reflexivity].
Qed.

(** ------------------------------------------------------------------------------------------------
    Concrete, executable instance (CrashExec.v): m parties running a straight-line program of
    Input / Add / Mul (local product + GRR resharing by the 2t+1 dealers of its label) / Output
    operations over Z_p without PRSS, at the level of individual messages (src, dst, label, payload).
    [sends D pid] / [results D pid] are computable functions: the messages party pid has sent and the
    outputs it has completed once exactly the messages D have been delivered.  The correspondence run
    (harness/props/c36_model.py) compares them with the real runtime, message by message. *)

(** the concrete system is monotone in the delivered messages ... *)
Theorem C36_exec_sends_monotone :
  forall (p : Z) (m t : nat) (inp : nat -> Z) (tape : nat -> nat -> list Z) (prog : list op) (D D' : list msg) (pid : nat),
    incl D D' -> incl (sends p m t inp tape prog D pid) (sends p m t inp tape prog D' pid).
Proof. exact sends_mono. Qed.
Print Assumptions C36_exec_sends_monotone.

Theorem C36_exec_results_monotone :
  forall (p : Z) (m t : nat) (inp : nat -> Z) (tape : nat -> nat -> list Z) (prog : list op) (D D' : list msg) (pid : nat),
    incl D D' -> incl (results p m t inp tape prog D pid) (results p m t inp tape prog D' pid).
Proof. exact results_mono. Qed.
Print Assumptions C36_exec_results_monotone.

(** ... a party c that emits only the messages selected by ANY predicate keep (in particular
    [prefix_keep order k]: the first k messages of its send order) is a sub-behaviour ... *)
Theorem C36_exec_crash_is_sub_behaviour :
  forall (p : Z) (m t : nat) (inp : nat -> Z) (tape : nat -> nat -> list Z) (prog : list op)
         (keep : msg -> bool) (c : nat) (D : list msg),
    incl (sends_crashed p m t inp tape prog keep c D) (sends_all p m t inp tape prog D).
Proof. exact crash_sub_behaviour. Qed.
Print Assumptions C36_exec_crash_is_sub_behaviour.

(** ... so Crash.crash_safe applies: after ANY delivery schedule of the crashed system, every output any
    party has completed is completed, identically, in every completed crash-free run S *)
Theorem C36_exec_crash_safe :
  forall (p : Z) (m t : nat) (inp : nat -> Z) (tape : nat -> nat -> list Z) (prog : list op)
         (keep : msg -> bool) (c : nat) (S : list msg),
    incl (sends_all p m t inp tape prog S) S ->
    forall D, lreach (sends_crashed p m t inp tape prog keep c) D ->
    forall o, In o (results_all p m t inp tape prog D) -> In o (results_all p m t inp tape prog S).
Proof. exact crash_exec_safe. Qed.
Print Assumptions C36_exec_crash_safe.

(** the crash-free closure [cf] (iteration with fuel = number of operations) IS a completed crash-free run,
    with at most one message per (src, dst, label) *)
Theorem C36_exec_crash_free_run_closed :
  forall (p : Z) (m t : nat) (inp : nat -> Z) (tape : nat -> nat -> list Z) (prog : list op),
    incl (sends_all p m t inp tape prog (cf p m t inp tape prog)) (cf p m t inp tape prog).
Proof. exact cf_closed. Qed.
Print Assumptions C36_exec_crash_free_run_closed.

Theorem C36_exec_crash_free_run_functional :
  forall (p : Z) (m t : nat) (inp : nat -> Z) (tape : nat -> nat -> list Z) (prog : list op),
    functional (cf p m t inp tape prog).
Proof. exact cf_functional. Qed.
Print Assumptions C36_exec_crash_free_run_functional.

(** C36 for the concrete model: for every program, inputs, tapes, crashing party c, send order of c, cut
    position k and delivery schedule, an output (pid, id, v) completed by anybody and the crash-free output
    (pid, id, v') have v = v' *)
Theorem C36_exec_no_wrong_value :
  forall (p : Z) (m t : nat) (inp : nat -> Z) (tape : nat -> nat -> list Z) (prog : list op)
         (c : nat) (order : list (nat * nat)) (k : nat) (D : list msg),
    lreach (sends_crashed p m t inp tape prog (prefix_keep order k) c) D ->
    forall (pid id : nat) (v v' : Z),
      In (pid, id, v) (results_all p m t inp tape prog D) -> In (pid, id, v') (cf_results p m t inp tape prog) -> v = v'.
Proof. exact (fun p m t inp tape prog c order k => crash_exec_no_wrong_value p m t inp tape prog (prefix_keep order k) c). Qed.
Print Assumptions C36_exec_no_wrong_value.

(** ... for any subset of c's messages, not only prefixes *)
Theorem C36_exec_no_wrong_value_any_subset :
  forall (p : Z) (m t : nat) (inp : nat -> Z) (tape : nat -> nat -> list Z) (prog : list op)
         (keep : msg -> bool) (c : nat) (D : list msg),
    lreach (sends_crashed p m t inp tape prog keep c) D ->
    forall (pid id : nat) (v v' : Z),
      In (pid, id, v) (results_all p m t inp tape prog D) -> In (pid, id, v') (cf_results p m t inp tape prog) -> v = v'.
Proof. exact crash_exec_no_wrong_value. Qed.
Print Assumptions C36_exec_no_wrong_value_any_subset.

(** and every output completed in the crashed system is a crash-free output *)
Theorem C36_exec_outputs_subset :
  forall (p : Z) (m t : nat) (inp : nat -> Z) (tape : nat -> nat -> list Z) (prog : list op)
         (keep : msg -> bool) (c : nat) (D : list msg),
    lreach (sends_crashed p m t inp tape prog keep c) D ->
    incl (results_all p m t inp tape prog D) (cf_results p m t inp tape prog).
Proof. exact crash_exec_outputs_subset. Qed.
Print Assumptions C36_exec_outputs_subset.

(** the executable closure [run_closed c order k] = the survivors' outputs when c stops after the k-th message
    of its send order and everything sent is eventually delivered: it is attained by a schedule whose
    delivered list is closed under the crashed system's sends, it bounds every other schedule, and its
    values are the crash-free ones *)
Theorem C36_exec_run_closed_attained :
  forall (p : Z) (m t : nat) (inp : nat -> Z) (tape : nat -> nat -> list Z) (prog : list op)
         (c : nat) (order : list (nat * nat)) (k : nat),
    exists D, lreach (sends_crashed p m t inp tape prog (prefix_keep order k) c) D /\
              incl (sends_crashed p m t inp tape prog (prefix_keep order k) c D) D /\
              incl (run_closed p m t inp tape prog c order k) (survivors_results p m t inp tape prog c D) /\
              incl (survivors_results p m t inp tape prog c D) (run_closed p m t inp tape prog c order k).
Proof. exact run_closed_attained. Qed.
Print Assumptions C36_exec_run_closed_attained.

Theorem C36_exec_run_closed_bounds_every_schedule :
  forall (p : Z) (m t : nat) (inp : nat -> Z) (tape : nat -> nat -> list Z) (prog : list op)
         (c : nat) (order : list (nat * nat)) (k : nat) (D : list msg),
    lreach (sends_crashed p m t inp tape prog (prefix_keep order k) c) D ->
    incl (survivors_results p m t inp tape prog c D) (run_closed p m t inp tape prog c order k).
Proof. exact run_closed_complete. Qed.
Print Assumptions C36_exec_run_closed_bounds_every_schedule.

Theorem C36_exec_run_closed_values_correct :
  forall (p : Z) (m t : nat) (inp : nat -> Z) (tape : nat -> nat -> list Z) (prog : list op)
         (c : nat) (order : list (nat * nat)) (k : nat) (pid id : nat) (v v' : Z),
    In (pid, id, v) (run_closed p m t inp tape prog c order k) -> In (pid, id, v') (cf_results p m t inp tape prog) -> v = v'.
Proof. exact run_closed_correct. Qed.
Print Assumptions C36_exec_run_closed_values_correct.

(** Non-vacuity: 3 parties, t = 1, p = 101, inputs 5, 7, 11; v3 = v0*v1, v4 = v3*v2; output 5 opens v4 to
    everybody, output 6 opens v3 to party 1 only.  Party 0 sends 8 messages.  Crash-free: all four outputs
    complete (5*7*11 = 82 mod 101, 5*7 = 35).  Party 0 stopping after its 7th message (its share for output 6
    is never sent): both survivors complete output 5, party 1 never completes output 6.  After its 6th
    message: only party 2 completes output 5.  Before any message: nothing completes. *)
Example C36_exec_nonvacuous :
  let prog := [Input 0; Input 1; Input 2; Mul 7%Z 0 1; Mul 5%Z 3 2; Output 4 [0; 1; 2]; Output 3 [1]] in
  let inputs := [(0, 5%Z); (1, 7%Z); (2, 11%Z)] in
  let tapes := [(0, 0, [13%Z]); (1, 1, [62%Z]); (2, 2, [82%Z]); (3, 0, [1%Z]); (3, 1, [2%Z]); (3, 2, [3%Z]);
                (4, 0, [4%Z]); (4, 1, [5%Z]); (4, 2, [6%Z])] in
  let order := x_prog_order 101%Z 3 1 prog inputs tapes 0 in
  length order = 8 /\
  x_cf_results 101%Z 3 1 prog inputs tapes = [(0, 5, 82%Z); (1, 5, 82%Z); (1, 6, 35%Z); (2, 5, 82%Z)] /\
  x_run_closed 101%Z 3 1 prog inputs tapes 0 order 8 = [(1, 5, 82%Z); (1, 6, 35%Z); (2, 5, 82%Z)] /\
  x_run_closed 101%Z 3 1 prog inputs tapes 0 order 7 = [(1, 5, 82%Z); (2, 5, 82%Z)] /\
  x_run_closed 101%Z 3 1 prog inputs tapes 0 order 6 = [(2, 5, 82%Z)] /\
  x_run_closed 101%Z 3 1 prog inputs tapes 0 order 0 = [].
Proof. vm_compute. repeat split; reflexivity. Qed.
