(** C25 — number-theory helpers (placeholder while the proofs are being added). *)
Require Import MPyC.Gmpy.
From Coq Require Import ZArith Znumtheory List.
Local Open Scope nat_scope.
