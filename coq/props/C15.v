(** C15 — pseudorandom secret sharing is consistent for every key assignment.  Only statements. *)
Require Import MPyC.Base MPyC.Field MPyC.Poly MPyC.Lagrange MPyC.Shamir MPyC.PRSS MPyC.Zp.
From Coq Require Import Znumtheory.
Local Open Scope nat_scope.

(** For every field, every m (with injective party points), every family of subsets whose
    complements have at most t members, and EVERY table r of PRF outputs: the shares that the m
    parties compute independently (party i summing only over the subsets it belongs to) lie on one
    polynomial of degree <= t whose value at 0 is the sum of all the subsets' PRF outputs. *)
Theorem C15_prss_is_degree_t_sharing_of_sum :
  forall (K : FieldT) (inj : nat -> K) (m : nat),
    (forall i j, i <= m -> j <= m -> inj i = inj j -> i = j) -> inj O = f0 K ->
    forall (t : nat) (subsets : list (list nat)) (r : list nat -> K),
      (forall S, In S subsets -> length (compl m S) <= t) ->
      Sharing inj m t (map (fun i => prss_share inj m i subsets r) (seq 0 m)) (fsum (map r subsets)).
Proof. exact prss_sharing. Qed.
Print Assumptions C15_prss_is_degree_t_sharing_of_sum.

(** Pseudorandom zero shares: one polynomial of degree <= 2t with value 0 at 0. *)
Theorem C15_prss_zero_is_degree_2t_sharing_of_zero :
  forall (K : FieldT) (inj : nat -> K) (m : nat),
    (forall i j, i <= m -> j <= m -> inj i = inj j -> i = j) ->
    forall (t : nat) (subsets : list (list nat)) (rz : list nat -> list K),
      (forall S, In S subsets -> length (compl m S) <= t) ->
      (forall S, In S subsets -> length (rz S) <= t) ->
      Sharing inj m (2 * t) (map (fun i => prss_zero_share inj m i subsets rz) (seq 0 m)) (f0 K).
Proof. exact prss_zero_sharing. Qed.
Print Assumptions C15_prss_zero_is_degree_2t_sharing_of_zero.

(** f_S evaluated for party i is the value at i+1 of one polynomial g_S with g_S(0) = 1 and
    g_S(j+1) = 0 for every party j outside S — for ALL parties i. *)
Theorem C15_f_S_is_one_polynomial :
  forall (K : FieldT) (inj : nat -> K) (m : nat),
    (forall i j, i <= m -> j <= m -> inj i = inj j -> i = j) -> inj O = f0 K ->
    forall (S : list nat),
      (forall i, f_S_i inj m i S = eval (g_S inj m S) (inj (Datatypes.S i))) /\
      length (g_S inj m S) = Datatypes.S (length (compl m S)) /\
      eval (g_S inj m S) (f0 K) = f1 K /\
      (forall j, j < m -> ~ In j S -> eval (g_S inj m S) (inj (Datatypes.S j)) = f0 K).
Proof.
  intros K inj m Hi H0 S. repeat split.
  - intros i. apply f_S_i_eval; auto.
  - apply g_S_length.
  - apply g_S_at_0; auto.
  - apply g_S_outside; auto.
Qed.
Print Assumptions C15_f_S_is_one_polynomial.

(** Non-vacuity: GF(11), m = 3, t = 1, subsets {0,1},{0,2},{1,2}, PRF outputs 4, 9, 2. *)
Example C15_nonvacuous :
  let p := 11%Z in
  let subsets := [[0;1];[0;2];[1;2]] in
  let r := fun S => match S with [0;1] => mkZp p 4 | [0;2] => mkZp p 9 | _ => mkZp p 2 end in
  map zval (map (fun i => @prss_share (ZpOps p) (zp_of_nat p) 3 i subsets r) (seq 0 3)) = [9; 3; 8]%Z
  /\ (4 + 9 + 2) mod 11 = 4 /\ (2 * 9 - 3) mod 11 = 4.
Proof. vm_compute. auto. Qed.
