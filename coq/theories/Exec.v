(** Executable entry points over integers modulo p, used by the correspondence runs
    (cases files evaluate these by vm_compute).  No proofs here. *)
Require Import MPyC.Base MPyC.Field MPyC.Poly MPyC.Lagrange MPyC.Shamir MPyC.Zp.
Local Open Scope Z_scope.

Definition zl (p : Z) (l : list Z) : list (Zp p) := map (mkZp p) l.
Definition zv {p : Z} (l : list (Zp p)) : list Z := map zval l.

Definition zp_split (p : Z) (tape ss : list Z) (t m : nat) : list (list Z) :=
  map zv (@random_split (ZpOps p) (zp_of_nat p) (zl p tape) (zl p ss) t m).

Definition zp_np_split (p : Z) (tape ss : list Z) (t m : nat) : list (list Z) :=
  map zv (@np_random_split (ZpOps p) (zp_of_nat p) (zl p tape) (zl p ss) t m).

Definition zpts (p : Z) (points : list (nat * list Z)) : list (nat * list (Zp p)) :=
  map (fun pt => (fst pt, zl p (snd pt))) points.

Definition zp_recombine (p : Z) (points : list (nat * list Z)) (xr : Z) : list Z :=
  zv (@recombine (ZpOps p) (zp_of_nat p) (zpts p points) (mkZp p xr)).

Definition zp_np_recombine (p : Z) (points : list (nat * list Z)) (xr : Z) : list Z :=
  zv (@np_recombine (ZpOps p) (zp_of_nat p) (zpts p points) (mkZp p xr)).

Definition zp_recomb_vector (p : Z) (xs : list nat) (xr : Z) : list Z :=
  zv (@recomb_vector (ZpOps p) (map (zp_of_nat p) xs) (mkZp p xr)).

Require Import MPyC.Secrecy.
(** C13: coefficient tape that makes parties with x-coordinates xs (1-based) see shares ys *)
Definition zp_psi (p : Z) (s : Z) (xs : list nat) (ys : list Z) : list Z :=
  zv (@psi (ZpOps p) (mkZp p s) (map (zp_of_nat p) xs) (zl p ys)).

Require Import MPyC.PRSS.
Local Open Scope Z_scope.
(** C15: tables of PRF outputs as association lists keyed by the subset (ascending party ids) *)
Fixpoint list_nat_eqb (a b : list nat) : bool :=
  match a, b with
  | [], [] => true
  | x :: a', y :: b' => Nat.eqb x y && list_nat_eqb a' b'
  | _, _ => false
  end.
Definition lookupZ (tbl : list (list nat * Z)) (S : list nat) : Z :=
  match find (fun e => list_nat_eqb (fst e) S) tbl with Some e => snd e | None => 0 end.
Definition lookupZs (tbl : list (list nat * list Z)) (S : list nat) : list Z :=
  match find (fun e => list_nat_eqb (fst e) S) tbl with Some e => snd e | None => [] end.

(** all m parties' pseudorandom shares for one value *)
Definition zp_prss (p : Z) (m : nat) (tbl : list (list nat * Z)) : list Z :=
  map (fun i => zval (@prss_share (ZpOps p) (zp_of_nat p) m i (map fst tbl) (fun S => mkZp p (lookupZ tbl S))))
      (seq 0 m).
Definition zp_prss_zero (p : Z) (m : nat) (tbl : list (list nat * list Z)) : list Z :=
  map (fun i => zval (@prss_zero_share (ZpOps p) (zp_of_nat p) m i (map fst tbl) (fun S => zl p (lookupZs tbl S))))
      (seq 0 m).
Definition zp_f_S_i (p : Z) (m i : nat) (S : list nat) : Z := zval (@f_S_i (ZpOps p) (zp_of_nat p) m i S).

Require Import MPyC.Proto.
(** C11: share-level replay *)
Definition lookup_tape (p : Z) (tapes : list (nat * list Z)) (d : nat) : list (Zp p) :=
  match find (fun e => Nat.eqb (fst e) d) tapes with Some e => zl p (snd e) | None => [] end.
Definition zp_reshare (p : Z) (m t uci : nat) (tapes : list (nat * list Z)) (sigma : list Z) : list Z :=
  zv (@reshare (ZpOps p) (zp_of_nat p) m t uci (lookup_tape p tapes) (zl p sigma)).
Definition zp_mul_proto (p : Z) (m t uci : nat) (tapes : list (nat * list Z)) (s1 s2 : list Z) : list Z :=
  zv (@mul_proto (ZpOps p) (zp_of_nat p) m t uci (lookup_tape p tapes) (zl p s1) (zl p s2)).
Definition zp_output_at (p : Z) (m t' r : nat) (sigma : list Z) : Z :=
  zval (@output_at (ZpOps p) (zp_of_nat p) m t' r (zl p sigma)).
Definition zp_split_col (p : Z) (m : nat) (c : list Z) (s : Z) : list Z :=
  zv (@split_col (ZpOps p) (zp_of_nat p) (zl p c) (mkZp p s) m).
