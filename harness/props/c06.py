"""C06 — secure conversion between types preserves values.

Proof (value level): coq/props/C06.v over coq/theories/Convert.v (the masked conversion `_convert`
as a function on integers modulo the two field primes with the shared random integer explicit).
Tie / search: all ordered pairs from a type pool are converted in the multi-party simulator under
every (m, t, PRSS) configuration on genuinely shared inputs (extremes, sweeps of all values for
<= 8-bit types), compared with a plain Python oracle on every party; the Coq model is evaluated on
the same (types, value) cases with random in-range tapes and compared with oracle and implementation.
"""
import os, random
from lib.core import zlit, zlist

MANIFEST = {
    'text': 'Value-level theorems in Coq (Convert.v, 4 statements in props/C06.v, closed under the global context): with the '
            'same random integer r embedded in both fields, int->int / int->fxp / fxp->fxp(more fractional bits) conversion '
            'returns exactly x*2^d in the target field for every r in the range the code draws from whenever x fits '
            'l = min(l_s,l_t) bits and the source prime exceeds 2^(k+l+1); fxp->int (d<0) returns floor or floor+1 of the '
            'real value for every tape (via trunc_floor_or_ceil of Masked.v); a prime-field source converted to SecInt(lt) '
            'with order < 2^lt keeps the canonical signed/unsigned representative under the explicit no-wrap condition of '
            'the inner _mod (via mod_correct). Tie: every ordered pair of secint 8/16/32, secfxp (16,8)/(32,16), secfld over '
            '11, 13(signed), 251, 241(signed) and two 64-bit primes (unsigned/signed) is converted in the multi-party '
            'simulator for (m,t) in {(1,0),(2,0),(3,1),(4,1),(5,2)} x PRSS on/off (thorough adds (7,3)) on inputs shared '
            'with mpc.input: range extremes, all values of the <= 8-bit types (sweep configurations), random others; every '
            'party\'s output is compared with a Python oracle (value preserved / floor or floor+1 / canonical representative) '
            'and all parties must agree. The quick tier adds PRSS configurations with many subsets ((7,3): 35, (6,2): 15) '
            'for all ordered int/fxp pairs. The hypothesis r <= 2^(k+l) is tied to the code: the mask bound of _convert '
            '(both branches) and the dealer count, and the bound scaling of _randoms (used by trunc/_mod), are extracted from '
            'the source on every run (fail closed) and "contributions * (bound - 1) <= 2^(k+l)" is compiled by vm_compute for '
            'all (m,t) with m <= 8, PRSS and no-PRSS, l = 1..64. Aliasing stream: convert(list, T) is called, the caller\'s '
            'list is then reversed / overwritten / shortened / extended before the result is awaited (m = 1 asynchronous '
            'and m = 3); expected are the values at call time.',
    'note': 'Share-level layer (input, output, PRSS, shares of the trunc/_mod sub-protocols) is covered by the simulator '
            'runs only. The Coq model convert_v is evaluated on int/fxp-source cases of the runs with random in-range r and '
            'trunc tapes and must lie in the oracle set and agree with the implementation outputs (input/output level; tapes '
            'of the runs are not extracted); field sources are covered by the theorem and the runs, not by model evaluation '
            '(their _mod is tied to the code in C01). Quick tier: every pair in the (3,1,PRSS) configuration and in about a '
            'third of the others. Signed and unsigned field types use different primes because SecFld caches the type per '
            'field and overwrites field.is_signed (observed aliasing, outside C06). int->field of values outside the target '
            'range and field->field of representatives that do not fit are outside the premise and not checked. Sources '
            'that are prime fields wider than the target are a separate stream: known finding F-C06-1.',
    'technique': 'Coq proof of the masked-conversion arithmetic + multi-party simulator differential testing against a Python oracle',
}

P64U = 18446744073709551557      # 2^64 - 59
P64S = 18446744073709551533      # 2^64 - 83
CONFIGS = [(1, 0), (2, 0), (3, 1), (4, 1), (5, 2)]
TYPES = [('int', 8), ('int', 16), ('int', 32), ('int', 64), ('fxp', 16, 8), ('fxp', 32, 16),
         ('fld', 11, False), ('fld', 13, True), ('fld', 251, False), ('fld', 241, True),
         ('fld', P64U, False), ('fld', P64S, True)]


def tname(T):
    if T[0] == 'fld':
        return 'fld%d%s' % (T[1].bit_length(), 's' if T[2] else 'u')
    return T[0] + 'x'.join(str(v) for v in T[1:])


def mk(mpc, T):
    if T[0] == 'int':
        return mpc.SecInt(T[1])
    if T[0] == 'fxp':
        return mpc.SecFxp(T[1], T[2])
    return mpc.SecFld(modulus=T[1], signed=T[2])


def rng_of(T):
    """Inclusive range of the integer that represents a value of type T (scaled integer for fxp)."""
    if T[0] in ('int', 'fxp'):
        h = 1 << (T[1] - 1)
        return -h, h - 1
    p = T[1]
    return (-(p // 2), p // 2) if T[2] else (0, p - 1)     # signed_: v > p>>1 -> v - p


def canon(T, v):
    p = T[1]
    v %= p
    return v - p if (T[2] and v > p >> 1) else v


def frac(T):
    return T[2] if T[0] == 'fxp' else 0


def expected(S, T, v):
    """v: representing integer of the source value. Returns (set of allowed representing integers of
    the result, all fit) following the property: value preserved / rounded to a neighbour / canonical rep."""
    d = frac(T) - frac(S)
    if d >= 0:
        cands = [v << d]
    elif v % (1 << -d) == 0:
        cands = [v >> -d]
    else:
        cands = [v >> -d, (v >> -d) + 1]
    if T[0] == 'fld':
        # the premise "fits the target type": the integer lies in the target's canonical range
        lo, hi = rng_of(T)
        return {canon(T, c) for c in cands}, all(lo <= c <= hi for c in cands)
    lo, hi = rng_of(T)
    return set(cands), all(lo <= c <= hi for c in cands)


def values(rng, S, sweep, nrand):
    lo, hi = rng_of(S)
    n = hi - lo + 1
    if n <= 300 and sweep:
        return list(range(lo, hi + 1))
    base = {lo, lo + 1, hi, hi - 1, 0, 1, -1, 2, -2, lo // 2, hi // 2, hi // 2 + 1}
    if S[0] == 'fxp':
        f = S[2]
        base |= {1 << f, -(1 << f), (1 << f) + 1, (1 << f) - 1, -(1 << f) - 1, 3 << (f - 1), -(3 << (f - 1)), 127 << f, -(128 << f)}
    if S[0] == 'int' or S[0] == 'fld':
        base |= {127, -128, 128, 32767, -32768, 5, 10, 125, -125, 120, -120}
    vals = sorted(x for x in base if lo <= x <= hi)
    for _ in range(nrand):
        r = rng.random()
        if r < 0.4:
            vals.append(rng.randint(max(lo, -130), min(hi, 130)))
        elif r < 0.7:
            vals.append(rng.randint(max(lo, -(1 << 15)), min(hi, (1 << 15) - 1)))
        else:
            vals.append(rng.randint(lo, hi))
    return vals


def narrow(S, T):
    """Prime-field source wider than the target: _convert calls _mod(t_type(.), q) with q >= 2^l, outside _mod's range."""
    if S[0] != 'fld' or T[0] == 'fld':
        return False
    width = T[1] + (T[2] if T[0] == 'fxp' else 0)
    return S[1].bit_length() > width


def make_prog(jobs):
    """jobs: list of (S, T, values, sender slot)."""
    async def prog(mpc, mods, pid):
        m = len(mpc.parties)
        outs = []
        for (S, T, vals, slot) in jobs:
            st, tt = mk(mpc, S), mk(mpc, T)
            s = slot % m
            if S[0] == 'fxp':
                xs = [st(v / (1 << S[2])) if pid == s else st(0) for v in vals]
            else:
                xs = [st(v) if pid == s else st(0) for v in vals]
            xs = mpc.input(xs, senders=s)
            if len(vals) == 1 and slot % 3 == 0:
                ys = [mpc.convert(xs[0], tt)]        # scalar form
            else:
                ys = mpc.convert(xs, tt)
            outs.append(mpc.output(ys))
        res = []
        for (S, T, vals, slot), o in zip(jobs, outs):
            o = await o
            if T[0] == 'fxp':
                res.append([int(round(float(v) * (1 << T[2]))) if float(v) * (1 << T[2]) == round(float(v) * (1 << T[2]))
                            else ('nonint', float(v)) for v in o])
            else:
                res.append([int(v) for v in o])
        return res
    return prog


def coq_type(T):
    """(kind, l, f, p, signed) for the Coq model: kind 0 int/fxp, 1 field"""
    return T


def run(ctx):
    from lib.sim import Sim, Fifo, RandomOrder
    from lib.core import COQ
    have_model = os.path.exists(os.path.join(COQ, 'theories', 'Convert.v'))
    have_props = os.path.exists(os.path.join(COQ, 'props', 'C06.v'))
    ok = ctx.build(['MPyC.Convert'] if have_model else None) and have_model
    if have_props:
        ok = ctx.check_props() and ok
    else:
        ctx.notes.append('coq/props/C06.v absent: no theorems recorded in this run')
    ctx.assumptions += [
        'source prime ps > 2^(k+l+1) with l = min(l_s, l_t) (and > 2^(l_s+k+1) when truncating): sectypes._pfield gives l+f+k+2 bits',
        'shared random integer 0 <= r <= 2^(k+l) (sum of t+1 dealt or comb(m,t) PRSS values below 2^(k+l)/d + 1); the same r in both fields',
        'value fits l = min(l_s, l_t) bits (for field targets: lies in the canonical range of the target field)',
        'field sources: good_tape of the inner _mod (masked opening does not wrap: r_divb * q > r), is_zero_public blinding factor != 0, and source order < 2^(target bit length) (violated by the F-C06-1 class)',
    ]
    rng = ctx.rng
    thorough = ctx.tier == 'thorough'
    configs = [(m, t, np_) for (m, t) in CONFIGS + ([(7, 3), (6, 2)] if thorough else []) for np_ in (False, True)]
    many_subsets = [] if thorough else [(7, 3, False), (6, 2, False)]   # quick: PRSS with 35 / 15 subsets, int/fxp pairs only
    configs += many_subsets
    # the tape-range hypotheses (r <= 2^(k+l); r_div ranges of trunc/_mod) against the bounds as coded in
    # _convert / _randoms, extracted from the source on this run
    from props.c01 import check_mask_bounds, MUTATIONS, note_rounds, MAX_LIVELOCK_REPORTS, ROUND_CAP
    check_mask_bounds(ctx, ['convert', 'randoms'])
    # full sweeps of the <= 8-bit types: thorough m <= 3 (all six configurations), quick two configurations
    sweep_cfgs = {c for c in configs if c[0] <= 3} if thorough else {(3, 1, False), (1, 0, True)}
    wide_sweep_cfgs = {(3, 1, False), (2, 0, True)} if thorough else set()   # 251/241-element fields to every target
    ctx.rule = ('case = (source type, target type, batch of values, sender, m, t, PRSS on/off); values: range extremes, '
                '0, +-1, all values of <= 8-bit types (sweep), random; only values whose result fits the target are '
                'required to be preserved; non-trivial when m >= 2')
    ctx.explanation = ('every ordered type pair converted by the real runtime in the simulator under every configuration; '
                       'all parties\' outputs compared with the Python oracle')
    ctx.extra['exhaustive'] = True
    ctx.extra['exhaustive_scope'] = ('all values of secint8 and of the prime fields of order 11 and 13 for every target type, '
                                     'fields of order 251/241 to secint16 (all targets in the thorough tier), in the sweep configurations')
    import time
    per_config, obs = {}, []
    nvals = 0
    livelocks = [0]
    for (m, t, np_) in configs:
        if livelocks[0] >= MAX_LIVELOCK_REPORTS:
            ctx.log('%d no-progress reports: remaining configurations skipped' % livelocks[0])
            ctx.notes.append('remaining configurations skipped after %d no-progress reports' % livelocks[0])
            break
        t0 = time.time()
        sweep = (m, t, np_) in sweep_cfgs
        full = (thorough and m <= 5) or (m, t, np_) == (3, 1, False)
        cno = configs.index((m, t, np_))
        jobs = []
        for i, S in enumerate(TYPES):
            for j, T in enumerate(TYPES):
                if (m, t, np_) in many_subsets:
                    if S[0] == 'fld' or T[0] == 'fld' or S == T:
                        continue                   # reduced budget: all ordered int/fxp pairs
                elif not full and (i * len(TYPES) + j + cno) % (2 if thorough else 3):
                    continue                       # every pair in the full configs and in 1/3 (thorough m>=6: 1/2) of the others
                nar = narrow(S, T)
                if nar and (cno % 3 if not thorough else m > 5):
                    continue
                small_src = rng_of(S)[1] - rng_of(S)[0] < 300
                if thorough:
                    do_sweep = sweep and not nar and small_src and (S[0] == 'int' or S[1] < 20 or T == ('int', 16)
                                                                    or (m, t, np_) in wide_sweep_cfgs)
                else:
                    do_sweep = sweep and not nar and small_src and (S[0] == 'int' or S[1] < 20 or T == ('int', 16))
                vals = values(rng, S, do_sweep, ctx.n(3, 10))
                keep = [v for v in vals if expected(S, T, v)[1]]
                if not keep:
                    continue
                if thorough:
                    cap = 2 if nar else (300 if do_sweep else ((4 if m > 5 else 8) if S[0] == 'fld' else (12 if m > 5 else 24)))
                else:
                    cap = 2 if nar else (300 if do_sweep else (5 if S[0] == 'fld' else 12))
                if len(keep) > cap:
                    ext = [v for v in keep if v in (rng_of(S)[0], rng_of(S)[1], 0, -1, 1)]
                    keep = (ext + rng.sample(keep, cap))[:cap]
                jobs.append((S, T, keep, rng.randrange(64)))
                if rng.random() < 0.1:
                    jobs.append((S, T, [rng.choice(keep)], 3 * rng.randrange(20)))
        def fresh_sim(extra=0):
            sm = Sim(m=m, t=t, no_prss=np_, seed=ctx.seed * 137 + m * 11 + t + (500 if np_ else 0) + 7919 * extra,
                     log_messages=False, track_tasks=False)      # no per-message logs: bounded memory
            st = sm.start()
            if not sm.started:
                sm.close()
                ctx.violation('start-failed m=%d t=%d' % (m, t), {'m': m, 't': t, 'no_prss': np_, 'start': repr(st)})
                return None
            return sm
        sim = fresh_sim()
        queue = [(jobs[i0:i0 + 12], 0) for i0 in range(0, len(jobs), 12)]     # slices: one failure does not hide the rest
        nfresh = 0
        try:
            while queue and sim is not None:
                chunk, attempt = queue.pop(0)
                policy = Fifo() if (attempt or rng.random() < 0.75) else RandomOrder(random.Random(rng.randrange(1 << 30)), lazy=0.1)
                # deterministic round budget (clean tree: FIFO <= ~650 rounds per 12-job chunk independent of the list
                # lengths, RandomOrder <= ~3100 rounds per job): 50 x a generous base, < 5*10^6; idle rounds count too
                ro = isinstance(policy, RandomOrder)
                budget = min(ROUND_CAP, 50 * ((4000 * len(chunk)) if ro else (600 + 150 * len(chunk))))
                res = sim.run(make_prog(chunk), policy, idle_limit=budget, max_rounds=budget)
                note_rounds(ctx, '%s jobs<=%d' % ('RandomOrder' if ro else 'Fifo', 12 if len(chunk) > 1 else 1), sim.rounds, budget)
                if any(not isinstance(r, list) for r in res):
                    # unfinished / exception: runtimes are in an undefined state -> fresh simulator; the chunk is re-run
                    # once, split into single jobs with at most 32 values each (FIFO), before anything is reported
                    sim.close()
                    nfresh += 1
                    sim = fresh_sim(extra=nfresh)
                    if attempt == 0:
                        small = []
                        for (S, T, vals, slot) in chunk:
                            for v0 in range(0, len(vals), 32):
                                small.append(([(S, T, vals[v0:v0 + 32], slot)], 1))
                        queue = small + queue
                        ctx.notes.append('chunk re-run split in a fresh simulator (m=%d t=%d no_prss=%s): first attempt %s' % (
                            m, t, np_, repr(res)[:160]))
                        continue
                    if any(r == 'PENDING' for r in res) and not any(isinstance(r, tuple) for r in res):
                        ctx.case({'S': tname(chunk[0][0]), 'T': tname(chunk[0][1]), 'm': m, 't': t, 'np': np_, 'livelock': True}, kind='no-progress')
                        ctx.violation('no-progress/livelock convert %s->%s m=%d t=%d %s' % (tname(chunk[0][0]), tname(chunk[0][1]), m, t,
                                                                                         'noPRSS' if np_ else 'PRSS'),
                                      {'m': m, 't': t, 'no_prss': np_, 'jobs': [(S, T, v, sl) for S, T, v, sl in chunk],
                                       'round_budget': budget, 'rounds': budget,
                                       'what': 'the conversion did not finish within its round budget, alone in a fresh simulator '
                                               'with FIFO delivery (after the chunk containing it did not finish either)'})
                        livelocks[0] += 1
                        if sim is not None:
                            sim.close()
                        sim = None
                        break                   # go on with the next configuration
                    ctx.violation('run-failed m=%d t=%d %s %s' % (m, t, 'noPRSS' if np_ else 'PRSS',
                                                                 '%s->%s' % (tname(chunk[0][0]), tname(chunk[0][1]))),
                                  {'m': m, 't': t, 'no_prss': np_, 'jobs': [(tname(S), tname(T), v, s) for S, T, v, s in chunk],
                                   'result': repr(res)[:1500]})
                    continue
                for j, (S, T, vals, slot) in enumerate(chunk):
                    outs = [r[j] for r in res]
                    nvals += len(vals)
                    cls = 'fld-wider-than-target' if narrow(S, T) else 'regular'
                    ctx.case({'S': tname(S), 'T': tname(T), 'vals': vals[:6], 'n': len(vals), 'm': m, 't': t, 'np': np_},
                             nontrivial=m >= 2, kind='%s->%s' % (S[0], T[0]))
                    bad = None
                    for pid, o in enumerate(outs):
                        if o != outs[0]:
                            bad = ('parties-disagree', pid, None, None)
                            break
                    if bad is None:
                        for v, got in zip(vals, outs[0]):
                            want, _ = expected(S, T, v)
                            if got not in want:
                                bad = ('wrong-value', 0, v, got)
                                break
                    if bad:
                        ctx.violation('convert-wrong class=%s %s->%s kind=%s' % (cls, tname(S), tname(T), bad[0]),
                                      {'m': m, 't': t, 'no_prss': np_, 'source': S, 'target': T, 'values': vals, 'sender': slot % m,
                                       'value': bad[2], 'got': repr(bad[3]), 'want': sorted(expected(S, T, bad[2])[0]) if bad[2] is not None else None,
                                       'outputs_party0': outs[0][:50], 'outputs_other': outs[bad[1]][:50] if bad[1] else None})
                    elif (m, t, np_) in ((3, 1, False), (2, 0, True)) and cls == 'regular':
                        obs.append((S, T, vals, outs[0]))
            if sim is not None:
                sim.shutdown()
        finally:
            if sim is not None:
                sim.close()
        per_config['m=%d t=%d %s' % (m, t, 'noPRSS' if np_ else 'PRSS')] = {'conversions': len(jobs), 'seconds': round(time.time() - t0, 1)}
        ctx.log('config m=%d t=%d no_prss=%s: %d conversions (%s) in %.1fs' % (m, t, np_, len(jobs), 'sweep' if sweep else 'extremes', time.time() - t0))
    ctx.extra['per_config'] = per_config
    ctx.extra['values_converted'] = nvals

    # ---- Coq model on the same cases with random in-range tapes
    if ok:
        from mpyc.runtime import mpc as mpc1
        k = mpc1.options.sec_param
        prime_of = {}

        def fieldp(T):
            if T not in prime_of:
                prime_of[T] = mk(mpc1, T).field.modulus
            return prime_of[T]
        exprs, meta = [], []
        cap = ctx.n(700, 4000)
        rng.shuffle(obs)
        for (S, T, vals, outs) in obs:
            if S[0] == 'fld':
                continue          # field sources: theorem only (the inner _mod is tied to the code by C01's correspondence)
            ps, pt = fieldp(S), fieldp(T)
            l = min(S[1], T[1]) if T[0] != 'fld' else min(S[1], (T[1] - 1).bit_length())
            d = frac(T) - frac(S)
            picks = vals if len(vals) <= 6 else rng.sample(vals, 6)
            for v in picks:
                got = outs[vals.index(v)]
                for tno in range(2):
                    r = rng.choice([0, (1 << (k + l)) - 1, rng.randrange(1 << (k + l))])
                    f = -d if d < 0 else 0
                    rb = [rng.getrandbits(1) for _ in range(f)]
                    rdiv = rng.randrange(1 << (k + S[1] - f)) if f else 0
                    exprs.append('convert_v %s %s %s %s %s %s %s %s %s' % (
                        zlit(ps), zlit(pt), zlit(S[1]), zlit(l), zlit(d), zlit(v % ps), zlit(r), zlist(rb), zlit(rdiv)))
                    want, _ = expected(S, T, v)
                    meta.append((S, T, v, {w % pt for w in want}, got % pt, pt))
            if len(exprs) >= cap:
                break
        ctx.log('evaluating %d model expressions in Coq' % len(exprs))
        res = ctx.coq_eval(['MPyC.Convert'], exprs, chunk=150)
        mism = 0
        for r, (S, T, v, want, got, pt) in zip(res, meta):
            good = r in want and got in want and (len(want) > 1 or r == got)
            if not good:
                mism += 1
                if len(ctx.broken) < 20:
                    ctx.broken.append({'kind': 'correspondence', 'S': tname(S), 'T': tname(T), 'value': v,
                                       'model': str(r)[:100], 'oracle': sorted(want), 'impl': got})
            ctx.case({'model': 1, 'S': tname(S), 'T': tname(T), 'v': v, 'i': len(ctx._distinct)}, kind='coq-model')
        ctx.extra['model_evaluations'] = len(exprs)
        ctx.extra['model_disagreements'] = mism
        ctx.log('model vs oracle/implementation disagreements: %d of %d' % (mism, len(exprs)))
    elif not have_model:
        ctx.notes.append('coq/theories/Convert.v absent: no model evaluation in this run')
    # ---- list aliasing: the caller edits its list after convert(list, T) returned, before the result is awaited
    for (m, t) in ((1, 0), (3, 1)):
        pairs = [(('int', 8), ('int', 32)), (('int', 16), ('fxp', 32, 16)), (('fxp', 16, 8), ('int', 16)),
                 (('fld', 13, True), ('int', 16)), (('fld', 11, False), ('fld', 251, False))]
        base = {'int': [3, -5, 7, 100], 'fxp': [3 << 8, -(5 << 8), 7 << 8, 100 << 8], 'fld': [3, 5, 1, 4]}
        for muts in (('reverse', 'overwrite'), ('del', 'append')):
            async def aprog(mpc, mods, pid, muts=muts):
                pend = []
                for (S, T) in pairs:
                    st, tt = mk(mpc, S), mk(mpc, T)
                    for mn in muts:
                        vals = base[S[0]]
                        L = mpc.input([st(v / (1 << S[2]) if S[0] == 'fxp' else v) if pid == 0 else st(0) for v in vals], senders=0)
                        y = mpc.convert(L, tt)
                        MUTATIONS[mn](L)
                        pend.append((tname(S), tname(T), mn, T, mpc.output(y)))
                out = {}
                for sn, tn, mn, T, o in pend:
                    o = await o
                    out['%s->%s/%s' % (sn, tn, mn)] = [int(round(float(v) * (1 << frac(T)))) if T[0] == 'fxp' else int(v) for v in o]
                return out
            sim = Sim(m=m, t=t, no_prss=rng.random() < 0.5, seed=ctx.seed * 19 + m, log_messages=False, track_tasks=False)
            try:
                sim.start()
                res = sim.run(aprog, idle_limit=300000, max_rounds=300000)
                note_rounds(ctx, 'alias', sim.rounds, 300000)
                for (S, T) in pairs:
                    for mn in muts:
                        key = '%s->%s/%s' % (tname(S), tname(T), mn)
                        want = [v << (frac(T) - frac(S)) if frac(T) >= frac(S) else v >> (frac(S) - frac(T)) for v in base[S[0]]]
                        got = [r.get(key) if isinstance(r, dict) else r for r in res]
                        ctx.case({'alias': key, 'm': m}, nontrivial=True, kind='alias m=%d' % m)
                        if any(g != want for g in got):
                            ctx.violation('alias convert %s mutation=%s m=%d' % (key.split('/')[0], mn, m),
                                          {'pair': key, 'mutation': mn, 'm': m, 't': t, 'list_at_call': base[S[0]], 'want': want,
                                           'got_per_party': repr(got)[:400]})
                if all(isinstance(r, dict) for r in res):
                    sim.shutdown()
            finally:
                sim.close()

    if ctx.broken and not ctx.violations:
        ctx.unproved('C06 model/proof', {'broken': ctx.broken[:5]})
