"""C31 — secure lists behave like Python lists under any operation history.

Proof: coq/props/C31.v over the value-level model coq/theories/SecList.v (refinement of every
secret-index method, of count/find/index/remove and of the comparisons to Python list semantics, for
all lists / in-range indices / histories).  Tie: the REAL mpyc.seclists.seclist (single party,
in-process) is driven through random operation histories and compared after every operation with
(i) a plain Python `list` oracle, (ii) the Coq model `run step` and (iii) the Coq abstract
interpreter `run pystep` evaluated by vm_compute on the same concrete history.
"""
import random
from lib.core import zlit, zlist, natlit, blit

MANIFEST = {
    'text': 'Coq theorems over the value-level model of seclists.py (state = list Z, operations transcribed from the code: '
            '__getitem__/__setitem__ as dot product / x + (v - x_i)*i, __delitem__/insert via prefix-sum step vectors and '
            'schur_prod, pop, remove, count/contains/find(index closure cl)/index, _less_than/_norm, __eq__, secindex offset '
            'and secindex.__add__): for ALL lists and ALL in-range secret indices (secure number, unit vector, secindex, '
            'secindex sum) get = nth, set = update, del = remove_nth, insert = insert_at, pop; count/find/index/remove/contains '
            '= their Python definitions; _less_than = Python lexicographic < for all length combinations (and le/eq/ne/ge/gt); '
            'history_refines: for every operation sequence the model and the abstract Python-list interpreter agree step by '
            'step. Tied to /repo on every run by driving the real seclist (secint, secfxp, secfld(p)) through random '
            'histories and comparing state+output after every operation with a Python list and with the Coq model and the Coq '
            'abstract interpreter (vm_compute) on the same history; plus non-unit index vectors (model vs implementation only), '
            'malformed index lengths (IndexError), comparison pairs of lengths 4..9 differing at several positions (>= 2 inside one '
            'half of the _norm split; all six operators both ways) and histories that reuse ONE index object (unit-vector list, '
            'secindex, secure number) across consecutive operations and two lists (the object must stay unchanged); and an extreme-'
            'values stream for every value-dependent operation (contains/count/find/index/remove/==/!= on full-range values, '
            '</<=/>/>=/sort on values whose differences stay representable): secint(8/16/32/64), secfxp(32:16, 16:8), GF(p) for '
            'p = 11..65537 with lists shorter than p-1, GF(2^8); lists of powers of two +-1, extremes, values whose differences to '
            'an absent item are powers of two / multiples of 2^(l/2) / tiny fractions. Also proved: contains (count != 0 with count '
            'summed in a field of characteristic p) = list membership for every list shorter than p, and the guard is tight '
            '(C31_contains_char_guard / _boundary: the boundary of finding F-C31-2).',
    'note': 'Trusted/modelled, not verified here: runtime helpers at value level (in_prod, vector_add/sub, schur_prod, scalar_mul, '
            'sgn, ==, sum, all, if_else) and runtime.unit_vector represented by its specification uvec (C30 ties unit_vector to it); '
            'list.sort is modelled by a specification sort (runtime._sort belongs to C29); methods delegated to list (public '
            'int/slice, append, extend, +, *, copy, reverse) are list operations by construction. secfxp contents are modelled '
            'scaled by 2^f and secfld(p) as the image mod p of the integer model (ring homomorphism; checked by the '
            'correspondence, not proved). "Only the length is public" is NOT proved in Coq (shape_only over a call-trace monad: '
            'missing); it is only TESTED on the implementation: twin histories with equal public shape but different secret '
            'values/positions must issue identical sequences of _reshare/output/random_bits/_random(s)/trunc calls with identical '
            'sizes (remove/index excluded: they make presence public by design, like Python\'s ValueError; secure-number '
            'indices on secfld excluded: to_bits uses rejection sampling with public coins). '
            'Single-party runs only (m=1). secfxp lists use non-integral elements only (mixed integrality is finding F-C03 of '
            'another property). Out-of-range secret indices are excluded (valid_key); public out-of-range ints are checked to '
            'raise IndexError. Extended slices, GF(2^8) and sort are checked against the Python list only.',
    'technique': 'Coq refinement proof (list induction, strong induction for the divide-and-conquer closures) + vm_compute '
                 'correspondence on random histories against the real seclist and a Python list oracle',
}

FRAC = 16          # SecFxp() default: 32 bits, 16 fractional
ONE = 1 << FRAC


# ------------------------------------------------------------------------------------------
# type descriptors

class TI:
    def __init__(self, mpc, kind, p=None, char2=False, l=None, f=None):
        self.kind = kind
        self.p = p
        self.char2 = char2
        self.l = l or 32
        self.f = (f or FRAC) if kind == 'fxp' else 0
        self.one = 1 << self.f
        if kind == 'int':
            self.T = mpc.SecInt(l) if l else mpc.SecInt()
            self.pool = [-3, -2, -1, 0, 1, 2, 3, 4]
            self.name = 'secint' + ('(%d)' % l if l else '')
        elif kind == 'fxp':
            self.T = mpc.SecFxp(l, f) if l else mpc.SecFxp()
            one = self.one
            self.pool = [k * one + one // 2 for k in (-3, -2, -1, 0, 1, 2)] + [one // 4, 3 * one + one // 4]
            self.name = 'secfxp' + ('(%d:%d)' % (l, f) if l else '')
        else:
            self.T = mpc.SecFld(p)
            if char2:
                self.pool = [0, 1, 2, 3, 5, 7, 100, p - 1]
            else:
                self.pool = sorted({0, 1, 2, 3, 4 % p, 5 % p, p - 1, p - 2})
            self.name = 'secfld(%d)' % p
        self.mpc = mpc
        self.public_results = 0

    def to_impl(self, c):
        return c / self.one if self.kind == 'fxp' else c

    def sec(self, c):
        return self.T(self.to_impl(c))

    def canon(self, v):
        """opened list element -> canonical int"""
        if self.kind == 'fxp':
            return int(v * self.one)
        return int(v)

    def canon_small(self, v):
        """opened count/index/bit -> int (field elements stay unsigned)"""
        return int(v)

    def red(self, z):
        """canonical form of a model/oracle integer output for this type"""
        return z % self.p if (self.kind == 'fld' and not self.char2) else z

    def open_list(self, s):
        s = list(s)
        if not s:
            return []
        return [self.canon(v) for v in self.mpc.run(self.mpc.output(s))]

    def open1(self, x):
        return self.canon(self.mpc.run(self.mpc.output(x)))

    def open_small(self, x):
        if isinstance(x, (bool, int)):
            # on EMPTY lists count / contains / == / != return plain public Python values
            # (sum([]) = 0, all([]) = 1): nothing to open; the value is compared as is
            self.public_results += 1
            return int(x)
        return self.canon_small(self.mpc.run(self.mpc.output(x)))


# ------------------------------------------------------------------------------------------
# abstract operations (position-based, so that shrinking can re-materialise them for other lengths)

SECRET_OPS = ('get', 'set', 'del', 'ins', 'pop')
CMPS = ('lt', 'le', 'eq', 'ne', 'ge', 'gt')


def gen_ys(rng, ti, maxn):
    n = rng.choice([0, 0, 1, 1, 2, 3, maxn])
    n = max(0, min(n, maxn))
    return [rng.choice(ti.pool) for _ in range(n)]


def gen_aop(rng, ti, ref, maxlen=12):
    """one abstract operation for the current oracle list ref"""
    n = len(ref)
    kinds = ['num', 'vec', 'sec'] + ([] if (ti.kind == 'fxp' or getattr(ti, 'char2', False) or '2^' in ti.name) else ['add'])
    val = lambda: rng.choice(ti.pool)                                    # noqa: E731
    present_or_not = lambda: rng.choice(ref) if ref and rng.random() < 0.7 else val()   # noqa: E731
    r = rng.random()
    if r < 0.42:
        op = rng.choice(SECRET_OPS)
        if op == 'ins' and n >= maxlen:
            op = 'get'
        hi = n + 1 if op == 'ins' else n
        if hi == 0:
            return {'op': 'append', 'v': val(), 'wrap': rng.random() < 0.5}
        a = rng.choice([0, hi - 1, rng.randrange(hi), rng.randrange(hi)])
        d = {'op': op, 'kind': rng.choice(kinds), 'a': a, 'salt': rng.randrange(1 << 30)}
        if op in ('set', 'ins'):
            d['v'] = val()
            d['wrap'] = rng.random() < 0.5
        return d
    if r < 0.56:
        op = rng.choice(['getpub', 'setpub', 'delpub', 'inspub', 'poppub'])
        if op == 'inspub' and n >= maxlen:
            op = 'getpub'
        i = rng.choice([0, -1, n - 1, -n, n, -n - 1, rng.randrange(-n - 2, n + 3)])
        d = {'op': op, 'i': i}
        if op == 'poppub' and rng.random() < 0.3:
            d['i'] = None                      # s.pop()
        if op in ('setpub', 'inspub'):
            d['v'] = val()
            d['wrap'] = rng.random() < 0.5
        return d
    if r < 0.64:
        op = rng.choice(['getslice', 'setslice', 'delslice'])
        b = lambda: rng.choice([None, 0, 1, -1, n, rng.randrange(-n - 2, n + 3)])   # noqa: E731
        d = {'op': op, 'start': b(), 'stop': b()}
        if op == 'setslice':
            d['ys'] = gen_ys(rng, ti, max(0, min(3, maxlen - n)))
            d['yform'] = rng.randrange(3)
        return d
    if r < 0.74:
        op = rng.choice(['append', 'extend', 'addr', 'addl', 'mul', 'copy', 'reverse', 'sort'])
        if op == 'sort' and ti.kind == 'fld':
            op = 'reverse'
        if n >= maxlen and op in ('append', 'extend', 'addr', 'addl', 'mul'):
            op = 'copy'
        if op == 'append':
            return {'op': op, 'v': val(), 'wrap': rng.random() < 0.5}
        if op in ('extend', 'addr', 'addl'):
            return {'op': op, 'ys': gen_ys(rng, ti, min(3, maxlen - n)), 'yform': rng.randrange(3),
                    'iadd': rng.random() < 0.5}
        if op == 'mul':
            ks = [k for k in (-1, 0, 1, 2, 3) if n * k <= maxlen]
            return {'op': op, 'k': rng.choice(ks), 'form': rng.randrange(3)}
        return {'op': op}
    if r < 0.88:
        op = rng.choice(['count', 'contains', 'find', 'index', 'remove'])
        return {'op': op, 'v': present_or_not(), 'wrap': rng.random() < 0.5}
    # comparisons: equal lists, proper prefixes, one-off differences, empties, random
    cs = CMPS if ti.kind != 'fld' else ('eq', 'ne')
    m = rng.random()
    if m < 0.2:
        ys = list(ref)
    elif m < 0.4:
        ys = list(ref[:rng.randrange(n + 1)])
    elif m < 0.55:
        ys = list(ref) + gen_ys(rng, ti, 2)
    elif m < 0.8 and n:
        ys = list(ref)
        j = rng.randrange(n)
        ys[j] = val()
        if rng.random() < 0.4:
            ys = ys[:rng.randrange(j + 1, n + 1)]
    else:
        ys = gen_ys(rng, ti, 4)
    return {'op': 'cmp', 'c': rng.choice(cs), 'swap': rng.random() < 0.5, 'ys': ys, 'yform': rng.randrange(3)}


def unit(a, n):
    return [1 if i == a else 0 for i in range(n)]


def materialise(aop, n):
    """abstract op -> concrete op for a list of current length n; None when not applicable (only
    happens while shrinking)"""
    op = aop['op']
    c = dict(aop)
    if op in SECRET_OPS:
        N = n + 1 if op == 'ins' else n
        a = aop['a']
        if not 0 <= a < N:
            return None
        r = random.Random(aop['salt'])
        kind = aop['kind']
        if kind == 'num':
            c['key'] = ['num', a]
        elif kind == 'vec':
            c['key'] = ['vec', unit(a, N)]
        elif kind == 'sec':
            off = r.randrange(a + 1)
            c['key'] = ['sec', off, unit(a - off, N - off)]
        else:   # add: off1 + off2 + (m + n2 - 1) == N, a = off1 + off2 + i + j
            off = r.randrange(a + 1)
            o1 = r.randrange(off + 1)
            L = N - off                    # length of the sum's vector, >= 1
            m = r.randrange(1, L + 1)
            n2 = L + 1 - m
            t = a - off                    # i + j = t, 0 <= i < m, 0 <= j < n2
            lo, hi = max(0, t - (n2 - 1)), min(m - 1, t)
            i = r.randrange(lo, hi + 1)
            c['key'] = ['add', o1, unit(i, m), off - o1, unit(t - i, n2)]
        return c
    if op in ('getslice', 'setslice', 'delslice'):
        a, b, _ = slice(aop['start'], aop['stop']).indices(n)
        c['ab'] = [a, b]
        return c
    return c


# ------------------------------------------------------------------------------------------
# implementation, oracle, Coq encodings of a concrete op

def mk_key(ti, key, secindex):
    T = ti.T
    kind = key[0]
    if kind == 'num':
        return T(key[1])
    if kind == 'vec':
        return [T(b) for b in key[1]]
    if kind == 'sec':
        return secindex([T(b) for b in key[2]], offset=key[1], sectype=T)
    i1 = secindex([T(b) for b in key[2]], offset=key[1], sectype=T)
    i2 = secindex([T(b) for b in key[4]], offset=key[3], sectype=T)
    return i1 + i2


def mk_val(ti, c):
    return ti.sec(c['v']) if c.get('wrap') else ti.to_impl(c['v'])


def mk_ys(ti, ys, form, seclist):
    if form == 0:
        return [ti.to_impl(y) for y in ys]
    if form == 1:
        return [ti.sec(y) for y in ys]
    return seclist([ti.to_impl(y) for y in ys], ti.T)


def impl_step(ti, s, c, seclist, secindex, keyobj=None):
    """apply concrete op c to the real seclist s; returns (s', out); keyobj: an already built secret
    index object to be used instead of building a fresh one from c['key'] (index-object reuse)"""
    op = c['op']
    mpc = ti.mpc
    out = None
    try:
        if op == 'get':
            out = ('Z', ti.open1(s[(keyobj if keyobj is not None else mk_key(ti, c['key'], secindex))]))
        elif op == 'set':
            s[(keyobj if keyobj is not None else mk_key(ti, c['key'], secindex))] = mk_val(ti, c)
        elif op == 'del':
            del s[(keyobj if keyobj is not None else mk_key(ti, c['key'], secindex))]
        elif op == 'ins':
            s.insert((keyobj if keyobj is not None else mk_key(ti, c['key'], secindex)), mk_val(ti, c))
        elif op == 'pop':
            out = ('Z', ti.open1(s.pop((keyobj if keyobj is not None else mk_key(ti, c['key'], secindex)))))
        elif op == 'getpub':
            out = ('Z', ti.open1(s[c['i']]))
        elif op == 'setpub':
            s[c['i']] = mk_val(ti, c)
        elif op == 'delpub':
            del s[c['i']]
        elif op == 'inspub':
            s.insert(c['i'], mk_val(ti, c))
        elif op == 'poppub':
            out = ('Z', ti.open1(s.pop() if c['i'] is None else s.pop(c['i'])))
        elif op == 'getslice':
            r = s[slice(c['start'], c['stop'])]
            assert isinstance(r, seclist) and r.sectype is s.sectype
            out = ('L', ti.open_list(r))
        elif op == 'setslice':
            s[slice(c['start'], c['stop'])] = mk_ys(ti, c['ys'], c['yform'], seclist)
        elif op == 'delslice':
            del s[slice(c['start'], c['stop'])]
        elif op == 'append':
            s.append(mk_val(ti, c))
        elif op == 'extend':
            ys = mk_ys(ti, c['ys'], c['yform'], seclist)
            if c['iadd']:
                s += ys
            else:
                s.extend(ys)
        elif op == 'addr':
            s = s + mk_ys(ti, c['ys'], c['yform'], seclist)
        elif op == 'addl':
            s = mk_ys(ti, c['ys'], c['yform'], seclist) + s
        elif op == 'mul':
            if c['form'] == 0:
                s = s * c['k']
            elif c['form'] == 1:
                s = c['k'] * s
            else:
                s *= c['k']
        elif op == 'copy':
            t = s.copy()
            assert t is not s
            out = ('L', ti.open_list(t))
            s = t
        elif op == 'reverse':
            s.reverse()
        elif op == 'sort':
            s.sort()
        elif op == 'count':
            out = ('Z', ti.open_small(s.count(mk_val(ti, c))))
        elif op == 'contains':
            out = ('Z', ti.open_small(s.contains(mk_val(ti, c))))
        elif op == 'find':
            out = ('Z', ti.open_small(s.find(mk_val(ti, c))))
        elif op == 'index':
            out = ('Z', ti.open_small(s.index(mk_val(ti, c))))
        elif op == 'remove':
            r = s.remove(mk_val(ti, c))
            if r is not None and not r.done():
                mpc.run(r)
            elif r is not None:
                r.result()
        elif op == 'cmp':
            ys = c['ys']
            if c['swap']:
                x, y = seclist([ti.to_impl(v) for v in ys], ti.T), s
            else:
                x, y = s, mk_ys(ti, ys, c['yform'], seclist)
            cc = c['c']
            r = (x < y if cc == 'lt' else x <= y if cc == 'le' else x == y if cc == 'eq' else
                 x != y if cc == 'ne' else x >= y if cc == 'ge' else x > y)
            out = ('Z', ti.open_small(r))
        else:
            raise RuntimeError('unknown op ' + op)
    except IndexError:
        out = ('Err', 'Index')
    except ValueError:
        out = ('Err', 'Value')
    if not isinstance(s, seclist) or s.sectype is not ti.T:
        out = ('Err', 'NotSeclist')
    return s, out


def key_pos(key):
    kind = key[0]
    dotp = lambda u: sum(j * b for j, b in enumerate(u))     # noqa: E731
    if kind == 'num':
        return key[1]
    if kind == 'vec':
        return dotp(key[1])
    if kind == 'sec':
        return key[1] + dotp(key[2])
    return key[1] + key[3] + dotp(key[2]) + dotp(key[4])


def oracle_step(ti, ref, c):
    """the same operation on a plain Python list (of canonical ints)"""
    op = c['op']
    ref = list(ref)
    out = None
    try:
        if op == 'get':
            out = ('Z', ref[key_pos(c['key'])])
        elif op == 'set':
            ref[key_pos(c['key'])] = c['v']
        elif op == 'del':
            del ref[key_pos(c['key'])]
        elif op == 'ins':
            ref.insert(key_pos(c['key']), c['v'])
        elif op == 'pop':
            out = ('Z', ref.pop(key_pos(c['key'])))
        elif op == 'getpub':
            out = ('Z', ref[c['i']])
        elif op == 'setpub':
            ref[c['i']] = c['v']
        elif op == 'delpub':
            del ref[c['i']]
        elif op == 'inspub':
            ref.insert(c['i'], c['v'])
        elif op == 'poppub':
            out = ('Z', ref.pop() if c['i'] is None else ref.pop(c['i']))
        elif op == 'getslice':
            out = ('L', ref[slice(c['start'], c['stop'])])
        elif op == 'setslice':
            ref[slice(c['start'], c['stop'])] = list(c['ys'])
        elif op == 'delslice':
            del ref[slice(c['start'], c['stop'])]
        elif op == 'append':
            ref.append(c['v'])
        elif op == 'extend':
            ref.extend(c['ys'])
        elif op == 'addr':
            ref = ref + list(c['ys'])
        elif op == 'addl':
            ref = list(c['ys']) + ref
        elif op == 'mul':
            ref = ref * c['k']
        elif op == 'copy':
            ref = ref.copy()
            out = ('L', list(ref))
        elif op == 'reverse':
            ref.reverse()
        elif op == 'sort':
            ref.sort()
        elif op == 'count':
            out = ('Z', ti.red(ref.count(c['v'])))
        elif op == 'contains':
            out = ('Z', int(c['v'] in ref))
        elif op == 'find':
            out = ('Z', ti.red(ref.index(c['v']) if c['v'] in ref else -1))
        elif op == 'index':
            out = ('Z', ti.red(ref.index(c['v'])))
        elif op == 'remove':
            ref.remove(c['v'])
        elif op == 'cmp':
            x, y = (list(c['ys']), ref) if c['swap'] else (ref, list(c['ys']))
            cc = c['c']
            out = ('Z', int(x < y if cc == 'lt' else x <= y if cc == 'le' else x == y if cc == 'eq' else
                            x != y if cc == 'ne' else x >= y if cc == 'ge' else x > y))
    except IndexError:
        out = ('Err', 'Index')
    except ValueError:
        out = ('Err', 'Value')
    return ref, out


def coq_key(key):
    kind = key[0]
    if kind == 'num':
        return '(KNum %s)' % zlit(key[1])
    if kind == 'vec':
        return '(KVec %s)' % zlist(key[1])
    if kind == 'sec':
        return '(KSec %s %s)' % (natlit(key[1]), zlist(key[2]))
    return '(KAdd %s %s %s %s)' % (natlit(key[1]), zlist(key[2]), natlit(key[3]), zlist(key[4]))


def coq_op(c):
    op = c['op']
    if op == 'get':
        return 'Get %s' % coq_key(c['key'])
    if op == 'set':
        return 'SetK %s %s' % (coq_key(c['key']), zlit(c['v']))
    if op == 'del':
        return 'Del %s' % coq_key(c['key'])
    if op == 'ins':
        return 'Insert %s %s' % (coq_key(c['key']), zlit(c['v']))
    if op == 'pop':
        return 'Pop %s' % coq_key(c['key'])
    if op == 'getpub':
        return 'GetPub %s' % zlit(c['i'])
    if op == 'setpub':
        return 'SetPub %s %s' % (zlit(c['i']), zlit(c['v']))
    if op == 'delpub':
        return 'DelPub %s' % zlit(c['i'])
    if op == 'inspub':
        return 'InsertPub %s %s' % (zlit(c['i']), zlit(c['v']))
    if op == 'poppub':
        return 'PopPub %s' % zlit(-1 if c['i'] is None else c['i'])
    if op == 'getslice':
        return 'GetSlice %s %s' % (natlit(c['ab'][0]), natlit(c['ab'][1]))
    if op == 'setslice':
        return 'SetSlice %s %s %s' % (natlit(c['ab'][0]), natlit(c['ab'][1]), zlist(c['ys']))
    if op == 'delslice':
        return 'DelSlice %s %s' % (natlit(c['ab'][0]), natlit(c['ab'][1]))
    if op == 'append':
        return 'Append %s' % zlit(c['v'])
    if op == 'extend':
        return 'Extend %s' % zlist(c['ys'])
    if op == 'addr':
        return 'AddR %s' % zlist(c['ys'])
    if op == 'addl':
        return 'AddL %s' % zlist(c['ys'])
    if op == 'mul':
        return 'Mul %s' % zlit(c['k'])
    if op == 'copy':
        return 'Copy'
    if op == 'reverse':
        return 'Reverse'
    if op == 'sort':
        return 'Sort'
    if op in ('count', 'contains', 'find', 'index', 'remove'):
        return '%s %s' % (op.capitalize(), zlit(c['v']))
    if op == 'cmp':
        return 'Cmp C%s %s %s' % (c['c'].capitalize(), blit(c['swap']), zlist(c['ys']))
    raise RuntimeError(op)


def coq_hist(init, cops):
    return '%s [%s]' % (zlist(init), '; '.join(coq_op(c) for c in cops))


def coq_out(ti, o, elem):
    """parsed Coq `out` -> canonical tuple; elem: the output is a list element (not reduced for
    secint/secfxp; reduced mod p for secfld)"""
    if o == 'ONone':
        return None
    if isinstance(o, tuple) and o[0] == 'OZ':
        return ('Z', ti.red(o[1]))
    if isinstance(o, tuple) and o[0] == 'OL':
        return ('L', [ti.red(v) for v in o[1]])
    if isinstance(o, tuple) and o[0] == 'OErr':
        return ('Err', {'EIndex': 'Index', 'EValue': 'Value'}[o[1]])
    return ('?', str(o))


def coq_trace(ti, r):
    return [([ti.red(v) for v in st], coq_out(ti, o, True)) for (st, o) in r]


# ------------------------------------------------------------------------------------------
# running histories

def concretise(init, aops):
    """materialise abstract ops along the oracle run; None if some op is not applicable"""
    ref = list(init)
    cops = []
    for a in aops:
        c = materialise(a, len(ref))
        if c is None:
            return None
        cops.append(c)
        ref, _ = _oracle_len(ref, c)
    return cops


def _oracle_len(ref, c):
    class _T:            # oracle_step needs ti only for reducing outputs
        red = staticmethod(lambda z: z)
    return oracle_step(_T, ref, c)


def run_impl(ti, init, cops, seclist, secindex):
    s = seclist([ti.to_impl(v) for v in init], ti.T)
    tr = []
    for c in cops:
        try:
            s, out = impl_step(ti, s, c, seclist, secindex)
            tr.append((ti.open_list(s), out))
        except Exception as e:   # noqa
            tr.append((None, ('Err', type(e).__name__ + ': ' + str(e)[:80])))
            break
    return tr


def run_oracle(ti, init, cops):
    ref = list(init)
    tr = []
    for c in cops:
        ref, out = oracle_step(ti, ref, c)
        tr.append((list(ref), out))
    return tr


def first_diff(a, b):
    for i, (x, y) in enumerate(zip(a, b)):
        if (x[0], x[1]) != (y[0], y[1]):
            return i
    if len(a) != len(b):
        return min(len(a), len(b))
    return None


def shrink(ti, init, aops, seclist, secindex, budget=150):
    """drop operations (and list elements from the end) while implementation != list oracle"""
    def fails(init, aops):
        cops = concretise(init, aops)
        if cops is None:
            return None
        d = first_diff(run_impl(ti, init, cops, seclist, secindex), run_oracle(ti, init, cops))
        return (cops, d) if d is not None else None
    cur = fails(init, aops)
    if cur is None:
        return init, aops, None, None
    changed = True
    while changed and budget > 0:
        changed = False
        aops = aops[:cur[1] + 1]                      # nothing after the first difference matters
        for j in range(len(aops) - 2, -1, -1):
            budget -= 1
            cand = aops[:j] + aops[j + 1:]
            f = fails(init, cand)
            if f is not None:
                aops, cur, changed = cand[:f[1] + 1], f, True
                break
        if not changed and init:
            budget -= 1
            f = fails(init[:-1], aops)
            if f is not None:
                init, cur, changed = init[:-1], f, True
    aops = aops[:cur[1] + 1]
    return init, aops, cur[0][:cur[1] + 1], cur[1]


def gen_history(rng, ti, maxops, maxinit=8):
    m = rng.random()
    n0 = rng.choice([0, 1, 2, 3, 5, maxinit, rng.randrange(maxinit + 1)])
    if m < 0.15:
        init = [rng.choice(ti.pool)] * n0
    elif m < 0.5:
        small = ti.pool[:3]
        init = [rng.choice(small) for _ in range(n0)]        # many duplicates
    else:
        init = [rng.choice(ti.pool) for _ in range(n0)]
    ref = list(init)
    aops, cops = [], []
    for _ in range(rng.randrange(1, maxops + 1)):
        a = gen_aop(rng, ti, ref)
        c = materialise(a, len(ref))
        assert c is not None, a
        aops.append(a)
        cops.append(c)
        ref, _ = _oracle_len(ref, c)
    return init, aops, cops


def nontrivial(cops):
    return any(c['op'] in SECRET_OPS or c['op'] in ('count', 'contains', 'find', 'index', 'remove', 'cmp', 'sort')
               for c in cops)



# ------------------------------------------------------------------------------------------
# "only the length is public", implementation level: two histories with the same public shape
# (lengths, operation kinds, public arguments) but different secret values/positions must issue
# the same sequence of communication-level runtime calls (_reshare / output / random_bits / _random(s))
# with the same sizes

class CallTrace:
    NAMES = ('_reshare', 'output', 'random_bits', '_random', '_randoms', 'trunc')

    def __init__(self, mpc):
        self.mpc = mpc
        self.on = False
        self.log = []
        self.orig = {}
        for nm in self.NAMES:
            if hasattr(mpc, nm):
                self.orig[nm] = getattr(mpc, nm)
                setattr(mpc, nm, self._wrap(nm, self.orig[nm]))

    def _wrap(self, nm, f):
        def g(*a, **k):
            if self.on:
                if nm in ('random_bits', '_randoms'):
                    size = a[1]
                elif nm == '_random':
                    size = 1
                else:
                    x = a[0]
                    size = len(x) if isinstance(x, (list, tuple)) else 0
                self.log.append((nm, size))
            return f(*a, **k)
        return g

    def restore(self):
        for nm, f in self.orig.items():
            try:
                delattr(self.mpc, nm)
            except AttributeError:
                setattr(self.mpc, nm, f)


def twin(rng, ti, init, cops):
    """same public shape, fresh secret content"""
    val = lambda: rng.choice(ti.pool)     # noqa: E731
    init2 = [val() for _ in init]
    out = []
    for c in cops:
        d = dict(c)
        if 'v' in d:
            d['v'] = val()
        if 'ys' in d:
            d['ys'] = [val() for _ in d['ys']]
        if 'key' in d:
            k = d['key']
            if k[0] == 'num':
                d['key'] = ['num', None]      # position filled in by traced_run (needs the current length)
            elif k[0] == 'vec':
                d['key'] = ['vec', unit(rng.randrange(len(k[1])), len(k[1]))]
            elif k[0] == 'sec':
                d['key'] = ['sec', k[1], unit(rng.randrange(len(k[2])), len(k[2]))]
            else:
                d['key'] = ['add', k[1], unit(rng.randrange(len(k[2])), len(k[2])), k[3], unit(rng.randrange(len(k[4])), len(k[4]))]
        out.append(d)
    return init2, out


def traced_run(ti, tr, init, cops, seclist, secindex, rng):
    """run a history recording, per operation, the communication-call trace and the public outcome
    (exception class / public length); 'num' keys with position None get a random in-range position"""
    s = seclist([ti.to_impl(v) for v in init], ti.T)
    res = []
    for c in cops:
        if 'key' in c and c['key'][0] == 'num' and c['key'][1] is None:
            N = len(s) + 1 if c['op'] == 'ins' else len(s)
            c['key'] = ['num', rng.randrange(N)]
        tr.log = []
        tr.on = True
        try:
            s, out = impl_step(ti, s, c, seclist, secindex)    # (the harness' own opening of results is logged too: constant per op)
        finally:
            tr.on = False
        pub = out[1] if out and out[0] == 'Err' else None
        res.append((list(tr.log), len(s), pub))
    return res



# ------------------------------------------------------------------------------------------
# comparison pairs differing at several positions, with >= 2 differences inside one half of _norm's split

def gen_cmp_pair(rng, ti):
    lx = rng.randrange(4, 10)
    ly = lx if rng.random() < 0.5 else rng.randrange(4, 10)
    m = min(lx, ly)                       # _norm works on the zipped prefix of length m, split at m//2
    x = [rng.choice(ti.pool) for _ in range(lx)]
    y = (x + [rng.choice(ti.pool) for _ in range(ly)])[:ly]
    h = m // 2
    half = range(0, h) if (rng.random() < 0.5 and h >= 2) else range(h, m)
    pos = set(rng.sample(list(half), rng.randrange(2, len(half) + 1)))
    if rng.random() < 0.6:                # further differences anywhere
        pos |= {rng.randrange(m) for _ in range(rng.randrange(1, 4))}
    mode = rng.randrange(3)               # all larger / all smaller / mixed signs
    order = sorted(ti.pool)
    for j in pos:
        lo = [v for v in order if v < x[j]]
        hi = [v for v in order if v > x[j]]
        cand = (hi or lo) if mode == 0 else (lo or hi) if mode == 1 else (lo + hi)
        y[j] = rng.choice(cand)
    return x, y


# ------------------------------------------------------------------------------------------
# histories that REUSE one Python index object across consecutive operations on one or two lists

def reuse_history(rng, ti, seclist, secindex):
    """returns (kind, bad, detail, lists) where lists = [(init, cops, impl_trace, oracle_trace)] for s and t"""
    mpc = ti.mpc
    L = rng.randrange(1, 8)                       # length of the index vector: insert on lists of length L-1, others on length L
    a = rng.choice([0, L - 1, rng.randrange(L)])
    kind = rng.choice(['vec', 'vec', 'sec', 'num'])
    if kind == 'vec':
        key = ['vec', unit(a, L)]
    elif kind == 'sec':
        off = rng.randrange(a + 1)
        key = ['sec', off, unit(a - off, L - off)]
    else:
        key = ['num', a]
    obj = mk_key(ti, key, secindex)               # built ONCE

    def opened():
        if kind == 'vec':
            return [int(v) for v in mpc.run(mpc.output(list(obj)))] if obj else []
        if kind == 'sec':
            return [obj.offset, [int(v) for v in mpc.run(mpc.output(list(obj.value)))] if obj.value else []]
        return int(mpc.run(mpc.output(obj)))
    before = opened()
    inits = [[rng.choice(ti.pool) for _ in range(L - 1)], [rng.choice(ti.pool) for _ in range(rng.choice([L - 1, L]))]]
    impl = [seclist([ti.to_impl(v) for v in init], ti.T) for init in inits]
    ref = [list(init) for init in inits]
    cops = [[], []]
    itr = [[], []]
    otr = [[], []]
    bad = None
    for step in range(rng.randrange(2, 7)):
        w = 0 if (step == 0 or rng.random() < 0.65) else 1
        if step == 0 or len(ref[w]) == L - 1:
            op = 'ins'
        elif len(ref[w]) == L:
            op = rng.choice(['get', 'set', 'del', 'pop', 'get', 'set'])
        else:
            continue
        c = {'op': op, 'key': key}
        if op in ('set', 'ins'):
            c['v'] = rng.choice(ti.pool)
            c['wrap'] = rng.random() < 0.5
        try:
            impl[w], out = impl_step(ti, impl[w], c, seclist, secindex, keyobj=obj)
            st = ti.open_list(impl[w])
        except Exception as e:   # noqa
            st, out = None, ('Err', type(e).__name__ + ': ' + str(e)[:80])
        ref[w], oout = oracle_step(ti, ref[w], c)
        cops[w].append(c)
        itr[w].append((st, out))
        otr[w].append((list(ref[w]), oout))
        if (st, out) != (ref[w], oout) and bad is None:
            bad = {'list': w, 'op': op, 'step': step, 'impl': (st, out), 'python_list': (ref[w], oout)}
            break
    after = opened() if bad is None else None
    if bad is None and after != before:
        bad = {'op': 'index object modified by the callee', 'before': before, 'after': after}
    detail = {'type': ti.name, 'key': key, 'inits': inits, 'ops_on_s': cops[0], 'ops_on_t': cops[1], 'bad': bad}
    return kind, bad, detail, [(inits[w], cops[w], itr[w], otr[w]) for w in (0, 1) if cops[w]]



# ------------------------------------------------------------------------------------------
# extreme in-range values for every value-dependent operation

def extreme_values(rng, ti, ranged):
    """candidate canonical values of the type; ranged: keep |v| below a quarter of the range so that
    differences of two values stay representable (needed by <, <=, >, >=, sort: sgn(a - b))"""
    if ti.kind == 'int':
        l = ti.l
        M = (1 << (l - 1)) - 1
        if ranged:
            M = (1 << (l - 2)) - 1
        vals = {0, 1, -1, M, -M, M - 1, -M + 1}
        for k in range(1, l - 1):
            for d in (-1, 0, 1):
                vals |= {(1 << k) + d, -(1 << k) + d}
        h = 1 << (l // 2)
        vals |= {j * h for j in range(-5, 6)} | {j * h + 1 for j in range(-3, 4)}
        return sorted(v for v in vals if abs(v) <= M)
    if ti.kind == 'fxp':
        one = ti.one
        B = 1 << (ti.l - ti.f - 1)                 # |value| < B
        K = (B // 2 if ranged else B) - 1
        ks = {0, 1, -1, K, -K, K - 1, -K + 1}
        for k in range(1, ti.l - ti.f - 1):
            for d in (-1, 0, 1):
                ks |= {(1 << k) + d, -(1 << k) + d}
        fr = [1, one // 2, one - 1, one // 4]       # never integral (mixed integrality is F-C03 of another property)
        vals = {k * one + f for k in ks if abs(k) < K for f in fr} | {K * one - 1, -K * one + 1}
        return sorted(vals)
    p = ti.p
    if ti.char2:
        return list(range(p))
    return sorted({0, 1, 2, 3, p - 1, p - 2, p // 2, p // 2 + 1, rng.randrange(p), rng.randrange(p), rng.randrange(p)})


def gen_extreme_case(rng, ti, ranged):
    """(list, items): items present and absent; lists built so that the differences to an absent item are
    powers of two / multiples of 2^(l/2) / tiny fractions (products of differences overflow, underflow or
    vanish modulo 2^l) or are extreme"""
    E = extreme_values(rng, ti, ranged)
    lo, hi = E[0], E[-1]
    maxn = 12
    if ti.kind == 'fld':
        maxn = min(12, ti.p - 2)
    n = rng.choice([1, 2, 3, 5, 8, maxn, rng.randrange(1, maxn + 1)])
    n = min(n, maxn)
    mode = rng.randrange(4)
    t = rng.choice(E)
    if ti.kind == 'fld':
        if ti.char2:
            xs = rng.sample(E, n)                       # distinct: count <= 1 (F-C31-2 is about even counts)
        else:
            xs = [rng.choice(E) if rng.random() < 0.6 else rng.randrange(ti.p) for _ in range(n)]
    elif mode == 0:
        xs = [rng.choice(E) for _ in range(n)]
    elif mode == 1:
        # differences to t are +-powers of two whose exponents add up to >= l (product = 0 mod 2^l)
        bits = ti.l
        xs = []
        for _ in range(n):
            k = rng.randrange(1, bits - 1)
            for cand in (t + (1 << k), t - (1 << k)):
                if lo <= cand <= hi:
                    xs.append(cand)
                    break
        xs = xs or [t + 1 if t + 1 <= hi else t - 1]
    elif mode == 2:
        # differences are multiples of 2^(l/2) (secint) / of tiny fractions (secfxp: products underflow)
        unit = (1 << (ti.l // 2)) if ti.kind == 'int' else rng.choice([1, 2, 1 << (ti.f // 2)])
        xs = []
        for _ in range(n):
            cand = t + unit * rng.choice([-3, -2, -1, 1, 2, 3])
            if lo <= cand <= hi:
                xs.append(cand)
        xs = xs or [t + 1 if t + 1 <= hi else t - 1]
    else:
        big = [v for v in E if abs(v) >= hi // 2] or E   # long lists of large values (product overflow)
        xs = [rng.choice(big) for _ in range(n)]
    if ti.kind == 'fxp':
        xs = [x if x % ti.one else x + 1 for x in xs]     # keep every element non-integral
    items = []
    if t not in xs:
        items.append(t)
    items.append(rng.choice(xs))
    near = rng.choice(xs) + rng.choice([-1, 1])
    if ti.kind == 'fld':
        near %= ti.p
    if lo <= near <= hi or ti.kind == 'fld':
        items.append(near)
    if ti.char2:
        items = [v for v in items if xs.count(v) <= 1]
    return xs, items


def extreme_history(rng, ti, xs, items, ranged):
    cops = []
    searches = ('contains', 'count') if ti.char2 else ('contains', 'count', 'find', 'index')
    for v in items:
        for op in searches:
            cops.append({'op': op, 'v': v, 'wrap': rng.random() < 0.5})
    ys = list(xs)
    j = rng.randrange(len(ys))
    E = extreme_values(rng, ti, ranged)
    ys[j] = rng.choice([v for v in (ys[j] + 1, ys[j] - 1, rng.choice(E)) if E[0] <= v <= E[-1] or ti.kind == 'fld'] or [ys[j]])
    if ti.kind == 'fld':
        ys[j] %= ti.p
    if ti.kind == 'fxp' and ys[j] % ti.one == 0:
        ys[j] += 1
    cs = CMPS if (ranged and ti.kind != 'fld') else ('eq', 'ne')
    for other in (ys, list(xs)):
        for cc in cs:
            cops.append({'op': 'cmp', 'c': cc, 'swap': rng.random() < 0.5, 'ys': other, 'yform': rng.randrange(3)})
    if ranged and ti.kind != 'fld':
        cops.append({'op': 'sort'})
    if not ti.char2:
        cops.append({'op': 'remove', 'v': rng.choice(items), 'wrap': rng.random() < 0.5})
        cops.append({'op': 'contains', 'v': items[-1], 'wrap': False})
    return cops


# ------------------------------------------------------------------------------------------

def run(ctx):
    import sys
    if not any(a == '--no-log' for a in sys.argv):
        sys.argv = [sys.argv[0], '--no-log']
    from mpyc.runtime import mpc
    from mpyc.seclists import seclist, secindex
    mpc.logging(False)
    mpc.run(mpc.start())
    ok = ctx.build(['MPyC.SecList']) and ctx.check_props()
    rng = ctx.rng
    ctx.rule = ('case = (element type, initial list of length <= 8, history of <= 12 operations); operations drawn from secret-'
                'index get/set/del/insert/pop with index kinds secure number / unit-vector list / secindex(offset) / secindex sum, '
                'public int (negative, out of range) and slice variants, append/extend/+=/+/radd/*/rmul/*=/copy/reverse/sort, '
                'count/contains/find/index/remove (present, duplicate and absent values), six comparisons against equal lists, '
                'prefixes, one-off variants, empties; non-trivial when the history has a secret-index, search, sort or comparison op; '
                'distinct = distinct (type, init, concrete history)')
    ctx.explanation = ('every history is run on the real seclist (state opened after every operation), on a Python list, and in Coq '
                       'on the model (run step) and on the abstract interpreter of the theorems (run pystep); all four traces must agree')

    types = [TI(mpc, 'int'), TI(mpc, 'fxp'), TI(mpc, 'fld', 101), TI(mpc, 'fld', 11), TI(mpc, 'fld', 2**61 - 1)]
    per_type = ctx.n(60, 700)
    maxops = 12
    exprs, meta = [], []
    nviol = 0
    for ti in types:
        for h in range(per_type):
            init, aops, cops = gen_history(rng, ti, maxops if h % 4 else 4)
            ti_tr = run_impl(ti, init, cops, seclist, secindex)
            or_tr = run_oracle(ti, init, cops)
            d = first_diff(ti_tr, or_tr)
            key = {'type': ti.name, 'init': init, 'ops': [coq_op(c) for c in cops]}
            ctx.case(key, nontrivial=nontrivial(cops), kind=ti.name)
            for c in cops:
                k = 'op:' + c['op'] + ('/' + c['key'][0] if 'key' in c else '')
                ctx.hist[k] = ctx.hist.get(k, 0) + 1
            if d is not None:
                nviol += 1
                if nviol <= 6:
                    sinit, saops, scops, sd = shrink(ti, init, aops, seclist, secindex)
                    if scops is None:
                        sinit, scops, sd = init, cops, d
                    si = run_impl(ti, sinit, scops, seclist, secindex)
                    so = run_oracle(ti, sinit, scops)
                    bad = scops[sd]
                    ctx.violation('history-mismatch %s op=%s%s' % (ti.name, bad['op'], ('/' + bad['key'][0]) if 'key' in bad else ''),
                                  {'type': ti.name, 'init': sinit, 'history': scops, 'first_bad_step': sd,
                                   'impl': si[sd] if sd < len(si) else None, 'python_list': so[sd],
                                   'impl_trace': si, 'python_trace': so, 'unshrunk': {'init': init, 'history': cops}})
                continue
            exprs.append('let x := %s in let h := [%s] in (run step x h, run pystep x h, valid_histb x h)' % (
                zlist(init), '; '.join(coq_op(c) for c in cops)))
            meta.append(('hist', ti, key, ti_tr, or_tr))
    ctx.log('%d histories on the implementation vs Python list: %d mismatching' % (len(types) * per_type, nviol))

    # ---- non-unit index vectors: implementation vs model only (the property does not define them)
    nraw = ctx.n(80, 600)
    for h in range(nraw):
        ti = types[h % 3] if h % 5 else types[3]
        n = rng.randrange(1, 6)
        init = [rng.choice(ti.pool) for _ in range(n)]
        cur = n
        cops = []
        for _ in range(rng.randrange(1, 4)):
            op = rng.choice(SECRET_OPS)
            N = cur + 1 if op == 'ins' else cur
            if N == 0:
                break
            vec = [0] * N
            for _k in range(rng.randrange(1, 4)):
                vec[rng.randrange(N)] = rng.choice([-1, 1, 1, 2])
            if rng.random() < 0.4:
                off = rng.randrange(N + 1)
                keyk = ['sec', off, vec[off:]]
            else:
                keyk = ['vec', vec]
            c = {'op': op, 'key': keyk}
            if op in ('set', 'ins'):
                c['v'] = rng.choice(ti.pool)
                c['wrap'] = rng.random() < 0.5
            cops.append(c)
            cur += 1 if op == 'ins' else -1 if op in ('del', 'pop') else 0
        tr = run_impl(ti, init, cops, seclist, secindex)
        key = {'type': ti.name, 'init': init, 'rawvec': [coq_op(c) for c in cops]}
        ctx.case(key, nontrivial=True, kind='rawvec ' + ti.name)
        exprs.append('run step %s' % coq_hist(init, cops))
        meta.append(('raw', ti, key, tr, None))

    # ---- malformed index lengths: IndexError, state unchanged
    nmal = ctx.n(40, 300)
    for h in range(nmal):
        ti = types[h % 3]
        n = rng.randrange(0, 5)
        init = [rng.choice(ti.pool) for _ in range(n)]
        op = rng.choice(SECRET_OPS)
        N = n + 1 if op == 'ins' else n
        L = rng.choice([x for x in (0, N - 1, N + 1, N + 2) if x >= 0 and x != N])
        vec = unit(rng.randrange(L), L) if L else []
        if rng.random() < 0.5 or not L:
            keyk = ['vec', vec]
        else:
            off = rng.randrange(L + 1)
            keyk = ['sec', off, vec[off:]]
        c = {'op': op, 'key': keyk}
        if op in ('set', 'ins'):
            c['v'] = rng.choice(ti.pool)
            c['wrap'] = False
        tr = run_impl(ti, init, [c], seclist, secindex)
        key = {'type': ti.name, 'init': init, 'malformed': coq_op(c)}
        ctx.case(key, nontrivial=False, kind='malformed index length')
        if tr != [(init, ('Err', 'Index'))]:
            ctx.violation('malformed-index-length %s op=%s' % (ti.name, op),
                          {'type': ti.name, 'init': init, 'op': c, 'impl': tr, 'expected': 'IndexError, list unchanged'})
        exprs.append('run step %s' % coq_hist(init, [c]))
        meta.append(('raw', ti, key, tr, None))

    # ---- comparisons of lists of length 4..9 differing at several positions (>= 2 inside one half of the
    #      _norm split), all six operators both ways; the opened result must be exactly Python's 0/1
    ncmp = ctx.n(60, 400)
    for h in range(ncmp):
        ti = types[h % 2] if h % 6 else types[2]
        x, y = gen_cmp_pair(rng, ti)
        cs = CMPS if ti.kind != 'fld' else ('eq', 'ne')
        cops = [{'op': 'cmp', 'c': cc, 'swap': sw, 'ys': y, 'yform': rng.randrange(3)} for cc in cs for sw in (False, True)]
        itr = run_impl(ti, x, cops, seclist, secindex)
        otr = run_oracle(ti, x, cops)
        key = {'type': ti.name, 'x': x, 'y': y, 'cmp': 'all operators, both orders'}
        ctx.case(key, nontrivial=True, kind='cmp multi-diff ' + ti.name)
        d = first_diff(itr, otr)
        if d is not None:
            c = cops[d]
            ctx.violation('comparison-mismatch %s %s%s len %d/%d' % (ti.name, c['c'], ' swapped' if c['swap'] else '', len(x), len(y)),
                          {'type': ti.name, 'x': x, 'y': y, 'operator': c['c'], 'swapped': c['swap'],
                           'impl': itr[d] if d < len(itr) else None, 'python': otr[d]})
            continue
        exprs.append('let x := %s in let h := [%s] in (run step x h, run pystep x h, valid_histb x h)' % (
            zlist(x), '; '.join(coq_op(c) for c in cops)))
        meta.append(('hist', ti, key, itr, otr))

    # ---- the same Python index object reused across consecutive operations (and across two lists)
    nreuse = ctx.n(90, 500)
    for h in range(nreuse):
        ti = types[h % 3]
        kind, bad, detail, lists = reuse_history(rng, ti, seclist, secindex)
        ctx.case({k: detail[k] for k in ('type', 'key', 'inits', 'ops_on_s', 'ops_on_t')}, nontrivial=True, kind='index object reuse/' + kind)
        if bad is not None:
            ctx.violation('index-object-reuse %s kind=%s op=%s' % (ti.name, kind, bad['op']), detail)
            continue
        for (init, cops, itr, otr) in lists:
            exprs.append('let x := %s in let h := [%s] in (run step x h, run pystep x h, valid_histb x h)' % (
                zlist(init), '; '.join(coq_op(c) for c in cops)))
            meta.append(('hist', ti, {'type': ti.name, 'init': init, 'ops': [coq_op(c) for c in cops], 'reuse': True}, itr, otr))

    # ---- extreme in-range values for every value-dependent operation (Python list oracle + Coq model)
    xtypes = [TI(mpc, 'int', l=8), TI(mpc, 'int', l=16), TI(mpc, 'int', l=32), TI(mpc, 'int', l=64),
              TI(mpc, 'fxp', l=32, f=16), TI(mpc, 'fxp', l=16, f=8),
              TI(mpc, 'fld', 11), TI(mpc, 'fld', 13), TI(mpc, 'fld', 101), TI(mpc, 'fld', 257), TI(mpc, 'fld', 65537),
              TI(mpc, 'fld', 2**8, char2=True)]
    xtypes[-1].name = 'secfld(2^8)'
    nx = 0
    for ti in xtypes:
        for h in range(ctx.n(10, 60)):
            ranged = (h % 2 == 1)
            xs, items = gen_extreme_case(rng, ti, ranged)
            if not items:
                continue
            cops = extreme_history(rng, ti, xs, items, ranged)
            itr = run_impl(ti, xs, cops, seclist, secindex)
            otr = run_oracle(ti, xs, cops)
            nx += 1
            key = {'type': ti.name, 'extreme': xs, 'items': items, 'ranged': ranged, 'ops': [coq_op(c) for c in cops]}
            ctx.case(key, nontrivial=True, kind='extreme values ' + ti.name)
            d = first_diff(itr, otr)
            if d is not None:
                c = cops[d]
                before = otr[d - 1][0] if d else xs
                ctx.violation('extreme-values %s op=%s%s' % (ti.name, c['op'], ('/' + c['c']) if 'c' in c else ''),
                              {'type': ti.name, 'list_before': before, 'op': c, 'impl': itr[d] if d < len(itr) else None,
                               'python_list': otr[d], 'init': xs, 'history': cops[:d + 1]})
                continue
            exprs.append('let x := %s in let h := [%s] in (run step x h, run pystep x h, valid_histb x h)' % (
                zlist(xs), '; '.join(coq_op(c) for c in cops)))
            meta.append(('hist', ti, key, itr, otr))
    ctx.extra['extreme_value_cases'] = nx

    # ---- evaluate model and abstract interpreter in Coq
    if ok:
        ctx.log('evaluating %d histories in Coq' % len(exprs))
        res = ctx.coq_eval(['MPyC.SecList'], exprs, chunk=ctx.n(70, 150))
        agree = 0
        for r, (what, ti, key, itr, otr) in zip(res, meta):
            if isinstance(r, tuple) and r and r[0] == 'ERROR':
                ctx.broken.append({'kind': 'correspondence', 'what': 'coq evaluation failed', 'case': key, 'detail': r[1]})
                continue
            try:
                if what == 'hist':
                    mtr, ptr = coq_trace(ti, r[0]), coq_trace(ti, r[1])
                    if r[2] is not True:
                        ctx.broken.append({'kind': 'correspondence', 'what': 'generated history is outside the hypothesis '
                                           'valid_hist of C31_history_refines', 'case': key})
                        continue
                else:
                    mtr, ptr = coq_trace(ti, r), None
            except Exception as e:   # noqa
                ctx.broken.append({'kind': 'correspondence', 'what': 'unparsable Coq value', 'case': key, 'detail': str(e)})
                continue
            itr_c = [([ti.red(v) for v in st] if st is not None else None, o) for st, o in itr]
            if what == 'raw' and ti.kind != 'fld':
                # stay inside the representable range of the secure type (no wrap-around modelled)
                lim = (1 << 30) if ti.kind == 'int' else (1 << (14 + FRAC))
                cut = len(mtr)
                for i, (st, o) in enumerate(mtr):
                    vals = list(st) + ([o[1]] if o and o[0] == 'Z' else [])
                    if any(abs(v) >= lim for v in vals):
                        cut = i
                        break
                mtr, itr_c = mtr[:cut], itr_c[:cut]
            d = first_diff(mtr, itr_c)
            if d is not None:
                ctx.broken.append({'kind': 'correspondence', 'what': 'model (run step) != implementation', 'case': key, 'step': d,
                                   'model': str(mtr[d] if d < len(mtr) else None), 'impl': str(itr_c[d] if d < len(itr_c) else None)})
                continue
            if ptr is not None:
                d = first_diff(ptr, [([ti.red(v) for v in st], o) for st, o in otr])
                if d is not None:
                    ctx.broken.append({'kind': 'correspondence', 'what': 'abstract interpreter (run pystep) != Python list',
                                       'case': key, 'step': d, 'pystep': str(ptr[d] if d < len(ptr) else None), 'python': str(otr[d])})
                    continue
            agree += 1
        ctx.extra['traces_validated_against_impl'] = agree
        ctx.log('Coq model / interpreter agreement on %d of %d histories; broken: %d' % (agree, len(exprs), len(ctx.broken)))

    # ---- Python-list-only streams: extended slices, binary field, lists as long as a small field
    extra_checks(ctx, mpc, seclist, secindex, types)

    # ---- only the length is public (implementation level): twin histories, identical call traces
    tr = CallTrace(mpc)
    nshape, ntw = ctx.n(60, 400), 0
    try:
        for h in range(nshape):
            ti = types[h % 3]
            init, aops, cops = gen_history(rng, ti, 8)
            # remove/index make the PRESENCE of the value public by design (ValueError, like Python)
            # secfld secure-number indices go through to_bits on a prime field, whose rejection sampling makes
            # the trace depend on the (public) random coins: not comparable between two runs
            cut = [i for i, c in enumerate(cops) if c['op'] in ('remove', 'index') or
                   (ti.kind == 'fld' and 'key' in c and c['key'][0] in ('num', 'add'))]
            if cut:
                cops = cops[:cut[0]]
            if not cops:
                continue
            init2, cops2 = twin(rng, ti, init, cops)
            a = traced_run(ti, tr, init, [dict(c) for c in cops], seclist, secindex, rng)
            b = traced_run(ti, tr, init2, cops2, seclist, secindex, rng)
            ntw += 1
            ctx.case({'type': ti.name, 'shape_twin': [coq_op(c) for c in cops], 'init': init, 'init2': init2},
                     nontrivial=nontrivial(cops), kind='shape twin')
            if a != b:
                d = next(i for i, (x, y) in enumerate(zip(a, b)) if x != y)
                ctx.violation('shape-leak %s op=%s' % (ti.name, cops[d]['op']),
                              {'type': ti.name, 'init': init, 'history': cops, 'twin_init': init2, 'twin_history': cops2,
                               'step': d, 'trace': a[d], 'twin_trace': b[d]})
    finally:
        tr.restore()
    ctx.extra['shape_twin_histories'] = ntw
    ctx.extra['public_typed_results_on_empty_lists'] = sum(t.public_results for t in types)

    if ctx.broken and not ctx.violations:
        ctx.unproved('C31 model/proof', {'broken': ctx.broken[:5]})


def extra_checks(ctx, mpc, seclist, secindex, types):
    rng = ctx.rng
    # extended slices (get / del / set with equal length), Python list only
    nx = 0
    for h in range(ctx.n(60, 300)):
        ti = types[h % 3]
        n = rng.randrange(0, 9)
        init = [rng.choice(ti.pool) for _ in range(n)]
        s = seclist([ti.to_impl(v) for v in init], ti.T)
        ref = list(init)
        b = lambda: rng.choice([None, 0, 1, -1, n, rng.randrange(-n - 2, n + 3)])   # noqa: E731
        sl = slice(b(), b(), rng.choice([-3, -2, -1, 2, 3]))
        what = rng.choice(['get', 'del', 'set'])
        if what == 'get':
            got, want = ti.open_list(s[sl]), ref[sl]
        elif what == 'del':
            del s[sl]
            del ref[sl]
            got, want = ti.open_list(s), ref
        else:
            k = len(ref[sl])
            ys = [rng.choice(ti.pool) for _ in range(k)]
            s[sl] = [ti.to_impl(y) for y in ys]
            ref[sl] = ys
            got, want = ti.open_list(s), ref
        nx += 1
        ctx.case({'type': ti.name, 'init': init, 'extslice': [sl.start, sl.stop, sl.step], 'what': what},
                 nontrivial=False, kind='extended slice')
        if got != want:
            ctx.violation('extended-slice %s %s' % (ti.name, what), {'type': ti.name, 'init': init,
                          'slice': [sl.start, sl.stop, sl.step], 'what': what, 'got': got, 'want': want})
    # sort(reverse=True) and sort with key, Python list only
    for h in range(ctx.n(20, 100)):
        ti = types[h % 2]
        init = [rng.choice(ti.pool) for _ in range(rng.randrange(0, 9))]
        s = seclist([ti.to_impl(v) for v in init], ti.T)
        rev = rng.random() < 0.5
        neg = rng.random() < 0.5
        s.sort(key=(lambda a: -a) if neg else None, reverse=rev)
        want = sorted(init, key=(lambda a: -a) if neg else None, reverse=rev)
        got = ti.open_list(s)
        ctx.case({'type': ti.name, 'init': init, 'sort': [neg, rev]}, nontrivial=len(init) > 1, kind='sort key/reverse')
        if sorted(got) != sorted(want) or [(-v if neg else v) for v in got] != [(-v if neg else v) for v in want]:
            ctx.violation('sort %s' % ti.name, {'type': ti.name, 'init': init, 'neg_key': neg, 'reverse': rev, 'got': got, 'want': want})
    ctx.extra['python_list_only_checks'] = nx

    # binary field GF(2^8): unit-vector / secure-number histories against the Python list
    ti = TI(mpc, 'fld', 2**8, char2=True)
    ti.name = 'secfld(2^8)'
    for h in range(ctx.n(40, 200)):
        init, aops, cops = gen_history(rng, ti, 8)
        itr = run_impl(ti, init, cops, seclist, secindex)
        otr = run_oracle(ti, init, cops)
        # canonical -1 in characteristic 2 is 1 (find of an absent value)
        otr = [(st, ('Z', 1) if (c['op'] == 'find' and o == ('Z', -1)) else o) for (st, o), c in zip(otr, cops)]
        d = first_diff(itr, otr)
        ctx.case({'type': ti.name, 'init': init, 'ops': [coq_op(c) for c in cops]}, nontrivial=nontrivial(cops), kind=ti.name)
        if d is not None:
            bad = cops[d]
            st_before = otr[d - 1][0] if d else init
            sig = 'history-mismatch %s op=%s%s' % (ti.name, bad['op'], ('/' + bad['key'][0]) if 'key' in bad else '')
            if bad['op'] in ('index', 'remove') and bad['v'] in st_before and st_before.index(bad['v']) == 1:
                sig = 'index-sentinel-collision %s op=%s first occurrence at position 1 == -1' % (ti.name, bad['op'])
            elif bad['op'] in ('count', 'contains') and st_before.count(bad['v']) >= 2:
                sig = 'count-mod-char %s op=%s occurrences=%d' % (ti.name, bad['op'], st_before.count(bad['v']))
            ctx.violation(sig, {'type': ti.name, 'init': init, 'history': cops[:d + 1], 'first_bad_step': d,
                                'list_before': st_before, 'impl': itr[d] if d < len(itr) else None, 'python_list': otr[d]})
    # deterministic probes of the two characteristic-related defects and of secindex + secindex on secfxp
    F = ti.T
    s = seclist([7, 5, 9], F)
    try:
        r = int(mpc.run(mpc.output(s.index(5))))
        good = r == 1
    except ValueError:
        good = False
    ctx.case('probe index GF(2^8) pos 1', nontrivial=True, kind='probe')
    if not good:
        ctx.violation('index-sentinel-collision secfld(2^8) op=index first occurrence at position 1 == -1',
                      {'list': [7, 5, 9], 'call': 'seclist([7,5,9], SecFld(2**8)).index(5)', 'want': 1, 'got': 'ValueError'})
    s = seclist([3, 5, 3], F)
    r = int(mpc.run(mpc.output(s.contains(3))))
    ctx.case('probe contains GF(2^8) two occurrences', nontrivial=True, kind='probe')
    if r != 1:
        ctx.violation('count-mod-char secfld(2^8) op=contains occurrences=2',
                      {'list': [3, 5, 3], 'call': 'seclist([3,5,3], SecFld(2**8)).contains(3)', 'want': 1, 'got': r})
    F7 = mpc.SecFld(7)
    s = seclist([0, 1, 2, 3, 4, 5, 6], F7)
    ctx.case('probe index GF(7) pos 6', nontrivial=True, kind='probe')
    try:
        r = int(mpc.run(mpc.output(s.index(6))))
        good = r == 6
    except ValueError:
        good = False
    if not good:
        ctx.violation('index-sentinel-collision secfld(7) op=index first occurrence at position 6 == -1',
                      {'list': list(range(7)), 'call': 'seclist(range(7), SecFld(7)).index(6)', 'want': 6, 'got': 'ValueError'})
    # (secindex + secindex is a provisional helper outside the property's operation list: not probed)
