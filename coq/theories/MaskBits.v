(** Layout of the shared random bits inside list/array truncation (runtime.trunc / np_trunc):
    [r_bits = random_bits(Zp, f*n)] and element j's f-bit low mask is the little-endian value of the slice
    [r_bits[f*j : f*(j+1)]].  Because the slices are disjoint and cover the whole bit vector, the map
    bit vectors (length f*n)  ->  mask vectors in [0,2^f)^n  is a bijection: uniform independent bits give
    uniform INDEPENDENT masks (C18: the joint view of the n openings of one call leaks nothing about the low bits). *)
From Coq Require Import ZArith List Lia.
Require Import MPyC.Masked.
Import ListNotations.
Local Open Scope Z_scope.

(** as coded: xr_modf[j] = sum_i r_bits[f*j + i] << i *)
Definition low_masks (f n : nat) (bs : list Z) : list Z :=
  map (fun j => bits_val (firstn f (skipn (f * j) bs))) (seq 0 n).

(** the same, peeling one element at a time *)
Fixpoint low_masks_rec (f n : nat) (bs : list Z) : list Z :=
  match n with
  | O => []
  | S n' => bits_val (firstn f bs) :: low_masks_rec f n' (skipn f bs)
  end.

Lemma skipn_skipn {A} (a b : nat) (l : list A) : skipn a (skipn b l) = skipn (b + a) l.
Proof.
  revert l. induction b as [|b IH]; intros l; [reflexivity|].
  destruct l as [|x l]; [destruct a; reflexivity|]. cbn [skipn Nat.add]. apply IH.
Qed.

Lemma low_masks_eq f n : forall bs, low_masks f n bs = low_masks_rec f n bs.
Proof.
  unfold low_masks. induction n as [|n IH]; intros bs; [reflexivity|].
  cbn [seq map low_masks_rec]. rewrite Nat.mul_0_r. cbn [skipn]. f_equal.
  rewrite <- seq_shift, map_map. rewrite <- IH. apply map_ext. intros j.
  rewrite skipn_skipn. do 3 f_equal. lia.
Qed.

Lemma bits_val_inj : forall a b, Forall bit a -> Forall bit b -> length a = length b ->
  bits_val a = bits_val b -> a = b.
Proof.
  induction a as [|x a IH]; intros [|y b] Ha Hb L E; try discriminate; [reflexivity|].
  inversion Ha as [|? ? Hx Ha']; inversion Hb as [|? ? Hy Hb']; subst. cbn [bits_val length] in *.
  assert (x = y) by (destruct Hx, Hy; subst; lia). subst y. f_equal. apply IH; auto; lia.
Qed.

Lemma Forall_firstn {A} (P : A -> Prop) k l : Forall P l -> Forall P (firstn k l).
Proof. revert l. induction k; intros [|x l] H; cbn; auto. inversion H; subst. constructor; auto. Qed.
Lemma Forall_skipn {A} (P : A -> Prop) k l : Forall P l -> Forall P (skipn k l).
Proof. revert l. induction k; intros [|x l] H; cbn; auto. inversion H; subst. auto. Qed.

Theorem low_masks_length f n bs : length (low_masks f n bs) = n.
Proof. unfold low_masks. rewrite map_length, seq_length. reflexivity. Qed.

Theorem low_masks_range f n bs : Forall bit bs -> length bs = (f * n)%nat ->
  Forall (fun m => 0 <= m < 2 ^ Z.of_nat f) (low_masks f n bs).
Proof.
  rewrite low_masks_eq. revert bs. induction n as [|n IH]; intros bs Hb L; cbn [low_masks_rec]; constructor.
  - pose proof (bits_val_range (firstn f bs) (Forall_firstn _ f bs Hb)) as R.
    rewrite firstn_length_le in R by lia. exact R.
  - apply IH; [apply Forall_skipn, Hb|]. rewrite skipn_length. lia.
Qed.

Theorem low_masks_inj f n : forall bs bs', Forall bit bs -> Forall bit bs' ->
  length bs = (f * n)%nat -> length bs' = (f * n)%nat ->
  low_masks f n bs = low_masks f n bs' -> bs = bs'.
Proof.
  induction n as [|n IH]; intros bs bs' Hb Hb' L L' E.
  - rewrite Nat.mul_0_r in *. destruct bs, bs'; try discriminate; reflexivity.
  - rewrite !low_masks_eq in E. cbn [low_masks_rec] in E. inversion E as [[E1 E2]].
    rewrite <- (firstn_skipn f bs), <- (firstn_skipn f bs'). f_equal.
    + apply bits_val_inj; auto using Forall_firstn. rewrite !firstn_length_le by lia. reflexivity.
    + apply IH; auto using Forall_skipn; rewrite ?skipn_length, ?low_masks_eq; try lia. exact E2.
Qed.

Lemma firstn_len_app {A} (a b : list A) k : length a = k -> firstn k (a ++ b) = a.
Proof. intros <-. induction a as [|x a IH]; cbn; [destruct b; reflexivity|f_equal; exact IH]. Qed.
Lemma skipn_len_app {A} (a b : list A) k : length a = k -> skipn k (a ++ b) = b.
Proof. intros <-. induction a as [|x a IH]; cbn; [reflexivity|exact IH]. Qed.

(** every mask vector is hit: concatenate the f-bit expansions *)
Definition bits_of_masks (f : nat) (ms : list Z) : list Z := flat_map (to_bits f) ms.

Theorem low_masks_surj f : forall ms, Forall (fun m => 0 <= m < 2 ^ Z.of_nat f) ms ->
  Forall bit (bits_of_masks f ms) /\ length (bits_of_masks f ms) = (f * length ms)%nat /\
  low_masks f (length ms) (bits_of_masks f ms) = ms.
Proof.
  intros ms H. rewrite low_masks_eq. induction H as [|m ms Hm _ (IH1 & IH2 & IH3)].
  - cbn. repeat split; try constructor. lia.
  - unfold bits_of_masks in *. cbn [flat_map length low_masks_rec]. split; [|split].
    + apply Forall_app. split; [apply to_bits_bit|exact IH1].
    + rewrite app_length, to_bits_length, IH2. lia.
    + rewrite (firstn_len_app _ _ f), (skipn_len_app _ _ f) by apply to_bits_length.
      rewrite to_bits_val by exact Hm. f_equal. exact IH3.
Qed.

(** the layout a slice-offset slip produces (r_bits[j : j+f]) is NOT injective: bit vectors that differ
    only beyond position n-1+f are indistinguishable, and neighbouring masks share f-1 bits *)
Definition low_masks_overlap (f n : nat) (bs : list Z) : list Z :=
  map (fun j => bits_val (firstn f (skipn j bs))) (seq 0 n).
Example overlap_not_injective :
  low_masks_overlap 2 2 [0;0;0;1] = low_masks_overlap 2 2 [0;0;0;0] /\ low_masks 2 2 [0;0;0;1] <> low_masks 2 2 [0;0;0;0].
Proof. split; [reflexivity|discriminate]. Qed.
