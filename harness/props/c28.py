"""C28 — secure group operations match plain group operations, in every party configuration.

Proof: coq/props/C28.v over coq/theories/SecGrp.v (repeat with secret base = square-and-multiply over
the exponent bits with if_else; repeat with public base = product of the parties' local powers
a^(int(lambda_i x_i)), correct iff ord(a) | |F_x|; refutation witness) and SecFld.v (if_else).
Tie: the real secgroups code runs in the multi-party simulator on genuinely shared group elements
and exponents; every output is compared with the plain group (oracle); for QR / Schnorr groups the
Coq model of the public-base protocol is evaluated on the parties' actual exponent shares and must
reproduce the implementation's output exactly — including the wrong ones (F-C28).
"""
import sys, logging, asyncio
import pickle as _pickle
from lib.core import zlit, zlist, blit
from lib.sim import Sim

MANIFEST = {
    'text': 'Coq theorems over an abstract group (laws as record fields): repeat_secret_base_secret_output (b=b@b; '
            'c=if_else(x_i, c@b, c) over the bits) returns a^x for every bit length l>=1 and 0<=x<2^l; the public-base '
            'protocol (party i computes a^(int(lambda_i x_i)), results multiplied) returns a^x * a^(jP) in general and '
            'a^x under a^P=1 (ord(a) divides the order P of the exponent field) for every sharing, signed or unsigned '
            'representatives; without that hypothesis it is refuted by a vm_compute witness (3 parties, Z_31, order-3 group) '
            '= finding F-C28; exponent laws over Z. Tied to /repo every run: simulator runs (m in {1,3} quick, +5 thorough; '
            'PRSS on/off) of SecGrp over Sym(3..5), QR(l=16), Schnorr(l=64,n=32 and l=32,n=16), Ed25519 '
            'affine/projective/extended, secp256k1 projective: elements by input and by conversion, @ ~ == != if_else, '
            'repeat with public/secret base, public/shared exponents of both types secfld(order) and secint, secret and '
            'public output, vs the plain group; Coq model evaluated on the actual exponent shares (QR/Schnorr) and on the '
            'exponent bits and compared exactly with the implementation output. Aliasing stream: every list-taking '
            'operation (repeat_public with list bases/exponents, output/input/mpctools.reduce of lists of secure group '
            'elements; repeat with lists is rejected synchronously) is called, the caller\'s lists are mutated in place '
            '(reverse/overwrite/del/append), then awaited; expected = plain result for the arguments at call time. Concurrency stream (m=3,t=1): repeat with public and '
            'secret bases and shared exponents, @, ~, if_else, == and inputs from non-zero senders are LAUNCHED without '
            'awaiting, every party yields to its event loop a different number of times, 10-30 unrelated secure '
            'multiplications are issued and awaited, under RandomOrder / Hold / ReverseLinks / Fifo schedules re-armed per '
            'case; all parties must finish within a rounds budget (fresh simulator after a failure) and match the plain group. '
            'Receivers stream (m=3,t=1 and m=2,t=0; thorough m=5): scalar and list outputs of secure group elements of every '
            'family (Sym, QR, Schnorr, EC, class group) to all / single / strict subsets of receivers: receivers get the plain '
            'element, non-receivers None, nobody raises (loop exception handler, pending detection), further operations follow.',
    'note': 'Value/share-level model: group elements are abstract (operation/inversion/equality formulas on secure field '
            'coordinates are the plain fingroups formulas run on secure values — C27 for the formulas, C04 for the field '
            'protocols; not re-modelled here, covered by the simulator oracle). mpctools.reduce (tree) is modelled as a fold '
            '(associativity; C32). pickle in runtime.transfer is wrapped per party so that dynamically created group classes '
            'resolve to that party\'s module copy (simulator artefact, /repo untouched). Secret-exponent repeat on elliptic '
            'curves only with SecInt(4) exponents (a 253-bit exponent takes > 90 s). Hyperelliptic curves not run. Secure class groups Cl(-23), Cl(-227), Cl(-1123) '
            '(+Cl(-2063) thorough) run at m=3,t=1 (PRSS on/off; thorough also (2,0),(5,2)) and m=1 in fresh simulators with a '
            'rounds budget (a hang is reported as a violation): inputs of the reduced forms with the largest leading '
            'coefficients and random forms, @ (incl. squaring, (a@b)@a, a@~b, a*b), ~, ==, !=, if_else, ^k, shared secint '
            'and secfld exponents, every party comparing with its own plain class group. Known findings: F-C28 (public base + shared secint exponent, m>1) and '
            'Sym(n) over a lifted sectype (to_bits TypeError, root cause F-C04-1), F-C28-3 (repeat_public reads its list '
            'arguments only after the first await).',
    'technique': 'Coq proof over abstract group + multi-party simulator differential check vs plain group oracle and vm_compute share-level replay',
}


class PickleShim:
    """pickle for one party copy: class lookups by module name must hit THAT party's mpyc modules"""

    def __init__(self, mods):
        self.mods = mods

    def _swap(self, f, *a):
        saved = {k: sys.modules.get(k) for k in self.mods}
        sys.modules.update(self.mods)
        try:
            return f(*a)
        finally:
            for k, v in saved.items():
                if v is None:
                    sys.modules.pop(k, None)
                else:
                    sys.modules[k] = v

    def dumps(self, obj, *a, **k):
        return self._swap(_pickle.dumps, obj)

    def loads(self, data, *a, **k):
        return self._swap(_pickle.loads, data)


def mkgroup(fg, spec):
    k = spec[0]
    if k == 'sym':
        return fg.SymmetricGroup(spec[1])
    if k == 'qr':
        return fg.QuadraticResidues(l=spec[1])
    if k == 'sg':
        return fg.SchnorrGroup(l=spec[1], n=spec[2])
    if k == 'ec':
        return fg.EllipticCurve(spec[1], spec[2])
    raise ValueError(spec)


def canon(el):
    """plain group element -> JSON-able canonical value"""
    v = el.value
    if isinstance(v, (tuple, list)):
        return [int(c) if not hasattr(c, 'value') else int(c.value) % type(c).modulus if isinstance(c.value, int) else int(c.value)
                for c in v]
    if hasattr(v, 'value'):
        return int(v.value) % type(v).modulus
    return int(v)


def elements(G, spec):
    """(g, h, cyc, cyc_order): two elements, and an element of known prime order with that order"""
    if spec[0] == 'sym':
        n = spec[1]
        g = G(list(range(1, n)) + [0])                      # n-cycle
        h = G([1, 0] + list(range(2, n)))                   # transposition
        cp = n if n in (3, 5) else 3                        # prime cycle length
        cyc = G(list(range(1, cp)) + [0] + list(range(cp, n)))
        return g, h, cyc, cp
    g = G.generator
    return g, g ^ 5, g, G.order


def make_prog(spec, plan):
    async def prog(mpc, mods, pid):
        fg = mods['mpyc.fingroups']
        mods['mpyc.runtime'].pickle = PickleShim(mods)
        G = mkgroup(fg, spec)
        secgrp = mpc.SecGrp(G)
        m = len(mpc.parties)
        g, h, cyc, cord = elements(G, spec)
        ident = G.identity
        out = []          # (label, ok, got, want)
        info = {'sectype': secgrp.sectype.__name__, 'lifted': getattr(secgrp.sectype, 'subfield', None) is not None,
                'order': int(getattr(G, 'order', 0) or 0), 'cyc_order': cord}

        def rec(lbl, got, want):
            out.append((lbl, bool(got == want), canon(got) if hasattr(got, 'value') else got,
                        canon(want) if hasattr(want, 'value') else want))
        # elements by input (genuinely shared) and by conversion
        a = mpc.input(secgrp(g if pid == 0 else ident), senders=0)
        b = mpc.input(secgrp(h if pid == m - 1 else ident), senders=m - 1)
        ca = secgrp(g)
        r = await mpc.output([a, b, ca, secgrp.identity])
        for lbl, got, want in zip(('input a', 'input b', 'convert g', 'identity'), r, (g, h, g, ident)):
            rec(lbl, got, want)
        if 'ops' in plan:
            r = await mpc.output([a @ b, b @ a, a @ a, a @ h, g @ b, ~a, ~b, a @ ~a, (a @ b) @ a, ca @ b])
            want = [g @ h, h @ g, g @ g, g @ h, g @ h, ~g, ~h, ident, (g @ h) @ g, g @ h]
            for lbl, got, w in zip(('a@b', 'b@a', 'a@a', 'a@plain', 'plain@b', '~a', '~b', 'a@~a', '(a@b)@a', 'conv@b'), r, want):
                rec(lbl, got, w)
            e = await mpc.output([a == b, a == a, a != b, a == g, b == g, (a @ b) == (g @ h), a != a])
            for lbl, got, w in zip(('a==b', 'a==a', 'a!=b', 'a==plain g', 'b==plain g', 'a@b==plain', 'a!=a'), e,
                                   (int(g == h), 1, int(g != h), 1, int(h == g), 1, 0)):
                rec(lbl, int(got), w)
            c1 = mpc.input(secgrp.sectype(1 if pid == 0 else 0), senders=0)
            c0 = mpc.input(secgrp.sectype(0), senders=m - 1)
            r = await mpc.output([secgrp.if_else(c1, a, b), secgrp.if_else(c0, a, b), secgrp.if_else(c1, ident, b),
                                  secgrp.if_else(c0, a, ident), secgrp.if_else(c1, g, h), secgrp.if_else(1 - c1, a, secgrp.identity)])
            for lbl, got, w in zip(('if_else(1,a,b)', 'if_else(0,a,b)', 'if_else(1,id,b)', 'if_else(0,a,id)', 'if_else(1,g,h) plain',
                                    'if_else(0,a,id) sec'), r, (g, h, ident, ident, g, ident)):
                rec(lbl, got, w)
            if G.is_additive:
                r = await mpc.output([a + b, -a, a - b])
                for lbl, got, w in zip(('a+b', '-a', 'a-b'), r, (g @ h, ~g, g @ ~h)):
                    rec(lbl, got, w)
            elif G.is_multiplicative:
                r = await mpc.output([a * b, 1 / a, a / b])
                for lbl, got, w in zip(('a*b', '1/a', 'a/b'), r, (g @ h, ~g, g @ ~h)):
                    rec(lbl, got, w)
        for k in plan.get('pubexp', []):
            rec('secret-base public-exp ^%d' % k, await mpc.output(a ^ k), g ^ k)
        shares = []
        # public base, shared exponent (both exponent types), secret and public output
        for (etype, exps) in plan.get('pubbase', []):
            if etype == 'secfld':
                st = mpc.SecFld(cord)
            else:
                st = mpc.SecInt(etype[1])
            P = st.field.order if getattr(st, 'subfield', None) is None else st.subfield.order
            signed = etype != 'secfld' and bool(st.field.is_signed)
            for x in exps:
                sx = mpc.input(st(x if pid == 0 else 0), senders=0)
                xi = await mpc.gather(sx)
                rs = await mpc.output(secgrp.repeat(cyc, sx))
                rp = await secgrp.repeat_public(cyc, sx)
                xs = xi.value if isinstance(xi.value, int) else None
                name = 'secfld' if etype == 'secfld' else 'secint'
                out.append(('repeat public-base shared-%s-exponent out=secret x=%d' % (name, x), bool(rs == (cyc ^ x)), canon(rs), canon(cyc ^ x)))
                out.append(('repeat public-base shared-%s-exponent out=public x=%d' % (name, x), bool(rp == (cyc ^ x)), canon(rp), canon(cyc ^ x)))
                shares.append((name, x, int(P), signed, xs, canon(rs), canon(rp)))
        # secret base, shared exponent
        for (etype, exps) in plan.get('secbase', []):
            if etype == 'secfld':
                st = mpc.SecFld(cord)
                base, pbase = (a, g) if spec[0] != 'sym' else (mpc.input(secgrp(cyc if pid == 0 else ident), senders=0), cyc)
            else:
                st = mpc.SecInt(etype[1])
                base, pbase = a, g
            for x in exps:
                sx = mpc.input(st(x if pid == m - 1 else 0), senders=m - 1)
                rs = await mpc.output(secgrp.repeat(base, sx))
                name = 'secfld' if etype == 'secfld' else 'secint'
                out.append(('repeat secret-base shared-%s-exponent x=%d l=%d' % (name, x, st.bit_length), bool(rs == (pbase ^ x)), canon(rs), canon(pbase ^ x)))
        return {'info': info, 'out': out, 'shares': shares, 'pid': pid, 'g': canon(cyc),
                'modulus': int(G.field.order) if spec[0] in ('qr', 'sg') else None}
    return prog



def sym_lifted(spec, m, t):
    """SecGrp(Sym(n)) has sectype SecFld(min_order=n) = GF(p), p the least prime >= n; it is lifted (known defect F-C28-2:
    to_bits TypeError, program never completes) iff t > 0 and m >= p"""
    if spec[0] != 'sym':
        return False
    pn = next(q for q in (2, 3, 5, 7, 11, 13, 17) if q >= spec[1])
    return t > 0 and m >= pn


def reduced_forms(D):
    """all reduced primitive positive definite forms of discriminant D (brute force, independent of mpyc)"""
    import math
    out = []
    a = 1
    while 3 * a * a <= -D:
        for b in range(-a + 1, a + 1):
            if (b * b - D) % (4 * a):
                continue
            c = (b * b - D) // (4 * a)
            if c < a or math.gcd(math.gcd(a, abs(b)), c) != 1:
                continue
            if (a == c or abs(b) == a) and b < 0:
                continue
            out.append((a, b, c))
        a += 1
    return out


def make_classgroup_prog(D, pairs, plan):
    """Secure class group Cl(D): elements by input of plain forms; every result compared with mpyc.fingroups by EVERY party."""
    async def prog(mpc, mods, pid):
        fg = mods['mpyc.fingroups']
        mods['mpyc.runtime'].pickle = PickleShim(mods)
        G = fg.ClassGroup(Delta=D)
        secgrp = mpc.SecGrp(G)
        m = len(mpc.parties)
        ident = G.identity
        out = []

        def rec(lbl, got, want):
            out.append((lbl, bool(got == want), canon(got) if hasattr(got, 'value') else got,
                        canon(want) if hasattr(want, 'value') else want))
        for i, (f1, f2) in enumerate(pairs):
            p1, p2 = G(f1), G(f2)
            a = mpc.input(secgrp(p1 if pid == i % m else ident), senders=i % m)
            b = mpc.input(secgrp(p2 if pid == (i + 1) % m else ident), senders=(i + 1) % m)
            tag = '%s,%s' % (list(f1), list(f2))
            rec('input ' + tag, await mpc.output(a), p1)
            rec('a@b ' + tag, await mpc.output(a @ b), p1 @ p2)
            if i < plan['full']:
                rec('a@a ' + tag, await mpc.output(a @ a), p1 @ p1)
                rec('(a@b)@a ' + tag, await mpc.output((a @ b) @ a), (p1 @ p2) @ p1)
                rec('~a ' + tag, await mpc.output(~a), ~p1)
                rec('a@~b ' + tag, await mpc.output(a @ ~b), p1 @ ~p2)
                e = await mpc.output([a == b, a == a, a != b, (a @ b) == (p1 @ p2)])
                for lbl, got, w in zip(('a==b', 'a==a', 'a!=b', 'a@b==plain'), e, (int(p1 == p2), 1, int(p1 != p2), 1)):
                    rec(lbl + ' ' + tag, int(got), w)
                c1 = mpc.input(secgrp.sectype(1 if pid == 0 else 0), senders=0)
                r = await mpc.output([secgrp.if_else(c1, a, b), secgrp.if_else(1 - c1, a, b)])
                rec('if_else(1,a,b) ' + tag, r[0], p1)
                rec('if_else(0,a,b) ' + tag, r[1], p2)
                rec('a*b ' + tag, await mpc.output(a * b), p1 @ p2)
        f1 = pairs[0][0]
        p1 = G(f1)
        a = mpc.input(secgrp(p1 if pid == 0 else ident), senders=0)
        for k in plan['pubexp']:
            rec('secret-base public-exp ^%d %s' % (k, list(f1)), await mpc.output(a ^ k), p1 ^ k)
        for (l, x) in plan['secexp']:
            st = mpc.SecInt(l)
            sx = mpc.input(st(x if pid == m - 1 else 0), senders=m - 1)
            rec('repeat secret-base shared-secint-exponent x=%d l=%d %s' % (x, l, list(f1)), await mpc.output(secgrp.repeat(a, sx)), p1 ^ x)
        for (q, x) in plan['pubbase_fld']:
            st = mpc.SecFld(q)
            sx = mpc.input(st(x if pid == 0 else 0), senders=0)
            rec('repeat public-base shared-secfld-exponent out=secret x=%d %s' % (x, list(f1)), await mpc.output(secgrp.repeat(p1, sx)), p1 ^ x)
            rec('repeat public-base shared-secfld-exponent out=public x=%d %s' % (x, list(f1)), await secgrp.repeat_public(p1, sx), p1 ^ x)
        for x in plan['pubbase_int']:
            st = secgrp.sectype
            sx = mpc.input(st(x if pid == 0 else 0), senders=0)
            rec('repeat public-base shared-secint-exponent out=secret x=%d' % x, await mpc.output(p1 ** sx), p1 ^ x)
        return {'out': out}
    return prog


ALIAS_MUTATIONS = ['none', 'reverse', 'overwrite', 'del', 'append']


def _mutate(lst, how, alt):
    if how == 'reverse':
        lst.reverse()
    elif how == 'overwrite':
        lst[0] = alt
    elif how == 'del':
        del lst[0]
    elif how == 'append':
        lst.append(alt)


def make_alias_prog(spec):
    """Aliasing stream: call an operation taking caller-owned lists, mutate the lists in place, THEN await.
    Expected = plain group result for the arguments at call time."""
    async def prog(mpc, mods, pid):
        fg = mods['mpyc.fingroups']
        mods['mpyc.runtime'].pickle = PickleShim(mods)
        mpctools = mods['mpyc.mpctools']
        G = mkgroup(fg, spec)
        secgrp = mpc.SecGrp(G)
        m = len(mpc.parties)
        g, h, cyc, cord = elements(G, spec)
        ident = G.identity
        secfld = mpc.SecFld(cord)
        out = []           # (label, ok, got, want)
        bases = [cyc, cyc ^ 2, cyc ^ 3]
        exps = [2, 3, 5]
        want = (bases[0] ^ exps[0]) @ (bases[1] ^ exps[1]) @ (bases[2] ^ exps[2])

        def shared_exps(vals):
            return mpc.input([secfld(v if pid == 0 else 0) for v in vals], senders=0)
        # 1. repeat_public(list of bases, list of shared exponents)
        for which in ('x', 'a'):
            for how in ALIAS_MUTATIONS:
                a = list(bases)
                x = shared_exps(exps)
                alt = shared_exps([7])[0] if which == 'x' else cyc ^ 4
                fut = secgrp.repeat_public(a, x)
                _mutate(x if which == 'x' else a, how, alt)
                got = await fut
                out.append(('aliasing repeat_public arg=%s mutation=%s' % (which, how), bool(got == want), canon(got), canon(want)))
        # 2. secgrp.repeat with lists (docstring: "possibly a, x are lists"): unsupported by the code => synchronous error
        try:
            a = list(bases)
            x = shared_exps(exps)
            r = secgrp.repeat(a, x)
            a.reverse()
            got = await mpc.output(r)
            wl = [b ^ e for b, e in zip(bases, exps)]
            out.append(('aliasing repeat(list,list) mutation=reverse', bool(list(got) == wl), [canon(v) for v in got], [canon(v) for v in wl]))
        except (AssertionError, TypeError, AttributeError, ValueError) as exc:
            out.append(('unsupported repeat(list,list): ' + type(exc).__name__, True, None, None))
        # 3. output / input / reduce of lists of secure group elements
        plain = [g, h, g @ h]
        for how in ALIAS_MUTATIONS:
            sec = mpc.input([secgrp(v if pid == 0 else ident) for v in plain], senders=0)
            alt = secgrp(ident)
            fut = mpc.output(sec)
            _mutate(sec, how, alt)
            got = await fut
            out.append(('aliasing output(list) mutation=%s' % how, bool(list(got) == plain), [canon(v) for v in got], [canon(v) for v in plain]))
            lst = [secgrp(v if pid == 0 else ident) for v in plain]
            shared = mpc.input(lst, senders=0)
            _mutate(lst, how, alt)
            got = await mpc.output(shared)
            out.append(('aliasing input(list) mutation=%s' % how, bool(list(got) == plain), [canon(v) for v in got], [canon(v) for v in plain]))
            sec = mpc.input([secgrp(v if pid == 0 else ident) for v in plain], senders=0)
            r = mpctools.reduce(secgrp.operation, sec)
            _mutate(sec, how, alt)
            got = await mpc.output(r)
            wr = (g @ h) @ (g @ h)
            out.append(('aliasing reduce(operation, list) mutation=%s' % how, bool(got == wr), canon(got), canon(wr)))
        return {'out': out}
    return prog


def make_conc_prog(spec, case):
    """Concurrency stream: secure group operations are LAUNCHED without awaiting, then 10-30 unrelated secure
    multiplications are issued and awaited, then the launched results are output.  spec = group family or ('cl', D)."""
    async def prog(mpc, mods, pid):
        fg = mods['mpyc.fingroups']
        mods['mpyc.runtime'].pickle = PickleShim(mods)
        m = len(mpc.parties)
        if spec[0] == 'cl':
            G = fg.ClassGroup(Delta=spec[1])
            fs = reduced_forms(spec[1])
            g, h = G(fs[-1]), G(fs[len(fs) // 2])
            cyc, cord = g, len(fs)
        else:
            G = mkgroup(fg, spec)
            g, h, cyc, cord = elements(G, spec)
        secgrp = mpc.SecGrp(G)
        ident = G.identity
        secint = mpc.SecInt(16)
        out = []
        k1, k2, k3 = case['senders']
        # fresh inputs from NON-ZERO senders, not awaited
        a = mpc.input(secgrp(g if pid == k1 else ident), senders=k1)
        b = mpc.input(secgrp(h if pid == k2 else ident), senders=k2)
        launched = []
        if 'pubbase' in case['ops']:
            st = mpc.SecFld(cord)
            e = case['e'] % cord
            x = mpc.input(st(e if pid == k3 else 0), senders=k3)
            launched.append(('repeat public-base shared-secfld-exponent x=%d' % e, secgrp.repeat(cyc, x), cyc ^ e))
        if 'secbase' in case['ops']:
            st3 = mpc.SecInt(3)
            e3 = case['e'] % 8
            x3 = mpc.input(st3(e3 if pid == k1 else 0), senders=k1)
            launched.append(('repeat secret-base shared-secint-exponent x=%d' % e3, secgrp.repeat(a, x3), g ^ e3))
        if 'op' in case['ops']:
            launched.append(('a@b', a @ b, g @ h))
            launched.append(('~b', ~b, ~h))
        if 'if_else' in case['ops']:
            c = mpc.input(secgrp.sectype(case['c'] if pid == k2 else 0), senders=k2)
            launched.append(('if_else(%d,a,b)' % case['c'], secgrp.if_else(c, a, b), g if case['c'] else h))
        eqs = []
        if 'eq' in case['ops']:
            eqs = [('a==b', a == b, int(g == h)), ('a==a', a == a, 1)]
        # local scheduling differences: each party yields to its event loop a different number of times right after
        # launching (the sender's pending coroutines may run before it issues the unrelated work, the others' after)
        for _ in range(case['yields'][pid]):
            await asyncio.sleep(0)
        # unrelated secure work, issued and awaited by all parties in the same order
        for j in range(case['nmul']):
            if j == case['nmul'] // 2:
                for _ in range(case['yields'][(pid + 1) % m]):
                    await asyncio.sleep(0)
            y = mpc.input(secint(pid + j + 2))
            z = y[0] * y[-1] + j
            v = await mpc.output(z)
            out.append(('unrelated mul %d' % j, int(v) == (j + 2) * (j + m + 1) + j, int(v), (j + 2) * (j + m + 1) + j))
        for lbl, r, want in launched:
            got = await mpc.output(r)
            out.append((lbl, bool(got == want), canon(got), canon(want)))
        for lbl, r, want in eqs:
            got = await mpc.output(r)
            out.append((lbl, int(got) == want, int(got), want))
        return {'out': out}
    return prog


def concurrency_stream(ctx, counters):
    import random as _random
    from lib.sim import RandomOrder, ReverseLinks, Hold, Fifo
    rng = ctx.rng
    m, t = 3, 1
    names = ['RandomOrder', 'Hold', 'ReverseLinks', 'Fifo']

    def policy(k):
        nm = names[k % len(names)]
        if nm == 'RandomOrder':
            return RandomOrder(_random.Random(ctx.seed * 7907 + 5 + k))
        if nm == 'ReverseLinks':
            return ReverseLinks()
        if nm == 'Hold':
            return Hold({(0, 1), (2, 0), (1, 2)}, 40)
        return Fifo()
    plan = []
    for spec, n in ((('qr', 16), ctx.n(4, 12)), (('sg', 32, 16), ctx.n(3, 12)), (('sym', 4), ctx.n(2, 6)),
                    (('ec', 'Ed25519', 'extended'), ctx.n(1, 3)), (('cl', -227), ctx.n(1, 3))):
        for i in range(n):
            heavy = spec[0] in ('ec', 'cl')
            ops = ['pubbase', 'op', 'if_else', 'eq'] + ([] if heavy else ['secbase'])
            if heavy:
                ops = ['pubbase', 'op'] if spec[0] == 'ec' else ['op', 'if_else']
            plan.append((spec, {'ops': ops, 'e': rng.randrange(1, 2 ** 12), 'c': rng.randrange(2), 'nmul': rng.randrange(10, 31),
                                'senders': [rng.choice([1, 2]), rng.choice([1, 2]), rng.randrange(3)],
                                'yields': rng.choice([[0, 4, 1], [5, 0, 2], [1, 2, 6], [3, 0, 0], [0, 0, 5]])}))
    sim = None
    nbad = 0
    try:
        for k, (spec, case) in enumerate(plan):
            if sym_lifted(spec, m, t):
                continue
            gname = '%s(%s)' % (spec[0], ','.join(map(str, spec[1:])))
            pname = names[k % len(names)]
            if sim is None:
                sim = Sim(m=m, t=t, no_prss=bool(k % 2 and ctx.tier == 'thorough'), seed=ctx.seed + 311 + k, log_messages=False, track_tasks=False)
                errs = []
                sim.loop.set_exception_handler(lambda loop, c, errs=errs: errs.append(repr(c.get('exception') or c.get('message'))[:160]))
                sim.start(Fifo())
            del errs[:]
            res = sim.run(make_conc_prog(spec, case), policy(k), idle_limit=4000, max_rounds=ctx.n(1500000, 6000000))
            key = {'concurrent': case, 'group': gname, 'policy': pname}
            ctx.case(key, kind='concurrent m=3 ' + pname)
            counters['conc'] += 1
            if not all(isinstance(r, dict) for r in res):
                nbad += 1
                ctx.violation('concurrent did-not-complete %s ops=%s policy=%s' % (gname, '+'.join(case['ops']), pname),
                              {'case': case, 'group': gname, 'policy': pname, 'results': [repr(r)[:160] for r in res],
                               'loop_errors': [e for e in errs if 'CancelledError' not in e][:3], 'rounds': getattr(sim, 'rounds', None)})
                sim.close()
                sim = None                       # fresh simulator after a hang
                continue
            bad = [(pid, lbl, got, want) for pid, r in enumerate(res) for (lbl, okv, got, want) in r['out'] if not okv]
            if bad:
                nbad += 1
                ctx.violation('concurrent wrong-result %s op=%s policy=%s' % (gname, bad[0][1].split(' x=')[0], pname),
                              {'case': case, 'group': gname, 'policy': pname, 'bad': [list(map(str, b)) for b in bad[:6]]})
                sim.close()
                sim = None                       # state may be corrupted (mismatched program counters)
    finally:
        if sim is not None:
            sim.close()
    ctx.extra['concurrent_cases_m3'] = len(plan)
    ctx.log('concurrency stream m=3: %d cases, %d bad' % (len(plan), nbad))


def make_recv_prog(spec, rsets):
    """Outputs of secure group elements to all / strict subsets / single receivers (scalar and list form), followed by
    further secure operations so that a crashed or desynchronised party is noticed."""
    async def prog(mpc, mods, pid):
        fg = mods['mpyc.fingroups']
        mods['mpyc.runtime'].pickle = PickleShim(mods)
        m = len(mpc.parties)
        if spec[0] == 'cl':
            G = fg.ClassGroup(Delta=spec[1])
            fs = reduced_forms(spec[1])
            g, h = G(fs[-1]), G(fs[len(fs) // 2])
        else:
            G = mkgroup(fg, spec)
            g, h, _c, _o = elements(G, spec)
        secgrp = mpc.SecGrp(G)
        ident = G.identity
        a = mpc.input(secgrp(g if pid == 1 % m else ident), senders=1 % m)
        b = mpc.input(secgrp(h if pid == m - 1 else ident), senders=m - 1)
        out = []
        for R in rsets:
            mine = R is None or pid in R
            got = await mpc.output(a, receivers=R)
            okv = (got == g) if mine else (got is None)
            out.append(('output scalar receivers=%s' % (R,), bool(okv), canon(got) if got is not None else None, canon(g) if mine else None))
            got = await mpc.output([a, b], receivers=R)
            if mine:
                okv = isinstance(got, list) and len(got) == 2 and got[0] == g and got[1] == h
                cg = [canon(v) for v in got] if isinstance(got, list) and all(v is not None for v in got) else repr(got)[:80]
                out.append(('output list receivers=%s' % (R,), bool(okv), cg, [canon(g), canon(h)]))
            else:
                # non-receiver: only Nones (the COUNT of Nones for tuple-share groups is C07's finding F-C07-4)
                okv = isinstance(got, list) and len(got) >= 2 and all(v is None for v in got)
                out.append(('output list receivers=%s' % (R,), bool(okv), repr(got)[:80] if not okv else len(got), 2))
            # further operations: everybody must still be in step
            got = await mpc.output(~a if spec[0] in ('ec', 'cl') else a @ b)
            want = ~g if spec[0] in ('ec', 'cl') else g @ h
            out.append(('after receivers=%s: next op' % (R,), bool(got == want), canon(got), canon(want)))
        got = await mpc.output(a @ b)
        out.append(('final a@b', bool(got == g @ h), canon(got), canon(g @ h)))
        return {'out': out}
    return prog


def receivers_stream(ctx):
    from lib.sim import Fifo
    nrec = 0
    families = [('sym', 4), ('sym', 5), ('qr', 16), ('sg', 32, 16), ('ec', 'Ed25519', 'extended'),
                ('ec', 'secp256k1', 'projective'), ('cl', -227)] + ctx.n([], [('sg', 64, 32), ('ec', 'Ed25519', 'affine'), ('cl', -1123)])
    for (m, t) in [(3, 1), (2, 0)] + ctx.n([], [(5, 2)]):
        if m == 3:
            rsets = [None, [0], [1], [2], [0, 2], [1, 2]]
        elif m == 2:
            rsets = [[0], [1], None]
        else:
            rsets = [None, [4], [0, 3], [1, 2, 4]]
        cfg = 'm=%d,t=%d,prss' % (m, t)
        sim = None
        try:
            for spec in families:
                if sym_lifted(spec, m, t):
                    continue                                  # lifted sectype: F-C28-2 (main stream)
                gname = '%s(%s)' % (spec[0], ','.join(map(str, spec[1:])))
                rs = rsets if spec[0] not in ('ec', 'cl') or ctx.tier == 'thorough' else rsets[:4] if m == 3 else rsets
                if sim is None:
                    sim = Sim(m=m, t=t, seed=ctx.seed + 17 * m, log_messages=False, track_tasks=False)
                    errs = []
                    sim.loop.set_exception_handler(lambda loop, c, errs=errs: errs.append(repr(c.get('exception') or c.get('message'))[:200]))
                    sim.start(Fifo())
                del errs[:]
                res = sim.run(make_recv_prog(spec, rs), idle_limit=3000 if t > 0 else 50000, max_rounds=ctx.n(1500000, 6000000))
                loop_errs = [e for e in errs if 'CancelledError' not in e]
                if not all(isinstance(r, dict) for r in res) or loop_errs:
                    ctx.case({'cfg': cfg, 'group': gname, 'receivers': 'failed'}, kind='receivers m=%d' % m)
                    ctx.violation('output-receivers party-crashed-or-pending %s %s' % (gname, cfg),
                                  {'cfg': cfg, 'group': gname, 'receiver_sets': rs, 'results': [repr(r)[:200] for r in res],
                                   'loop_errors': loop_errs[:3]})
                    sim.close()
                    sim = None
                    continue
                for pid, r in enumerate(res):
                    for (lbl, okv, got, want) in r['out']:
                        nrec += 1
                        if pid == 0:
                            ctx.case({'cfg': cfg, 'group': gname, 'op': lbl}, kind='receivers m=%d' % m)
                        if not okv:
                            ctx.violation('output-receivers wrong %s op=%s party=%d %s' % (gname, lbl, pid, cfg),
                                          {'cfg': cfg, 'group': gname, 'op': lbl, 'party': pid, 'got': got, 'want': want})
        finally:
            if sim is not None:
                sim.close()
    ctx.extra['receiver_subset_outputs_checked'] = nrec
    ctx.log('receivers stream: %d per-party outputs checked' % nrec)


def lagrange_at_zero(P, m):
    lams = []
    for i in range(1, m + 1):
        num, den = 1, 1
        for j in range(1, m + 1):
            if j != i:
                num = num * (0 - j) % P
                den = den * (i - j) % P
        lams.append(num * pow(den, -1, P) % P)
    return lams


def run(ctx):
    lvl = logging.root.manager.disable
    logging.disable(logging.WARNING)
    try:
        _run(ctx)
    finally:
        logging.disable(lvl)


def _run(ctx):
    ok = ctx.build(['MPyC.SecGrp']) and ctx.check_props()
    # on a broken tree thousands of outputs can be wrong: keep the first 60 replay files, count the rest
    _viol, _new = ctx.violation, [0, 0]

    def capped(sig, detail, found_input=True):
        if _new[0] >= 60:
            _new[1] += 1
            ctx.extra['violations_not_written'] = _new[1]
            return 'new'
        r = _viol(sig, detail, found_input)
        if r == 'new':
            _new[0] += 1
        return r
    ctx.violation = capped
    rng = ctx.rng
    configs = [(1, 0), (3, 1)] + ctx.n([], [(2, 0), (5, 2)])
    ctx.rule = ('case = (config (m,t,prss), group, operation, operands/exponent); group elements and exponents genuinely shared '
                'by mpc.input; exponents 1..12 for the public-base sweep on Schnorr(64,32); non-trivial = every case')
    ctx.explanation = ('outputs of the real secgroups protocols vs the plain group; Coq share-level model of the public-base '
                       'protocol on the actual shares reproduces the implementation output exactly (QR/Schnorr)')
    specs = [('sym', 3), ('sym', 4), ('sym', 5), ('qr', 16), ('sg', 64, 32), ('sg', 32, 16),
             ('ec', 'Ed25519', 'extended'), ('ec', 'Ed25519', 'projective'), ('ec', 'Ed25519', 'affine'),
             ('ec', 'secp256k1', 'projective')]
    coq_exprs, coq_meta = [], []
    nout = 0
    nalias = 0
    alias_notes = set()
    for (m, t) in configs:
        for no_prss in (False, True):
            cfg = 'm=%d,t=%d,%s' % (m, t, 'noprss' if no_prss else 'prss')
            for spec in specs:
                gname = '%s(%s)' % (spec[0], ','.join(map(str, spec[1:])))
                heavy = spec[0] == 'ec'
                if heavy and no_prss and spec[2] != 'extended' and ctx.tier == 'quick':
                    continue                    # quick tier: one EC coordinate system with PRSS off
                if heavy and m >= 5 and spec[2] in ('affine', 'projective') and spec[1] == 'Ed25519':
                    continue
                plan = {'ops': True, 'pubexp': [0, 1, 2, 5, -1, -3] if not heavy else [2, -3]}
                if spec == ('sg', 64, 32):
                    plan['pubbase'] = [('secfld', list(range(1, 13))), (('secint', 32), list(range(1, 13)))]
                    plan['secbase'] = [('secfld', [rng.randrange(1, 2 ** 31)]), (('secint', 4), [0, 5, 15])]
                elif spec[0] in ('qr', 'sg'):
                    plan['pubbase'] = [('secfld', [1, 2, rng.randrange(3, 2 ** 14)]), (('secint', 16), list(range(1, 7)))]
                    plan['secbase'] = [('secfld', [1, rng.randrange(2, 2 ** 14)]), (('secint', 4), [0, 1, 6, 15])]
                elif spec[0] == 'sym':
                    plan['pubbase'] = [('secfld', [0, 1, 2]), (('secint', 8), list(range(1, 7)))]
                    plan['secbase'] = [(('secint', 4), [0, 3, 7])] + ([('secfld', [1, 2])] if spec[1] in (3, 5) else [])
                else:
                    plan['pubbase'] = [('secfld', [1, rng.randrange(2, 2 ** 200)]), (('secint', 32), list(range(1, 5)))]
                    plan['secbase'] = [(('secint', 4), [5])] if spec[2] == 'extended' or ctx.tier == 'thorough' else []
                sim = Sim(m=m, t=t, no_prss=no_prss, seed=ctx.seed + 7 * m, log_messages=False, track_tasks=False)
                errs = []
                sim.loop.set_exception_handler(lambda loop, c: errs.append(repr(c.get('exception') or c.get('message'))))
                try:
                    sim.start()
                    res = sim.run(make_prog(spec, plan), idle_limit=10 ** 8 if m == 1 else 3000 if t > 0 else 50000)
                    if all(isinstance(r, dict) for r in res):
                        sim.shutdown()
                finally:
                    sim.close()
                if not all(isinstance(r, dict) for r in res):
                    lifted_sym = sym_lifted(spec, m, t)
                    typeerr = any('Binary field or prime field required' in e for e in errs)
                    ctx.case({'cfg': cfg, 'group': gname, 'failed': True}, kind='failed program')
                    if lifted_sym and typeerr:
                        sig = 'Sym(n) over lifted sectype GF(p) p<=m to_bits TypeError %s %s' % (gname, cfg)
                    else:
                        sig = 'program-failed %s %s' % (gname, cfg)
                    ctx.violation(sig, {'cfg': cfg, 'group': gname, 'plan': plan, 'results': [repr(r)[:200] for r in res],
                                        'loop_errors': errs[:3]})
                    continue
                r0 = res[0]
                for r in res[1:]:
                    if r['out'] != r0['out']:
                        ctx.violation('party-disagreement %s %s' % (gname, cfg), {'cfg': cfg, 'group': gname})
                        break
                for (lbl, okv, got, want) in r0['out']:
                    nout += 1
                    ctx.case({'cfg': cfg, 'group': gname, 'op': lbl}, kind=spec[0] + (' m=%d' % m))
                    if not okv:
                        if lbl.startswith('repeat public-base shared-secint-exponent'):
                            sig = 'repeat public-base shared-secint-exponent %s %s %s' % ('m>1' if m > 1 else 'm=1', gname, lbl.split('exponent ')[1])
                        else:
                            sig = 'wrong-result %s op=%s %s' % (gname, lbl, cfg)
                        ctx.violation(sig, {'cfg': cfg, 'group': gname, 'op': lbl, 'got': got, 'want': want, 'info': r0['info']})
                # share-level replay in Coq (QR / Schnorr: group elements are integers modulo p)
                if r0['modulus'] is not None:
                    pmod = r0['modulus']
                    for idx, (name, x, P, signed, _xs, rs, rp) in enumerate(r0['shares']):
                        xs = [res[i]['shares'][idx][4] for i in range(m)]
                        if any(v is None for v in xs):
                            continue
                        lams = lagrange_at_zero(P, m)
                        rec = sum(l * v for l, v in zip(lams, xs)) % P
                        if rec != x % P:
                            ctx.violation('shares-do-not-recombine %s %s' % (gname, cfg), {'cfg': cfg, 'x': x, 'shares': xs, 'P': P})
                        coq_exprs.append('(zm_repeat_public %s %s %s %s %s %s, zm_pow %s %s %s)' % (
                            zlit(pmod), blit(signed), zlit(P), zlist(lams), zlist(xs), zlit(r0['g']), zlit(pmod), zlit(r0['g']), zlit(x)))
                        coq_meta.append(('pub', cfg, gname, name, x, rs, rp, xs, P))
                    for (lbl, okv, got, want) in r0['out']:
                        if lbl.startswith('repeat secret-base') and spec[0] in ('qr', 'sg'):
                            x = int(lbl.split('x=')[1].split()[0])
                            l = int(lbl.split('l=')[1])
                            bits = '[' + '; '.join(blit((x >> i) & 1) for i in range(l)) + ']'
                            gg = canon_base(res, spec)
                            coq_exprs.append('zm_repeat_bits %s %s %s' % (zlit(pmod), zlit(gg), bits))
                            coq_meta.append(('bits', cfg, gname, lbl, x, got))
            # aliasing stream: list-taking operations, caller's lists mutated between call and await
            for spec in [('qr', 16), ('sg', 32, 16)] + ctx.n([], [('sym', 5), ('ec', 'Ed25519', 'extended')]):
                if sym_lifted(spec, m, t):
                    continue                    # F-C28-2 class: exercised and classified by the main stream
                gname = '%s(%s)' % (spec[0], ','.join(map(str, spec[1:])))
                sim = Sim(m=m, t=t, no_prss=no_prss, seed=ctx.seed + 5 * m + 1, log_messages=False, track_tasks=False)
                errs = []
                sim.loop.set_exception_handler(lambda loop, c: errs.append(repr(c.get('exception') or c.get('message'))))
                try:
                    sim.start()
                    res = sim.run(make_alias_prog(spec), idle_limit=10 ** 8 if m == 1 else 3000 if t > 0 else 50000)
                    if all(isinstance(r, dict) for r in res):
                        sim.shutdown()
                finally:
                    sim.close()
                if not all(isinstance(r, dict) for r in res):
                    ctx.violation('aliasing-program-failed %s %s' % (gname, cfg), {'cfg': cfg, 'group': gname,
                                  'results': [repr(r)[:200] for r in res], 'loop_errors': errs[:3]})
                    continue
                for r in res[1:]:
                    if r['out'] != res[0]['out']:
                        ctx.violation('party-disagreement aliasing %s %s' % (gname, cfg), {'cfg': cfg, 'group': gname})
                        break
                for (lbl, okv, got, want) in res[0]['out']:
                    nout += 1
                    nalias += 1
                    ctx.case({'cfg': cfg, 'group': gname, 'op': lbl}, kind='aliasing m=%d' % m)
                    if lbl.startswith('unsupported'):
                        alias_notes.add(lbl)
                    if not okv:
                        # sig starts with the operation: 'aliasing repeat_public ...' is the known late read (F-C28-3)
                        ctx.violation('%s %s %s' % (lbl, gname, cfg), {'cfg': cfg, 'group': gname, 'op': lbl, 'got': got, 'want': want,
                                      'program': 'fut = op(lists); mutate caller lists in place; await fut; expected = result for the arguments at call time'})
            ctx.log('%s: %d outputs checked so far' % (cfg, nout))
    # ---- secure class groups (every @ goes through _reduce/_bit_length/_divmod): fresh simulator per (Delta, config),
    # rounds-based budget so that a hang ends as a violation
    cl_configs = [(3, 1, False), (3, 1, True), (1, 0, False)] + ctx.n([], [(2, 0, False), (5, 2, False)])
    ncl = 0
    for (m, t, no_prss) in cl_configs:
        cfg = 'm=%d,t=%d,%s' % (m, t, 'noprss' if no_prss else 'prss')
        for D in [-23, -227, -1123] + ctx.n([], [-2063]):
            if (m == 1 or (no_prss and ctx.tier == 'quick')) and D == -23:
                continue
            if no_prss and ctx.tier == 'quick' and D == -1123:
                continue
            if D == -2063 and (m, t, no_prss) != (3, 1, False):
                continue
            if m >= 5 and D == -23:
                continue
            forms = reduced_forms(D)
            big = sorted(forms, key=lambda f: -f[0])
            # products / powers of several forms happen on the secure side ((a@b)@a, a@a, ^k); inputs: the forms with the
            # largest leading coefficient (longest reductions) first, then random pairs
            pairs = [(big[0], big[1 % len(big)]), (big[0], big[0])] + [(rng.choice(forms), rng.choice(forms)) for _ in range(ctx.n(2, 4))]
            light = m == 1 or no_prss or m >= 5 or t == 0
            h = len(forms)                     # class number = group order (prime for these discriminants)
            plan = {'full': 1 if light else 2,
                    'pubexp': [2, -3] if not light else [3],
                    'secexp': [(3, 5)] if not light else [],
                    'pubbase_fld': [(h, rng.randrange(1, h))] if h in (3, 5, 7, 11, 13) and (t == 0 or m < h) else [],
                    'pubbase_int': [rng.randrange(1, 6)] if m == 1 else []}
            if light:
                pairs = pairs[:ctx.n(3, 4)]
            sim = Sim(m=m, t=t, no_prss=no_prss, seed=ctx.seed + 11 * m + 3, log_messages=False, track_tasks=False)
            errs = []
            sim.loop.set_exception_handler(lambda loop, c: errs.append(repr(c.get('exception') or c.get('message'))))
            try:
                sim.start()
                res = sim.run(make_classgroup_prog(D, pairs, plan), idle_limit=10 ** 8 if m == 1 else 3000 if t > 0 else 50000,
                              max_rounds=ctx.n(1500000, 6000000))
                if all(isinstance(r, dict) for r in res):
                    sim.shutdown()
            finally:
                sim.close()
            gname = 'Cl(%d)' % D
            if not all(isinstance(r, dict) for r in res):
                ctx.case({'cfg': cfg, 'group': gname, 'failed': True}, kind='failed program')
                ctx.violation('class-group program did not complete %s %s' % (gname, cfg),
                              {'cfg': cfg, 'group': gname, 'pairs': pairs, 'plan': plan, 'rounds': getattr(sim, 'rounds', None),
                               'results': [repr(r)[:200] for r in res], 'loop_errors': errs[:3]})
                continue
            for pid, r in enumerate(res):              # every party compares with its own plain class group
                for (lbl, okv, got, want) in r['out']:
                    if pid == 0:
                        nout += 1
                        ncl += 1
                        ctx.case({'cfg': cfg, 'group': gname, 'op': lbl}, kind='classgroup m=%d' % m)
                    if not okv:
                        if lbl.startswith('repeat public-base shared-secint-exponent'):
                            sig = 'repeat public-base shared-secint-exponent %s %s %s' % ('m>1' if m > 1 else 'm=1', gname, lbl.split('exponent ')[1])
                        else:
                            sig = 'wrong-result %s op=%s party=%d %s' % (gname, lbl, pid, cfg)
                        ctx.violation(sig, {'cfg': cfg, 'group': gname, 'op': lbl, 'party': pid, 'got': got, 'want': want})
        ctx.log('class groups %s: %d outputs checked so far' % (cfg, ncl))
    ctx.extra['classgroup_outputs_checked'] = ncl
    counters = {'conc': 0}
    concurrency_stream(ctx, counters)
    receivers_stream(ctx)
    ctx.extra['implementation_outputs_checked'] = nout
    ctx.extra['aliasing_cases'] = nalias
    for nt in sorted(alias_notes):
        ctx.notes.append('aliasing stream: ' + nt + ' (secgrp.repeat does not accept lists despite its docstring; raised synchronously)')
    ctx.log('evaluating %d model expressions in Coq' % len(coq_exprs))
    if ok and coq_exprs:
        out = ctx.coq_eval(['MPyC.SecGrp'], coq_exprs, chunk=40)
        mism = 0
        predicted_wrong = 0
        for r, mt in zip(out, coq_meta):
            if isinstance(r, tuple) and r and r[0] == 'ERROR':
                mism += 1
                ctx.broken.append({'kind': 'correspondence', 'what': 'coq evaluation failed', 'case': [str(v) for v in mt[:5]], 'detail': r[1][:300]})
                continue
            if mt[0] == 'pub':
                _, cfg, gname, name, x, rs, rp, xs, P = mt
                model, ax = r
                if model != ax:
                    predicted_wrong += 1
                for which, impl in (('secret', rs), ('public', rp)):
                    if model != impl:
                        mism += 1
                        ctx.broken.append({'kind': 'correspondence', 'what': 'public-base share-level replay, out=' + which,
                                           'cfg': cfg, 'group': gname, 'etype': name, 'x': x, 'shares': xs, 'P': P,
                                           'model': model, 'impl': impl})
            else:
                _, cfg, gname, lbl, x, got = mt
                model = r[1] if isinstance(r, tuple) and r[0] == 'Some' else r
                if model != got:
                    mism += 1
                    ctx.broken.append({'kind': 'correspondence', 'what': 'secret-base bits replay', 'cfg': cfg, 'group': gname,
                                       'op': lbl, 'model': model, 'impl': got})
        ctx.extra['traces_validated_against_impl'] = len(coq_exprs) - mism
        ctx.extra['model_predicts_wrong_public_base_results'] = predicted_wrong
        ctx.log('model/implementation disagreements: %d; share-level model predicts %d wrong public-base results '
                '(sum of int(lambda_i x_i) = x + jP with a^P != 1)' % (mism, predicted_wrong))
    if ctx.broken and not ctx.violations:
        ctx.unproved('C28 model/proof', {'broken': ctx.broken[:5]})


def canon_base(res, spec):
    """canonical integer of the secret base a = generator (QR / Schnorr)"""
    return res[0]['g']
