"""C22 — field elements survive serialisation.

Proof: coq/props/C22.v over coq/theories/Serial.v (to_bytes/from_bytes, byte_length, signed_/unsigned_/
__int__).  Tie: real F.to_bytes / F.from_bytes / byte_length / signed_ / unsigned_ / int() compared
exactly with the model on the same lists / byte strings.  Pickle: exercised on the implementation.
"""
import pickle
import copy
from lib.core import zlit, zlist, natlit

MANIFEST = {
    'text': 'Coq theorems: from_bytes r (to_bytes r vs) = vs for every width r >= 1 and every list (any length, incl. empty) of '
            'values in [0,256^r), with r bytes per value; out-of-range values are rejected; byte_length(q) >= 1 and '
            'q <= 256^byte_length(q) for every order q >= 1, hence every list of reduced values of any field round-trips; '
            'signed_ v is congruent to v mod p with -p/2 < signed_ v <= p/2, unsigned_ v = v, int() converts back to the '
            'element; pickle_same_field: recreating a prime field from (p, n, root) hits the cache key of GF((p, n, w)) for '
            'every w. The model is compared exactly with the real classmethods on every run (list lengths 0..40 for five '
            'fields, ten lengths in 0..40 for the other 30, all field kinds for the byte functions; prime fields for the '
            'signed views); the implementation oracle runs lengths 0..40 on all 35 fields.',
    'note': 'bytes/int.to_bytes/int.from_bytes of CPython are modelled (little-endian digits base 256), not verified. '
            'For extension/binary fields the byte functions act on the integer image of the polynomial value '
            '(gfpx _to_int/_from_int, not modelled in Coq here): covered by the implementation oracle F(from_bytes(to_bytes)) '
            'only. Pickle: only the cache-key contract is modelled (GF() normalises w mod p, pGF stores root = w mod p, '
            '__reduce__ recreates from (p, n, root)): theorem pickle_same_field for every w, and a refutation for the '
            'un-normalised variant (the code before /repo 35f6b0f, finding F-C22-1, fixed); functools.cache and the pickle '
            'machinery themselves are not verified: tested on the implementation (equal element, same cached field class '
            'object, protocols 0..5, copy/deepcopy), incl. prime fields made from tuple moduli (p, n, w) with w negative, '
            'canonical and >= p. Array classes: only class identity / pickle / bytes of F.array on tuple-modulus fields when '
            'NumPy is importable (it is not in /venv). Array stream (subprocess under /verif/.venv-np, skipped with a note when '
            'absent): signed_/unsigned_/intarray/abs/int()/repr/tolist of PrimeFieldArray, and to_bytes/from_bytes and pickle of '
            'prime, extension (incl. order bit lengths = 1 mod 8: GF(7^3), GF(17^2), GF(5^7), GF(257^2)) and binary field arrays '
            'must agree elementwise with the scalar element methods (all values for p <= 257, boundary (p-1)/2, (p+1)/2 and '
            'random values above); the array classes are tested, not modelled.',
    'technique': 'Coq proof (induction over lists / base-256 digits) + vm_compute correspondence + implementation oracle incl. pickle',
}


ARRAY_SCRIPT = r"""
import os, sys, json, random, pickle
cfg = json.loads(sys.stdin.read())
os.environ['MPYC_MAXWORKERS'] = '0'
from mpyc import finfields
from mpyc.numpy import np
assert np, 'NumPy not importable'
rng = random.Random(cfg['seed'] * 104729 + 22)
fails, ncase, hist = [], 0, {}

def bad(sig, **kw):
    if len(fails) < 60:
        fails.append([sig, kw])

def flat(x):
    return np.asarray(x).reshape(-1).tolist()

fields = []
for t in cfg['primes']:
    if isinstance(t, list):
        fields.append(('GF((%d, %d, %d))' % tuple(t), finfields.GF(tuple(t)), t[0], 'prime'))
    else:
        fields.append(('GF(%d)' % t, finfields.GF(t), t, 'prime'))
for (pp, dd) in cfg['ext']:
    fields.append(('GF(%d^%d)' % (pp, dd), finfields.GF(finfields.find_irreducible(pp, dd)), pp ** dd, 'binary' if pp == 2 else 'extension'))

for name, F, q, kind in fields:
    r = F.byte_length
    if q <= 257:
        base = list(range(q))
    else:
        base = [0, 1, 2, (q - 1) // 2 - 1, (q - 1) // 2, (q + 1) // 2, (q + 1) // 2 + 1, q - 2, q - 1, 256 ** (r - 1) if 256 ** (r - 1) < q else 0]
        base += [rng.randrange(q) for _ in range(cfg['nrand'])]
    streams = [('all', base, None)]
    for n in cfg['sizes']:
        vals = [rng.choice(base) for _ in range(n)]
        shape = {6: (2, 3), 12: (3, 4), 24: (2, 3, 4)}.get(n) if rng.random() < 0.5 else None
        streams.append(('n=%d' % n, vals, shape))
    for v in base[:12]:
        streams.append(('0-dim', [v], ()))
    for label, vals, shape in streams:
        ncase += 1
        hist[kind] = hist.get(kind, 0) + 1
        key = dict(field=name, stream=label, shape=list(shape) if shape is not None else None)
        try:
            els = [F(v) for v in vals]
            a = F.array(np.array(vals, dtype=object)) if vals else F.array([])
            if shape is not None:
                a = a.reshape(shape)
            if type(a) is not F.array or type(a).field is not F:
                bad('array-type ' + name, **key)
            # elements of the array are the scalar elements
            tl = a.tolist()
            tlf = [tl] if shape == () else flat(np.array(tl, dtype=object)) if vals else []
            if [int(e.value) if hasattr(e, 'value') else e for e in tlf] != [int(e.value) for e in els] or any(type(e) is not F for e in tlf):
                bad('array-tolist-differs ' + name, values=vals, **key)
            if kind == 'prime':
                p = q
                sg, us = flat(a.signed_()), flat(a.unsigned_())
                ia = flat(F.array.intarray(a))
                ab = flat(abs(a))
                want_s = [e.signed_() for e in els]
                if [int(x) for x in sg] != want_s or any(not (-p < 2 * int(x) <= p) or (int(x) - v) % p for x, v in zip(sg, vals)):
                    bad('array-signed-view-differs-from-scalar ' + name, values=vals, got=[int(x) for x in sg], want=want_s, **key)
                if [int(x) for x in us] != [e.unsigned_() for e in els] or [int(x) for x in us] != vals:
                    bad('array-unsigned-view-differs-from-scalar ' + name, values=vals, got=[int(x) for x in us], **key)
                if [int(x) for x in ia] != [int(e) for e in els]:
                    bad('array-intarray-differs-from-scalar ' + name, values=vals, got=[int(x) for x in ia], **key)
                if [int(x) for x in ab] != [abs(e) for e in els]:
                    bad('array-abs-differs-from-scalar ' + name, values=vals, got=[int(x) for x in ab], **key)
                if np.asarray(a.signed_()).shape != a.shape:
                    bad('array-signed-view-shape ' + name, **key)
                if shape == ():
                    if int(a) != int(els[0]) or abs(a) != abs(els[0]):
                        bad('array-int-differs-from-scalar ' + name, values=vals, got=int(a), want=int(els[0]), **key)
                if repr(a) != '%s' % (F.array.intarray(a),):
                    bad('array-repr-differs ' + name, values=vals, **key)
                if vals and not bool((F.array(np.asarray(a.signed_(), dtype=object)) == a).all()):
                    bad('array-signed-view-not-a-representative ' + name, values=vals, **key)
            # bytes: array values through to_bytes/from_bytes == scalar values
            fv = a.value.reshape(-1)
            data = F.to_bytes(fv)
            want = b''.join(int(e.value).to_bytes(r, 'little') for e in els)
            back = F.from_bytes(data)
            if data != want or back != vals or len(data) != r * len(vals) or data != F.to_bytes([e.value for e in els]):
                bad('array-bytes-differ ' + name, values=vals, got=list(data)[:60], back=back[:40], **key)
            if vals and not bool((F.array(np.array(back, dtype=object)).reshape(a.shape) == a).all()):
                bad('array-bytes-roundtrip ' + name, values=vals, **key)
            # pickle round trip of the array
            for proto in (2, pickle.HIGHEST_PROTOCOL):
                b = pickle.loads(pickle.dumps(a, protocol=proto))
                if type(b) is not type(a) or type(b).field is not F or b.shape != a.shape or \
                        [int(x) for x in flat(b.value)] != [int(x) for x in flat(a.value)] or (vals and not bool((b == a).all())):
                    bad('array-pickle-roundtrip ' + name, values=vals, protocol=proto, **key)
        except Exception as ex:
            import traceback
            bad('array-stream-raises ' + name, error=repr(ex), tb=traceback.format_exc()[-700:], values=vals[:20], **key)
print('RESULT ' + json.dumps({'fails': fails, 'cases': ncase, 'hist': hist}))
"""


def array_stream(ctx, p61, p64):
    """Integer views, bytes and pickle of field ARRAYS (NumPy) against the scalar element methods, in a subprocess
    under the NumPy interpreter."""
    import json, os, subprocess
    from lib.core import PYNP, impl_env
    if not os.path.exists(PYNP):
        ctx.notes.append('array stream skipped: %s not present' % PYNP)
        return 0
    cfg = {'seed': ctx.seed, 'nrand': ctx.n(20, 200), 'sizes': [0, 1, 2, 3, 5, 6, 8, 12, 13, 24, 40],
           'primes': [2, 3, 5, 7, 11, 13, 31, 101, 251, 257, 65537, p61, p64, 2 ** 127 - 1, [7, 2, -1], [11, 5, 14], [p64, 2, -1]],
           'ext': [(3, 2), (3, 4), (7, 3), (17, 2), (5, 7), (257, 2), (2, 1), (2, 8), (2, 9), (2, 16), (2, 17)]}
    try:
        pr = subprocess.run([PYNP, '-c', ARRAY_SCRIPT], input=json.dumps(cfg), text=True, env=impl_env(),
                            stdout=subprocess.PIPE, stderr=subprocess.PIPE, timeout=ctx.n(150, 900))
    except subprocess.TimeoutExpired:
        ctx.violation('array-stream-failed', {'error': 'timeout'})
        return 0
    line = [l for l in pr.stdout.split('\n') if l.startswith('RESULT ')]
    if pr.returncode or not line:
        ctx.violation('array-stream-failed', {'error': (pr.stderr or pr.stdout)[-1500:]})
        return 0
    res = json.loads(line[-1][7:])
    for sig, detail in res['fails']:
        ctx.violation(sig, detail)
    for k, v in res['hist'].items():
        ctx.hist['array ' + k] = ctx.hist.get('array ' + k, 0) + v
    ctx.evaluations += res['cases']
    ctx._distinct.update('array #%d' % i for i in range(res['cases']))
    return res['cases']


def run(ctx):
    from mpyc import finfields, gmpy
    ok = ctx.build(['MPyC.Serial']) and ctx.check_props()
    rng = ctx.rng
    ctx.rule = ('case = (field, list of values) for lengths 0..40 with boundary values 0, 1, q-1, 255/256-multiples; '
                'plus arbitrary byte strings incl. lengths not divisible by the width; plus (field, element) for the '
                'integer views and pickle; all elements for order <= 257')
    ctx.explanation = ('round-trip theorem for all lists/widths in Coq; model compared exactly with to_bytes/from_bytes/'
                       'byte_length/signed_/unsigned_ of the real classes; pickle checked on the implementation')

    p61 = 2 ** 61 - 1
    p64 = 18446744073709551557
    primes = [2, 3, 5, 7, 11, 13, 17, 29, 31, 101, 251, 257, 65537, p61, p64, 2 ** 127 - 1]
    fields = [('GF(%d)' % p, finfields.GF(p), p, 'prime') for p in primes]
    for dd in [1, 2, 3, 4, 5, 6, 7, 8, 9, 16, 17]:
        fields.append(('GF(2^%d)' % dd, finfields.GF(finfields.find_irreducible(2, dd)), 2 ** dd, 'binary'))
    for (pp, dd) in [(3, 2), (3, 3), (3, 4), (5, 2), (5, 3), (7, 2), (3, 6), (257, 2), (7, 3), (17, 2), (5, 7)]:     # last four: order bit length = 1 mod 8
        fields.append(('GF(%d^%d)' % (pp, dd), finfields.GF(finfields.find_irreducible(pp, dd)), pp ** dd, 'extension'))

    exprs, meta = [], []

    def bad(sig, **kw):
        ctx.violation(sig, kw)

    # ---- byte_length: model vs class attribute, and wide enough
    orders = sorted(set([q for _, _, q, _ in fields] + [1, 2, 255, 256, 257, 65535, 65536, 65537, 2 ** 64 - 1, 2 ** 64, 2 ** 64 + 1] +
                        [rng.randrange(1, 2 ** rng.randrange(1, 140)) for _ in range(ctx.n(40, 400))]))
    exprs.append('map Serial.byte_length %s' % zlist(orders))
    meta.append(('bl', orders, [(q.bit_length() + 7) >> 3 for q in orders]))
    for name, F, q, kind in fields:
        r = F.byte_length
        if r != (q.bit_length() + 7) >> 3 or r < 1 or q > 256 ** r:
            bad('byte_length-wrong ' + name, field=name, got=r)
        if F.order != q:
            bad('order-wrong ' + name, field=name, got=F.order)

    # ---- to_bytes / from_bytes
    nrt = 0
    for name, F, q, kind in fields:
        r = F.byte_length
        lens = list(range(0, 41))
        b_vs, b_data, b_back, b_fb, b_fbback = [], [], [], [], []
        full_model = ctx.tier == 'thorough' or name in ('GF(2)', 'GF(257)', 'GF(2^8)', 'GF(3^4)', 'GF(%d)' % p64)
        for n in lens:
            for rep in range(ctx.n(1, 4)):
                pool = [0, 1, q - 1, q // 2, min(q - 1, 255), min(q - 1, 256), min(q - 1, 65535), rng.randrange(q), rng.randrange(q),
                        rng.randrange(q)]
                top = 256 ** (r - 1)          # values needing the full width: integer value >= 256^(byte_length-1)
                if top < q:
                    pool += [top, rng.randrange(top, q), rng.randrange(top, q), q - 2 if q > 2 else 0]
                vs = [rng.choice(pool) if rng.random() < 0.6 else rng.randrange(q) for _ in range(n)]
                if kind == 'prime':
                    x = list(vs)
                    elems = [F(v) for v in vs]
                else:
                    elems = [F(v) for v in vs]
                    x = [e.value for e in elems] if rep % 2 == 0 else list(vs)     # polynomial values, or ints
                try:
                    data = F.to_bytes(x)
                except OverflowError as ex:
                    bad('to_bytes-rejects-field-value ' + name, field=name, values=vs, byte_length=r, error=repr(ex))
                    continue
                back = F.from_bytes(data)
                nrt += 1
                if not isinstance(data, bytes) or len(data) != r * n:
                    bad('to_bytes-length ' + name, field=name, values=vs, got=len(data))
                if back != vs or [F(b) for b in back] != elems:
                    bad('roundtrip-wrong ' + name, field=name, values=vs, got=back)
                ctx.case({'f': name, 'vs': vs}, nontrivial=n > 0, kind='%s len' % kind + ('=0' if n == 0 else '<=8' if n <= 8 else '>8'))
                if full_model or n in (0, 1, 2, 3, 5, 8, 13, 21, 34, 40):
                    b_vs.append(vs)
                    b_data.append(list(data))
                    b_back.append(back)
        # arbitrary byte strings (decode only), incl. trailing partial chunk
        for rep in range(ctx.n(6, 30)):
            ln = rng.choice([0, 1, r - 1, r, r + 1, 2 * r, 3 * r + 1, rng.randrange(0, 5 * r + 3)])
            data = bytes(rng.choice([0, 1, 255, 128, rng.randrange(256)]) for _ in range(max(ln, 0)))
            back = F.from_bytes(data)
            want = [int.from_bytes(data[i:i + r], 'little') for i in range(0, len(data), r)]
            if back != want:
                bad('from_bytes-wrong ' + name, field=name, data=list(data), got=back)
            b_fb.append(list(data))
            b_fbback.append(back)
            ctx.case({'f': name, 'data': list(data)}, nontrivial=ln > 0, kind='%s decode' % kind)
        exprs.append('(map (Serial.to_bytes %s) [%s], map (Serial.from_bytes %s) [%s])' % (
            natlit(r), '; '.join(zlist(v) for v in b_vs), natlit(r), '; '.join(zlist(d) for d in b_data + b_fb)))
        meta.append(('rt', name, b_vs, b_data, b_back + b_fbback))
        # out-of-range value: rejected
        for v in (256 ** r, -1):
            try:
                F.to_bytes([1, v])
                bad('to_bytes-accepts-out-of-range ' + name, field=name, value=v)
            except OverflowError:
                pass
            exprs.append('Serial.to_bytes %s %s' % (natlit(r), zlist([1, v])))
            meta.append(('rej', name, v, None))

    # ---- integer views (prime fields): signed_/unsigned_/int; all elements for p <= 257
    nview = 0
    for name, F, q, kind in fields:
        if q <= 257:
            vals = list(range(q))
        else:
            vals = sorted(set([0, 1, 2, q - 1, q - 2, q // 2, q // 2 + 1, q // 2 - 1, (q >> 1) + 2] + [rng.randrange(q) for _ in range(ctx.n(30, 300))]))
        if kind == 'prime':
            p = q
            sg, us, iv = [], [], []
            for v in vals:
                e = F(v)
                s, u, i = e.signed_(), e.unsigned_(), int(e)
                sg.append(s)
                us.append(u)
                iv.append(i)
                nview += 1
                if (s - v) % p != 0 or not (-p < 2 * s <= p) or u != v or i != s or F(s) != e or F(u) != e or F(i) != e:
                    bad('signed-unsigned-wrong ' + name, field=name, v=v, signed=s, unsigned=u, int=i)
                if abs(e) != abs(s):
                    bad('abs-wrong ' + name, field=name, v=v)
                ctx.case({'f': name, 'view': v}, nontrivial=v > 0, kind='prime views')
            if not F.is_signed:
                bad('is_signed-false ' + name, field=name)
            exprs.append('(map (Serial.signed %s) %s, map (Serial.unsigned %s) %s, map (Serial.to_int true %s) %s)' % (
                zlit(p), zlist(vals), zlit(p), zlist(vals), zlit(p), zlist(vals)))
            meta.append(('view', name, vals, (sg, us, iv)))
        else:
            for v in vals:
                e = F(v)
                i = int(e)
                nview += 1
                if i != v or F(i) != e or not 0 <= i < q:
                    bad('int-view-wrong ' + name, field=name, v=v, int=i)
                ctx.case({'f': name, 'view': v}, nontrivial=v > 0, kind='%s views' % kind)

    # ---- pickle: equal element of the same field class object
    npk = 0
    for name, F, q, kind in fields:
        vals = list(range(q)) if q <= 64 else sorted(set([0, 1, q - 1, q // 2] + [rng.randrange(q) for _ in range(ctx.n(12, 100))]))
        for v in vals:
            e = F(v)
            for proto in range(0, pickle.HIGHEST_PROTOCOL + 1):
                y = pickle.loads(pickle.dumps(e, protocol=proto))
                npk += 1
                if type(y) is not F or not (y == e) or y != e or int(y) != int(e) or hash(y) != hash(e) or y.value != e.value:
                    bad('pickle-roundtrip ' + name, field=name, v=v, protocol=proto, got=repr(y), type_same=type(y) is F)
            for y in (copy.copy(e), copy.deepcopy(e)):
                if type(y) is not F or y != e or y is e:
                    bad('copy-roundtrip ' + name, field=name, v=v)
            # the unpickled element computes in the same field
            y = pickle.loads(pickle.dumps(e))
            if (y + e) != (e + e) or type(y * e) is not F:
                bad('pickle-then-compute ' + name, field=name, v=v)
            ctx.case({'f': name, 'pickle': v}, nontrivial=True, kind='%s pickle' % kind)
        lst = [F(v) for v in vals[:10]]
        back = pickle.loads(pickle.dumps(lst))
        if back != lst or any(type(b) is not F for b in back):
            bad('pickle-list ' + name, field=name)
    # ---- prime fields created from tuple moduli (p, n, w), w canonical / negative / >= p
    ntm = 0
    try:
        from mpyc.numpy import np
    except Exception:  # pragma: no cover
        np = None
    tuples = []
    for (p, n, w0) in [(7, 2, 6), (11, 5, 3), (11, 2, 10), (2, 1, 1), (3, 2, 2), (13, 3, 3), (101, 2, 100), (257, 256, 3),
                       (p64, 2, p64 - 1), (2 ** 61 - 1, 2, 2 ** 61 - 2)]:
        for w in (w0 - p, w0, w0 + p, w0 - 3 * p, w0 + 2 * p):     # the defect's order: non-canonical first
            tuples.append((p, n, w))
    for _ in range(ctx.n(10, 60)):
        p = rng.choice([5, 7, 11, 31, 101, 257, p64])
        tuples.append((p, rng.choice([1, 2, 3, 5]), rng.randrange(-3 * p, 3 * p)))
    for (p, n, w) in tuples:
        name = 'GF((%d, %d, %d))' % (p, n, w)
        F = finfields.GF((p, n, w))
        Fc = finfields.GF((p, n, w % p))
        ntm += 1
        if F.modulus != p or F.nth != n or F.root != w % p or F.order != p or F.byte_length != (p.bit_length() + 7) >> 3:
            bad('tuple-modulus-attributes ' + name, modulus=[p, n, w], root=F.root, nth=F.nth)
        if F is not Fc or finfields.GF((p, n, w % p + p)) is not F:
            bad('tuple-modulus-class-identity ' + name, modulus=[p, n, w], other=[p, n, w % p], same_object=F is Fc)
        if (n, w % p) == ((2, p - 1) if p > 2 else (1, 1)) and finfields.GF(p) is not F:
            bad('tuple-modulus-class-identity ' + name, modulus=[p, n, w], other=p, same_object=False)
        if np and (F.array is not Fc.array or F.array.field is not F):
            bad('tuple-modulus-array-identity ' + name, modulus=[p, n, w])
        vals = list(range(p)) if p <= 13 else sorted(set([0, 1, p - 1, p // 2, p // 2 + 1] + [rng.randrange(p) for _ in range(6)]))
        for v in vals:
            a = F(v)
            for proto in (0, 2, pickle.HIGHEST_PROTOCOL):
                b = pickle.loads(pickle.dumps(a, protocol=proto))
                if type(b) is not type(a) or not (b == a) or b != a or b.value != a.value or type(b).root != F.root or type(b).nth != F.nth:
                    bad('tuple-modulus-pickle ' + name, modulus=[p, n, w], v=v, protocol=proto, type_same=type(b) is type(a),
                        equal=bool(b == a) if type(b) is type(a) else False, root=getattr(type(b), 'root', None))
            b = copy.deepcopy(a)
            if type(b) is not F or b != a:
                bad('tuple-modulus-copy ' + name, modulus=[p, n, w], v=v)
            s_, u_, i_ = a.signed_(), a.unsigned_(), int(a)
            if (s_ - v) % p or not (-p < 2 * s_ <= p) or u_ != v or i_ != s_ or F(s_) != a:
                bad('tuple-modulus-views ' + name, modulus=[p, n, w], v=v, signed=s_, unsigned=u_)
            ctx.case({'tm': [p, n, w], 'v': v}, nontrivial=w % p != w, kind='prime tuple-modulus ' + ('canonical w' if w % p == w else 'w outside [0,p)'))
        data = F.to_bytes(vals)
        if F.from_bytes(data) != vals or data != Fc.to_bytes(vals) or len(data) != F.byte_length * len(vals):
            bad('tuple-modulus-bytes ' + name, modulus=[p, n, w], values=vals)
        if np:
            arr = F.array(vals)
            try:
                brr = pickle.loads(pickle.dumps(arr))
                if type(brr) is not type(arr) or type(brr).field is not F or not bool((brr == arr).all()):
                    bad('tuple-modulus-array-pickle ' + name, modulus=[p, n, w])
            except Exception as ex:  # noqa
                bad('tuple-modulus-array-pickle ' + name, modulus=[p, n, w], raised=repr(ex))
            if F.from_bytes(F.to_bytes(arr.value.tolist())) != vals:
                bad('tuple-modulus-array-bytes ' + name, modulus=[p, n, w])
        # the model of the cache keys
        exprs.append('(Serial.pickle_roundtrip true %s %s %s 3, Serial.gf_key true %s %s %s)' % (zlit(p), zlit(n), zlit(w), zlit(p), zlit(n), zlit(w)))
        meta.append(('pk', name, (p, n, w), None))
    ctx.extra['tuple_modulus_fields_checked'] = ntm
    ctx.notes.append('numpy available for the array-type part of the tuple-modulus stream: %s' % bool(np))

    nar = array_stream(ctx, p61, p64)
    ctx.extra['array_cases_numpy_subprocess'] = nar
    ctx.log('array view/bytes/pickle cases (NumPy subprocess): %d' % nar)
    ctx.extra['roundtrips_checked'] = nrt
    ctx.extra['views_checked'] = nview
    ctx.extra['pickles_checked'] = npk
    ctx.extra['exhaustive'] = True
    ctx.extra['exhaustive_what'] = 'integer views of all elements for every field of order <= 257; pickle of all elements for order <= 64'

    ctx.log('%d round trips, %d views, %d pickles on the implementation; evaluating %d model expressions' % (nrt, nview, npk, len(exprs)))
    if ok:
        res = ctx.coq_eval(['MPyC.Serial'], exprs, chunk=10)
        mism = 0
        for r, m in zip(res, meta):
            if isinstance(r, tuple) and r and r[0] == 'ERROR':
                mism += 1
                ctx.broken.append({'kind': 'correspondence', 'what': 'coq evaluation failed', 'case': str(m)[:200], 'detail': r[1]})
                continue
            good = True
            if m[0] == 'bl':
                good = r == m[2]
            elif m[0] == 'rt':
                _, name, vs, data, back = m
                good = list(r[0]) == [('Some', d_) for d_ in data] and list(r[1]) == back
            elif m[0] == 'rej':
                good = r is None
            elif m[0] == 'pk':
                p_, n_, w_ = m[2]
                good = tuple(r) == (p_, n_, w_ % p_, 3, (p_, n_, w_ % p_))     # Coq prints left-nested pairs flat
            elif m[0] == 'view':
                good = (list(r[0]), list(r[1]), list(r[2])) == m[3]
            if not good:
                mism += 1
                ctx.broken.append({'kind': 'correspondence', 'what': m[0], 'case': str(m)[:300], 'model': str(r)[:300]})
        ctx.extra['traces_validated_against_impl'] = len(exprs) - mism
        ctx.log('model/implementation disagreements: %d' % mism)
    if ctx.broken and not ctx.violations:
        ctx.unproved('C22 model/proof', {'broken': ctx.broken[:5]})
