(** C34 — value-level model of mpyc/statistics.py over Z (secure integers; for secure fixed-point
    numbers the same definitions apply to the scaled integers wherever no truncation occurs).
    Randomness of _quickselect (tie bits y, pivot unit vector) comes from the bit tape of RandomFns. *)
From Coq Require Import ZArith List Lia Bool Permutation Sorted.
Require Import MPyC.RandomFns.
Import ListNotations.
Open Scope Z_scope.

Definition zlen (x : list Z) : Z := Z.of_nat (length x).

(** ** mean (statistics.py:59-61): (s + n//2) // n *)
Definition mean_int (x : list Z) : Z :=
  let n := zlen x in (zsum x + n / 2) / n.

(** ** _var (statistics.py:138-146); corr = 1 for variance, 0 for pvariance *)
Definition var_int (x : list Z) (corr : Z) : Z :=
  let n := zlen x in
  let s := zsum x in
  let y := map (fun a => a * n - s) x in
  let d := n * n * (n - corr) in
  (in_prod y y + d / 2) / d.

Definition var_int_m (x : list Z) (m : Z) (corr : Z) : Z :=
  let n := zlen x in
  let y := map (fun a => a - m) x in
  let d := n - corr in
  (in_prod y y + d / 2) / d.

(** ** _isqrt (statistics.py:180-195): bitwise, e+1 rounds, l = sectype.bit_length *)
Fixpoint isqrt_loop (rounds : nat) (a r r2 j : Z) : Z :=
  match rounds with
  | O => r
  | S c =>
    let h := r + j in
    let h2 := r2 + (2 * r + j) * j in
    if h2 <=? a then isqrt_loop c a h h2 (Z.shiftr j 1)
    else isqrt_loop c a r r2 (Z.shiftr j 1)
  end.

Definition isqrt (l : Z) (a : Z) : Z :=
  let e := (l - 1) / 2 in
  isqrt_loop (Z.to_nat (e + 1)) a 0 0 (Z.shiftl 1 e).

Definition stdev_int (l : Z) (x : list Z) (corr : Z) : Z := isqrt l (var_int x corr).

(** ** sorting (runtime.sorted at value level) *)
Fixpoint insert (a : Z) (l : list Z) : list Z :=
  match l with [] => [a] | b :: r => if a <=? b then a :: l else b :: insert a r end.
Definition sortZ (l : list Z) : list Z := fold_right insert [] l.

(** ** runtime.unit_vector(a, m) as documented: e_a for 0 <= a < m, and e_0 for a = m *)
Definition unit_vector_val (a : Z) (m : nat) : list Z :=
  map (fun i => b2z ((Z.of_nat i =? a) || ((i =? 0)%nat && (a =? Z.of_nat m)))) (seq 0 m).

(** ** _quickselect (statistics.py:281-348) *)
Fixpoint map2 {A B C} (f : A -> B -> C) (a : list A) (b : list B) : list C :=
  match a, b with x :: a', y :: b' => f x y :: map2 f a' b' | _, _ => [] end.

(** the loop of lines 331-344 for one side: zs selects, running count j, target length s *)
Fixpoint compact (s : nat) (zs xs : list Z) (i : nat) (j : Z) (w : list Z) : list Z :=
  match zs, xs with
  | zi :: zs', xi :: xs' =>
    let j' := j + zi in                                   (* j = sum(z[:i+1]) *)
    let m := Nat.min (i + 2) s in                         (* m = min(i+2, s) *)
    let v := smul (zi * xi) (unit_vector_val j' m) ++ repeat 0 (s - m) in
    compact s zs' xs' (S i) j' (vadd w v)
  | _, _ => w
  end.

Fixpoint qs (fuel ufuel : nat) (x : list Z) (ks : list nat) (tp : tape) : option (list Z * tape) :=
  match fuel with
  | O => None
  | S fuel' =>
    if (3 <=? length ks)%nat then Some (map (fun k => nth k (sortZ x) 0) ks, tp)
    else
      match ks, x with
      | [], _ => Some ([], tp)
      | _, [a] => Some ([a], tp)
      | _, _ =>
        let n := length x in
        match draw n tp with                               (* y = random_bits(n) *)
        | None => None
        | Some (y, tp1) =>
          match random_unit_vector ufuel (Z.of_nat n) tp1 with
          | None => None
          | Some (u, tp2) =>
            let p := in_prod x u in                        (* random pivot *)
            let z := map2 (fun xi yi => b2z (2 * (xi - p) <? yi)) x y in
            let s := Z.to_nat (zsum z) in
            if ((0 <? s) && (s <? n))%nat then
              let ksl := filter (fun k => k <? s)%nat ks in
              let ksr := map (fun k => k - s)%nat (filter (fun k => s <=? k)%nat ks) in
              let '(ksl, ksr, z, s) :=
                  match ksl with
                  | [] => (ksr, [], map (fun a => 1 - a) z, (n - s)%nat)
                  | _ => (ksl, ksr, z, s)
                  end in
              let wl := compact s z x 0 0 (repeat 0 s) in
              match qs fuel' ufuel wl ksl tp2 with
              | None => None
              | Some (rl, tp3) =>
                match ksr with
                | [] => Some (rl, tp3)
                | _ =>
                  let wr := compact (n - s) (map (fun a => 1 - a) z) x 0 0 (repeat 0 (n - s)) in
                  match qs fuel' ufuel wr ksr tp3 with
                  | None => None
                  | Some (rr, tp4) => Some (rl ++ rr, tp4)
                  end
                end
              end
            else qs fuel' ufuel x ks tp2                   (* while True: retry *)
          end
        end
      end
  end.

(** ** _med (statistics.py:248-278); kind: 0 = median, 1 = low, 2 = high *)
Definition med (fuel ufuel : nat) (x : list Z) (kind : nat) (tp : tape) : option (Z * tape) :=
  let n := length x in
  let one k := match qs fuel ufuel x [k] tp with
               | None => None | Some (r, tp') => Some (hd 0 r, tp') end in
  if Nat.odd n then one ((n - 1) / 2)%nat
  else match kind with
       | 1%nat => one ((n - 2) / 2)%nat
       | 2%nat => one (n / 2)%nat
       | _ => match qs fuel ufuel x [((n - 2) / 2)%nat; (n / 2)%nat] tp with
              | None => None
              | Some (r, tp') => Some (zsum r / 2, tp')
              end
       end.

(** ** quantiles (statistics.py:351-441), secure integers: div_n a = (a + n//2)//n *)
Definition add_key (k : Z) (keys : list Z) : list Z :=
  if existsb (Z.eqb k) keys then keys else keys ++ [k].

Fixpoint lookup (k : Z) (keys vals : list Z) : Z :=
  match keys, vals with
  | k' :: ks, v :: vs => if k =? k' then v else lookup k ks vs
  | _, _ => 0
  end.

Definition clampj (j ld : Z) : Z := if j <? 1 then 1 else if ld - 1 <? j then ld - 1 else j.

(** index/delta of cut point i; method: true = inclusive *)
Definition q_index (inclusive : bool) (ld n i : Z) : Z * Z :=
  if inclusive then let m := ld - 1 in ((i * m) / n, (i * m) mod n)
  else let m := ld + 1 in
       let j := clampj ((i * m) / n) ld in (j, i * m - j * n).

Definition q_keys (inclusive : bool) (ld n : Z) : list Z :=
  fold_left (fun keys i =>
               let '(j, delta) := q_index inclusive ld n i in
               if inclusive then
                 let keys := add_key j keys in
                 if delta =? 0 then keys else add_key (j + 1) keys
               else
                 let keys := if n - delta =? 0 then keys else add_key (j - 1) keys in
                 if delta =? 0 then keys else add_key j keys)
            (map Z.of_nat (seq 1 (Z.to_nat n - 1))) [].

Definition div_n (n a : Z) : Z := (a + n / 2) / n.

Definition q_cut (inclusive : bool) (ld n : Z) (keys pts : list Z) (i : Z) : Z :=
  let '(j, delta) := q_index inclusive ld n i in
  if inclusive then
    if delta =? 0 then lookup j keys pts
    else lookup j keys pts + div_n n ((lookup (j + 1) keys pts - lookup j keys pts) * delta)
  else
    if delta =? 0 then lookup (j - 1) keys pts
    else if delta =? n then lookup j keys pts
    else lookup (j - 1) keys pts + div_n n ((lookup j keys pts - lookup (j - 1) keys pts) * delta).

Definition quantiles (fuel ufuel : nat) (inclusive : bool) (x : list Z) (n : Z) (tp : tape)
  : option (list Z * tape) :=
  let ld := zlen x in
  let keys := q_keys inclusive ld n in
  match qs fuel ufuel x (map Z.to_nat keys) tp with
  | None => None
  | Some (pts, tp') =>
    Some (map (q_cut inclusive ld n keys pts) (map Z.of_nat (seq 1 (Z.to_nat n - 1))), tp')
  end.

(** CPython's statistics.quantiles (3.12) transcribed to Z: numerator of the cut point over the
    common denominator n, for SORTED data d.  inclusive: d[j]*(n-delta) + d[j+1]*delta;
    exclusive: d[j-1]*(n-delta) + d[j]*delta. *)
Definition py_quantile_num (inclusive : bool) (d : list Z) (n i : Z) : Z :=
  let ld := zlen d in
  let atk k := nth (Z.to_nat k) d 0 in
  if inclusive then
    let m := ld - 1 in
    let j := (i * m) / n in let delta := (i * m) mod n in
    atk j * (n - delta) + atk (j + 1) * delta
  else
    let m := ld + 1 in
    let j := (i * m) / n in
    let j := if j <? 1 then 1 else if ld - 1 <? j then ld - 1 else j in
    let delta := i * m - j * n in
    atk (j - 1) * (n - delta) + atk j * delta.

(** the secure-integer cut point computed from exact order statistics d (sorted data) *)
Definition q_cut_sorted (inclusive : bool) (d : list Z) (n i : Z) : Z :=
  let ld := zlen d in
  let atk k := nth (Z.to_nat k) d 0 in
  let '(j, delta) := q_index inclusive ld n i in
  if inclusive then
    if delta =? 0 then atk j else atk j + div_n n ((atk (j + 1) - atk j) * delta)
  else
    if delta =? 0 then atk (j - 1)
    else if delta =? n then atk j
    else atk (j - 1) + div_n n ((atk j - atk (j - 1)) * delta).

(** ** mode (statistics.py:469-492) *)
Definition zmin (x : list Z) : Z := fold_right Z.min (hd 0 x) x.
Definition zmax (x : list Z) : Z := fold_right Z.max (hd 0 x) x.

(** while e > PRIV and not bit (e-1) of r: e -= 1 *)
Fixpoint mode_e (e : nat) (priv : nat) (r : Z) : nat :=
  match e with
  | O => O
  | S e' => if (priv <? e)%nat && negb (Z.testbit r (Z.of_nat e')) then mode_e e' priv r else e
  end.

Definition count (a : Z) (x : list Z) : Z := zsum (map (fun b => b2z (a =? b)) x).

(** runtime.argmax: index of the first maximum (documented tie rule) *)
Fixpoint argmax_first (x : list Z) : nat * Z :=
  match x with
  | [] => (O, 0)
  | [a] => (O, a)
  | a :: r => let '(i, m) := argmax_first r in if a <? m then (S i, m) else (O, a)
  end.

(** freqs = sum of unit vectors of length 2^e *)
Definition freqs (m : Z) (e : nat) (x : list Z) : list Z :=
  map (fun v => count (m + Z.of_nat v) x) (seq 0 (2 ^ e)).

Definition mode (l priv : nat) (x : list Z) : Z :=
  let m := zmin x in
  let M := zmax x in
  let e := mode_e l priv (M - m) in
  match e with
  | O => m
  | _ => m + Z.of_nat (fst (argmax_first (freqs m e x)))
  end.

(** what Python's statistics.mode returns: the first element of maximal count *)
Definition py_mode (x : list Z) : Z :=
  let mx := zmax (map (fun a => count a x) x) in
  hd 0 (filter (fun a => count a x =? mx) x).

(** ** covariance, secure integers (statistics.py:515-520) *)
Definition covariance_int (x y : list Z) : Z :=
  let n := zlen x in
  let sx := zsum x in
  let sy := zsum y in
  let sxy := in_prod (map (fun a => a * n - sx) x) (map (fun b => b * n - sy) y) in
  let d := n * n * (n - 1) in
  (sxy + d / 2) / d.

(** * Proofs *)
Require Import ZifyBool.
Ltac Zify.zify_post_hook ::= Z.div_mod_to_equations.

(** ** _isqrt *)
Lemma isqrt_loop_S : forall c a r r2 j,
  isqrt_loop (S c) a r r2 j =
  if r2 + (2 * r + j) * j <=? a then isqrt_loop c a (r + j) (r2 + (2 * r + j) * j) (Z.shiftr j 1)
  else isqrt_loop c a r r2 (Z.shiftr j 1).
Proof. reflexivity. Qed.

Lemma isqrt_loop_ok : forall (c : nat) (a r r2 j : Z),
  0 <= r -> r2 = r * r -> (c <> O -> j = 2 ^ (Z.of_nat c - 1)) ->
  r * r <= a < (r + 2 ^ Z.of_nat c) * (r + 2 ^ Z.of_nat c) ->
  let R := isqrt_loop c a r r2 j in R * R <= a < (R + 1) * (R + 1).
Proof.
  induction c as [|c IH]; intros a r r2 j Hr Hr2 Hj Ha; cbn zeta.
  - simpl. simpl in Ha. exact Ha.
  - assert (Hj' : j = 2 ^ Z.of_nat c).
    { rewrite Hj by discriminate. f_equal. lia. }
    assert (Hpow : 2 ^ Z.of_nat (S c) = 2 * j).
    { rewrite Nat2Z.inj_succ, Z.pow_succ_r by lia. lia. }
    rewrite Hpow in Ha.
    assert (Hjpos : 0 < j) by (subst j; apply Z.pow_pos_nonneg; lia).
    assert (Hnext : c <> O -> Z.shiftr j 1 = 2 ^ (Z.of_nat c - 1)).
    { intros Hc. rewrite Z.shiftr_div_pow2 by lia. rewrite Hj'.
      replace (Z.of_nat c) with (Z.succ (Z.of_nat c - 1)) at 1 by lia.
      rewrite Z.pow_succ_r by lia. change (2 ^ 1) with 2.
      rewrite Z.mul_comm, Z.div_mul by lia. reflexivity. }
    rewrite isqrt_loop_S.
    destruct (r2 + (2 * r + j) * j <=? a) eqn:E.
    + apply IH; [lia | subst r2; ring | exact Hnext |].
      rewrite <- Hj'. apply Z.leb_le in E. subst r2. split; [nia | nia].
    + apply IH; [lia | exact Hr2 | exact Hnext |].
      rewrite <- Hj'. apply Z.leb_gt in E. subst r2. split; [nia | nia].
Qed.

Theorem isqrt_correct : forall l a, 1 <= l -> 0 <= a < 2 ^ l ->
  let r := isqrt l a in r * r <= a < (r + 1) * (r + 1).
Proof.
  intros l a Hl Ha. unfold isqrt.
  set (e := (l - 1) / 2).
  assert (He : 0 <= e) by (unfold e; apply Z.div_pos; lia).
  assert (Hle : l <= 2 * (e + 1)) by (unfold e; lia).
  apply isqrt_loop_ok; [lia | ring | |].
  - intros _. rewrite Z.shiftl_1_l. f_equal. lia.
  - rewrite Z2Nat.id by lia. split; [lia|].
    replace (0 + 2 ^ (e + 1)) with (2 ^ (e + 1)) by lia.
    rewrite <- Z.pow_add_r by lia.
    apply Z.lt_le_trans with (2 ^ l); [lia|].
    apply Z.pow_le_mono_r; lia.
Qed.

(** the root is nonnegative and below 2^(e+1) *)

(** ** rounding: (a + n//2)//n is round-half-up of a/n *)
Lemma div_n_round_half_up : forall n a, 0 < n -> div_n n a = (2 * a + n) / (2 * n).
Proof.
  intros n a Hn. unfold div_n.
  pose proof (Z.div_mod n 2 ltac:(lia)) as H2. pose proof (Z.mod_pos_bound n 2 ltac:(lia)) as B2.
  set (h := n / 2) in *.
  pose proof (Z.div_mod (a + h) n ltac:(lia)) as H1. pose proof (Z.mod_pos_bound (a + h) n Hn) as B1.
  set (q := (a + h) / n) in *. set (m1 := (a + h) mod n) in *. set (m2 := n mod 2) in *.
  apply Z.div_unique with (r := 2 * a + n - 2 * n * q); [|ring].
  left. clearbody q m1 m2 h. nia.
Qed.

Theorem mean_int_round_half_up : forall x, 0 < zlen x ->
  mean_int x = (2 * zsum x + zlen x) / (2 * zlen x).
Proof. intros x H. unfold mean_int. exact (div_n_round_half_up (zlen x) (zsum x) H). Qed.

Theorem mean_int_nearest : forall x, 0 < zlen x ->
  2 * Z.abs (zsum x - zlen x * mean_int x) <= zlen x.
Proof.
  intros x H. rewrite (mean_int_round_half_up x H).
  set (n := zlen x) in *. set (s := zsum x).
  pose proof (Z.div_mod (2 * s + n) (2 * n) ltac:(lia)) as H1.
  pose proof (Z.mod_pos_bound (2 * s + n) (2 * n) ltac:(lia)) as B1.
  set (q := (2 * s + n) / (2 * n)) in *. set (m1 := (2 * s + n) mod (2 * n)) in *.
  clearbody q m1 s n. nia.
Qed.

(** ** quantiles: index/delta arithmetic and interpolation = CPython's formulas, rounded half up *)
Lemma round_shift : forall n A a, 0 < n -> (2 * (A * n + a) + n) / (2 * n) = A + (2 * a + n) / (2 * n).
Proof.
  intros n A a Hn. replace (2 * (A * n + a) + n) with (A * (2 * n) + (2 * a + n)) by ring.
  rewrite Z.div_add_l by lia. reflexivity.
Qed.

Theorem quantile_arith_eq_python : forall (inclusive : bool) (d : list Z) (n i : Z), 0 < n ->
  q_cut_sorted inclusive d n i = (2 * py_quantile_num inclusive d n i + n) / (2 * n).
Proof.
  intros inclusive d n i Hn. unfold q_cut_sorted, py_quantile_num, q_index, clampj.
  destruct inclusive; cbn zeta.
  - set (j := i * (zlen d - 1) / n). set (delta := (i * (zlen d - 1)) mod n).
    set (A := nth (Z.to_nat j) d 0). set (B := nth (Z.to_nat (j + 1)) d 0).
    destruct (delta =? 0) eqn:E.
    + apply Z.eqb_eq in E. rewrite E.
      replace (2 * (A * (n - 0) + B * 0) + n) with (2 * (A * n + 0) + n) by ring.
      rewrite round_shift by lia. rewrite Z.div_small by lia. lia.
    + rewrite div_n_round_half_up by lia.
      replace (2 * (A * (n - delta) + B * delta) + n) with (2 * (A * n + (B - A) * delta) + n) by ring.
      rewrite round_shift by lia. reflexivity.
  - set (j0 := i * (zlen d + 1) / n).
    set (j := if j0 <? 1 then 1 else if zlen d - 1 <? j0 then zlen d - 1 else j0).
    set (delta := i * (zlen d + 1) - j * n).
    set (A := nth (Z.to_nat (j - 1)) d 0). set (B := nth (Z.to_nat j) d 0).
    destruct (delta =? 0) eqn:E.
    + apply Z.eqb_eq in E. rewrite E.
      replace (2 * (A * (n - 0) + B * 0) + n) with (2 * (A * n + 0) + n) by ring.
      rewrite round_shift by lia. rewrite Z.div_small by lia. lia.
    + destruct (delta =? n) eqn:E2.
      * apply Z.eqb_eq in E2. rewrite E2.
        replace (2 * (A * (n - n) + B * n) + n) with (2 * (B * n + 0) + n) by ring.
        rewrite round_shift by lia. rewrite Z.div_small by lia. lia.
      * rewrite div_n_round_half_up by lia.
        replace (2 * (A * (n - delta) + B * delta) + n) with (2 * (A * n + (B - A) * delta) + n) by ring.
        rewrite round_shift by lia. reflexivity.
Qed.

(** inclusive: the indices used are within the data and delta is a proper remainder *)
Theorem quantile_inclusive_index_range : forall ld n i, 2 <= ld -> 0 < n -> 1 <= i < n ->
  let '(j, delta) := q_index true ld n i in 0 <= j /\ j < ld - 1 /\ 0 <= delta < n /\ i * (ld - 1) = j * n + delta.
Proof.
  intros ld n i Hld Hn Hi. unfold q_index.
  pose proof (Z.div_mod (i * (ld - 1)) n ltac:(lia)) as H1.
  pose proof (Z.mod_pos_bound (i * (ld - 1)) n Hn) as B1.
  set (j := i * (ld - 1) / n) in *. set (dl := (i * (ld - 1)) mod n) in *.
  repeat split; try lia; nia.
Qed.

(** exclusive: clamped index in 1..ld-1 *)
Theorem quantile_exclusive_index_range : forall ld n i, 2 <= ld -> 0 < n ->
  let '(j, delta) := q_index false ld n i in 1 <= j <= ld - 1 /\ i * (ld + 1) = j * n + delta.
Proof.
  intros ld n i Hld Hn. unfold q_index, clampj.
  destruct (i * (ld + 1) / n <? 1) eqn:E1; [lia|].
  destruct (ld - 1 <? i * (ld + 1) / n) eqn:E2; [lia|].
  apply Z.ltb_ge in E1. apply Z.ltb_ge in E2. lia.
Qed.

(** ** mode: the code returns the smallest mode, Python the first encountered *)
Theorem mode_eq_python_refuted : exists x : list Z, mode 16 5 x <> py_mode x.
Proof. exists [3; 3; 1; 1]. vm_compute. discriminate. Qed.
