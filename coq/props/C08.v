(** C08 — results and termination do not depend on the schedule: the label part.
    Only statements; proofs are in theories/PC.v.  The model: PC.v header. *)
Require Import MPyC.PC.
From Coq Require Import ZArith List Bool.
Import ListNotations.
Local Open Scope nat_scope.

(** Under wf (every NoPC coroutine is pc-silent after its first segment), for every hop function, base counter,
    program, and EVERY scheduler (one action of any task per step; this contains every event-loop interleaving and
    every pattern of "await found completed"), each Fork/Uci/Send/Recv event carries the sequential label of its
    structural path. *)
Theorem C08_wf_labels_sound :
  forall (hop : Z -> nat -> Z) (c0 : pcT) (prog : body) (sched : list (option nat)) (p : path) (v : evval),
    wf_body prog = true -> In (p, v) (trace (run hop c0 prog sched)) -> label hop c0 prog p = Some v.
Proof. exact wf_labels_sound. Qed.
Print Assumptions C08_wf_labels_sound.

(** Hence two executions (two schedules of one party, or two parties running the same program from the same base
    counter) give every structural event the same counter value: no party waits for a message that another party
    sent under a different label. *)
Theorem C08_wf_labels_deterministic :
  forall (hop : Z -> nat -> Z) (c0 : pcT) (prog : body) (s1 s2 : list (option nat)) (p : path) (v1 v2 : evval),
    wf_body prog = true ->
    In (p, v1) (trace (run hop c0 prog s1)) -> In (p, v2) (trace (run hop c0 prog s2)) -> v1 = v2.
Proof. exact wf_labels_deterministic. Qed.
Print Assumptions C08_wf_labels_deterministic.

(** The base counter is moved by the main program only, in program order, whatever the other tasks do. *)
Theorem C08_wf_base_counter :
  forall (hop : Z -> nat -> Z) (c0 : pcT) (prog : body) (sched : list (option nat)),
    wf_body prog = true ->
    forall q, label hop (base (run hop c0 prog sched)) (snd (root (run hop c0 prog sched))) q
              = label hop c0 prog (fst (root (run hop c0 prog sched)) ++ q).
Proof. exact wf_base_counter. Qed.
Print Assumptions C08_wf_base_counter.

(** Without wf the statement is false: a program shaped like `x % 3` between two awaits (runtime.mod is NoPC but
    forks `_mod` after its first await) and two LEGAL schedules (switching only at awaits / task ends) that give
    the same structural event different labels. *)
Theorem C08_nonwf_refuted :
  exists (prog : body) (s1 s2 : list (option nat)) (p : path) (v1 v2 : evval),
    wf_body prog = false /\
    legal hop_ex (0%Z, 0) prog s1 = true /\ legal hop_ex (0%Z, 0) prog s2 = true /\
    In (p, v1) (trace (run hop_ex (0%Z, 0) prog s1)) /\
    In (p, v2) (trace (run hop_ex (0%Z, 0) prog s2)) /\ v1 <> v2.
Proof. exact nonwf_refuted. Qed.
Print Assumptions C08_nonwf_refuted.

(** Non-vacuity of the wf hypothesis: the repaired program (mod as a PC coroutine) is wf, both schedules of the
    refutation are legal for it, and they produce the same labelled events (up to order). *)
Definition schedA' : list (option nat) := [None; None; None; None; None; None; None; Some 1; Some 1; Some 1].
Definition schedB' : list (option nat) := [None; None; None; None; None; Some 1; Some 1; Some 1; None; None].

Example C08_nonvacuous :
  wf_body fc08_fixed = true /\
  legal hop_ex (0%Z, 0) fc08_fixed schedA' = true /\ legal hop_ex (0%Z, 0) fc08_fixed schedB' = true /\
  length (trace (run hop_ex (0%Z, 0) fc08_fixed schedA')) = 5 /\
  forallb (fun e => existsb (fun e' => match e, e' with
                                      | (p, EvFork a b), (p', EvFork a' b') =>
                                          (if list_eq_dec (fun x y : dir => ltac:(decide equality)) p p' then true else false)
                                          && Z.eqb a a' && Nat.eqb b b'
                                      | _, _ => false end)
                            (trace (run hop_ex (0%Z, 0) fc08_fixed schedB')))
          (trace (run hop_ex (0%Z, 0) fc08_fixed schedA')) = true.
Proof. vm_compute. repeat split; reflexivity. Qed.
