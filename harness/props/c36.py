"""C36 — a crashed or disconnected party never makes others output wrong values.

Proof: coq/props/C36.v (order-theoretic simulation: a faulty system that can only drop messages
delivers a subset of a completed crash-free run, so outputs are a subset with identical values);
byte-level prefix parsing is Frame.v (C10).  Tie / fault enumeration: the simulator kills one
party after every chosen byte offset of its outgoing streams (frame boundaries, boundary +-1,
mid-frame, random), in three fault modes (silent stall, connection_lost(None), connection_lost
with an exception); every output a surviving party completes must equal the crash-free value.
"""
import random

MANIFEST = {
    'text': 'Theorem in Coq: for any system with monotone sending/outputs and any faulty variant that only drops messages (one '
            'party stopping at an arbitrary byte), under any schedule, every output completed in the faulty run is completed '
            'with the same value in the completed crash-free run. Fault enumeration in the multi-party simulator: each party x '
            'crash points at/around every sampled frame boundary and mid-frame of its outgoing byte streams x 3 fault modes; '
            'completed outputs of survivors compared with the crash-free run and the Python oracle. Executable instance '
            '(CrashExec.v): message-level model of m parties running straight-line share-level programs (input, add, mul with '
            'resharing by the 2t+1 dealers, output) over Z_p; sends/results proved monotone in the delivered set, a crashing party '
            '(any subset, in particular any prefix in any send order, of its messages) proved a sub-behaviour, hence for every '
            'program, inputs, tapes, cut and schedule no survivor output differs from the crash-free one, and run_closed gives '
            'exactly the outputs that complete when everything sent is delivered; tied every run by comparing, for EVERY cut '
            'position (frame boundaries and mid-frame) of each crashing party, the completed (party, output, value) set and the '
            'full set of wire messages of the real implementation with the model evaluated by vm_compute.',
    'note': 'partial: the abstract Coq theorem is about monotone message systems; that real parties are such monotone functions '
            'is proved for the executable model of straight-line share-level programs without PRSS (CrashExec.v, ops issued at '
            'once as in MPyC dataflow evaluation; the crashing party\'s send order is a parameter read from the real frame log) '
            'and tied to the code by exact correspondence; for the rest of the runtime (comparisons, PRSS, programs awaiting '
            'intermediate results, handshake) it rests on schedule-independent unique labels (C08/C09) and on prefix parsing of cut '
            'byte streams (Frame.v, C10) and is exercised by crash injection, not proved. OS-level behaviour of a dying TCP peer beyond "a byte prefix is delivered, then '
            'optionally connection_lost" is outside the model. Programs use operations whose values do not depend on the random tape.',
    'technique': 'Coq simulation theorem (monotone message systems) + exhaustive-by-offset crash injection in the multi-party simulator',
}


def make_prog(inputs, store):
    async def prog(mpc, mods, pid):
        m = len(mpc.parties)
        secint = mpc.SecInt(16)
        out = store.setdefault(pid, {})
        a = mpc.input(secint(inputs[pid]))
        b = a[0] * a[1] + a[m - 1]
        c = (a[0] < a[1]) * 7 + (a[1] == a[m - 1])
        d = b * c - a[0]
        out['b'] = await mpc.output(b)
        out['c'] = await mpc.output(c, receivers=[0, m - 1])
        e = d * d + b
        out['d'] = await mpc.output(d)
        out['e'] = await mpc.output([e, a[1] * a[1]], threshold=None)
        s = mpc.sum(a)
        out['s'] = await mpc.output(s, receivers=list(range(1, m)))
        return dict(out)
    return prog


def expected(inputs):
    m = len(inputs)
    a = inputs
    b = a[0] * a[1] + a[m - 1]
    c = (1 if a[0] < a[1] else 0) * 7 + (1 if a[1] == a[m - 1] else 0)
    d = b * c - a[0]
    e = d * d + b
    return {'b': b, 'c': c, 'd': d, 'e': [e, a[1] * a[1]], 's': sum(a)}


def run(ctx):
    from lib.sim import Sim, Fifo, RandomOrder, Coalesce, HoldCoalesce
    ok = ctx.build() and ctx.check_props()
    rng = ctx.rng
    ctx.rule = ('case = (m, t, prss, crashing party, byte offset of the cut in its outgoing streams, fault mode, schedule); '
                'offsets: frame boundaries b, b-1, b+1, mid-frame, random; non-trivial when the cut falls strictly inside the run')
    ctx.explanation = 'model-level simulation theorem + crash injection at byte granularity in the simulator'
    # m > 2t+1 matters: there a party outside the window of 2t+1 resharing dealers only RECEIVES, and a value silently
    # recombined from fewer points goes unnoticed by the degree
    configs = [(3, 1, False), (4, 1, False), (3, 1, True), (4, 1, True), (5, 2, False)] + (
        [(5, 1, False), (5, 2, True), (7, 3, False)] if ctx.tier == 'thorough' else [])
    nruns = 0
    ncompleted = 0
    for (m, t, no_prss) in configs:
        inputs = [rng.choice([3, -4, 7, 0, 5, -1, 9]) for _ in range(m)]
        inputs[1] = inputs[m - 1] if rng.random() < 0.5 else inputs[1]
        exp = expected(inputs)
        seed = rng.randrange(10**6)
        # crash-free reference run
        store = {}
        sim = Sim(m, t, no_prss=no_prss, seed=seed)
        try:
            sim.start()
            base = {c: sum(len(sim.net.stream[(c, q)]) for q in range(m) if q != c) for c in range(m)}
            res = sim.run(make_prog(inputs, store), Fifo())
            writes = {c: sum(len(sim.net.stream[(c, q)]) for q in range(m) if q != c) - base[c] for c in range(m)}
            # frame boundaries of party c's outgoing traffic in global write order are not needed exactly:
            # use per-link frame ends as approximations of interesting offsets
            bounds = {}
            for c in range(m):
                offs = set()
                for q in range(m):
                    if q != c:
                        fr, _ = sim.frames(c, q)
                        pos = 0
                        for pc, payload in fr:
                            pos += 12 + len(payload)
                            offs.add(pos)
                bounds[c] = sorted(offs)
        finally:
            sim.close()
        key0 = {'m': m, 't': t, 'no_prss': no_prss, 'inputs': inputs, 'seed': seed}
        if any(not isinstance(r, dict) for r in res):
            ctx.violation('crash-free-run-failed m=%d' % m, {**key0, 'result': str(res)[:400]})
            continue
        for pid in range(m):
            for k, v in res[pid].items():
                want = exp[k]
                if v is None or (isinstance(v, list) and all(x is None for x in v)):
                    continue
                if v != want:
                    ctx.violation('crash-free-output-wrong m=%d' % m, {**key0, 'party': pid, 'output': k, 'got': v, 'want': want})
        per_party = ctx.n(10 if m == 3 else 5, 60 if m == 3 else 25)
        for c in range(m):
            W = writes[c]
            cand = set()
            bs = [b for b in bounds[c] if b < W]
            for b in rng.sample(bs, min(len(bs), per_party // 2)):
                cand.update({b - 1, b, b + 1, b + 5})
            cand.update(rng.randrange(1, max(2, W)) for _ in range(per_party // 2))
            cand.update({1, 2, 12, 13})
            cand = sorted(x for x in cand if 0 < x < W)
            if len(cand) > per_party * 2:
                cand = sorted(rng.sample(cand, per_party * 2))
            for cut in cand:
                mode = rng.choice(['silent', 'lost-none', 'lost-exc', 'lost-none-early', 'lost-none-early'])
                sched = rng.choice(['fifo', 'random', 'coalesce', 'holdcoalesce', 'holdcoalesce'])
                store = {}
                sim = Sim(m, t, no_prss=no_prss, seed=seed)
                try:
                    sim.start()
                    sim.net.cut[c] = cut
                    if mode == 'lost-none-early':
                        sim.net.loss_mode = 'none'     # survivors learn of the disconnect while still computing
                    policy = {'fifo': Fifo(), 'coalesce': Coalesce(), 'holdcoalesce': HoldCoalesce(c)}.get(sched) or RandomOrder(random.Random(cut))
                    r = sim.run(make_prog(inputs, store), policy, idle_limit=250, spins=3 if sched == 'coalesce' else 1)
                    if mode in ('lost-none', 'lost-exc') and c in sim.net.dead:
                        for q in range(m):
                            if q != c:
                                proto = sim.net.protos.get((q, c))
                                if proto is not None:
                                    try:
                                        proto.connection_lost(None if mode == 'lost-none' else ConnectionResetError('peer died'))
                                    except Exception:
                                        pass
                        try:
                            sim.spin(50)
                        except Exception:
                            pass
                    nruns += 1
                    key = {**key0, 'crashed': c, 'cut': cut, 'of': W, 'mode': mode, 'schedule': sched}
                    ctx.case(key, nontrivial=c in sim.net.dead, kind='m=%d mode=%s' % (m, mode))
                    for pid in range(m):
                        if pid == c:
                            continue
                        for k, v in store.get(pid, {}).items():
                            if v is None or (isinstance(v, list) and all(x is None for x in v)):
                                continue
                            ncompleted += 1
                            if v != exp[k]:
                                ctx.violation('survivor-output-wrong-after-crash m=%d t=%d' % (m, t),
                                              {**key, 'party': pid, 'output': k, 'got': v, 'want': exp[k]})
                finally:
                    sim.close()
    # ---- dense scan of cut offsets under late, coalesced delivery of the crashing party's traffic (a truncated frame
    #      arriving behind complete frames in one read): every offset in the thorough tier, every 6th (phase = seed) in quick
    m, t, no_prss = 3, 1, False
    inputs = [3, -4, 7]
    exp = expected(inputs)
    seed = 5
    step = ctx.n(6, 1)
    parties = [ctx.seed % m] if ctx.tier == 'quick' else list(range(m))
    store = {}
    sim = Sim(m, t, no_prss=no_prss, seed=seed)
    try:
        sim.start()
        base = {c: sum(len(sim.net.stream[(c, q)]) for q in range(m) if q != c) for c in range(m)}
        sim.run(make_prog(inputs, store), Fifo())
        total = {c: sum(len(sim.net.stream[(c, q)]) for q in range(m) if q != c) - base[c] for c in range(m)}
    finally:
        sim.close()
    for c in parties:
        for cut in range(1 + (ctx.seed % step), total[c], step):
            store = {}
            sim = Sim(m, t, no_prss=no_prss, seed=seed)
            try:
                sim.start()
                sim.net.cut[c] = cut
                sim.run(make_prog(inputs, store), HoldCoalesce(c), idle_limit=120)
                nruns += 1
                key = {'m': m, 't': t, 'inputs': inputs, 'seed': seed, 'crashed': c, 'cut': cut, 'of': total[c],
                       'mode': 'silent', 'schedule': 'holdcoalesce-scan'}
                ctx.case(key, nontrivial=c in sim.net.dead, kind='scan')
                for pid in range(m):
                    if pid == c:
                        continue
                    for k, v in store.get(pid, {}).items():
                        if v is None or (isinstance(v, list) and all(x is None for x in v)):
                            continue
                        ncompleted += 1
                        if v != exp[k]:
                            ctx.violation('survivor-output-wrong-after-crash m=%d t=%d' % (m, t),
                                          {**key, 'party': pid, 'output': k, 'got': v, 'want': exp[k]})
            finally:
                sim.close()
    # ---- a party that dies during the opening handshake (pid + PRSS keys): survivors that nevertheless get past
    #      start() must still only output correct values (operations that do not need the dead party)
    m, t = 4, 1
    sim = Sim(m, t, seed=11)
    try:
        sim.start()
        hs = {c: sum(len(sim.net.stream[(c, q)]) for q in range(m) if q != c) for c in range(m)}
    finally:
        sim.close()
    for c in (0, 1):
        cuts = sorted({x for x in list(range(max(1, hs[c] - 6), hs[c])) + [hs[c] // 2, 2, 17, 18, 19, 33, 34, 35] if 0 < x < hs[c]})
        for cut in (cuts if ctx.tier == 'thorough' else cuts[-8:] + cuts[:3]):
            sim = Sim(m, t, seed=11)
            try:
                sim.net.cut[c] = cut
                st = sim.run(lambda mpc, mods, i: mpc.start(), Fifo(), idle_limit=150)
                started = [i for i in range(m) if st[i] is None and i != c]
                res2 = {}

                async def prog2(mpc, mods, pid):
                    if pid not in started:
                        return 'not-started'
                    secint = mpc.SecInt(16)
                    out = res2.setdefault(pid, {})
                    x = mpc.input(secint(5), senders=1)      # dealt by a survivor
                    r = mpc._random(secint)                   # PRSS: needs consistent keys
                    out['rand'] = await mpc.output(r, receivers=[2, 3])          # both receivers must agree
                    out['seven'] = await mpc.output(x + 2 + (r - r), receivers=[2, 3])
                    out['zero'] = await mpc.is_zero_public(x - 5)                # completes only where 2t predecessors live
                    return dict(out)
                if started:
                    sim.run(prog2, Fifo(), idle_limit=150)
                nruns += 1
                key = {'m': m, 't': t, 'crashed': c, 'cut': cut, 'of': hs[c], 'mode': 'handshake', 'started': started}
                ctx.case(key, nontrivial=True, kind='handshake crash')
                rands = {pid: out['rand'] for pid, out in res2.items() if out.get('rand') is not None}
                if len(set(rands.values())) > 1:
                    ctx.violation('survivors-disagree-after-handshake-crash m=%d t=%d' % (m, t), {**key, 'outputs': str(rands)})
                for pid, out in res2.items():
                    if 'zero' in out:
                        ncompleted += 1
                        if out['zero'] is not True:
                            ctx.violation('survivor-output-wrong-after-handshake-crash m=%d t=%d' % (m, t),
                                          {**key, 'party': pid, 'output': 'is_zero_public(r - r)', 'got': str(out['zero']), 'want': True})
                    if out.get('seven') is not None:
                        ncompleted += 1
                        if out['seven'] != 7:
                            ctx.violation('survivor-output-wrong-after-handshake-crash m=%d t=%d' % (m, t),
                                          {**key, 'party': pid, 'output': 'output(x + 2 + r - r), x = 5', 'got': out['seven'], 'want': 7})
            finally:
                sim.close()
    # ---- a party disconnects cleanly BETWEEN two phases of the program: the survivors are told (connection_lost) before
    # they post the receives of the next multiplication; with m > 2t+1 a share recombined from fewer points would not be
    # noticed by its degree, so the survivors must fail (or hang), never open a wrong product
    for (m, t) in [(4, 1), (5, 1)] + ([(6, 2), (7, 2)] if ctx.tier == 'thorough' else []):
        for c in range(m):
            for loss in ('none', 'exc'):
                sim = Sim(m, t, no_prss=(c + m) % 2 == 0, seed=100 + c)
                keep = {}
                try:
                    sim.start()
                    vals_in = [3 + 2 * i for i in range(m)]

                    async def phase_a(mpc, mods, pid):
                        secint = mpc.SecInt(16)
                        xs = mpc.input(secint(vals_in[pid]))
                        keep[pid] = xs
                        return await mpc.output(mpc.sum(xs))
                    ra = sim.run(phase_a, Fifo(), idle_limit=300)
                    if ra != [sum(vals_in)] * m:
                        ctx.violation('two-phase-first-phase-wrong m=%d t=%d' % (m, t), {'m': m, 't': t, 'result': str(ra)})
                        continue
                    sim.net.dead.add(c)
                    sim.net.loss_mode = loss
                    surv = [i for i in range(m) if i != c]
                    res_b = {}

                    async def phase_b(mpc, mods, pid):
                        if pid == c:
                            return 'dead'
                        import asyncio as _a
                        for _ in range(5):
                            await _a.sleep(0)
                        xs = keep[pid]
                        out = res_b.setdefault(pid, {})
                        z1 = xs[surv[0]] * xs[surv[1]]
                        z2 = xs[surv[1]] * xs[surv[2]] + xs[surv[0]]
                        out['z1'] = await mpc.output(z1, receivers=surv)
                        out['z2'] = await mpc.output(z2, receivers=surv)
                        return dict(out)
                    sim.run(phase_b, Fifo(), idle_limit=300)
                    nruns += 1
                    key = {'m': m, 't': t, 'crashed': c, 'mode': 'clean disconnect between phases', 'notified': loss, 'no_prss': (c + m) % 2 == 0}
                    ctx.case(key, nontrivial=True, kind='two-phase disconnect m=%d' % m)
                    want = {'z1': vals_in[surv[0]] * vals_in[surv[1]], 'z2': vals_in[surv[1]] * vals_in[surv[2]] + vals_in[surv[0]]}
                    for pid, out in res_b.items():
                        for k, v in out.items():
                            if v is None:
                                continue
                            ncompleted += 1
                            if v != want[k]:
                                ctx.violation('survivor-output-wrong-after-clean-disconnect m=%d t=%d' % (m, t),
                                              {**key, 'party': pid, 'output': k, 'got': v, 'want': want[k]})
                finally:
                    sim.close()
    ctx.extra['crash_runs'] = nruns
    ctx.extra['survivor_outputs_completed_and_checked'] = ncompleted
    ctx.log('%d crash runs, %d completed survivor outputs checked' % (nruns, ncompleted))
    if nruns == 0:
        ctx.broken.append({'kind': 'harness', 'what': 'no crash run executed'})
    # ---- executable crash model (CrashExec.v): exact correspondence of which outputs complete, with which values, and
    # of the full set of wire messages, for every cut position of straight-line share-level programs
    if ok:
        from props import c36_model
        nb = len(ctx.broken)
        summ = c36_model.run_part(ctx)
        ctx.log('executable crash model: %s' % {k: summ[k] for k in sorted(summ) if not isinstance(summ[k], (list, dict))})
        model_reported = len(ctx.broken) > nb
    else:
        model_reported = False
    if ctx.broken and not ctx.violations and not model_reported:
        ctx.unproved('C36 model theorem / crash enumeration', {'broken': ctx.broken[:5]})
