(** C03 — fixed-point integrality flags are never wrong; results never depend on a false mark.
    Only statements; proofs are in theories/Fxp.v.  The rule constants (rule_mul, ...) are tied
    to the source by the regenerated table: gen/FlagOblig.v proves `modelled_*` (table entry =
    constant) and gen/FlagCover.v states `rule_consults_all` for the list-valued sites. *)
From Coq Require Import ZArith List Bool String.
Require Import MPyC.Fxp.
Import ListNotations.
Local Open Scope Z_scope.

(** flag_sound_op: for every modelled scalar operation (neg/pos, add, sub, mul with secure /
    public int / public float operand, lshift, sum, in_prod): if the rule marks the result
    integral and the consulted operand flags are sound (flag -> 2^f | X), then 2^f | result. *)
Theorem C03_flag_sound_op :
  (forall f a, sound f a -> eval (env1 (flg a)) rule_neg = true -> (2 ^ f | val (fneg a))) /\
  (forall f a b, sound f a -> sound f b ->
     eval (env2 (flg a) (flg b) (fun _ => false)) rule_add = true ->
     (2 ^ f | val (fadd a b)) /\ (2 ^ f | val (fsub a b))) /\
  (forall p f bit a b, Z.odd p = true -> 0 < p -> 0 < f -> sound f a -> arg_sound f b ->
     inrange p (val a * arg_val f b) ->
     eval (env2 (flg a) (arg_flag b) (mul_pub f b)) rule_mul = true -> (2 ^ f | val (mul p f bit a b))) /\
  (forall f a b, 0 <= f -> 0 <= b -> sound f a ->
     eval (env2 (flg a) false (fun _ => b >=? f)) rule_lshift = true -> (2 ^ f | val (flshift f a b))) /\
  (forall f xs, Forall (sound f) xs -> eval (envl (map flg xs) []) rule_sum = true -> (2 ^ f | val (fsum xs))) /\
  (forall p f bit xs ys, Z.odd p = true -> 0 < p -> 0 < f -> Forall (sound f) xs -> Forall (sound f) ys ->
     inrange p (dot xs ys) ->
     eval (envl (map flg xs) (map flg ys)) rule_in_prod = true -> (2 ^ f | val (in_prod p f bit xs ys))).
Proof. exact flag_sound_op. Qed.
Print Assumptions C03_flag_sound_op.

(** the model's flag of runtime.mul IS the rule of the table evaluated on the operand flags *)
Theorem C03_flag_rule_mul : forall p f bit a b,
  flg (mul p f bit a b) = eval (env2 (flg a) (arg_flag b) (mul_pub f b)) rule_mul.
Proof. exact flag_rule_mul. Qed.
Print Assumptions C03_flag_rule_mul.

(** soundness is preserved by multiplication (all operand kinds), so by induction by every
    scalar program over neg/add/sub/mul/lshift *)
Theorem C03_sound_mul : forall p f bit a b,
  Z.odd p = true -> 0 < p -> 0 < f -> sound f a -> arg_sound f b ->
  inrange p (val a * arg_val f b) -> sound f (mul p f bit a b).
Proof. exact sound_mul. Qed.
Print Assumptions C03_sound_mul.

(** second sentence: with sound marks, the in-place >> (f - z) that replaces the truncation is
    the exact division (no rounding, independent of the tape bit) *)
Theorem C03_skip_trunc_safe : forall p f bit a b,
  Z.odd p = true -> 0 < p -> 0 < f -> sound f a -> arg_sound f b ->
  inrange p (val a * arg_val f b) -> (flg a || arg_flag b) = true ->
  val (mul p f bit a b) * 2 ^ (f - mul_z f b) = val a * arg_val f b.
Proof. exact skip_trunc_safe. Qed.
Print Assumptions C03_skip_trunc_safe.

Theorem C03_rsh_exact : forall p k X, Z.odd p = true -> 0 < p -> 0 <= k -> (2 ^ k | X) ->
  2 * Z.abs X < p -> rsh p k X = X / 2 ^ k.
Proof. exact rsh_exact. Qed.
Print Assumptions C03_rsh_exact.

Theorem C03_in_prod_skip_safe : forall p f bit xs ys,
  Z.odd p = true -> 0 < p -> 0 < f -> Forall (sound f) xs -> Forall (sound f) ys ->
  inrange p (dot xs ys) -> (forallb flg xs || forallb flg ys) = true ->
  val (in_prod p f bit xs ys) * 2 ^ f = dot xs ys.
Proof. exact in_prod_skip_safe. Qed.
Print Assumptions C03_in_prod_skip_safe.

(** list operations: the rule of runtime.vector_add / vector_sub in the source (all elements of
    both lists; gen/FlagOblig.v: modelled_runtime_Runtime_vector_add_1 / _sub_1) is sound for any
    elementwise operation preserving divisibility *)
Theorem C03_allof_rule_sound_elementwise : forall f (g : Z -> Z -> Z) xs ys,
  (forall u v, (2 ^ f | u) -> (2 ^ f | v) -> (2 ^ f | g u v)) ->
  Forall (sound f) xs -> Forall (sound f) ys ->
  eval (envl (map flg xs) (map flg ys)) rule_in_prod = true ->
  Forall (fun w => (2 ^ f | w)) (zip_with g (map val xs) (map val ys)).
Proof. exact allof_rule_sound_elementwise. Qed.
Print Assumptions C03_allof_rule_sound_elementwise.

(** ... whereas the abstract first-element rule shape (any site failing `rule_consults_all`; before
    repair 9bcd50d the list operations, now only runtime._distribute) is not: witness
    [2, 3*2^-16] on SecFxp(32,16) through an elementwise addition *)
Theorem C03_first_rule_refuted : exists f xs,
  Forall (sound f) xs /\
  eval (envl (map flg xs) (map flg xs)) (And (First "x") (First "y")) = true /\
  ~ Forall (fun w => (2 ^ f | w)) (zip_with Z.add (map val xs) (map val xs)).
Proof. exact first_rule_refuted. Qed.
Print Assumptions C03_first_rule_refuted.

(** ... and a false mark does change a product (6*2^-16 marked integral, squared) *)
Theorem C03_false_mark_changes_product : exists p f a,
  ~ sound f a /\ flg a = true /\
  forall bit, val (mul p f bit a (Sec a)) <> floor_div f (val a * val a) /\
              val (mul p f bit a (Sec a)) <> ceil_div f (val a * val a).
Proof. exact false_mark_changes_product. Qed.
Print Assumptions C03_false_mark_changes_product.

(** NumPy np_left_shift (rule Or (Elem "a") (Pub "np.all(b >= f)"), tied by gen/FlagOblig.v): shifting
    by public amounts that are ALL >= f yields whole numbers; SOME amount >= f does not suffice *)
Theorem C03_np_lshift_sound : forall f xs bs, 0 <= f -> (forall b, In b bs -> f <= b) ->
  Forall (fun w => (2 ^ f | w)) (shift_each xs bs).
Proof. exact sound_np_lshift. Qed.
Print Assumptions C03_np_lshift_sound.

Theorem C03_np_lshift_some_refuted : exists f xs bs, (exists b, In b bs /\ f <= b) /\
  ~ Forall (fun w => (2 ^ f | w)) (shift_each xs bs).
Proof. exact np_lshift_some_refuted. Qed.
Print Assumptions C03_np_lshift_some_refuted.

(** Non-vacuity: SecFxp(32,16): 2 (integral) times 3*2^-16 skips the truncation and is exact;
    2 * 2 stays integral. *)
Example C03_nonvacuous :
  let p := 1208925819614629174706111 in
  let two := mkfx 131072 true in let eps := mkfx 3 false in
  Z.odd p = true /\ sound 16 two /\ sound 16 eps /\ inrange p (val two * val eps) /\
  mul p 16 true two (Sec eps) = mkfx 6 false /\ mul p 16 false two (Sec two) = mkfx 262144 true /\
  eval (env2 true true (mul_pub 16 (Sec two))) rule_mul = true.
Proof.
  repeat split; try (vm_compute; reflexivity).
  - intros _. exists 2. reflexivity.
  - intros H. discriminate H.
Qed.
