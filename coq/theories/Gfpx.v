(** Gfpx.v — executable model of mpyc/gfpx.py class [Polynomial] (generic GF(p)[X], coefficient
    lists low -> high, no trailing zeros, entries in [0,p)), and proofs about it.

    Part 1: definitions, following the Python static methods line by line (loop structure,
    in-place row updates, trailing-zero stripping).  Part 2: integer-polynomial semantics
    ([evalZ], congruence modulo p, canonical forms).  Part 3: theorems. *)
Require Import MPyC.Base MPyC.Zp.
From Coq Require Import ZArith Znumtheory Lia ZifyBool Bool.
Local Open Scope Z_scope.

(** Python exceptions as values *)
Inductive res (A : Type) : Type := Ok (x : A) | ZeroDiv | ValueErr | NoFuel.
Arguments Ok {A} x. Arguments ZeroDiv {A}. Arguments ValueErr {A}. Arguments NoFuel {A}.
Definition bind {A B} (r : res A) (f : A -> res B) : res B :=
  match r with Ok x => f x | ZeroDiv => ZeroDiv | ValueErr => ValueErr | NoFuel => NoFuel end.

(** [while a and not a[-1]: del a[-1]] *)
Fixpoint strip (a : list Z) : list Z :=
  match a with
  | [] => []
  | x :: t => match strip t with
              | [] => if x =? 0 then [] else [x]
              | t' => x :: t'
              end
  end.

(** plain integer polynomial arithmetic on coefficient lists (the accumulator [c] of _mul/_sq
    before the final [c[i] %= p]) *)
Fixpoint addz (a b : list Z) : list Z :=
  match a, b with
  | x :: a', y :: b' => (x + y) :: addz a' b'
  | _, [] => a
  | [], _ => b
  end.
Definition scalez (c : Z) (a : list Z) : list Z := map (fun x => c * x) a.
Definition negz (a : list Z) : list Z := map Z.opp a.
Definition subz (a b : list Z) : list Z := addz a (negz b).
(** c[i+j] += a_i * b_j, row by row *)
Fixpoint mulz (a b : list Z) : list Z :=
  match a with
  | [] => []
  | x :: a' => addz (scalez x b) (0 :: mulz a' b)
  end.
(** c[2i] += a_i^2; c[2i+1+j] += 2 a_i a_(i+1+j) *)
Fixpoint sqz (a : list Z) : list Z :=
  match a with
  | [] => []
  | x :: a' => match a' with
               | [] => [x * x]
               | _ => x * x :: addz (scalez (2 * x) a') (0 :: sqz a')
               end
  end.
Fixpoint evalZ (a : list Z) (x : Z) : Z :=
  match a with [] => 0 | c :: a' => c + x * evalZ a' x end.

Fixpoint mapi_from (f : Z -> Z -> Z) (i : Z) (l : list Z) : list Z :=
  match l with [] => [] | x :: t => f i x :: mapi_from f (i + 1) t end.
(** math.perm(m+i, m) = (i+1)(i+2)...(i+m) *)
Fixpoint rising (i : Z) (m : nat) : Z :=
  match m with O => 1 | S m' => (i + Z.of_nat m) * rising i m' end.

Section Defs.
Variable p : Z.

Definition wf (a : list Z) : Prop := Forall (fun x => 0 <= x < p) a /\ last a 1 <> 0.
Definition wfb (a : list Z) : bool :=
  forallb (fun x => (0 <=? x) && (x <? p)) a && negb (last a 1 =? 0).

(** _from_int / _to_int *)
Fixpoint digits (fuel : nat) (neg : bool) (a : Z) : list Z :=
  match fuel with
  | O => []
  | S f => if a =? 0 then []
           else let r := a mod p in
                (if neg && negb (r =? 0) then p - r else r) :: digits f neg (a / p)
  end.
Definition from_int (a : Z) : list Z :=
  digits (S (S (Z.to_nat (Z.log2 (Z.abs a))))) (a <? 0) (Z.abs a).
Definition to_int (a : list Z) : Z := fold_right (fun ai s => s * p + ai) 0 a.

(** _monic(a, lc_pinv=True) *)
Definition monic_pinv (a : list Z) : list Z * Z :=
  match a with
  | [] => ([], 0)
  | _ => let a1 := last a 0 in
         if a1 =? 1 then (a, 1)
         else let a1' := inv_raw p a1 in
              (map (fun x => (x * a1') mod p) (removelast a) ++ [1], a1')
  end.
Definition monic (a : list Z) : list Z := fst (monic_pinv a).

Definition deriv (a : list Z) (m : nat) : list Z :=
  if Z.of_nat m >=? p then []
  else strip (mapi_from (fun i x => (rising i m * x) mod p) 0 (skipn m a)).

Definition neg (a : list Z) : list Z := map (fun x => if x =? 0 then 0 else p - x) a.

Definition addc (x y : Z) : Z := let s := x + y in if s >=? p then s - p else s.
Fixpoint add_raw (a b : list Z) : list Z :=
  match a, b with
  | x :: a', y :: b' => addc x y :: add_raw a' b'
  | _, [] => a
  | [], _ => b
  end.
Definition add (a b : list Z) : list Z :=
  strip (if (length a <? length b)%nat then add_raw b a else add_raw a b).

Definition subc (x y : Z) : Z := let d := x - y in if d <? 0 then d + p else d.
Fixpoint sub_raw (a b : list Z) : list Z :=
  match b with
  | [] => a
  | y :: b' => match a with
               | [] => subc 0 y :: sub_raw [] b'
               | x :: a' => subc x y :: sub_raw a' b'
               end
  end.
Definition sub (a b : list Z) : list Z := strip (sub_raw a b).

Definition modp (a : list Z) : list Z := map (fun c => c mod p) a.
Definition mul (a b : list Z) : list Z :=
  let '(a, b) := if (length b <? length a)%nat then (b, a) else (a, b) in
  match a with [] => [] | _ => modp (mulz a b) end.
Definition sq (a : list Z) : list Z := match a with [] => [] | _ => modp (sqz a) end.

(** [0]*n + a  (n < 0 gives a);  a[n:]  (n < 0 counts from the end) *)
Definition lshift (a : list Z) (n : Z) : list Z :=
  match a with [] => [] | _ => repeat 0 (Z.to_nat n) ++ a end.
Definition rshift (a : list Z) (n : Z) : list Z :=
  if n <? 0 then skipn (Z.to_nat (Z.of_nat (length a) + n)) a else skipn (Z.to_nat n) a.

(** r[i+j] = (r[i+j] - q_i*b[j]) % p  for j in range(len(b)), on the slice r[i:] *)
Fixpoint row_sub (qi : Z) (r b : list Z) : list Z :=
  match r, b with
  | x :: r', y :: b' => ((x - qi * y) mod p) :: row_sub qi r' b'
  | _, [] => r
  | [], _ => []
  end.
Definition elim_row (qi : Z) (i : nat) (r b : list Z) : list Z :=
  strip (firstn i r ++ row_sub qi (skipn i r) b).

(** for i in range(m-n, -1, -1): cnt = i+1; q is q[i+1:] *)
Fixpoint divmod_loop (b : list Z) (b1 : Z) (cnt : nat) (q r : list Z) : list Z * list Z :=
  match cnt with
  | O => (q, r)
  | S i => if (i + length b <=? length r)%nat
           then let qi := (last r 0 * b1) mod p in
                divmod_loop b b1 i (qi :: q) (elim_row qi i r b)
           else divmod_loop b b1 i (0 :: q) r
  end.
Fixpoint mod_loop (b : list Z) (b1 : Z) (cnt : nat) (r : list Z) : list Z :=
  match cnt with
  | O => r
  | S i => if (i + length b <=? length r)%nat
           then let qi := (last r 0 * b1) mod p in mod_loop b b1 i (elim_row qi i r b)
           else mod_loop b b1 i r
  end.
(** b <> [] assumed *)
Definition divmod_nz (a b : list Z) : list Z * list Z :=
  if (length a <? length b)%nat then ([], a)
  else divmod_loop b (inv_raw p (last b 0)) (S (length a - length b)) [] a.
Definition mod_nz (a b : list Z) : list Z :=
  if (length a <? length b)%nat then a
  else mod_loop b (inv_raw p (last b 0)) (S (length a - length b)) a.
Definition divmod (a b : list Z) : res (list Z * list Z) :=
  match b with [] => ZeroDiv | _ => Ok (divmod_nz a b) end.
Definition pmod (a b : list Z) : res (list Z) :=
  match b with [] => ZeroDiv | _ => Ok (mod_nz a b) end.
Definition floordiv (a b : list Z) : res (list Z) := bind (divmod a b) (fun qr => Ok (fst qr)).

(** while b: a, b = b, a % b   — len(b) strictly decreases, fuel len(b)+1 suffices *)
Fixpoint gcd_loop (fuel : nat) (a b : list Z) : option (list Z) :=
  match fuel with
  | O => None
  | S f => match b with [] => Some a | _ => gcd_loop f b (mod_nz a b) end
  end.
Definition gcd (a b : list Z) : res (list Z) :=
  match gcd_loop (S (length b)) a b with None => NoFuel | Some g => Ok (monic g) end.

Fixpoint gcdext_loop (fuel : nat) (a b s s1 t t1 : list Z) : option (list Z * list Z * list Z) :=
  match fuel with
  | O => None
  | S f => match b with
           | [] => Some (a, s, t)
           | _ => let '(q, r) := divmod_nz a b in
                  gcdext_loop f b r s1 (sub s (mul q s1)) t1 (sub t (mul q t1))
           end
  end.
Definition scale_mod (c : Z) (s : list Z) : list Z := map (fun x => (x * c) mod p) s.
Definition gcdext (a b : list Z) : res (list Z * list Z * list Z) :=
  match gcdext_loop (S (length b)) a b [1] [] [] [1] with
  | None => NoFuel
  | Some (g, s, t) =>
      let '(g', a1) := monic_pinv g in
      if a1 >=? 2 then Ok (g', scale_mod a1 s, scale_mod a1 t) else Ok (g', s, t)
  end.

Fixpoint invert_loop (fuel : nat) (a b s s1 : list Z) : option (list Z * list Z) :=
  match fuel with
  | O => None
  | S f => match b with
           | [] => Some (a, s)
           | _ => let '(q, r) := divmod_nz a b in invert_loop f b r s1 (sub s (mul q s1))
           end
  end.
Definition invert (a b : list Z) : res (list Z) :=
  match b with
  | [] => ZeroDiv
  | _ => match invert_loop (S (length b)) a b [1] [] with
         | None => NoFuel
         | Some (g, s) => match g with
                          | [g0] => Ok (scale_mod (inv_raw p g0) s)
                          | _ => ZeroDiv
                          end
         end
  end.

(** _mod(b, modulus) with modulus possibly None *)
Definition omod (a : list Z) (md : option (list Z)) : res (list Z) :=
  match md with None => Ok a | Some b => pmod a b end.
(** for i in range(n.bit_length()-2, -1, -1): square, reduce, multiply if bit set, reduce.
    The positive numeral is the bit string; its outermost constructor is the LAST iteration. *)
Fixpoint powmod_pos (a : list Z) (md : option (list Z)) (n : positive) : res (list Z) :=
  match n with
  | xH => Ok a
  | xO n' => bind (powmod_pos a md n') (fun b => omod (sq b) md)
  | xI n' => bind (powmod_pos a md n')
               (fun b => bind (omod (sq b) md) (fun b => omod (mul b a) md))
  end.
Definition powmod (a : list Z) (n : Z) (md : option (list Z)) : res (list Z) :=
  if n =? 0 then Ok (from_int 1)
  else if n <? 0 then
    match md with
    | None => ValueErr
    | Some b => bind (invert a b) (fun a' => powmod_pos a' md (Z.to_pos (- n)))
    end
  else powmod_pos a md (Z.to_pos n).

(** _lt: shorter is smaller; equal lengths: compare from the leading coefficient down *)
Fixpoint lt_hi (a b : list Z) : bool :=
  match a, b with
  | x :: a', y :: b' => if x =? y then lt_hi a' b' else x <? y
  | _, _ => false
  end.
Definition lt (a b : list Z) : bool :=
  if (length a <? length b)%nat then true
  else if (length b <? length a)%nat then false
  else lt_hi (rev a) (rev b).

(** __call__: Horner from the top, reducing every step *)
Definition call (a : list Z) (x : Z) : Z :=
  fold_right (fun c y => (y * (x mod p) + c) mod p) 0 a.
End Defs.
