(** C39 — model of [mpyc.sectypes.SecFld] argument resolution, of the lifting decision in
    [sectypes._SecFld], of [_pfield]'s party-count assert and of the threshold validation in
    [runtime.setup].

    Modelled as decision functions over the optional arguments; failures are an error value:
    [EAssert] (an [assert] fails -> AssertionError), [EValue] (ValueError raised by
    gmpy2.factor_prime_power / gfpx.GFpX / finfields.GF), [EMath] (math.log raises).

    Oracles (arguments of the functions; Section variables): [fpp] = gmpy2.factor_prime_power
    (None = ValueError), [isprime] = gmpy2.is_prime, [irred p cs] = GFpX(p).is_irreducible,
    [iroot] = gmpy2.iroot, [nextprime] = gmpy2.next_prime, [clog a b] =
    math.ceil(math.log(a, b)) (None = exception).  [finfields.find_irreducible p d] is trusted to
    return an irreducible polynomial over GF(p) of degree d for d >= 1 (of degree 1 for d = 0,
    which is what next_irreducible(p^0 - 1) gives); polynomials are little-endian coefficient lists.
    Domain of the correspondence: integer arguments >= 0 (negative exponents make Python's
    [char**ext_deg] a float). *)
From Coq Require Import ZArith List Lia Bool.
Import ListNotations.
Local Open Scope Z_scope.

Inductive err := EAssert | EValue | EMath.
Inductive result (A : Type) := Ok (a : A) | Err (e : err).
Arguments Ok {A}. Arguments Err {A}.

(** the [modulus] argument: None, an int, a string (its integer coefficients before reduction,
    little-endian), or a gfpx polynomial over GF(p) (reduced coefficients, no trailing zeros) *)
Inductive modarg := MNone | MInt (z : Z) | MStr (cs : list Z) | MPoly (p : Z) (cs : list Z).

(** the modulus finally handed to finfields.GF *)
Inductive fmod := FInt (z : Z) | FPoly (p : Z) (cs : list Z) | FIrr (p d : Z).

(** Python's [x or y] for x in {None} + int *)
Definition or_ (x : option Z) (y : Z) : Z :=
  match x with Some v => if v =? 0 then y else v | None => y end.

Fixpoint strip (cs : list Z) : list Z :=
  match cs with
  | [] => []
  | c :: r => match strip r with
              | [] => if c =? 0 then [] else [c]
              | r' => c :: r'
              end
  end.
Definition pnorm (p : Z) (cs : list Z) : list Z := strip (map (fun c => c mod p) cs).
Definition pdeg (cs : list Z) : Z := Z.of_nat (length cs) - 1.    (* degree; -1 for zero *)

(** GFpX(p)(z) for an int z: base-p digits *)
Fixpoint digits (fuel : nat) (p z : Z) : list Z :=
  match fuel with
  | O => []
  | S f => if z <=? 0 then [] else z mod p :: digits f p (z / p)
  end.
Definition int_poly (p z : Z) : list Z := digits (S (Z.to_nat (Z.log2 z))) p z.

Definition irr_deg (d : Z) : Z := if d <=? 0 then 1 else d.

Section Resolve.
  Variable fpp : Z -> option (Z * Z).
  Variable isprime : Z -> bool.
  Variable irred : Z -> list Z -> bool.
  Variable iroot : Z -> Z -> Z * bool.
  Variable nextprime : Z -> Z.
  Variable clog : Z -> Z -> option Z.

  (** [if order is not None: ...] -> (char, ext_deg) *)
  Definition stage_order (order char ext_deg : option Z) : result (option Z * option Z) :=
    match order with
    | None => Ok (char, ext_deg)
    | Some q =>
      match fpp q with
      | None => Err EValue
      | Some (p, d) =>
        let c := or_ char p in
        if negb (c =? p) then Err EAssert else
        let e := or_ ext_deg d in
        if negb (e =? d) then Err EAssert else Ok (Some c, Some e)
      end
    end.

  (** the two [isinstance] conversions to a polynomial -> (modulus, char) *)
  Definition stage_conv (modulus : modarg) (char : option Z) : result (modarg * option Z) :=
    match modulus with
    | MStr cs =>
      let c := or_ char 2 in
      if isprime c then Ok (MPoly c (pnorm c cs), Some c) else Err EValue
    | MInt z =>
      match char with
      | Some c => if negb (c =? 0) && (z >? c)
                  then (if isprime c then Ok (MPoly c (int_poly c z), char) else Err EValue)
                  else Ok (modulus, char)
      | None => Ok (modulus, char)
      end
    | _ => Ok (modulus, char)
    end.

  (** the if/elif/else on the modulus type -> (char, ext_deg, min_order, modulus for GF) *)
  Definition stage_mod (modulus : modarg) (char ext_deg min_order : option Z)
    : result (Z * Z * option Z * fmod) :=
    match modulus with
    | MPoly p cs =>
      let c := or_ char p in
      if negb (c =? p) then Err EAssert else
      let e := or_ ext_deg (pdeg cs) in
      if negb (e =? pdeg cs) then Err EAssert else     (* assert ext_deg == modulus.degree() *)
      Ok (c, e, min_order, FPoly p cs)
    | MInt z =>
      let c := or_ char z in
      if negb (c =? z) then Err EAssert else
      let e := or_ ext_deg 1 in
      if negb (e =? 1) then Err EAssert else Ok (c, e, min_order, FInt z)
    | MStr _ => Err EValue   (* unreachable after stage_conv *)
    | MNone =>
      let r : result (Z * Z * option Z) :=
        match min_order with
        | None => let c := or_ char 2 in let e := or_ ext_deg 1 in Ok (c, e, Some (c ^ e))
        | Some mo =>
          match char with
          | None => let e := or_ ext_deg 1 in
                    let '(root, exact) := iroot mo e in
                    let min_char := root + (if exact then 0 else 1) in
                    Ok (nextprime (min_char - 1), e, min_order)
          | Some c => match ext_deg with
                      | None => match clog mo c with
                                | None => Err EMath
                                | Some e => Ok (c, e, min_order)
                                end
                      | Some e => Ok (c, e, min_order)
                      end
          end
        end in
      match r with
      | Err x => Err x
      | Ok (c, e, mo) =>
        if e =? 1 then Ok (c, e, mo, FInt c)
        else if isprime c then Ok (c, e, mo, FIrr c e) else Err EValue
      end
    end.

  (** finfields.GF(modulus) -> (characteristic, ext_deg) of the field *)
  Definition stage_gf (m : fmod) : result (Z * Z) :=
    match m with
    | FInt z => if isprime z then Ok (z, 1) else Err EValue
    | FPoly p cs => if irred p cs then Ok (p, pdeg cs) else Err EValue
    | FIrr p d => Ok (p, irr_deg d)
    end.

  (** order / min_order bookkeeping, the final assert, and GF ->
      (field char, field degree, char, ext_deg, order as claimed) *)
  Definition stage_final (order : option Z) (x : Z * Z * option Z * fmod) : result (Z * Z * Z * Z * Z) :=
    let '(c, e, mo, m) := x in
    let q := or_ order (c ^ e) in
    let mo' := or_ mo q in
    if negb (mo' <=? q) then Err EAssert else
    match stage_gf m with
    | Err x => Err x
    | Ok (fc, fd) => Ok (fc, fd, c, e, q)
    end.

  Definition resolve (order : option Z) (modulus : modarg) (char ext_deg min_order : option Z)
    : result (Z * Z * Z * Z * Z) :=
    match stage_order order char ext_deg with
    | Err x => Err x
    | Ok (char1, ext1) =>
      match stage_conv modulus char1 with
      | Err x => Err x
      | Ok (mod2, char2) =>
        match stage_mod mod2 char2 ext1 min_order with
        | Err x => Err x
        | Ok y => stage_final order y
        end
      end
    end.

  (** ** _SecFld: lifting decision.  (t, m, field order q, field ext_deg) ->
      (order of secfld.field, lifted?, extension degree used) *)
  Definition lift_cfg (t m q fdeg : Z) : result (Z * bool * Z) :=
    if (t =? 0) || (m <? q) then Ok (q, false, 1)
    else if negb (fdeg =? 1) then Err EAssert
    else match clog (m + 1) q with
         | None => Err EMath
         | Some e => Ok (q ^ irr_deg e, true, e)
         end.
End Resolve.

(** out_conv: a lifted-field element (coefficient list over GF(q)) -> base field *)
Definition out_conv (q : Z) (cs : list Z) : result Z :=
  if negb (pdeg cs <=? 0) then Err EAssert else Ok (nth 0 cs 0 mod q).

(** _pfield's assert *)
Definition pfield_cfg (t m order : Z) : result Z :=
  if (t =? 0) || (m <? order) then Ok order else Err EAssert.

(** runtime.setup: default threshold and the assert *)
Definition setup_threshold (m : Z) (topt : option Z) : result Z :=
  let t := match topt with None => (m - 1) / 2 | Some t => t end in
  if 2 * t <? m then Ok t else Err EAssert.


(* ------------------------------------------------------------------------------------ *)
(** * Table-driven oracles, used by the correspondence check: the harness supplies the oracle
      answers for the queries of one call as finite tables (any other query gets a sentinel). *)
Fixpoint zlist_eqb (a b : list Z) : bool :=
  match a, b with
  | [], [] => true
  | x :: a', y :: b' => (x =? y) && zlist_eqb a' b'
  | _, _ => false
  end.

Definition tbl_fpp (t : list (Z * (Z * Z))) (x : Z) : option (Z * Z) :=
  match find (fun e => fst e =? x) t with Some e => Some (snd e) | None => None end.
Definition tbl_prime (ps : list Z) (x : Z) : bool := existsb (Z.eqb x) ps.
Definition tbl_irred (t : list (Z * list Z)) (p : Z) (cs : list Z) : bool :=
  existsb (fun e => (fst e =? p) && zlist_eqb (snd e) cs) t.
Definition tbl_iroot (t : list (Z * Z * (Z * bool))) (x n : Z) : Z * bool :=
  match find (fun e => (fst (fst e) =? x) && (snd (fst e) =? n)) t with Some e => snd e | None => (-7, false) end.
Definition tbl_next (t : list (Z * Z)) (x : Z) : Z :=
  match find (fun e => fst e =? x) t with Some e => snd e | None => -7 end.
Definition tbl_clog (t : list (Z * Z * option Z)) (a b : Z) : option Z :=
  match find (fun e => (fst (fst e) =? a) && (snd (fst e) =? b)) t with Some e => snd e | None => Some (-7) end.

Definition resolve_tbl fppT primes irrT irootT nextT clogT :=
  resolve (tbl_fpp fppT) (tbl_prime primes) (tbl_irred irrT) (tbl_iroot irootT) (tbl_next nextT) (tbl_clog clogT).
Definition lift_tbl clogT := lift_cfg (tbl_clog clogT).

(* ------------------------------------------------------------------------------------ *)
(** * Theorems: threshold validation, _pfield, lifting, out-conversion *)

Theorem setup_refuses m t : m <= 2 * t -> setup_threshold m (Some t) = Err EAssert.
Proof. intros H. unfold setup_threshold. destruct (2 * t <? m) eqn:E; [apply Z.ltb_lt in E; lia|reflexivity]. Qed.

Theorem setup_accepts_iff m t t' : setup_threshold m (Some t) = Ok t' <-> (t' = t /\ 2 * t < m).
Proof.
  unfold setup_threshold. destruct (2 * t <? m) eqn:E.
  - apply Z.ltb_lt in E. split; [intros H; inversion H; subst; split; [reflexivity|exact E]|intros [-> _]; reflexivity].
  - apply Z.ltb_ge in E. split; [discriminate|intros [_ H]; lia].
Qed.

Theorem default_threshold_ok m :
  setup_threshold m None = Ok ((m - 1) / 2) /\ 2 * ((m - 1) / 2) < m /\
  (forall t, 2 * t < m -> t <= (m - 1) / 2).
Proof.
  assert (H : 2 * ((m - 1) / 2) < m).
  { pose proof (Z.div_mod (m - 1) 2 ltac:(lia)). pose proof (Z.mod_pos_bound (m - 1) 2 ltac:(lia)). lia. }
  split; [|split; [exact H|]].
  - unfold setup_threshold. apply Z.ltb_lt in H. rewrite H. reflexivity.
  - intros t Ht. apply Z.div_le_lower_bound; lia.
Qed.

Theorem pfield_gt_m t m order o : pfield_cfg t m order = Ok o -> o = order /\ (t <> 0 -> m < o).
Proof.
  unfold pfield_cfg. destruct ((t =? 0) || (m <? order)) eqn:E; [|discriminate].
  intros H. inversion H; subst. split; [reflexivity|]. intros Ht.
  apply orb_true_iff in E. destruct E as [E|E]; [apply Z.eqb_eq in E; contradiction|apply Z.ltb_lt in E; exact E].
Qed.

Theorem pfield_refuses t m order : t <> 0 -> order <= m -> pfield_cfg t m order = Err EAssert.
Proof.
  intros Ht Ho. unfold pfield_cfg.
  destruct (t =? 0) eqn:E1; [apply Z.eqb_eq in E1; contradiction|].
  destruct (m <? order) eqn:E2; [apply Z.ltb_lt in E2; lia|reflexivity].
Qed.

Section Lift.
  Variable clog : Z -> Z -> option Z.

  (** lifted <-> t != 0 and m >= q (whenever a type is produced at all) *)
  Theorem lift_iff t m q fdeg o b e :
    lift_cfg clog t m q fdeg = Ok (o, b, e) -> (b = true <-> (t <> 0 /\ q <= m)).
  Proof.
    unfold lift_cfg. destruct (t =? 0) eqn:E1; simpl.
    - apply Z.eqb_eq in E1. intros H; inversion H; subst. split; [discriminate|intros [? _]; contradiction].
    - apply Z.eqb_neq in E1. destruct (m <? q) eqn:E2.
      + apply Z.ltb_lt in E2. intros H; inversion H; subst. split; [discriminate|lia].
      + apply Z.ltb_ge in E2. destruct (negb (fdeg =? 1)); [discriminate|].
        destruct (clog (m + 1) q); [|discriminate]. intros H; inversion H; subst. split; auto.
  Qed.

  Theorem nolift_same_field t m q fdeg o e :
    lift_cfg clog t m q fdeg = Ok (o, false, e) -> o = q /\ (t = 0 \/ m < q).
  Proof.
    unfold lift_cfg. destruct ((t =? 0) || (m <? q)) eqn:E.
    - intros H; inversion H; subst. split; [reflexivity|].
      apply orb_true_iff in E. destruct E as [E|E]; [left; apply Z.eqb_eq in E; exact E|right; apply Z.ltb_lt in E; exact E].
    - destruct (negb (fdeg =? 1)); [discriminate|]. destruct (clog (m + 1) q); discriminate.
  Qed.

  (** an extension field that is too small is refused (assert field.ext_deg == 1), not lifted *)
  Theorem lift_refuses_ext t m q fdeg : t <> 0 -> q <= m -> fdeg <> 1 -> lift_cfg clog t m q fdeg = Err EAssert.
  Proof.
    intros Ht Hq Hd. unfold lift_cfg.
    destruct (t =? 0) eqn:E1; [apply Z.eqb_eq in E1; contradiction|].
    destruct (m <? q) eqn:E2; [apply Z.ltb_lt in E2; lia|]. simpl.
    destruct (fdeg =? 1) eqn:E3; [apply Z.eqb_eq in E3; contradiction|reflexivity].
  Qed.

  (** the only law the code relies on: b^ceil(log_b a) >= a *)
  Definition clog_law := forall a b e, 2 <= b -> 1 <= a -> clog a b = Some e -> a <= b ^ e.

  Lemma pow_le_base q e : 2 <= q -> e <= 1 -> q ^ e <= q.
  Proof.
    intros Hq He. destruct (Z.eq_dec e 1) as [->|]; [rewrite Z.pow_1_r; lia|].
    destruct (Z.eq_dec e 0) as [->|]; [simpl; lia|].
    rewrite Z.pow_neg_r by lia. lia.
  Qed.

  Theorem lift_large_enough t m q fdeg o e :
    clog_law -> 2 <= q -> 0 <= m ->
    lift_cfg clog t m q fdeg = Ok (o, true, e) -> o = q ^ e /\ m < q ^ e /\ 2 <= e.
  Proof.
    intros Law Hq Hm. unfold lift_cfg.
    destruct ((t =? 0) || (m <? q)) eqn:E; [discriminate|].
    apply orb_false_iff in E. destruct E as [_ E]. apply Z.ltb_ge in E.
    destruct (negb (fdeg =? 1)); [discriminate|].
    destruct (clog (m + 1) q) as [e0|] eqn:Ec; [|discriminate].
    intros H; inversion H; subst. apply Law in Ec; [|lia|lia].
    assert (He : 2 <= e).
    { destruct (Z_le_gt_dec e 1) as [L|G]; [|lia]. pose proof (pow_le_base q e Hq L). lia. }
    unfold irr_deg. destruct (e <=? 0) eqn:E0; [apply Z.leb_le in E0; lia|].
    repeat split; lia.
  Qed.

  (** every SecFld field has more elements than parties when t != 0 *)
  Theorem secfld_field_gt_m t m q fdeg o b e :
    clog_law -> 2 <= q -> 0 <= m -> t <> 0 ->
    lift_cfg clog t m q fdeg = Ok (o, b, e) -> m < o.
  Proof.
    intros Law Hq Hm Ht H. destruct b.
    - apply lift_large_enough in H; auto. destruct H as [-> [H _]]. exact H.
    - apply nolift_same_field in H. destruct H as [-> [H|H]]; [contradiction|exact H].
  Qed.
End Lift.

Lemma pdeg_le0 cs : pdeg cs <= 0 -> cs = [] \/ exists c, cs = [c].
Proof.
  unfold pdeg. destruct cs as [|c [|d r]]; [left; reflexivity|right; eexists; reflexivity|].
  cbn [length]. rewrite !Nat2Z.inj_succ. lia.
Qed.

(** out_conv lands in the base field and only accepts constants *)
Theorem outputs_in_base_field q cs v : 0 < q ->
  out_conv q cs = Ok v -> 0 <= v < q /\ pdeg cs <= 0.
Proof.
  intros Hq. unfold out_conv. destruct (pdeg cs <=? 0) eqn:E; simpl; [|discriminate].
  apply Z.leb_le in E. intros H; inversion H; subst. split; [apply Z.mod_pos_bound; exact Hq|exact E].
Qed.

Theorem out_conv_base q v : 0 <= v < q -> out_conv q (if v =? 0 then [] else [v]) = Ok v.
Proof.
  intros H. unfold out_conv. destruct (v =? 0) eqn:E.
  - apply Z.eqb_eq in E. subst. reflexivity.
  - simpl. rewrite Z.mod_small by exact H. reflexivity.
Qed.

(* ------------------------------------------------------------------------------------ *)
(** * Theorems: SecFld argument resolution *)

Lemma or_some v y : v <> 0 -> or_ (Some v) y = v.
Proof. intros H. unfold or_. destruct (v =? 0) eqn:E; [apply Z.eqb_eq in E; contradiction|reflexivity]. Qed.

Ltac brk :=
  repeat match goal with
  | H : context [match ?x with _ => _ end] |- _ => destruct x eqn:?; try discriminate
  | H : Ok _ = Ok _ |- _ => inversion H; clear H; subst
  | H : Some _ = Some _ |- _ => inversion H; clear H; subst
  | H : (_, _) = (_, _) |- _ => inversion H; clear H; subst
  | H : negb _ = true |- _ => apply negb_true_iff in H
  | H : negb _ = false |- _ => apply negb_false_iff in H
  | H : (_ =? _) = true |- _ => apply Z.eqb_eq in H
  | H : (_ =? _) = false |- _ => apply Z.eqb_neq in H
  | H : (_ <=? _) = true |- _ => apply Z.leb_le in H
  | H : (_ <=? _) = false |- _ => apply Z.leb_gt in H
  end.

Ltac fin :=
  subst; split; [try reflexivity; try congruence
                |split; [first [left; reflexivity|right; split; reflexivity]
                        |repeat split; try reflexivity; try congruence;
                         try (match goal with H : _ = 1 |- _ => rewrite H; reflexivity end)]].

Section Facts.
  Variable fpp : Z -> option (Z * Z).
  Variable isprime : Z -> bool.
  Variable irred : Z -> list Z -> bool.
  Variable iroot : Z -> Z -> Z * bool.
  Variable nextprime : Z -> Z.
  Variable clog : Z -> Z -> option Z.

  Lemma final_facts order c e mo m fc fd c' e' q :
    stage_final isprime irred order (c, e, mo, m) = Ok (fc, fd, c', e', q) ->
    c' = c /\ e' = e /\ q = or_ order (c ^ e) /\ or_ mo q <= q /\
    stage_gf isprime irred m = Ok (fc, fd).
  Proof.
    unfold stage_final. intros H.
    destruct (negb (or_ mo (or_ order (c ^ e)) <=? or_ order (c ^ e))) eqn:E1; [discriminate|].
    destruct (stage_gf isprime irred m) as [[fc0 fd0]|] eqn:E2; [|discriminate].
    inversion H; subst. apply negb_false_iff, Z.leb_le in E1. auto.
  Qed.

  (** what stage_mod hands to GF: the field's characteristic is the resolved char; its degree
      is the resolved ext_deg (for every kind of modulus) as soon as ext_deg >= 1 *)
  Lemma stage_mod_facts modulus char ext_deg min_order c e mo m fc fd :
    stage_mod isprime iroot nextprime clog modulus char ext_deg min_order = Ok (c, e, mo, m) ->
    stage_gf isprime irred m = Ok (fc, fd) ->
    fc = c /\
    (mo = min_order \/ (min_order = None /\ mo = Some (c ^ e))) /\
    (match modulus with MPoly _ cs => fd = pdeg cs /\ e = pdeg cs | MInt _ => fd = 1 /\ e = 1 | _ => fd = irr_deg e end).
  Proof.
    unfold stage_mod, stage_gf. intros H1 H2.
    destruct modulus as [|z|cs|p cs].
    - (* MNone *)
      destruct min_order as [mo0|]; [destruct char as [c0|]; [destruct ext_deg as [e0|]|]|].
      + brk; fin.
      + destruct (clog mo0 c0); [|discriminate]. brk; fin.
      + destruct (iroot mo0 (or_ ext_deg 1)) as [root exact]. brk; fin.
      + brk; fin.
    - brk; fin.
    - discriminate.
    - brk; fin.
  Qed.

  Lemma stage_mod_degree modulus char ext_deg min_order c e mo m fc fd :
    stage_mod isprime iroot nextprime clog modulus char ext_deg min_order = Ok (c, e, mo, m) ->
    stage_gf isprime irred m = Ok (fc, fd) -> 1 <= e -> fd = e.
  Proof.
    intros H1 H2 He. destruct (stage_mod_facts _ _ _ _ _ _ _ _ _ _ H1 H2) as [_ [_ Hk]].
    assert (Hi : irr_deg e = e) by (unfold irr_deg; destruct (e <=? 0) eqn:E; [apply Z.leb_le in E; lia|reflexivity]).
    destruct modulus; try (rewrite Hk; exact Hi).
    - destruct Hk as [-> ->]. reflexivity.
    - destruct Hk as [-> ->]. reflexivity.
  Qed.

  Lemma stage_order_facts q0 char ext_deg char1 ext1 :
    stage_order fpp (Some q0) char ext_deg = Ok (char1, ext1) ->
    exists p d, fpp q0 = Some (p, d) /\ char1 = Some p /\ ext1 = Some d /\
                or_ char p = p /\ or_ ext_deg d = d.
  Proof.
    unfold stage_order. destruct (fpp q0) as [[p d]|]; [|discriminate].
    destruct (negb (or_ char p =? p)) eqn:E1; [discriminate|].
    destruct (negb (or_ ext_deg d =? d)) eqn:E2; [discriminate|].
    apply negb_false_iff, Z.eqb_eq in E1. apply negb_false_iff, Z.eqb_eq in E2.
    intros H; inversion H; subst. exists p, d. rewrite E1, E2. auto.
  Qed.

  (** stage_conv keeps a truthy char *)
  Lemma stage_conv_char modulus c1 mod2 char2 :
    c1 <> 0 -> stage_conv isprime modulus (Some c1) = Ok (mod2, char2) -> char2 = Some c1.
  Proof.
    intros Hc. unfold stage_conv. destruct modulus as [|z|cs|p cs].
    - intros H; inversion H; reflexivity.
    - destruct (negb (c1 =? 0) && (z >? c1)).
      + destruct (isprime c1); [|discriminate]. intros H; inversion H; reflexivity.
      + intros H; inversion H; reflexivity.
    - rewrite or_some by exact Hc. destruct (isprime c1); [|discriminate]. intros H; inversion H; reflexivity.
    - intros H; inversion H; reflexivity.
  Qed.

  (** stage_mod keeps a truthy char / a truthy ext_deg *)
  Lemma stage_mod_keeps_char modulus c1 ext mo c e mo' m :
    c1 <> 0 -> stage_mod isprime iroot nextprime clog modulus (Some c1) ext mo = Ok (c, e, mo', m) -> c = c1.
  Proof.
    intros Hc. unfold stage_mod. destruct modulus as [|z|cs|p cs]; rewrite ?or_some by assumption.
    - destruct mo as [mo0|]; rewrite ?or_some by assumption; intros H; brk; auto.
    - intros H; brk; auto.
    - discriminate.
    - intros H; brk; auto.
  Qed.

  Lemma stage_mod_keeps_deg modulus char e1 mo c e mo' m :
    e1 <> 0 -> stage_mod isprime iroot nextprime clog modulus char (Some e1) mo = Ok (c, e, mo', m) -> e = e1.
  Proof.
    intros He. unfold stage_mod. destruct modulus as [|z|cs|p cs]; rewrite ?or_some by assumption.
    - destruct mo as [mo0|]; [destruct char as [c0|]|]; rewrite ?or_some by assumption.
      + intros H; brk; auto.
      + destruct (iroot mo0 e1) as [root exact]. intros H; brk; auto.
      + intros H; brk; auto.
    - intros H; brk; auto.
    - discriminate.
    - intros H; brk; auto.
  Qed.

  Definition resolve' := resolve fpp isprime irred iroot nextprime clog.

  (** the three stages of a successful call, exposed *)
  Lemma resolve_stages order modulus char ext_deg min_order fc fd c e q :
    resolve' order modulus char ext_deg min_order = Ok (fc, fd, c, e, q) ->
    exists char1 ext1 mod2 char2 mo m,
      stage_order fpp order char ext_deg = Ok (char1, ext1) /\
      stage_conv isprime modulus char1 = Ok (mod2, char2) /\
      stage_mod isprime iroot nextprime clog mod2 char2 ext1 min_order = Ok (c, e, mo, m) /\
      q = or_ order (c ^ e) /\ or_ mo q <= q /\ stage_gf isprime irred m = Ok (fc, fd).
  Proof.
    unfold resolve', resolve. intros H.
    destruct (stage_order fpp order char ext_deg) as [[char1 ext1]|] eqn:E1; [|discriminate].
    destruct (stage_conv isprime modulus char1) as [[mod2 char2]|] eqn:E2; [|discriminate].
    destruct (stage_mod isprime iroot nextprime clog mod2 char2 ext1 min_order)
      as [[[[c0 e0] mo0] m0]|] eqn:E3; [|discriminate].
    apply final_facts in H. destruct H as [-> [-> [Hq [Hmo Hgf]]]].
    exists char1, ext1, mod2, char2, mo0, m0. auto 10.
  Qed.

  (** For ALL argument values: a successful call has field characteristic = resolved char,
      field degree = resolved ext_deg (when >= 1), claimed order = [order] if given else
      char^ext_deg, and min_order <= claimed order. *)
  Theorem resolve_bookkeeping order modulus char ext_deg min_order fc fd c e q :
    resolve' order modulus char ext_deg min_order = Ok (fc, fd, c, e, q) ->
    fc = c /\ (1 <= e -> fd = e) /\ q = or_ order (c ^ e) /\ or_ min_order q <= q.
  Proof.
    intros H. destruct (resolve_stages _ _ _ _ _ _ _ _ _ _ H)
      as [char1 [ext1 [mod2 [char2 [mo [m [E1 [E2 [E3 [Hq [Hmo Hgf]]]]]]]]]]].
    destruct (stage_mod_facts _ _ _ _ _ _ _ _ _ _ E3 Hgf) as [Hc [Hm _]].
    split; [exact Hc|split; [exact (stage_mod_degree _ _ _ _ _ _ _ _ _ _ E3 Hgf)|split; [exact Hq|]]].
    destruct Hm as [->|[-> _]]; [exact Hmo|]. simpl. lia.
  Qed.

  (** law of gmpy2.factor_prime_power *)
  Definition fpp_law := forall x p d, fpp x = Some (p, d) -> p ^ d = x /\ p <> 0 /\ 1 <= d.

  (** explicit order q0: the FIELD (whatever the modulus argument) has exactly order q0, its
      characteristic and degree are the prime-power factorisation of q0 *)
  Theorem secfld_order_exact q0 modulus char ext_deg min_order fc fd c e q :
    fpp_law ->
    resolve' (Some q0) modulus char ext_deg min_order = Ok (fc, fd, c, e, q) ->
    fpp q0 = Some (fc, fd) /\ fc ^ fd = q0 /\ q = q0 /\ c = fc /\ e = fd.
  Proof.
    intros Law H. destruct (resolve_stages _ _ _ _ _ _ _ _ _ _ H)
      as [char1 [ext1 [mod2 [char2 [mo [m [E1 [E2 [E3 [Hq [Hmo Hgf]]]]]]]]]]].
    apply stage_order_facts in E1. destruct E1 as [p [d [Hf [-> [-> _]]]]].
    destruct (Law _ _ _ Hf) as [Hpd [Hp Hd]].
    assert (Hd0 : d <> 0) by lia.
    pose proof (stage_conv_char _ _ _ _ Hp E2) as ->.
    pose proof (stage_mod_keeps_char _ _ _ _ _ _ _ _ Hp E3) as ->.
    pose proof (stage_mod_keeps_deg _ _ _ _ _ _ _ _ Hd0 E3) as ->.
    destruct (stage_mod_facts _ _ _ _ _ _ _ _ _ _ E3 Hgf) as [-> _].
    pose proof (stage_mod_degree _ _ _ _ _ _ _ _ _ _ E3 Hgf Hd) as ->.
    assert (Hq0 : q0 <> 0).
    { intros ->. assert (0 < p ^ d \/ p ^ d < 0 \/ p ^ d = 0) by lia.
      apply Z.pow_eq_0_iff in Hpd. lia. }
    rewrite or_some in Hq by exact Hq0.
    repeat split; auto.
  Qed.

  (** explicit (nonzero) char: the field has that characteristic *)
  Theorem secfld_char_exact order modulus c0 ext_deg min_order fc fd c e q :
    c0 <> 0 ->
    resolve' order modulus (Some c0) ext_deg min_order = Ok (fc, fd, c, e, q) -> fc = c0.
  Proof.
    intros Hc0 H. destruct (resolve_stages _ _ _ _ _ _ _ _ _ _ H)
      as [char1 [ext1 [mod2 [char2 [mo [m [E1 [E2 [E3 [Hq [Hmo Hgf]]]]]]]]]]].
    assert (Hc1 : char1 = Some c0).
    { destruct order as [q0|].
      - apply stage_order_facts in E1. destruct E1 as [p [d [_ [-> [_ [Hor _]]]]]].
        rewrite or_some in Hor by exact Hc0. subst. reflexivity.
      - simpl in E1. inversion E1. reflexivity. }
    subst char1.
    pose proof (stage_conv_char _ _ _ _ Hc0 E2) as ->.
    pose proof (stage_mod_keeps_char _ _ _ _ _ _ _ _ Hc0 E3) as ->.
    destruct (stage_mod_facts _ _ _ _ _ _ _ _ _ _ E3 Hgf) as [-> _]. reflexivity.
  Qed.

  (** explicit ext_deg >= 1: the field has that degree (also with a polynomial modulus) *)
  Theorem secfld_ext_deg_exact order modulus char e0 min_order fc fd c e q :
    1 <= e0 ->
    resolve' order modulus char (Some e0) min_order = Ok (fc, fd, c, e, q) -> fd = e0 /\ e = e0.
  Proof.
    intros He0 H. destruct (resolve_stages _ _ _ _ _ _ _ _ _ _ H)
      as [char1 [ext1 [mod2 [char2 [mo [m [E1 [E2 [E3 [Hq [Hmo Hgf]]]]]]]]]]].
    assert (Hne : e0 <> 0) by lia.
    assert (He1 : ext1 = Some e0).
    { destruct order as [q0|].
      - apply stage_order_facts in E1. destruct E1 as [p [d [_ [_ [-> [_ Hor]]]]]].
        rewrite or_some in Hor by exact Hne. subst. reflexivity.
      - simpl in E1. inversion E1. reflexivity. }
    subst ext1.
    pose proof (stage_mod_keeps_deg _ _ _ _ _ _ _ _ Hne E3) as ->.
    split; [|reflexivity]. exact (stage_mod_degree _ _ _ _ _ _ _ _ _ _ E3 Hgf He0).
  Qed.

  (** the claimed order IS the order of the field handed out (resolved ext_deg >= 1) *)
  Theorem secfld_claimed_is_actual order modulus char ext_deg min_order fc fd c e q :
    fpp_law -> 1 <= e ->
    resolve' order modulus char ext_deg min_order = Ok (fc, fd, c, e, q) -> q = fc ^ fd.
  Proof.
    intros Law He H. destruct order as [q0|].
    - destruct (secfld_order_exact _ _ _ _ _ _ _ _ _ _ Law H) as [_ [Hp [-> _]]]. symmetry; exact Hp.
    - destruct (resolve_bookkeeping _ _ _ _ _ _ _ _ _ _ H) as [-> [Hd [Hq _]]].
      rewrite (Hd He). exact Hq.
  Qed.

  (** min_order is a lower bound of the claimed order, unconditionally (final assert) ... *)
  Theorem secfld_min_order order modulus char ext_deg mo fc fd c e q :
    mo <> 0 ->
    resolve' order modulus char ext_deg (Some mo) = Ok (fc, fd, c, e, q) -> mo <= q.
  Proof.
    intros Hmo H. apply resolve_bookkeeping in H. destruct H as [_ [_ [_ H]]].
    rewrite or_some in H by exact Hmo. exact H.
  Qed.

  (** ... hence of the ACTUAL field order *)
  Theorem secfld_min_order_field order modulus char ext_deg mo fc fd c e q :
    fpp_law -> 1 <= e -> mo <> 0 ->
    resolve' order modulus char ext_deg (Some mo) = Ok (fc, fd, c, e, q) -> mo <= fc ^ fd.
  Proof.
    intros Law He Hmo H. rewrite <- (secfld_claimed_is_actual _ _ _ _ _ _ _ _ _ _ Law He H).
    exact (secfld_min_order _ _ _ _ _ _ _ _ _ _ Hmo H).
  Qed.
End Facts.

(* ------------------------------------------------------------------------------------ *)
(** * Values of a lifted type.  SecureFiniteField.__init__ for an int value of a lifted type:
      [value %= subfield.modulus; value = field(value)], i.e. the constant polynomial (v mod q) of
      GF(q^e) (coefficient list, no trailing zeros).  So every int lands in the embedded base field
      and its output conversion is v mod q. *)
Definition lift_int (q v : Z) : list Z := let r := v mod q in if r =? 0 then [] else [r].

Theorem lift_int_in_base_field q v : 0 < q ->
  pdeg (lift_int q v) <= 0 /\ out_conv q (lift_int q v) = Ok (v mod q) /\ 0 <= v mod q < q.
Proof.
  intros Hq. pose proof (Z.mod_pos_bound v q Hq) as Hr.
  split; [|split; [apply out_conv_base; exact Hr|exact Hr]].
  unfold lift_int, pdeg. destruct (v mod q =? 0); simpl; lia.
Qed.

Theorem lift_int_congruent q v w : 0 < q -> v mod q = w mod q -> lift_int q v = lift_int q w.
Proof. intros _ H. unfold lift_int. rewrite H. reflexivity. Qed.
