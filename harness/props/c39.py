"""C39 — secure type and party configuration parameters are valid.

Proof: coq/props/C39.v over coq/theories/SecFldCfg.v (SecFld argument resolution as a decision function with the
gmpy / math.log / gfpx primitives as oracles; lifting decision of _SecFld; _pfield assert; setup's threshold assert).
Tie: real mpc.SecFld over a cross product of argument combinations (in-process, m=1) compared with the Coq decision
function (oracle answers supplied as tables computed by independent Python code) and with the direct definitions;
real setup()/SecFld/SecInt/SecFxp/SecFlt in subprocesses for m in 1..9 and all t (including invalid ones).
"""
import os, sys, json, math, time, subprocess, itertools
from concurrent.futures import ThreadPoolExecutor
from lib.core import zlit, zlist, PY, impl_env

MANIFEST = {
    'text': 'Coq theorems over the decision-function model of SecFld (all argument values, all kinds of modulus): a '
            'successful resolution has field characteristic = resolved char and field degree = resolved ext_deg; an explicit '
            'order q0 yields a field of exactly order q0 whose (char, degree) is the prime-power factorisation of q0; an '
            'explicit char / ext_deg is met exactly; min_order <= claimed order unconditionally (final assert: a wrong float '
            'log can only become an error) and the claimed order is the actual field order; lifting happens iff t != 0 and '
            'm >= q; under the ceil-log law the lifted field has q^e > m with e >= 2; every SecFld / _pfield field has order > m '
            'when t != 0; an int value of a lifted type is the constant (v mod q) of the extension field, inside the embedded '
            'base field, with output conversion v mod q; setup refuses 2t >= m and its default threshold (m-1)//2 is valid and maximal; out-conversion lands '
            'in [0,q). Model and real mpc.SecFld are compared on every run over argument cross products (inconsistent '
            'combinations are expected to be refused); setup/lifting/_pfield over all (m,t), m <= 9, in subprocesses. The '
            'earlier finding F-C39-1 (degree of a polynomial modulus never compared with ext_deg/order) is repaired by repo '
            'commit d972df8; the model contains the new assert and the formerly accepted calls are ordinary refused cases.',
    'note': 'Trusted: Coq kernel+vm_compute; gmpy2 stubs (factor_prime_power, is_prime, iroot, next_prime), '
            'gfpx.is_irreducible, finfields.find_irreducible (degree-d irreducible) and math.ceil(math.log(a,b)) are ORACLES: '
            'their answers are supplied to the model as tables computed by independent Python code in this check (own '
            'Miller-Rabin, integer roots, brute-force irreducibility), except math.log which is the real float function. The '
            'law b^clog(a,b) >= a is assumed by lift_large_enough and is tested for all m <= 3000 (thorough 20000) and all '
            'prime q <= m (it is false for astronomically large m, float log). Refusals are asserts: they vanish under '
            'python -O (property stated for the default mode). Not refused: the Runtime.threshold SETTER and Runtime() '
            'constructor accept any t (only setup() validates); negative -T passes the assert; an extension field that is too '
            'small (e.g. SecFld(4) with m >= 4, t > 0) is refused by an assert (TODO in the source) rather than lifted. '
            'finfields.find_irreducible is memoised by the check (pure function). Large orders q^d (q in {1031, 65537, 2^31-1}, above '
            'factor_prime_power\'s trial-division range) are restricted to degrees whose find_irreducible is fast. '
            'Integer arguments >= 0 only. NumPy array out-conversion is not exercised (subprocesses use /venv).',
    'technique': 'Coq proof over decision-function model with oracles + vm_compute correspondence + multi-configuration subprocess runs',
}

# ---------------------------------------------------------------------------------------------
# independent number theory (not mpyc.gmpy)

_MR_BASES = (2, 3, 5, 7, 11, 13, 17, 19, 23, 29, 31, 37, 41)   # deterministic below 3.3e24


def my_is_prime(x):
    if x < 2:
        return False
    for p in _MR_BASES:
        if x % p == 0:
            return x == p
    d, s = x - 1, 0
    while d % 2 == 0:
        d //= 2
        s += 1
    for a in _MR_BASES:
        y = pow(a, d, x)
        if y in (1, x - 1):
            continue
        for _ in range(s - 1):
            y = y * y % x
            if y == x - 1:
                break
        else:
            return False
    return True


def my_iroot(x, n):
    """floor(x^(1/n)) by bisection, and exactness."""
    if x == 0:
        return 0, True
    lo, hi = 0, 1
    while hi ** n <= x:
        hi *= 2
    while hi - lo > 1:
        mid = (lo + hi) // 2
        if mid ** n <= x:
            lo = mid
        else:
            hi = mid
    return lo, lo ** n == x


def my_fpp(x):
    if x <= 1:
        return None
    for d in range(x.bit_length(), 0, -1):
        r, exact = my_iroot(x, d)
        if exact and my_is_prime(r):
            return r, d
    return None


def my_next_prime(x):
    y = max(x + 1, 2)
    while not my_is_prime(y):
        y += 1
    return y


def poly_norm(p, cs):
    cs = [c % p for c in cs]
    while cs and cs[-1] == 0:
        cs.pop()
    return cs


def poly_digits(p, z):
    out = []
    while z > 0:
        out.append(z % p)
        z //= p
    return out


def poly_mod(a, b, p):
    """remainder of a by b (little-endian coefficient lists over GF(p), b nonzero)."""
    a = list(a)
    inv = pow(b[-1], -1, p)
    while len(a) >= len(b):
        f = a[-1] * inv % p
        sh = len(a) - len(b)
        for i, c in enumerate(b):
            a[sh + i] = (a[sh + i] - f * c) % p
        while a and a[-1] == 0:
            a.pop()
    return a


def my_irreducible(p, cs):
    """brute force: degree >= 1 and no monic divisor of degree 1..deg//2."""
    d = len(cs) - 1
    if d < 1:
        return False
    for k in range(1, d // 2 + 1):
        for low in itertools.product(range(p), repeat=k):
            if not poly_mod(cs, list(low) + [1], p):
                return False
    return True


def poly_str(cs):
    terms = []
    for i in range(len(cs) - 1, -1, -1):
        c = cs[i]
        if c == 0:
            continue
        if i == 0:
            terms.append(str(c))
        else:
            terms.append(('' if c == 1 else str(c)) + ('x' if i == 1 else 'x^%d' % i))
    return '+'.join(terms) if terms else '0'


def real_clog(a, b):
    try:
        return math.ceil(math.log(a, b))
    except (ValueError, ZeroDivisionError):
        return None


# ---------------------------------------------------------------------------------------------
# Coq literals

def optz(x):
    return 'None' if x is None else '(Some %s)' % zlit(x)


def modlit(m):
    if m is None:
        return 'MNone'
    if m[0] == 'int':
        return '(MInt %s)' % zlit(m[1])
    if m[0] == 'str':
        return '(MStr %s)' % zlist(m[1])
    return '(MPoly %s %s)' % (zlit(m[1]), zlist(m[2]))


def truthy(x):
    return x is not None and x != 0


def tables(order, modulus, char, ext_deg, min_order):
    """Oracle answers for every query the resolution of this call can make."""
    cand = {2}
    for v in (char,):
        if v is not None:
            cand.add(v)
    fppT = []
    if order is not None:
        r = my_fpp(order)
        if r:
            fppT.append((order, r))
            cand.add(r[0])
    if modulus is not None:
        if modulus[0] == 'int':
            cand.add(modulus[1])
        elif modulus[0] == 'poly':
            cand.add(modulus[1])
    irootT, nextT = [], []
    if min_order is not None:
        e = ext_deg if truthy(ext_deg) else 1
        if e >= 1:
            root, exact = my_iroot(min_order, e)
            irootT.append((min_order, e, root, exact))
            arg = root + (0 if exact else 1) - 1
            npv = my_next_prime(arg)
            nextT.append((arg, npv))
            cand.add(npv)
    clogT = []
    if min_order is not None:
        for b in sorted(cand):
            clogT.append((min_order, b, real_clog(min_order, b)))
    primes = sorted(x for x in cand if my_is_prime(x))
    irrT = []
    if modulus is not None:
        eff = char if truthy(char) else (fppT[0][1][0] if fppT else None)
        for p in primes:
            if modulus[0] == 'int' and not (eff == p and modulus[1] > p):
                continue
            if modulus[0] == 'str':
                cs = poly_norm(p, modulus[1])
            elif modulus[0] == 'int':
                cs = poly_digits(p, modulus[1])
            else:
                if p != modulus[1]:
                    continue
                cs = list(modulus[2])
            if p ** max(len(cs) - 1, 0) > 10 ** 6:
                return None          # brute-force irreducibility too expensive: case skipped by the caller
            if my_irreducible(p, cs):
                irrT.append((p, cs))
    s = 'resolve_tbl [%s] %s [%s] [%s] [%s] [%s]' % (
        '; '.join('(%s, (%s, %s))' % (zlit(a), zlit(b[0]), zlit(b[1])) for a, b in fppT),
        zlist(primes),
        '; '.join('(%s, %s)' % (zlit(p), zlist(cs)) for p, cs in irrT),
        '; '.join('(%s, %s, (%s, %s))' % (zlit(a), zlit(b), zlit(c), 'true' if d else 'false') for a, b, c, d in irootT),
        '; '.join('(%s, %s)' % (zlit(a), zlit(b)) for a, b in nextT),
        '; '.join('(%s, %s, %s)' % (zlit(a), zlit(b), optz(c)) for a, b, c in clogT))
    return s


def canon_exc(e):
    if isinstance(e, AssertionError):
        return ('Err', 'EAssert')
    if isinstance(e, ZeroDivisionError) or (isinstance(e, ValueError) and 'math domain' in str(e)):
        return ('Err', 'EMath')
    if isinstance(e, ValueError):
        return ('Err', 'EValue')
    return ('Err', 'Other:' + type(e).__name__)


# ---------------------------------------------------------------------------------------------
# subprocess script: one (m, t, k) configuration

SUB = r'''
import sys, os, json
m, t, k = int(sys.argv[1]), sys.argv[2], int(sys.argv[3])
argv = ['prog', '-M', str(m), '-I', '0', '--no-log', '-K', str(k)]
if t != 'None':
    argv += ['-T', t]
sys.argv = list(argv)
import io, contextlib
buf = io.StringIO()
with contextlib.redirect_stdout(buf):
    import mpyc.runtime as rtm
res = {'m': m, 't': t, 'k': k, 'import_msg': buf.getvalue().strip(), 'has_mpc': hasattr(rtm, 'mpc')}
if not res['has_mpc']:
    sys.argv = list(argv)
    try:
        rtm.setup()
        res['setup'] = 'ok'
    except BaseException as e:
        res['setup'] = type(e).__name__
    print('RESULT ' + json.dumps(res)); sys.exit(0)
mpc = rtm.mpc
res['setup'] = 'ok'
res['threshold'] = mpc.threshold
res['parties'] = len(mpc.parties)
def cls(e):
    return type(e).__name__
flds = {}
for q in [2, 3, 4, 5, 7, 8, 9, 11, 13, 16, 25, 127]:
    try:
        S = mpc.SecFld(q)
        F = S.field
        d = {'order': F.order, 'char': F.characteristic, 'deg': F.ext_deg,
             'sub': (S.subfield.order if S.subfield else None), 'bit_length': S.bit_length}
        if S.subfield:
            ok = True
            for v in range(min(q, 5)):
                a = F(v)
                b = S._output_conversion(a)
                ok = ok and isinstance(b, S.subfield) and int(b) == v and b.order == q
            d['out_ok'] = ok
            try:
                x = F(F.modulus.p)     # the polynomial X: degree 1, not in the base field
                S._output_conversion(x)
                d['out_nonbase'] = 'accepted'
            except BaseException as e:
                d['out_nonbase'] = cls(e)
            d['arr_sub'] = bool(S.array.sectype.subfield) if hasattr(S, 'array') else None
            consts = []
            for v in range(-q - 1, 2 * q + 2):
                a = S(v).share                      # public constant: the field element itself
                val = a.value.value
                cs = [(val >> i) & 1 for i in range(val.bit_length())] if isinstance(val, int) else [int(c) for c in val]
                try:
                    b = S._output_conversion(a)
                    o = [type(b) is S.subfield, int(b.value)]
                except BaseException as e:
                    o = cls(e)
                same = (S(S.subfield(v)).share == a) and type(a) is F
                consts.append([v, cs, o, bool(same)])
            d['consts'] = consts
        elif F.ext_deg == 1:
            d['consts_plain'] = all(type(S(v).share) is F and int(S(v).share.value) == v % q for v in range(-q - 1, 2 * q + 2))
        flds[str(q)] = d
    except BaseException as e:
        flds[str(q)] = {'error': cls(e)}
res['secfld'] = flds
nums = {}
def rec(name, f):
    try:
        T = f()
        if hasattr(T, 'significand_type'):
            nums[name] = {'orders': [T.significand_type.field.order, T.exponent_type.field.order]}
        else:
            nums[name] = {'orders': [T.field.order]}
    except BaseException as e:
        nums[name] = {'error': cls(e)}
rec('SecInt()', lambda: mpc.SecInt())
rec('SecInt(1)', lambda: mpc.SecInt(1))
rec('SecInt(2)', lambda: mpc.SecInt(2))
rec('SecInt(8)', lambda: mpc.SecInt(8))
rec('SecInt(1,p=5)', lambda: mpc.SecInt(1, p=5))
rec('SecInt(1,p=11)', lambda: mpc.SecInt(1, p=11))
rec('SecFxp()', lambda: mpc.SecFxp())
rec('SecFxp(2,1)', lambda: mpc.SecFxp(2, 1))
rec('SecFxp(8,4)', lambda: mpc.SecFxp(8, 4))
rec('SecFlt()', lambda: mpc.SecFlt())
rec('SecFlt(4,2,2)', lambda: mpc.SecFlt(4, 2, 2))
res['nums'] = nums
print('RESULT ' + json.dumps(res))
'''


def run_sub(m, t, k):
    env = impl_env()
    env.pop('READTHEDOCS', None)
    p = subprocess.run([PY, '-c', SUB, str(m), str(t), str(k)], env=env, text=True, timeout=300,
                       stdout=subprocess.PIPE, stderr=subprocess.PIPE, cwd='/tmp')
    line = [l for l in p.stdout.split('\n') if l.startswith('RESULT ')]
    if not line:
        return {'m': m, 't': str(t), 'k': k, 'crash': (p.stdout[-500:] + p.stderr[-1500:])}
    return json.loads(line[-1][7:])


# ---------------------------------------------------------------------------------------------

def run(ctx):
    sys.argv = [sys.argv[0], '--no-log']
    from mpyc.runtime import mpc
    from mpyc import gfpx, finfields
    import functools
    if not hasattr(finfields.find_irreducible, 'cache_info'):
        # pure function; memoised so that repeated argument combinations on one large field stay cheap
        finfields.find_irreducible = functools.cache(finfields.find_irreducible)
    ok = ctx.build() and ctx.check_props()
    rng = ctx.rng
    ctx.rule = ('case = one SecFld(order, modulus, char, ext_deg, min_order) call (single-argument sweeps, order x other, all '
                'pairs, random 5-tuples from boundary pools; large prime powers q^d, q in {1031, 65537, 2^31-1}, composite d incl. 6, 9, 12, '
                'in the combinations order / order+char / order+ext_deg / order+min_order / char+ext_deg / inconsistent) or one (m, t, sec_param) process configuration; non-trivial when '
                'at least two arguments interact or the call is refused / lifted')
    ctx.explanation = ('decision-function model proved in Coq; evaluated on each argument combination with oracle tables '
                       'from independent Python number theory and compared exactly with mpc.SecFld; every successful call '
                       'is also checked against the requested order/char/degree/min_order directly')

    orders_all = list(range(0, 131))
    orders_sub = [0, 1, 2, 3, 4, 5, 6, 7, 8, 9, 16, 25, 27, 32, 49, 64, 81, 100, 121, 125, 127, 128, 130]
    mod_ints = [0, 1, 2, 3, 4, 5, 6, 7, 9, 10, 11, 13, 25, 2**61 - 1]
    mod_strs = [[1, 1, 1], [1, 1, 0, 1], [1, 0, 1], [0, 1], [1], [], [2, 2, 1], [1, 2, 0, 1], [7, 5], [1, 1, 0, 0, 1], [1, 0, 0, 1]]
    mod_polys = [(3, [1, 0, 1]), (2, [1, 1, 1]), (5, [2, 0, 1]), (3, [1, 1]), (2, [1, 1, 0, 1]), (2, [1, 0, 1]), (7, [3])]
    moduli = [None] + [('int', z) for z in mod_ints] + [('str', cs) for cs in mod_strs] + [('poly', p, cs) for p, cs in mod_polys]
    chars = [None, 0, 2, 3, 4, 5, 6, 7, 11, 13]
    exts = [None, 0, 1, 2, 3, 4, 5]
    mins = [None, 0, 1, 2, 3, 4, 5, 8, 9, 10, 27, 100, 125, 243, 1000, 2**16, 2**61, 2**70]
    cases = []
    for o in orders_all:
        cases.append((o, None, None, None, None))
    for o in orders_sub:
        for md in moduli[1:]:
            cases.append((o, md, None, None, None))
        for c in chars[1:]:
            cases.append((o, None, c, None, None))
        for e in exts[1:]:
            cases.append((o, None, None, e, None))
        for mo in mins[1:]:
            cases.append((o, None, None, None, mo))
    for md in moduli:
        for c in chars:
            cases.append((None, md, c, None, None))
        for e in exts:
            cases.append((None, md, None, e, None))
        for mo in mins:
            cases.append((None, md, None, None, mo))
    for c in chars:
        for e in exts:
            cases.append((None, None, c, e, None))
        for mo in mins:
            cases.append((None, None, c, None, mo))
    for e in exts:
        for mo in mins:
            cases.append((None, None, None, e, mo))
    for _ in range(ctx.n(900, 9000)):
        cases.append((rng.choice([None, None] + orders_all + orders_sub), rng.choice(moduli + [None] * 6),
                      rng.choice(chars + [None] * 3), rng.choice(exts + [None] * 2), rng.choice(mins + [None] * 6)))
    # polynomial modulus with a different requested degree / order (accepted before repo commit d972df8): must be refused
    cases.append((8, ('str', [1, 1, 1]), None, None, None))
    cases.append((None, ('str', [1, 1, 1]), None, 10, 100))
    cases.append((None, ('str', [1, 1, 1]), None, 3, None))
    # large prime powers q**d with q above factor_prime_power's trial-division range (q >= 2**10: the order is factored by
    # integer roots, composite d exercises the exponent accumulation); only (q, d) whose find_irreducible is fast
    # (e.g. (2**31-1, 4) takes minutes inside mpyc) -- the types are only constructed, no arithmetic
    big_pd = [(1031, d) for d in (1, 2, 3, 4, 6, 8, 9, 12)]
    big_pd += [(65537, d) for d in ctx.n((1, 2, 4, 6, 8), (1, 2, 3, 4, 6, 8, 9, 12))]
    big_pd += [(2**31 - 1, d) for d in (1, 2, 3, 6, 9)]
    big_cases = []
    for (bp, bd) in big_pd:
        bq = bp ** bd
        big_cases += [(bq, None, None, None, None), (bq, None, bp, None, None), (bq, None, None, bd, None),
                      (bq, None, None, None, bq), (None, None, bp, bd, None), (bq, None, bp, bd, bq),
                      (bq, None, None, bd + 1, None), (bq, None, None, None, bq + 1), (bq, None, 1033, None, None),
                      (bq + 2, None, None, None, None)]
        if bd > 1:
            big_cases += [(bq, None, None, bd // (2 if bd % 2 == 0 else 3), None)]
    big_set = set(json.dumps(c) for c in big_cases)
    cases += big_cases
    seen, uniq = set(), []
    for c in cases:
        k = json.dumps(c)
        if k not in seen:
            seen.add(k)
            uniq.append(c)
    cases = uniq

    def mk_mod(md):
        if md is None:
            return None
        if md[0] == 'int':
            return md[1]
        if md[0] == 'str':
            return poly_str(md[1])
        return gfpx.GFpX(md[1])(poly_str(md[2]))

    exprs, meta = [], []
    skipped = 0
    slow, t_impl = [0.0, None], [0.0]
    for (order, md, char, ext_deg, min_order) in cases:
        # keep finfields.find_irreducible cheap (it is very slow for large p: SecFld(ext_deg=3, min_order=2**70) takes
        # minutes): huge min_order only for prime fields or char in {2, 3} with the degree left to the code
        if min_order is not None and min_order > 2**16 and json.dumps((order, md, char, ext_deg, min_order)) not in big_set:
            if not (md is None and ((char is None and not (truthy(ext_deg) and ext_deg > 1)) or (char in (2, 3) and ext_deg is None))):
                skipped += 1
                continue
        # string parsing is gfpx's (outside the model): over GF(2) it rejects coefficients > 1
        if md is not None and md[0] == 'str' and any(c > 1 for c in md[1]):
            pp0 = my_fpp(order) if order is not None else None
            if (char if truthy(char) else (pp0[0] if pp0 else 2)) == 2:
                skipped += 1
                continue
        tbl = tables(order, md, char, ext_deg, min_order)
        if tbl is None:
            skipped += 1
            continue
        desc = {'order': order, 'modulus': (list(md) if md else None), 'char': char, 'ext_deg': ext_deg, 'min_order': min_order}
        kw = {}
        if order is not None:
            kw['order'] = order
        if md is not None:
            kw['modulus'] = mk_mod(md)
        if char is not None:
            kw['char'] = char
        if ext_deg is not None:
            kw['ext_deg'] = ext_deg
        if min_order is not None:
            kw['min_order'] = min_order
        t_call = time.time()
        try:
            S = mpc.SecFld(**kw)
            F = S.field
            got = ('Ok', (F.characteristic, F.ext_deg, F.order))
        except Exception as e:
            got = canon_exc(e)
        t_call = time.time() - t_call
        if t_call > slow[0]:
            slow[0], slow[1] = t_call, desc
        t_impl[0] += t_call
        nargs = len(kw)
        ctx.case(desc, nontrivial=(nargs >= 2 or got[0] == 'Err'), kind='%d args %s' % (nargs, got[0] if got[0] == 'Ok' else got[1]))
        if got[0] == 'Ok':
            fc, fd, fo = got[1]
            # the property itself, directly: exactly the requested order / characteristic / degree / minimum order
            bad = []
            if not (my_is_prime(fc) and fd >= 1 and fo == fc ** fd):
                bad.append('not-a-field-order')
            if order is not None and fo != order:
                bad.append('order')
            if truthy(char) and fc != char:
                bad.append('char')
            if truthy(ext_deg) and fd != ext_deg:
                bad.append('ext_deg')
            if min_order is not None and fo < min_order:
                bad.append('min_order')
            pp = my_fpp(order) if order is not None else None
            eff_char = char if truthy(char) else (pp[0] if pp else None)
            converted = md is not None and md[0] == 'int' and eff_char is not None and md[1] > eff_char
            if md is not None and md[0] == 'int' and not converted and fo != md[1]:
                bad.append('int-modulus')
            if S.subfield is not None:
                bad.append('lifted-with-one-party')
            if bad:
                sig = 'secfld-wrong-field ' + ','.join(bad)
                ctx.violation(sig, {'call': desc, 'got': {'char': fc, 'ext_deg': fd, 'order': fo}, 'violated': bad})
        exprs.append('%s %s %s %s %s %s' % (tbl, optz(order), modlit(md), optz(char), optz(ext_deg), optz(min_order)))
        meta.append((desc, got))
    ctx.extra['skipped_expensive_combinations'] = skipped
    ctx.log('implementation time %.1fs; slowest call %.2fs: %s' % (t_impl[0], slow[0], slow[1]))
    ctx.log('%d SecFld argument combinations run on the implementation (%d skipped as too expensive)' % (len(meta), skipped))

    # ---- other party counts / thresholds / security parameters, in subprocesses
    cfgs = []
    for m in range(1, 10):
        for t in ['None'] + [str(x) for x in range(0, m + 2)]:
            cfgs.append((m, t, 30))
        for t in range(0, (m + 1) // 2 + 1):
            cfgs.append((m, str(t), 0))
    with ThreadPoolExecutor(max_workers=8) as ex:
        subres = list(ex.map(lambda c: run_sub(*c), cfgs))
    lift_exprs, lift_meta = [], []
    nsub = 0
    for r in subres:
        m, t, k = r['m'], r['t'], r['k']
        desc = {'m': m, 't': t, 'sec_param': k}
        if 'crash' in r:
            ctx.broken.append({'kind': 'subprocess', 'case': desc, 'detail': r['crash']})
            continue
        nsub += 1
        tv = (m - 1) // 2 if t == 'None' else int(t)
        valid = 2 * tv < m
        ctx.case(desc, nontrivial=True, kind='config ' + ('valid' if valid else 'invalid'))
        lift_exprs.append('setup_threshold %s %s' % (zlit(m), 'None' if t == 'None' else '(Some %s)' % zlit(int(t))))
        lift_meta.append(('setup', desc, ('Ok', tv) if r['setup'] == 'ok' else
                          ('Err', 'EAssert') if r['setup'] == 'AssertionError' else ('Err', r['setup'])))
        if not valid:
            if r['setup'] == 'ok' or r.get('has_mpc'):
                ctx.violation('setup-accepts-threshold 2t>=m m=%d t=%s' % (m, t), {'config': desc, 'result': r})
            elif r['setup'] != 'AssertionError':
                ctx.notes.append('invalid threshold refused by %s (m=%d t=%s)' % (r['setup'], m, t))
            continue
        if r['setup'] != 'ok' or not r.get('has_mpc'):
            ctx.violation('setup-refuses-valid-threshold m=%d t=%s' % (m, t), {'config': desc, 'result': r})
            continue
        if r['threshold'] != tv or r['parties'] != m:
            ctx.violation('setup-wrong-threshold m=%d t=%s' % (m, t), {'config': desc, 'result': r})
        for qs, d in r['secfld'].items():
            q = int(qs)
            p, deg = my_fpp(q)
            cl = real_clog(m + 1, q)
            pend = None
            lift_exprs.append('lift_tbl [(%s, %s, %s)] %s %s %s %s' % (zlit(m + 1), zlit(q), optz(cl), zlit(tv), zlit(m), zlit(q), zlit(deg)))
            if 'error' in d:
                got = ('Err', 'EAssert') if d['error'] == 'AssertionError' else ('Err', d['error'])
            else:
                lifted = d['sub'] is not None
                got = ('Ok', (d['order'], lifted))
                # the property, directly
                want_lift = tv > 0 and m >= q
                if lifted != want_lift:
                    ctx.violation('secfld-lift-decision m=%d t=%d q=%d' % (m, tv, q), {'config': desc, 'q': q, 'got': d})
                if tv > 0 and not d['order'] > m:
                    ctx.violation('secfld-field-not-larger-than-m m=%d t=%d q=%d' % (m, tv, q), {'config': desc, 'q': q, 'got': d})
                if lifted:
                    if not (d['sub'] == q and d['char'] == p and d['order'] == p ** d['deg'] and d['deg'] >= 2):
                        ctx.violation('secfld-lift-wrong-field m=%d t=%d q=%d' % (m, tv, q), {'config': desc, 'q': q, 'got': d})
                    if not (d.get('out_ok') and d.get('out_nonbase') == 'AssertionError'):
                        ctx.violation('secfld-out-conversion m=%d t=%d q=%d' % (m, tv, q), {'config': desc, 'q': q, 'got': d})
                    # values of the lifted type are elements of the embedded base field GF(q), also for ints outside range(q)
                    vs = []
                    for (v, cs, o, same) in d.get('consts', []):
                        vq = v % q
                        vs.append(v)
                        if cs != ([] if vq == 0 else [vq]) or o != [True, vq] or not same:
                            ctx.violation('secfld-lifted-constant-not-in-base-field m=%d t=%d q=%d' % (m, tv, q),
                                          {'config': desc, 'q': q, 'v': v, 'coefficients': cs, 'out_conversion': o,
                                           'same_as_subfield_element': same, 'want': vq})
                    if not vs:
                        ctx.broken.append({'kind': 'subprocess', 'what': 'no lifted constants recorded', 'case': dict(desc, q=q)})
                    else:
                        pend = ('map (fun v => (lift_int %s v, out_conv %s (lift_int %s v))) %s' % (zlit(q), zlit(q), zlit(q), zlist(vs)),
                                ('consts', dict(desc, q=q, what='lifted constants'),
                                 [(cs, ('Ok', o[1]) if isinstance(o, list) else ('Err', o)) for (v, cs, o, same) in d['consts']]))
                        ctx.extra['lifted_constants_checked'] = ctx.extra.get('lifted_constants_checked', 0) + len(vs)
                    if d['order'] // q > m:      # minimality of e (not part of the property): note only
                        ctx.extra['lift_degree_not_minimal'] = ctx.extra.get('lift_degree_not_minimal', 0) + 1
                elif not (d['order'] == q and d['deg'] == deg):
                    ctx.violation('secfld-wrong-field m=%d t=%d q=%d' % (m, tv, q), {'config': desc, 'q': q, 'got': d})
                elif d.get('consts_plain') is False:
                    ctx.violation('secfld-constant-wrong m=%d t=%d q=%d' % (m, tv, q), {'config': desc, 'q': q, 'got': d})
            lift_meta.append(('lift', dict(desc, q=q), got))
            if pend:                                   # (kept after the 'lift' entry: expressions and meta stay aligned)
                lift_exprs.append(pend[0])
                lift_meta.append(pend[1])
            ctx.case(dict(desc, q=q), nontrivial=(tv > 0), kind='SecFld(q) ' + ('refused' if 'error' in d else 'lifted' if d['sub'] else 'plain'))
        for name, d in r['nums'].items():
            if 'error' in d:
                kind = d['error']
                if kind not in ('AssertionError', 'ValueError'):
                    ctx.broken.append({'kind': 'subprocess', 'what': 'unexpected error class', 'case': desc, 'type': name, 'err': kind})
            else:
                for o in d['orders']:
                    if tv > 0 and not o > m:
                        ctx.violation('sectype-field-not-larger-than-m %s m=%d t=%d' % (name, m, tv), {'config': desc, 'type': name, 'got': d})
                    lift_exprs.append('pfield_cfg %s %s %s' % (zlit(tv), zlit(m), zlit(o)))
                    lift_meta.append(('pfield', dict(desc, type=name), ('Ok', o)))
            if name in ('SecInt(1,p=5)', 'SecInt(1,p=11)') and k == 0:
                o = 5 if 'p=5' in name else 11
                lift_exprs.append('pfield_cfg %s %s %s' % (zlit(tv), zlit(m), zlit(o)))
                lift_meta.append(('pfield', dict(desc, type=name), ('Ok', o) if 'orders' in d else
                                  ('Err', 'EAssert') if d['error'] == 'AssertionError' else ('Err', d['error'])))
            ctx.case(dict(desc, type=name), nontrivial=(tv > 0), kind='numeric type ' + ('refused' if 'error' in d else 'ok'))
    ctx.extra['process_configurations_run'] = nsub

    # ---- the ceil-log law the lifting relies on, on the real float function
    top = ctx.n(3000, 20000)
    small_primes = [q for q in range(2, top + 1) if my_is_prime(q)]
    nlaw, nonmin = 0, 0
    for mm in itertools.chain(range(1, top + 1), [2**k + d for k in range(12, 21) for d in (-1, 0, 1)]):
        for q in small_primes:
            if q > mm:
                break
            if mm > 3000 and q > 50 and q % 7:
                continue
            e = math.ceil(math.log(mm + 1, q))
            nlaw += 1
            if not q ** e > mm:
                ctx.violation('lift-extension-too-small m=%d q=%d e=%d' % (mm, q, e), {'m': mm, 'q': q, 'e': e})
            if q ** (e - 1) > mm:
                nonmin += 1
    ctx.extra['clog_law_checks'] = nlaw
    ctx.extra['clog_not_minimal'] = nonmin
    ctx.log('%d process configurations; ceil-log law checked on %d (m,q) pairs (%d non-minimal e)' % (nsub, nlaw, nonmin))

    # ---- Coq model on the same inputs
    if ok:
        per = 20
        allx = exprs + lift_exprs
        allm = [('resolve',) + mt for mt in meta] + lift_meta
        batched = []
        groups = []
        i = 0
        # batches must be homogeneous in type
        def kind_of(mt):
            return mt[0]
        while i < len(allx):
            j = i
            while j < len(allx) and j - i < per and kind_of(allm[j]) == kind_of(allm[i]):
                j += 1
            batched.append('[%s]' % '; '.join(allx[i:j]))
            groups.append((i, j))
            i = j
        bres = ctx.coq_eval(['MPyC.SecFldCfg'], batched, chunk=15)
        mism = 0
        for (i, j), r in zip(groups, bres):
            vals = r if isinstance(r, list) and len(r) == j - i else [('ERROR', str(r)[:300])] * (j - i)
            for mt, v in zip(allm[i:j], vals):
                what, desc, got = mt
                if isinstance(v, tuple) and v and v[0] == 'ERROR':
                    mism += 1
                    ctx.broken.append({'kind': 'correspondence', 'what': 'coq evaluation failed', 'case': desc, 'detail': v[1]})
                    continue
                if what == 'resolve':
                    mv = ('Ok', (v[1][0], v[1][1], v[1][0] ** v[1][1])) if v[0] == 'Ok' else ('Err', v[1])
                elif what == 'lift':
                    mv = ('Ok', (v[1][0], v[1][1])) if v[0] == 'Ok' else ('Err', v[1])
                elif what == 'consts':
                    mv = [(a, ('Ok', b[1]) if b[0] == 'Ok' else ('Err', b[1])) for (a, b) in v]
                else:
                    mv = ('Ok', v[1]) if v[0] == 'Ok' else ('Err', v[1])
                if mv != got:
                    mism += 1
                    ctx.broken.append({'kind': 'correspondence', 'what': what, 'case': desc, 'model': str(mv), 'impl': str(got)})
        ctx.extra['traces_validated_against_impl'] = len(allx) - mism
        ctx.log('model/implementation disagreements: %d of %d' % (mism, len(allx)))
    if ctx.broken:
        ctx.extra['broken_sample'] = ctx.broken[:12]
    if ctx.broken and not ctx.violations:
        ctx.unproved('C39 model/proof/correspondence', {'broken': ctx.broken[:5]})
