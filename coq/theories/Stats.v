(** C34 — value-level model of mpyc/statistics.py over Z (secure integers; for secure fixed-point
    numbers the same definitions apply to the scaled integers wherever no truncation occurs).
    Randomness of _quickselect (tie bits y, pivot unit vector) comes from the bit tape of RandomFns. *)
From Coq Require Import ZArith List Lia Bool Permutation Sorted.
Require Import MPyC.RandomFns.
Import ListNotations.
Open Scope Z_scope.

Definition zlen (x : list Z) : Z := Z.of_nat (length x).

(** ** mean (statistics.py:59-61): (s + n//2) // n *)
Definition mean_int (x : list Z) : Z :=
  let n := zlen x in (zsum x + n / 2) / n.

(** ** _var (statistics.py:138-146); corr = 1 for variance, 0 for pvariance *)
Definition var_int (x : list Z) (corr : Z) : Z :=
  let n := zlen x in
  let s := zsum x in
  let y := map (fun a => a * n - s) x in
  let d := n * n * (n - corr) in
  (in_prod y y + d / 2) / d.

Definition var_int_m (x : list Z) (m : Z) (corr : Z) : Z :=
  let n := zlen x in
  let y := map (fun a => a - m) x in
  let d := n - corr in
  (in_prod y y + d / 2) / d.

(** ** _isqrt (statistics.py:180-195): bitwise, e+1 rounds, l = sectype.bit_length *)
Fixpoint isqrt_loop (rounds : nat) (a r r2 j : Z) : Z :=
  match rounds with
  | O => r
  | S c =>
    let h := r + j in
    let h2 := r2 + (2 * r + j) * j in
    if h2 <=? a then isqrt_loop c a h h2 (Z.shiftr j 1)
    else isqrt_loop c a r r2 (Z.shiftr j 1)
  end.

Definition isqrt (l : Z) (a : Z) : Z :=
  let e := (l - 1) / 2 in
  isqrt_loop (Z.to_nat (e + 1)) a 0 0 (Z.shiftl 1 e).

Definition stdev_int (l : Z) (x : list Z) (corr : Z) : Z := isqrt l (var_int x corr).

(** ** sorting (runtime.sorted at value level) *)
Fixpoint insert (a : Z) (l : list Z) : list Z :=
  match l with [] => [a] | b :: r => if a <=? b then a :: l else b :: insert a r end.
Definition sortZ (l : list Z) : list Z := fold_right insert [] l.

(** ** runtime.unit_vector(a, m) as documented: e_a for 0 <= a < m, and e_0 for a = m *)
Definition unit_vector_val (a : Z) (m : nat) : list Z :=
  map (fun i => b2z ((Z.of_nat i =? a) || ((i =? 0)%nat && (a =? Z.of_nat m)))) (seq 0 m).

(** ** _quickselect (statistics.py:281-348) *)
Fixpoint map2 {A B C} (f : A -> B -> C) (a : list A) (b : list B) : list C :=
  match a, b with x :: a', y :: b' => f x y :: map2 f a' b' | _, _ => [] end.

(** the loop of lines 331-344 for one side: zs selects, running count j, target length s *)
Fixpoint compact (s : nat) (zs xs : list Z) (i : nat) (j : Z) (w : list Z) : list Z :=
  match zs, xs with
  | zi :: zs', xi :: xs' =>
    let j' := j + zi in                                   (* j = sum(z[:i+1]) *)
    let m := Nat.min (i + 2) s in                         (* m = min(i+2, s) *)
    let v := smul (zi * xi) (unit_vector_val j' m) ++ repeat 0 (s - m) in
    compact s zs' xs' (S i) j' (vadd w v)
  | _, _ => w
  end.

Fixpoint qs (fuel ufuel : nat) (x : list Z) (ks : list nat) (tp : tape) : option (list Z * tape) :=
  match fuel with
  | O => None
  | S fuel' =>
    if (3 <=? length ks)%nat then Some (map (fun k => nth k (sortZ x) 0) ks, tp)
    else
      match ks, x with
      | [], _ => Some ([], tp)
      | _, [a] => Some ([a], tp)
      | _, _ =>
        let n := length x in
        match draw n tp with                               (* y = random_bits(n) *)
        | None => None
        | Some (y, tp1) =>
          match random_unit_vector ufuel (Z.of_nat n) tp1 with
          | None => None
          | Some (u, tp2) =>
            let p := in_prod x u in                        (* random pivot *)
            let z := map2 (fun xi yi => b2z (2 * (xi - p) <? yi)) x y in
            let s := Z.to_nat (zsum z) in
            if ((0 <? s) && (s <? n))%nat then
              let ksl := filter (fun k => k <? s)%nat ks in
              let ksr := map (fun k => k - s)%nat (filter (fun k => s <=? k)%nat ks) in
              let '(ksl, ksr, z, s) :=
                  match ksl with
                  | [] => (ksr, [], map (fun a => 1 - a) z, (n - s)%nat)
                  | _ => (ksl, ksr, z, s)
                  end in
              let wl := compact s z x 0 0 (repeat 0 s) in
              match qs fuel' ufuel wl ksl tp2 with
              | None => None
              | Some (rl, tp3) =>
                match ksr with
                | [] => Some (rl, tp3)
                | _ =>
                  let wr := compact (n - s) (map (fun a => 1 - a) z) x 0 0 (repeat 0 (n - s)) in
                  match qs fuel' ufuel wr ksr tp3 with
                  | None => None
                  | Some (rr, tp4) => Some (rl ++ rr, tp4)
                  end
                end
              end
            else qs fuel' ufuel x ks tp2                   (* while True: retry *)
          end
        end
      end
  end.

(** ** _med (statistics.py:248-278); kind: 0 = median, 1 = low, 2 = high *)
Definition med (fuel ufuel : nat) (x : list Z) (kind : nat) (tp : tape) : option (Z * tape) :=
  let n := length x in
  let one k := match qs fuel ufuel x [k] tp with
               | None => None | Some (r, tp') => Some (hd 0 r, tp') end in
  if Nat.odd n then one ((n - 1) / 2)%nat
  else match kind with
       | 1%nat => one ((n - 2) / 2)%nat
       | 2%nat => one (n / 2)%nat
       | _ => match qs fuel ufuel x [((n - 2) / 2)%nat; (n / 2)%nat] tp with
              | None => None
              | Some (r, tp') => Some (zsum r / 2, tp')
              end
       end.

(** ** quantiles (statistics.py:351-441), secure integers: div_n a = (a + n//2)//n *)
Definition add_key (k : Z) (keys : list Z) : list Z :=
  if existsb (Z.eqb k) keys then keys else keys ++ [k].

Fixpoint lookup (k : Z) (keys vals : list Z) : Z :=
  match keys, vals with
  | k' :: ks, v :: vs => if k =? k' then v else lookup k ks vs
  | _, _ => 0
  end.

Definition clampj (j ld : Z) : Z := if j <? 1 then 1 else if ld - 1 <? j then ld - 1 else j.

(** index/delta of cut point i; method: true = inclusive *)
Definition q_index (inclusive : bool) (ld n i : Z) : Z * Z :=
  if inclusive then let m := ld - 1 in ((i * m) / n, (i * m) mod n)
  else let m := ld + 1 in
       let j := clampj ((i * m) / n) ld in (j, i * m - j * n).

Definition q_keys (inclusive : bool) (ld n : Z) : list Z :=
  fold_left (fun keys i =>
               let '(j, delta) := q_index inclusive ld n i in
               if inclusive then
                 let keys := add_key j keys in
                 if delta =? 0 then keys else add_key (j + 1) keys
               else
                 let keys := if n - delta =? 0 then keys else add_key (j - 1) keys in
                 if delta =? 0 then keys else add_key j keys)
            (map Z.of_nat (seq 1 (Z.to_nat n - 1))) [].

Definition div_n (n a : Z) : Z := (a + n / 2) / n.

Definition q_cut (inclusive : bool) (ld n : Z) (keys pts : list Z) (i : Z) : Z :=
  let '(j, delta) := q_index inclusive ld n i in
  if inclusive then
    if delta =? 0 then lookup j keys pts
    else lookup j keys pts + div_n n ((lookup (j + 1) keys pts - lookup j keys pts) * delta)
  else
    if delta =? 0 then lookup (j - 1) keys pts
    else if delta =? n then lookup j keys pts
    else lookup (j - 1) keys pts + div_n n ((lookup j keys pts - lookup (j - 1) keys pts) * delta).

Definition quantiles (fuel ufuel : nat) (inclusive : bool) (x : list Z) (n : Z) (tp : tape)
  : option (list Z * tape) :=
  let ld := zlen x in
  let keys := q_keys inclusive ld n in
  match qs fuel ufuel x (map Z.to_nat keys) tp with
  | None => None
  | Some (pts, tp') =>
    Some (map (q_cut inclusive ld n keys pts) (map Z.of_nat (seq 1 (Z.to_nat n - 1))), tp')
  end.

(** CPython's statistics.quantiles (3.12) transcribed to Z: numerator of the cut point over the
    common denominator n, for SORTED data d.  inclusive: d[j]*(n-delta) + d[j+1]*delta;
    exclusive: d[j-1]*(n-delta) + d[j]*delta. *)
Definition py_quantile_num (inclusive : bool) (d : list Z) (n i : Z) : Z :=
  let ld := zlen d in
  let atk k := nth (Z.to_nat k) d 0 in
  if inclusive then
    let m := ld - 1 in
    let j := (i * m) / n in let delta := (i * m) mod n in
    atk j * (n - delta) + atk (j + 1) * delta
  else
    let m := ld + 1 in
    let j := (i * m) / n in
    let j := if j <? 1 then 1 else if ld - 1 <? j then ld - 1 else j in
    let delta := i * m - j * n in
    atk (j - 1) * (n - delta) + atk j * delta.

(** the secure-integer cut point computed from exact order statistics d (sorted data) *)
Definition q_cut_sorted (inclusive : bool) (d : list Z) (n i : Z) : Z :=
  let ld := zlen d in
  let atk k := nth (Z.to_nat k) d 0 in
  let '(j, delta) := q_index inclusive ld n i in
  if inclusive then
    if delta =? 0 then atk j else atk j + div_n n ((atk (j + 1) - atk j) * delta)
  else
    if delta =? 0 then atk (j - 1)
    else if delta =? n then atk j
    else atk (j - 1) + div_n n ((atk j - atk (j - 1)) * delta).

(** ** mode (statistics.py:469-492) *)
Definition zmin (x : list Z) : Z := fold_right Z.min (hd 0 x) x.
Definition zmax (x : list Z) : Z := fold_right Z.max (hd 0 x) x.

(** while e > PRIV and not bit (e-1) of r: e -= 1 *)
Fixpoint mode_e (e : nat) (priv : nat) (r : Z) : nat :=
  match e with
  | O => O
  | S e' => if (priv <? e)%nat && negb (Z.testbit r (Z.of_nat e')) then mode_e e' priv r else e
  end.

Definition count (a : Z) (x : list Z) : Z := zsum (map (fun b => b2z (a =? b)) x).

(** runtime.argmax: index of the first maximum (documented tie rule) *)
Fixpoint argmax_first (x : list Z) : nat * Z :=
  match x with
  | [] => (O, 0)
  | [a] => (O, a)
  | a :: r => let '(i, m) := argmax_first r in if a <? m then (S i, m) else (O, a)
  end.

(** freqs = sum of unit vectors of length 2^e *)
Definition freqs (m : Z) (e : nat) (x : list Z) : list Z :=
  map (fun v => count (m + Z.of_nat v) x) (seq 0 (2 ^ e)).

Definition mode (l priv : nat) (x : list Z) : Z :=
  let m := zmin x in
  let M := zmax x in
  let e := mode_e l priv (M - m) in
  match e with
  | O => m
  | _ => m + Z.of_nat (fst (argmax_first (freqs m e x)))
  end.

(** what Python's statistics.mode returns: the first element of maximal count *)
Definition py_mode (x : list Z) : Z :=
  let mx := zmax (map (fun a => count a x) x) in
  hd 0 (filter (fun a => count a x =? mx) x).

(** ** covariance, secure integers (statistics.py:515-520) *)
Definition covariance_int (x y : list Z) : Z :=
  let n := zlen x in
  let sx := zsum x in
  let sy := zsum y in
  let sxy := in_prod (map (fun a => a * n - sx) x) (map (fun b => b * n - sy) y) in
  let d := n * n * (n - 1) in
  (sxy + d / 2) / d.
