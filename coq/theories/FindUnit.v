(** C30 — value-level model of runtime.find, runtime.unit_vector and runtime.gcp2
    (mpyc/runtime.py), on top of Bits.v. *)
From Coq Require Import ZArith List Lia Bool.
Require Import MPyC.Base MPyC.Bits.
Import ListNotations.
Local Open Scope Z_scope.

Fixpoint zipw {A B C} (g : A -> B -> C) (x : list A) (y : list B) : list C :=
  match x, y with a :: x', b :: y' => g a b :: zipw g x' y' | _, _ => [] end.

Definition zsum (u : list Z) : Z := fold_left Z.add u 0.

(* ------------------------------------------------------------------------------------- *)
(** * unit_vector *)

(** [c for _ in zip(w, v) for c in _] *)
Fixpoint interleave (w v : list Z) : list Z :=
  match w, v with a :: w', b :: v' => a :: b :: interleave w' v' | _, _ => [] end.

(** one iteration of the loop body for bit x[i] of a and bit (b >> i) & 1 of b = n - 1 *)
Definition uv_step (xi : Z) (bbit : Z) (u : list Z) : list Z :=
  let v := map (fun c => xi * c) u in            (* v = scalar_mul(x[i], u) *)
  let w := zipw Z.sub u v in                      (* w = vector_sub(u, v) *)
  let u1 := (xi - zsum v) :: interleave w v in    (* u = [x[i] - sum(v)]; u.extend(...) *)
  if bbit =? 0 then removelast u1 else u1.        (* if not (b >> i) & 1: u.pop() *)

(** for i in range(k-1, -1, -1): ...   ([uv_loop x b k u] runs i = k-1, ..., 0) *)
Fixpoint uv_loop (x : list Z) (b : Z) (i : nat) (u : list Z) : list Z :=
  match i with
  | O => u
  | S i' => uv_loop x b i' (uv_step (nth i' x 0) (bit_at b i') u)
  end.

(** Python's int.bit_length *)
Definition bit_length (b : Z) : nat :=
  match b with Z0 => O | Zpos q => Pos.size_nat q | Zneg q => Pos.size_nat q end.

(** [x] = the k bits of a (the code takes them from to_bits(a, k + f)[f:]) *)
Definition unit_vector_x (x : list Z) (n : Z) : list Z :=
  let b := n - 1 in
  let k := bit_length b in
  let u := uv_loop x b k [] in
  (1 - zsum u) :: u.

Definition unit_vector (a n : Z) : list Z :=
  unit_vector_x (bits_of a (bit_length (n - 1))) n.

(** the composition actually executed, with to_bits on its random tape *)
Definition unit_vector_tape (p : Z) (L f : nat) (integral : bool) (A : Z) (n : Z)
                            (rbits : list Z) (rdivl : Z) : list Z :=
  let k := bit_length (n - 1) in
  unit_vector_x (skipn f (to_bits_num p L f integral A (k + f) rbits rdivl)) n.

(* ------------------------------------------------------------------------------------- *)
(** * find *)

Inductive aarg := AInt (a : Z) | ASec (a : Z).       (* public int / secure number *)
Inductive earg := ERaw | EStr (off : Z) | EVal (e : Z). (* e=None / e='len(x)+off' / e=E *)

(** reduction to "index of the first 0" *)
Definition find_reduce (x : list Z) (a : aarg) (bits : bool) : list Z :=
  if bits then
    match a with
    | AInt a => if a =? 1 then zipw Z.sub (repeat 1 (length x)) x else x
    | ASec a => zipw Z.add (repeat a (length x)) (map (fun b => (1 - 2 * a) * b) x)
    end
  else
    let a := match a with AInt a => a | ASec a => a end in
    map (fun b => if b =? a then 0 else 1) x.               (* [b != a for b in x] *)

(** if_else(c, x, y) on lists: c * (x[i] - y[i]) + y[i] *)
Definition if_else_list (c : Z) (x y : list Z) : list Z :=
  zipw (fun xi yi => c * (xi - yi) + yi) x y.

Fixpoint cl (fuel : nat) (x : arr) (cs_f : Z -> Z -> list Z) (i j : nat) : list Z :=
  match fuel with
  | O => []
  | S fuel' =>
    let n := (j - i)%nat in
    if (n =? 1)%nat then
      let b := x i in b :: cs_f b (Z.of_nat i)                (* [b] + cs_f(b, i) *)
    else
      let h := (i + n / 2)%nat in
      let nf := cl fuel' x cs_f i h in                        (* nf[0] <=> "0 is not found" *)
      if_else_list (hd 0 nf) (cl fuel' x cs_f h j) nf
  end.

(** cs_f computed from f by (**) *)
Definition cs_of_f (f : Z -> list Z) : Z -> Z -> list Z :=
  fun b i => zipw (fun f_i f_i1 => b * (f_i1 - f_i) + f_i) (f i) (f (i + 1)).

(** Result: [None] = the call raises; [Some (Some nf, y)] = raw mode pair; [Some (None, y)] = y.
    Values of f / cs_f are lists (an int-valued f is wrapped in a singleton, as the code does;
    the final unwrapping y[0] / tuple(y) is presentation only). *)
Definition find (x : list Z) (a : aarg) (bits : bool) (e : earg)
                (f : option (Z -> list Z)) (cs_f : option (Z -> Z -> list Z))
  : option (option Z * list Z) :=
  let x1 := find_reduce x a bits in
  let n := length x1 in
  let fc := match cs_f, f with
            | None, None => Some (fun i => [i], fun b i => [i + b])
            | None, Some f => Some (f, cs_of_f f)
            | Some cs, None => Some (fun i => cs 0 i, cs)
            | Some cs, Some f => None    (* type_f is never bound: UnboundLocalError at the end *)
            end in
  let crash := match a with                 (* type(x[0]) on an empty list: IndexError *)
               | AInt a1 => (bits && (a1 =? 1) && (length x =? 0)%nat)%bool
               | ASec _ => false
               end in
  match fc with
  | None => None
  | Some (f', cs') =>
    if crash then None else
    let ev := match e with
              | ERaw => None
              | EStr off => Some (Z.of_nat n + off)
              | EVal v => Some v
              end in
    match x1 with
    | [] => match ev with
            | None => Some (Some 1, f' 0)
            | Some e => Some (None, f' e)
            end
    | _ :: _ =>
      match cl n (arr_of x1) cs' 0 n with
      | [] => None
      | nf :: f_ix =>
        match ev with
        | None => Some (Some nf, f_ix)
        | Some e => Some (None, if_else_list nf (f' e) f_ix)
        end
      end
    end
  end.

(* ------------------------------------------------------------------------------------- *)
(** * gcp2 *)

Definition gcp2 (p : Z) (L : nat) (A B : Z) (l : nat) (ra : list Z) (da : Z) (rb : list Z) (db : Z) : option Z :=
  let x := trailing_zeros p L A l ra da in
  let y := trailing_zeros p L B l rb db in
  let z := zipw Z.sub (zipw Z.add x y) (zipw Z.mul x y) in      (* bitwise or *)
  match find z (AInt 1) true ERaw None (Some (fun b i => [(b + 1) * 2 ^ i])) with
  | Some (_, f_i :: _) => Some f_i
  | _ => None
  end.
