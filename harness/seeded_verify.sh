#!/bin/bash
# usage: seeded_verify.sh <dir with patch.diff demo.py meta.json>
# Confirms in a scratch worktree (outside /repo and /verif): patch applies, the package test suite still passes,
# demo fails with the patch and passes without.  Prints one summary line.
set -u
D="$(readlink -f "$1")"
WT=$(mktemp -d /tmp/seedverify.XXXXXX)
git -C /repo worktree add -q --detach "$WT" HEAD || exit 2
cleanup() { git -C /repo worktree remove --force "$WT" >/dev/null 2>&1; rm -rf "$WT" /tmp/seedverify.$$.*.log; }
trap cleanup EXIT
cd "$WT"
PYDEMO=/venv/bin/python     # demos of the NumPy-dependent properties run under /verif/.venv-np (as their checks do)
case "$D" in *C12*|*C13*|*C14*|*C15*|*C17*|*C37*|*C38*) [ -x /verif/.venv-np/bin/python ] && PYDEMO=/verif/.venv-np/bin/python ;; esac
demo_clean=$(MPYC_REPO="$WT" PYTHONPATH="$WT" PYTHONHASHSEED=0 timeout 600 $PYDEMO "$D/demo.py" >/tmp/seedverify.$$.clean.log 2>&1; echo $?)
if ! ( git apply "$D/patch.diff" 2>/dev/null || git apply -3 "$D/patch.diff" ); then echo "RESULT $D patch-does-not-apply"; exit 1; fi
tests=$(timeout 900 /venv/bin/python -m pytest -q -p no:cacheprovider --timeout=900 tests >/tmp/seedverify.$$.tests.log 2>&1; echo $?)
if [ "$PYDEMO" != /venv/bin/python ] && [ "$tests" = 0 ]; then   # also the NumPy-dependent tests
  tests=$(timeout 1800 $PYDEMO -m unittest discover -s tests >/tmp/seedverify.$$.nptests.log 2>&1; echo $?)
fi
demo_mut=$(MPYC_REPO="$WT" PYTHONPATH="$WT" PYTHONHASHSEED=0 timeout 600 $PYDEMO "$D/demo.py" >/tmp/seedverify.$$.mut.log 2>&1; echo $?)
echo "RESULT $D tests_rc=$tests demo_clean_rc=$demo_clean demo_mutated_rc=$demo_mut  ($(tail -1 /tmp/seedverify.$$.tests.log))"
