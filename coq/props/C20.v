(** C20 — finite field elements obey the field laws through every operator.
    Statements over the prime-field model of coq/theories/FinField.v (every operator method of
    FiniteFieldElement / PrimeFieldElement as coded, gmpy stubs underneath); p is ANY prime,
    elements are ANY reduced representatives, ints/exponents/shift counts are ANY integers. *)
Require Import MPyC.Field MPyC.Zp MPyC.FinField.
From Coq Require Import ZArith Znumtheory List.
Local Open Scope nat_scope.

(** values stay reduced: every operator result lies in [0, p) *)
Theorem C20_ops_reduced : forall p, prime p -> forall a (o : operand) n,
  red p (add p a o) /\ red p (radd p a n) /\ red p (iadd p a o) /\
  red p (sub p a o) /\ red p (rsub p a n) /\ red p (isub p a o) /\
  red p (mul p a o) /\ red p (rmul p a n) /\ red p (imul p a o) /\
  red p (neg p a) /\ red p (pos p a) /\
  red_res p (truediv p a o) /\ red_res p (rtruediv p a n) /\ red_res p (itruediv p a o) /\
  red_res p (reciprocal p a) /\ red_res p (pow p a n) /\
  red_res p (lshift p a n) /\ red_res p (ilshift p a n) /\ red_res p (rshift p a n) /\ red_res p (irshift p a n).
Proof. exact ops_reduced. Qed.
Print Assumptions C20_ops_reduced.

(** in-place operators agree with binary ones (value; errors included) *)
Theorem C20_inplace_eq_binary : forall p a (o : operand) n,
  iadd p a o = add p a o /\ isub p a o = sub p a o /\ imul p a o = mul p a o /\
  itruediv p a o = truediv p a o /\ ilshift p a n = lshift p a n /\ irshift p a n = rshift p a n.
Proof. exact inplace_eq_binary. Qed.
Print Assumptions C20_inplace_eq_binary.

(** reflected operators (int on the left) = binary operator on the converted int, operands swapped *)
Theorem C20_reflected_eq : forall p, prime p -> forall a n, red p a ->
  radd p a n = add p (mk p n) (El a) /\
  rsub p a n = sub p (mk p n) (El a) /\
  rmul p a n = mul p (mk p n) (El a) /\
  rtruediv p a n = truediv p (mk p n) (El a).
Proof. exact reflected_eq. Qed.
Print Assumptions C20_reflected_eq.

(** mixing in an int equals converting it first *)
Theorem C20_mix_int_eq_convert_first : forall p, prime p -> forall a n,
  add p a (Int n) = add p a (El (mk p n)) /\
  sub p a (Int n) = sub p a (El (mk p n)) /\
  mul p a (Int n) = mul p a (El (mk p n)) /\
  eq p a (Int n) = eq p a (El (mk p n)).
Proof. exact mix_int_eq_convert_first. Qed.
Print Assumptions C20_mix_int_eq_convert_first.

Theorem C20_mix_int_div_eq_convert_first : forall p, prime p -> forall a n,
  truediv p a (Int n) = truediv p a (El (mk p n)).
Proof. exact mix_int_div_eq_convert_first. Qed.
Print Assumptions C20_mix_int_div_eq_convert_first.

(** the gmpy.invert Euclid loop: terminates within its logarithmic fuel and inverts exactly the
    nonzero residues (the [Fuel] error never occurs) *)
Theorem C20_invert_ok : forall p x, prime p -> (x mod p <> 0)%Z ->
  exists y, invert x p = Ok y /\ ((x * y) mod p = 1)%Z.
Proof. exact invert_ok. Qed.
Print Assumptions C20_invert_ok.

Theorem C20_invert_zero : forall p x, prime p -> (x mod p = 0)%Z -> invert x p = Err ZeroDiv.
Proof. exact invert_zero. Qed.
Print Assumptions C20_invert_zero.

(** only zero has no inverse: reciprocal raises ZeroDivisionError on 0, and a * reciprocal a = 1 otherwise *)
Theorem C20_only_zero_noninvertible : forall p, prime p -> forall a, red p a ->
  (a = 0%Z -> reciprocal p a = Err ZeroDiv) /\
  (a <> 0%Z -> exists r, reciprocal p a = Ok r /\ red p r /\ mul p a (El r) = 1%Z).
Proof. exact only_zero_noninvertible. Qed.
Print Assumptions C20_only_zero_noninvertible.

(** division: error exactly for a zero divisor; otherwise multiplication by the reciprocal, and (a/b)*b = a *)
Theorem C20_div_spec : forall p, prime p -> forall a b, red p a -> red p b ->
  (b = 0%Z -> truediv p a (El b) = Err ZeroDiv) /\
  (b <> 0%Z -> exists c r, truediv p a (El b) = Ok c /\ reciprocal p b = Ok r /\
                           c = mul p a (El r) /\ mul p c (El b) = a).
Proof. exact div_spec. Qed.
Print Assumptions C20_div_spec.

(** ** = repeated multiplication: square-and-multiply equals the iterated product 1*a*...*a *)
Theorem C20_pow_eq_repeat : forall p, prime p -> forall a (n : nat),
  pow p a (Z.of_nat n) = Ok (pow_iter p a n).
Proof. exact pow_eq_repeat. Qed.
Print Assumptions C20_pow_eq_repeat.

(** negative exponents go through the inverse; 0 ** -n raises (ValueError with the stubs) *)
Theorem C20_pow_negative : forall p, prime p -> forall a (n : nat), red p a -> n <> 0 ->
  (a = 0%Z -> pow p a (- Z.of_nat n) = Err ValueE) /\
  (a <> 0%Z -> exists r, reciprocal p a = Ok r /\ pow p a (- Z.of_nat n) = Ok (pow_iter p r n)).
Proof. exact pow_negative. Qed.
Print Assumptions C20_pow_negative.

(** shifts = multiplication / division by 2^n; negative counts raise ValueError *)
Theorem C20_shift_eq_mul_div_pow2 : forall p a n, (0 <= n)%Z ->
  lshift p a n = Ok (mul p a (Int (2 ^ n))) /\ rshift p a n = truediv p a (Int (2 ^ n)).
Proof. exact shift_eq_mul_div_pow2. Qed.
Print Assumptions C20_shift_eq_mul_div_pow2.

Theorem C20_shift_negative : forall p a n, (n < 0)%Z ->
  lshift p a n = Err ValueE /\ rshift p a n = Err ValueE.
Proof. exact shift_negative. Qed.
Print Assumptions C20_shift_negative.

Theorem C20_rshift_lshift : forall p, prime p -> forall a n, red p a -> (0 <= n)%Z -> p <> 2%Z ->
  exists b, lshift p a n = Ok b /\ rshift p b n = Ok a.
Proof. exact rshift_lshift. Qed.
Print Assumptions C20_rshift_lshift.

(** == (with elements and with ints) and truth value *)
Theorem C20_eq_spec : forall p, prime p -> forall a b n, red p a -> red p b ->
  (eq p a (El b) = true <-> a = b) /\ (eq p a (Int n) = true <-> ((a - n) mod p = 0)%Z) /\
  (truth a = true <-> a <> 0%Z).
Proof. exact eq_spec. Qed.
Print Assumptions C20_eq_spec.

(** the field laws on reduced representatives ... *)
Theorem C20_field_laws : forall p, prime p -> forall a b c, red p a -> red p b -> red p c ->
  add p a (El b) = add p b (El a) /\
  add p (add p a (El b)) (El c) = add p a (El (add p b (El c))) /\
  add p a (El 0%Z) = a /\
  add p a (El (neg p a)) = 0%Z /\
  sub p a (El b) = add p a (El (neg p b)) /\
  mul p a (El b) = mul p b (El a) /\
  mul p (mul p a (El b)) (El c) = mul p a (El (mul p b (El c))) /\
  mul p a (El 1%Z) = a /\
  mul p a (El (add p b (El c))) = add p (mul p a (El b)) (El (mul p a (El c))) /\
  (1 mod p <> 0 mod p)%Z.
Proof. exact field_laws. Qed.
Print Assumptions C20_field_laws.

(** ... and packaged: the model's + * - neg / reciprocal form a [field_theory] on {z | z mod p = z} *)
Theorem C20_Zp_field : forall p, prime p ->
  field_theory (f0 (FFOps p)) (f1 (FFOps p)) (fadd (FFOps p)) (fmul (FFOps p)) (fsub (FFOps p))
               (fopp (FFOps p)) (fdiv (FFOps p)) (finv (FFOps p)) (@Logic.eq (Zp p)).
Proof. exact FF_field_theory. Qed.
Print Assumptions C20_Zp_field.

(** Non-vacuity: GF(11):  7/4 = 10, 4**-3 = 5 = (1/4)**3 = 3**3, 7 >> 2 = 7/4, reciprocal 0 raises. *)
Example C20_nonvacuous :
  prime 11 /\ red 11 7 /\ red 11 4 /\
  truediv 11 7 (El 4) = Ok 10%Z /\ mul 11 10 (El 4) = 7%Z /\
  reciprocal 11 4 = Ok 3%Z /\ pow 11 4 (-3) = Ok 5%Z /\ pow_iter 11 3 3 = 5%Z /\
  rshift 11 7 2 = Ok 10%Z /\ lshift 11 10 2 = Ok 7%Z /\
  reciprocal 11 0 = Err ZeroDiv /\ pow 11 0 (-1) = Err ValueE.
Proof. split; [apply is_prime_small_correct; reflexivity|]. unfold red. vm_compute. repeat split; congruence. Qed.
