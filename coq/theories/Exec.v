(** Executable entry points over integers modulo p, used by the correspondence runs
    (cases files evaluate these by vm_compute).  No proofs here. *)
Require Import MPyC.Base MPyC.Field MPyC.Poly MPyC.Lagrange MPyC.Shamir MPyC.Zp.
Local Open Scope Z_scope.

Definition zl (p : Z) (l : list Z) : list (Zp p) := map (mkZp p) l.
Definition zv {p : Z} (l : list (Zp p)) : list Z := map zval l.

Definition zp_split (p : Z) (tape ss : list Z) (t m : nat) : list (list Z) :=
  map zv (@random_split (ZpOps p) (zp_of_nat p) (zl p tape) (zl p ss) t m).

Definition zp_np_split (p : Z) (tape ss : list Z) (t m : nat) : list (list Z) :=
  map zv (@np_random_split (ZpOps p) (zp_of_nat p) (zl p tape) (zl p ss) t m).

Definition zpts (p : Z) (points : list (nat * list Z)) : list (nat * list (Zp p)) :=
  map (fun pt => (fst pt, zl p (snd pt))) points.

Definition zp_recombine (p : Z) (points : list (nat * list Z)) (xr : Z) : list Z :=
  zv (@recombine (ZpOps p) (zp_of_nat p) (zpts p points) (mkZp p xr)).

Definition zp_np_recombine (p : Z) (points : list (nat * list Z)) (xr : Z) : list Z :=
  zv (@np_recombine (ZpOps p) (zp_of_nat p) (zpts p points) (mkZp p xr)).

Definition zp_recomb_vector (p : Z) (xs : list nat) (xr : Z) : list Z :=
  zv (@recomb_vector (ZpOps p) (map (zp_of_nat p) xs) (mkZp p xr)).
