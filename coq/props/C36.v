(** C36 — a crashed or disconnected party never makes others output wrong values.
    Model-level statement; the byte-level fact that a cut stream parses to a prefix of the same
    frames is Frame.v (C10), the label discipline that makes party behaviour a monotone function of
    the delivered (label, payload) set is C08/C09. *)
Require Import MPyC.Crash.

(** For ANY system whose parties' sending behaviour and completed outputs are monotone in the set
    of delivered messages, and ANY faulty variant that can only send a subset of what the correct
    system would send (one party stopping at an arbitrary byte of its output streams), under ANY
    delivery schedule of the faulty system: whatever a survivor outputs, it also outputs in every
    completed crash-free run. *)
Theorem C36_crash_outputs_subset_of_crash_free :
  forall (Msg Outp : Type) (send send' : (Msg -> Prop) -> Msg -> Prop) (res : (Msg -> Prop) -> Outp -> Prop),
    (forall A B, sub Msg A B -> sub Msg (send A) (send B)) ->
    (forall A B, sub Msg A B -> forall o, res A o -> res B o) ->
    (forall A, sub Msg (send' A) (send A)) ->
    forall S, closed Msg send S -> forall A, reach Msg send' A -> forall o, res A o -> res S o.
Proof. exact crash_safe. Qed.
Print Assumptions C36_crash_outputs_subset_of_crash_free.

(** ... hence never a different value for the same output. *)
Theorem C36_no_wrong_value :
  forall (Msg Outp : Type) (send send' : (Msg -> Prop) -> Msg -> Prop) (res : (Msg -> Prop) -> Outp -> Prop),
    (forall A B, sub Msg A B -> sub Msg (send A) (send B)) ->
    (forall A B, sub Msg A B -> forall o, res A o -> res B o) ->
    (forall A, sub Msg (send' A) (send A)) ->
    forall (oid oval : Outp -> nat) S, closed Msg send S ->
      (forall o1 o2, res S o1 -> res S o2 -> oid o1 = oid o2 -> oval o1 = oval o2) ->
      forall A, reach Msg send' A -> forall o o', res A o -> res S o' -> oid o = oid o' -> oval o = oval o'.
Proof. exact crash_no_wrong_value. Qed.
Print Assumptions C36_no_wrong_value.

(** every set of messages deliverable in the faulty system is deliverable in the correct one *)
Theorem C36_delivered_subset :
  forall (Msg : Type) (send send' : (Msg -> Prop) -> Msg -> Prop),
    (forall A B, sub Msg A B -> sub Msg (send A) (send B)) ->
    (forall A, sub Msg (send' A) (send A)) ->
    forall S, closed Msg send S -> forall A, reach Msg send' A -> sub Msg A S.
Proof. exact crashed_run_delivers_subset. Qed.
Print Assumptions C36_delivered_subset.

(** Non-vacuity: a two-message system (message 1 is sent initially, message 2 is the reply to 1);
    the faulty system never sends message 2. *)
Example C36_nonvacuous :
  let send := fun (A : nat -> Prop) (m : nat) => m = 1 \/ (A 1 /\ m = 2) in
  let send' := fun (A : nat -> Prop) (m : nat) => m = 1 in
  (forall A B, sub nat A B -> sub nat (send A) (send B)) /\
  (forall A, sub nat (send' A) (send A)) /\
  closed nat send (fun m => m = 1 \/ m = 2) /\
  reach nat send' (fun x => (fun _ => False) x \/ x = 1).
Proof.
  cbv zeta. repeat split.
  - intros A B H m [E|[H1 E]]; [left; exact E|right; split; [apply H; exact H1|exact E]].
  - intros A m E. left. exact E.
  - intros m [E|[_ E]]; [left; exact E|right; exact E].
  - apply reach_deliver; [apply reach_empty|reflexivity].
Qed.
