"""C16 — PRSS keys are shared exactly among each subset's members.

Proof: coq/props/C16.v.  Tie: real handshakes (mpc.start() of m real Runtime objects in the
simulator, under FIFO / random / bytewise / reversed delivery and random chunkings); every party's
`_prss_keys` is compared with the Coq functions `holds` / `to_peer` and with the property oracle
(all members of S hold one identical key, nobody else holds it, every <=t coalition lacks a key).
"""
import itertools, random
from lib.core import natlit

MANIFEST = {
    'text': 'Theorems in Coq for all m, t: after the handshakes party j holds the key of subset S iff j is a member of S; sender '
            'and receiver slice the key packet by the same ordered subset list; a key is only ever sent to members; every '
            'coalition of <= t parties is disjoint from some subset (lacks its key). The model functions are compared with the '
            'key tables produced by real handshakes of m Runtime objects under adversarial chunkings/orders on every run.',
    'note': 'Trusted: Coq kernel; Keys.v models the threshold setter, _prss_keys_to_peer/_from_peer and the client/server roles; '
            'handshake byte parsing itself is C10\'s model; key freshness (distinct uniformly random 128-bit keys) is an oracle '
            'assumption on secrets.token_bytes (distinctness of the drawn keys is checked on each run).',
    'technique': 'Coq proof over itertools.combinations model + simulator handshakes compared with the model',
}


def run(ctx):
    from lib.sim import Sim, Fifo, RandomOrder, Bytewise, ReverseLinks
    ok = ctx.build(['MPyC.Keys']) and ctx.check_props()
    rng = ctx.rng
    maxm = ctx.n(5, 7)
    ctx.rule = ('case = (m, t, delivery policy, seed): real mpc.start() handshake; all (m,t) with 2t<m, m<=%d, 4 policies; '
                'non-trivial when t >= 1 (keys are actually exchanged)' % maxm)
    ctx.explanation = 'key-distribution theorems for all m,t; simulator handshakes vs model and oracle'
    exprs, meta = [], []
    configs = []
    for m in range(1, maxm + 1):
        for t in range(0, (m + 1) // 2):
            if 2 * t >= m:
                continue
            for pname in ['fifo', 'random', 'bytewise', 'reverse', 'random2']:
                if m == 1 and pname != 'fifo':
                    continue
                if m >= 6 and pname in ('bytewise', 'random2'):
                    continue
                configs.append((m, t, None, pname))
    # the program assigns mpc.threshold before mpc.start() (as demos/parallelsort.py does): the runtime comes up with
    # threshold t0 (command line / default), keys must be generated, sent and filed for the threshold in force t
    for (m, t, t0) in [(3, 1, 0), (3, 0, 1), (4, 1, 0), (5, 2, 1), (5, 1, 2), (5, 2, 0)] + ([(7, 3, 1), (6, 1, 2)] if ctx.tier == 'thorough' else []):
        for pname in ['fifo', 'random', 'bytewise']:
            configs.append((m, t, t0, pname))
    for (m, t, t0, pname) in configs:
        for _once in (0,):
            for _once2 in (0,):
                seed = rng.randrange(10**6)
                prng = random.Random(seed)
                policy = {'fifo': Fifo(), 'random': RandomOrder(prng), 'bytewise': Bytewise(), 'reverse': ReverseLinks(),
                          'random2': RandomOrder(prng, split=0.8, burst=1, lazy=0.5)}[pname]
                sim = Sim(m, t if t0 is None else t0, seed=seed)
                try:
                    if t0 is not None:
                        for mpc_i in sim.mpcs:
                            mpc_i.threshold = t
                    st = sim.start(policy)
                    key = {'m': m, 't': t, 'policy': pname, 'seed': seed, 'threshold_at_startup': t0}
                    ctx.case(key, nontrivial=t >= 1, kind='m=%d t=%d' % (m, t))
                    if not all(x is True for x in st):
                        ctx.violation('handshake-incomplete m=%d t=%d %s' % (m, t, pname), {**key, 'result': str(st)})
                        continue
                    tables = [dict(mpc._prss_keys) for mpc in sim.mpcs]
                    subsets = list(itertools.combinations(range(m), m - t))
                    holds_impl = []
                    allkeys = []
                    for S in subsets:
                        holders = [j for j in range(m) if S in tables[j]]
                        holds_impl.append([S in tables[j] for j in range(m)])
                        if sorted(holders) != sorted(S):
                            ctx.violation('key-holders-differ-from-members m=%d t=%d' % (m, t),
                                          {**key, 'subset': list(S), 'holders': holders})
                            continue
                        ks = {bytes(tables[j][S]) for j in holders}
                        if len(ks) != 1 or len(next(iter(ks))) != 16:
                            ctx.violation('members-hold-different-keys m=%d t=%d' % (m, t),
                                          {**key, 'subset': list(S), 'keys': [bytes(tables[j][S]).hex() for j in holders]})
                        allkeys.append(next(iter(ks)))
                    for j in range(m):
                        extra = [S for S in tables[j] if S not in subsets]
                        if extra:
                            ctx.violation('unexpected-key-entry m=%d t=%d' % (m, t), {**key, 'party': j, 'entries': str(extra)})
                    if len(set(allkeys)) != len(allkeys):
                        ctx.notes.append('duplicate keys drawn (tape coincidence) in %s' % key)
                    # every coalition of size <= t lacks at least one key
                    if t >= 1:
                        for C in itertools.combinations(range(m), t):
                            known = set()
                            for j in C:
                                known |= set(tables[j])
                            if len(known) >= len(subsets):
                                ctx.violation('coalition-holds-all-keys m=%d t=%d' % (m, t), {**key, 'coalition': list(C)})
                    # the ordered lists sent on each client->server link
                    tp_impl = []
                    for i in range(m):
                        for j in range(i + 1, m):
                            ks = sim.mpcs[i]._prss_keys_to_peer(j)
                            inv = {bytes(v): S for S, v in tables[i].items()}
                            tp_impl.append([list(inv[bytes(k)]) for k in ks])
                    if pname == 'fifo' and t0 is None:
                        slist = '[' + '; '.join('[' + '; '.join(natlit(x) for x in S) + ']' for S in subsets) + ']'
                        exprs.append('(subsets %s %s, map (fun S => map (fun j => holds %s %s j S) (seq 0 %s)) %s, '
                                     'flat_map (fun i => map (fun j => to_peer %s %s i j) (seq (S i) (%s - S i))) (seq 0 %s))' % (
                                         natlit(m), natlit(t), natlit(m), natlit(t), natlit(m), slist,
                                         natlit(m), natlit(t), natlit(m), natlit(m)))
                        meta.append((key, [list(S) for S in subsets], holds_impl, tp_impl))
                finally:
                    sim.close()
    if ok and exprs:
        res = ctx.coq_eval(['MPyC.Keys'], exprs, chunk=10)
        bad = 0
        for r, (key, subs, holds_impl, tp_impl) in zip(res, meta):
            if not (isinstance(r, tuple) and len(r) == 3 and r[0] == subs and r[1] == holds_impl and r[2] == tp_impl):
                bad += 1
                ctx.broken.append({'kind': 'correspondence', 'what': 'subsets/holds/to_peer', 'case': key,
                                   'model': str(r)[:400], 'impl': str((subs, holds_impl, tp_impl))[:400]})
        ctx.extra['traces_validated_against_impl'] = len(exprs) - bad
        ctx.log('model vs handshake tables: %d configurations, %d disagreements' % (len(exprs), bad))
    if ctx.broken and not ctx.violations:
        ctx.unproved('C16 model/proof', {'broken': ctx.broken[:5]})
