(** C22 — model of the serialisation of field elements in mpyc/finfields.py:
    FiniteFieldElement.to_bytes / from_bytes (fixed-width little-endian, width byte_length),
    byte_length = (order.bit_length() + 7) >> 3, PrimeFieldElement.signed_ / unsigned_ / __int__.
    A byte string is a list of integers in [0, 256). *)
From Coq Require Import ZArith Lia List Bool Arith.
Import ListNotations.
Local Open Scope Z_scope.

(** int.to_bytes(r, 'little') for 0 <= v < 256^r (OverflowError otherwise: [None] below) *)
Fixpoint int_to_bytes (r : nat) (v : Z) : list Z :=
  match r with O => [] | S r' => v mod 256 :: int_to_bytes r' (v / 256) end.

(** int.from_bytes(bs, 'little') *)
Fixpoint int_from_bytes (bs : list Z) : Z :=
  match bs with [] => 0 | b :: bs' => b + 256 * int_from_bytes bs' end.

Definition fits (r : nat) (v : Z) : bool := (0 <=? v) && (v <? 256 ^ Z.of_nat r).

(** to_bytes(x) = b''.join(v.to_bytes(r, 'little') for v in x) *)
Definition to_bytes (r : nat) (vs : list Z) : option (list Z) :=
  if forallb (fits r) vs then Some (flat_map (int_to_bytes r) vs) else None.

(** [data[i:i+r] for i in range(0, len(data), r)]; fuel = len(data) (enough for r >= 1) *)
Fixpoint chunks (fuel r : nat) (data : list Z) : list (list Z) :=
  match fuel with
  | O => []
  | S f => match data with [] => [] | _ => firstn r data :: chunks f r (skipn r data) end
  end.

Definition from_bytes (r : nat) (data : list Z) : list Z :=
  map int_from_bytes (chunks (length data) r data).

(** n.bit_length() for n > 0, and byte_length of a field of the given order *)
Definition bit_length (n : Z) : Z := if n =? 0 then 0 else Z.log2 (Z.abs n) + 1.
Definition byte_length (order : Z) : nat := Z.to_nat (Z.shiftr (bit_length order + 7) 3).

(** PrimeFieldElement.signed_ / unsigned_ / __int__ (is_signed is True for every pGF field) *)
Definition signed (p v : Z) : Z := if v >? Z.shiftr p 1 then v - p else v.
Definition unsigned (p v : Z) : Z := v.
Definition to_int (is_signed : bool) (p v : Z) : Z := if is_signed then signed p v else unsigned p v.


(** ** pickle: PrimeFieldElement.__reduce__ / createGF and the class cache of pGF
    GF((p, n, w)) calls the functools.cache'd pGF under a key; pGF stores root = w % p; __reduce__ returns
    (createGF, (modulus, nth, root), state {'value': v}); createGF(p, n, w) calls pGF(p, n, w) (key = its raw
    arguments).  [normalise] = GF() reduces w modulo p before the cached call (as coded since /repo 35f6b0f). *)
Definition gf_key (normalise : bool) (p n w : Z) : Z * Z * Z := (p, n, if normalise then w mod p else w).
Definition class_root (key : Z * Z * Z) : Z := let '(p, n, w) := key in w mod p.      (* GFp.root = w % p *)
Definition reduce_args (key : Z * Z * Z) : Z * Z * Z := let '(p, n, w) := key in (p, n, class_root key).
Definition create_key (args : Z * Z * Z) : Z * Z * Z := args.                        (* createGF calls pGF on these arguments *)
(** unpickling an element (class key, value): the class is looked up under create_key, the state restores value *)
Definition pickle_roundtrip (normalise : bool) (p n w v : Z) : (Z * Z * Z) * Z :=
  (create_key (reduce_args (gf_key normalise p n w)), v).

(** ** Proofs *)
Lemma int_to_bytes_length r : forall v, length (int_to_bytes r v) = r.
Proof. induction r as [|r IH]; intros v; simpl; [reflexivity|]. rewrite IH. reflexivity. Qed.

Lemma int_to_bytes_bytes r : forall v b, In b (int_to_bytes r v) -> 0 <= b < 256.
Proof.
  induction r as [|r IH]; intros v b; simpl; [contradiction|].
  intros [<-|H]; [apply Z.mod_pos_bound; lia|eapply IH; exact H].
Qed.

Lemma int_from_to r : forall v, 0 <= v < 256 ^ Z.of_nat r -> int_from_bytes (int_to_bytes r v) = v.
Proof.
  induction r as [|r IH]; intros v Hv.
  - simpl in *. lia.
  - cbn [int_to_bytes int_from_bytes]. rewrite IH.
    + pose proof (Z.div_mod v 256 ltac:(lia)). lia.
    + rewrite Nat2Z.inj_succ, Z.pow_succ_r in Hv by lia.
      split; [apply Z.div_pos; lia|apply Z.div_lt_upper_bound; lia].
Qed.

Lemma firstn_skipn_app_len {A} (l1 l2 : list A) n : length l1 = n ->
  firstn n (l1 ++ l2) = l1 /\ skipn n (l1 ++ l2) = l2.
Proof.
  intros <-. split.
  - rewrite firstn_app, Nat.sub_diag, firstn_all, firstn_O, app_nil_r. reflexivity.
  - rewrite skipn_app, Nat.sub_diag, skipn_all, skipn_O. reflexivity.
Qed.

Lemma chunks_flat_map r : (0 < r)%nat -> forall vs fuel,
  (length vs <= fuel)%nat ->
  chunks fuel r (flat_map (int_to_bytes r) vs) = map (int_to_bytes r) vs.
Proof.
  intros Hr. induction vs as [|v vs IH]; intros fuel Hf.
  - destruct fuel; reflexivity.
  - destruct fuel as [|f]; [simpl in Hf; lia|].
    cbn [flat_map map chunks].
    destruct (int_to_bytes r v ++ flat_map (int_to_bytes r) vs) eqn:E.
    + apply (f_equal (@length Z)) in E. rewrite app_length, int_to_bytes_length in E. simpl in E. lia.
    + rewrite <- E.
      destruct (firstn_skipn_app_len (int_to_bytes r v) (flat_map (int_to_bytes r) vs) r
                  (int_to_bytes_length r v)) as [E1 E2]. rewrite E1, E2.
      rewrite IH by (simpl in Hf; lia). reflexivity.
Qed.

Lemma flat_map_length_const r vs : length (flat_map (int_to_bytes r) vs) = (r * length vs)%nat.
Proof.
  induction vs as [|v vs IH]; simpl; [lia|]. rewrite app_length, int_to_bytes_length, IH. lia.
Qed.

(** decoding the encoding returns the original values: every width r >= 1, every list (incl. []) *)
Theorem from_bytes_to_bytes r vs : (0 < r)%nat ->
  Forall (fun v => 0 <= v < 256 ^ Z.of_nat r) vs ->
  exists data, to_bytes r vs = Some data /\ length data = (r * length vs)%nat /\
               (forall b, In b data -> 0 <= b < 256) /\ from_bytes r data = vs.
Proof.
  intros Hr Hvs. exists (flat_map (int_to_bytes r) vs). split; [|split; [|split]].
  - unfold to_bytes. replace (forallb (fits r) vs) with true; [reflexivity|].
    symmetry. apply forallb_forall. intros v Hv. rewrite Forall_forall in Hvs. specialize (Hvs v Hv).
    unfold fits. apply andb_true_iff. split; [apply Z.leb_le|apply Z.ltb_lt]; lia.
  - apply flat_map_length_const.
  - intros b Hb. apply in_flat_map in Hb. destruct Hb as [v [_ Hb]]. eapply int_to_bytes_bytes; exact Hb.
  - unfold from_bytes. rewrite chunks_flat_map.
    + rewrite map_map. rewrite <- (map_id vs) at 2. apply map_ext_in. intros v Hv.
      apply int_from_to. rewrite Forall_forall in Hvs. apply Hvs, Hv.
    + exact Hr.
    + rewrite flat_map_length_const. nia.
Qed.

(** values out of range are rejected (OverflowError), never silently truncated *)
Theorem to_bytes_rejects r vs : (exists v, In v vs /\ ~ (0 <= v < 256 ^ Z.of_nat r)) -> to_bytes r vs = None.
Proof.
  intros [v [Hin Hv]]. unfold to_bytes. destruct (forallb (fits r) vs) eqn:E; [|reflexivity].
  exfalso. apply Hv. rewrite forallb_forall in E. specialize (E v Hin). unfold fits in E.
  apply andb_true_iff in E. destruct E as [E1 E2]. apply Z.leb_le in E1. apply Z.ltb_lt in E2. lia.
Qed.

(** byte_length is wide enough for every reduced value, and at least 1 *)
Theorem byte_length_fits q : 1 <= q -> q <= 256 ^ Z.of_nat (byte_length q) /\ (1 <= byte_length q)%nat.
Proof.
  intros Hq. unfold byte_length, bit_length. rewrite (proj2 (Z.eqb_neq q 0)) by lia. rewrite Z.abs_eq by lia.
  pose proof (Z.log2_nonneg q) as Hl. pose proof (Z.log2_spec q ltac:(lia)) as [_ Hs].
  rewrite Z.shiftr_div_pow2 by lia. change (2 ^ 3) with 8.
  set (L := Z.log2 q) in *. set (B := (L + 1 + 7) / 8).
  assert (HB : 8 * B >= L + 1 /\ B >= 1).
  { unfold B. pose proof (Z.div_mod (L + 1 + 7) 8 ltac:(lia)). pose proof (Z.mod_pos_bound (L + 1 + 7) 8 ltac:(lia)).
    split; [lia|]. assert (1 <= (L + 1 + 7) / 8) by (apply Z.div_le_lower_bound; lia). lia. }
  split; [|lia]. rewrite Z2Nat.id by lia.
  change 256 with (2 ^ 8). rewrite <- Z.pow_mul_r by lia.
  assert (2 ^ Z.succ L <= 2 ^ (8 * B)) by (apply Z.pow_le_mono_r; lia). lia.
Qed.

(** so every list of reduced values of a field of order q round-trips *)
Corollary field_roundtrip q vs : 1 <= q -> Forall (fun v => 0 <= v < q) vs ->
  exists data, to_bytes (byte_length q) vs = Some data /\ from_bytes (byte_length q) data = vs.
Proof.
  intros Hq Hvs. destruct (byte_length_fits q Hq) as [Hf Hr].
  destruct (from_bytes_to_bytes (byte_length q) vs ltac:(lia)) as [data [E [_ [_ R]]]].
  - eapply Forall_impl; [|exact Hvs]. cbv beta. intros v Hv. lia.
  - exists data. split; assumption.
Qed.

(** signed/unsigned views: consistent representatives, symmetric range *)
Theorem signed_unsigned p v : 2 <= p -> 0 <= v < p ->
  signed p v mod p = v /\ - p < 2 * signed p v <= p /\ unsigned p v = v /\
  (signed p v = v \/ signed p v = v - p).
Proof.
  intros Hp Hv. unfold signed, unsigned. rewrite Z.shiftr_div_pow2 by lia. change (2 ^ 1) with 2.
  pose proof (Z.div_mod p 2 ltac:(lia)). pose proof (Z.mod_pos_bound p 2 ltac:(lia)).
  destruct (v >? p / 2) eqn:E.
  - apply Z.gtb_lt in E. repeat split; try lia.
    rewrite <- (Z.mod_add _ 1) by lia. replace (v - p + 1 * p) with v by ring. apply Z.mod_small. lia.
  - assert (v <= p / 2).
    { destruct (Z_le_gt_dec v (p / 2)) as [l|g]; [assumption|].
      assert (G : (v >? p / 2) = true) by (apply Z.gtb_lt; lia). congruence. }
    repeat split; try lia. apply Z.mod_small. lia.
Qed.

Theorem int_view p v b : 2 <= p -> 0 <= v < p -> to_int b p v mod p = v.
Proof.
  intros Hp Hv. destruct b; cbn [to_int].
  - apply signed_unsigned; assumption.
  - unfold unsigned. apply Z.mod_small. exact Hv.
Qed.

(** pickle: recreating from (p, n, root) hits the same cache key as the creating call GF((p, n, w)), for every w *)
Theorem pickle_same_field p n w v : p <> 0 ->
  pickle_roundtrip true p n w v = (gf_key true p n w, v) /\
  gf_key true p n w = gf_key true p n (w mod p).
Proof.
  intros Hp. unfold pickle_roundtrip, create_key, reduce_args, class_root, gf_key.
  rewrite !Z.mod_mod by exact Hp. split; reflexivity.
Qed.

(** without the normalisation the keys differ (a second class object) whenever w is not reduced, e.g. w = -1 *)
Theorem pickle_unnormalised_refuted :
  exists p n w v, p <> 0 /\ fst (pickle_roundtrip false p n w v) <> gf_key false p n w.
Proof. exists 7, 2, (-1), 3. split; [lia|]. vm_compute. intros E. inversion E. Qed.

Theorem pickle_unnormalised_iff p n w v : p <> 0 ->
  (fst (pickle_roundtrip false p n w v) = gf_key false p n w <-> w mod p = w).
Proof.
  intros Hp. unfold pickle_roundtrip, create_key, reduce_args, class_root, gf_key. cbn [fst].
  split; [intros E; inversion E; congruence|intros E; rewrite E; reflexivity].
Qed.
