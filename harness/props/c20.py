"""C20 — finite field elements obey the field laws through every operator.

Proof: coq/props/C20.v over the prime-field model coq/theories/FinField.v (every operator method of
FiniteFieldElement/PrimeFieldElement + the gmpy stubs invert/powmod).  Tie: every operator method
is run on the real classes and on the model (vm_compute) on the same operands and compared exactly
(exhaustive for p <= 31).  Extension and binary fields: implementation-level oracle only.
"""
import operator
from lib.core import zlit, zlist

MANIFEST = {
    'text': 'Coq theorems, for every prime p and all elements/ints/exponents/shift counts, about an executable model of '
            'each operator method of PrimeFieldElement/FiniteFieldElement (+ - * / binary, reflected, in-place, int mixing, '
            '** incl. negative exponents, << >>, ==, bool, unary, reciprocal) with the gmpy stubs invert (Euclid loop, log fuel '
            'proved sufficient) and powmod (square-and-multiply) underneath: results reduced, in-place = binary, reflected = '
            'swapped, int mixing = converting first, ** = iterated product / inverse, shifts = mul/div by 2^n, only zero '
            'non-invertible, field_theory instance. The model is compared with the real classes on every run (all pairs for '
            'p <= 31, random+boundary for 101, 257, 61- and 64-bit primes of both classes mod 4). A final interleaved pass mixes '
            'operations of different fields in one sequence (same shift count / inverse / power back to back across prime, '
            'binary and extension fields) against the per-field oracle, so state shared between field classes is exercised. '
            'Every operator result in the oracle is also checked for a normalised representation and eq/bool/hash consistency '
            'with the canonical element, and a zero-operand stream (F(0), int 0, polynomial 0, multiples of p; either side; '
            'binary, in-place, reflected, /, **) demands value 0, falsy, a*0 == 0*a on every field kind.',
    'note': 'Coq model restricted to prime fields (scalar classes; array classes ignored). Extension fields GF(3^2..3^4), '
            'GF(5^2), GF(5^3), GF(7^2) and binary fields GF(2^d) d<=8,16 are covered by the implementation-level oracle '
            'only (independent polynomial reference arithmetic, field axioms on all triples for order <= 32, sampled above), '
            'no Coq model of gfpx here. powmod = CPython builtin pow is modelled (square-and-multiply), not verified; '
            'gmpy2 proper is not installed, the stubs of mpyc/gmpy.py are what runs. Error classes compared: '
            'ZeroDivisionError / ValueError / TypeError. Negative shift counts: an error is demanded for prime and binary '
            'fields (as coded and modelled) but not for odd-characteristic extension fields, where the property does not state '
            'the behaviour (observed: a << -1 returns a). Polynomial-on-the-left comparisons (poly == element) are ordinary '
            'cases of the int/polynomial mixing oracle (former finding F-C20-3, fixed in /repo b077c68). Open finding F-C20-1: '
            '<< in odd-characteristic extension fields multiplies by X^n, not 2^n. Class-level caches (_reciprocal2 lru_cache) '
            'are not part of the Coq model (pure functions); they are covered by the interleaved cross-field oracle pass only.',
    'technique': 'Coq proof over executable prime-field model + exhaustive/random vm_compute correspondence + implementation oracle on all field kinds',
}

ERR = {ZeroDivisionError: -1, ValueError: -2, TypeError: -3}


def _i(f):
    def g(A, X):
        return f(A, X)
    return g


OPS = {
    'OAdd': lambda A, X: A + X, 'ORAdd': lambda A, X: X + A, 'OIAdd': operator.iadd,
    'OSub': lambda A, X: A - X, 'ORSub': lambda A, X: X - A, 'OISub': operator.isub,
    'OMul': lambda A, X: A * X, 'ORMul': lambda A, X: X * A, 'OIMul': operator.imul,
    'ODiv': lambda A, X: A / X, 'ORDiv': lambda A, X: X / A, 'OIDiv': operator.itruediv,
    'OPow': lambda A, X: A ** X,
    'OLsh': lambda A, X: A << X, 'OILsh': operator.ilshift,
    'ORsh': lambda A, X: A >> X, 'OIRsh': operator.irshift,
    'OEq': lambda A, X: A == X,
    'ONeg': lambda A, X: -A, 'OPos': lambda A, X: +A,
    'ORecip': lambda A, X: A.reciprocal(), 'OBool': lambda A, X: bool(A),
}
EL_OPS = ['OAdd', 'OIAdd', 'OSub', 'OISub', 'OMul', 'OIMul', 'ODiv', 'OIDiv', 'OEq']
INT_OPS = EL_OPS + ['ORAdd', 'ORSub', 'ORMul', 'ORDiv']
UNARY = ['ONeg', 'OPos', 'ORecip', 'OBool']
SHIFTS = ['OLsh', 'OILsh', 'ORsh', 'OIRsh']
INPLACE = {'OIAdd', 'OISub', 'OIMul', 'OIDiv', 'OILsh', 'OIRsh'}


class Bad:
    """an operand of a foreign type"""


def impl_run(ctx, F, p, op, a, x):
    """Run one operator method on the real class; canonical int result / error code."""
    A = F(a)
    X = F(x[1]) if x[0] == 'el' else x[1] if x[0] == 'int' else 1.5
    try:
        r = OPS[op](A, X)
    except (ZeroDivisionError, ValueError, TypeError) as e:
        return ERR[type(e)]
    if isinstance(r, bool):
        return int(r)
    if type(r) is not F or not isinstance(r.value, int) or not 0 <= r.value < p:
        ctx.violation('result-not-reduced GF(%d) %s' % (p, op), {'p': p, 'op': op, 'a': a, 'x': list(x), 'got': repr(r)})
        return -9
    if op in INPLACE and r is not A:
        ctx.violation('inplace-new-object GF(%d) %s' % (p, op), {'p': p, 'op': op, 'a': a, 'x': list(x)})
    return r.value


# ---- independent reference for prime fields (no invert/powmod/legendre from the package)
def ref_pow(a, n, p):
    r = 1 % p
    b = a % p
    while n:
        if n & 1:
            r = r * b % p
        b = b * b % p
        n >>= 1
    return r


def ref_inv(a, p):
    a %= p
    if a == 0:
        return None
    return ref_pow(a, p - 2, p) if p > 2 else 1


def ref_run(p, op, a, x):
    """What the property demands, on plain integers."""
    if x[0] == 'bad':
        if op in UNARY:
            pass
        elif op == 'OEq':
            return 0
        else:
            return -3
    n = x[1] if x[0] != 'bad' else None
    if op in ('OAdd', 'ORAdd', 'OIAdd'):
        return (a + n) % p
    if op in ('OSub', 'OISub'):
        return (a - n) % p
    if op == 'ORSub':
        return (n - a) % p
    if op in ('OMul', 'ORMul', 'OIMul'):
        return a * n % p
    if op in ('ODiv', 'OIDiv'):
        i = ref_inv(n, p)
        return -1 if i is None else a * i % p
    if op == 'ORDiv':
        i = ref_inv(a, p)
        return -1 if i is None else n * i % p
    if op == 'OPow':
        if x[0] != 'int':
            return -3
        if n >= 0:
            return ref_pow(a, n, p)
        i = ref_inv(a, p)
        return 'noinv' if i is None else ref_pow(i, -n, p)
    if op in SHIFTS:
        if x[0] != 'int':
            return -3
        if n < 0:
            return -2
        if op in ('OLsh', 'OILsh'):
            return a * ref_pow(2, n, p) % p
        i = ref_inv(ref_pow(2, n, p), p)
        return -1 if i is None else a * i % p
    if op == 'OEq':
        return int((a - n) % p == 0)
    if op == 'ONeg':
        return -a % p
    if op == 'OPos':
        return a
    if op == 'ORecip':
        i = ref_inv(a, p)
        return -1 if i is None else i
    if op == 'OBool':
        return int(a != 0)
    raise KeyError(op)


def coq_arg(x):
    if x[0] == 'el':
        return '(AEl (%d))' % x[1]
    if x[0] == 'int':
        return '(AInt (%d))' % x[1]
    return 'ABad'


# ---- independent reference arithmetic for extension fields (elements as ints in base p)
class RefExt:
    def __init__(self, p, modint):
        self.p = p
        self.mod = self.digits(modint)
        self.d = len(self.mod) - 1
        self.q = p ** self.d

    def digits(self, n):
        c = []
        while n:
            n, r = divmod(n, self.p)
            c.append(r)
        return c

    def toint(self, c):
        s = 0
        for ci in reversed(c):
            s = s * self.p + ci
        return s

    def reduce(self, c):
        p, m, d = self.p, self.mod, self.d
        c = list(c)
        lead_inv = ref_inv(m[-1], p)
        for i in range(len(c) - 1, d - 1, -1):
            f = c[i] * lead_inv % p
            if f:
                for j in range(d + 1):
                    c[i - d + j] = (c[i - d + j] - f * m[j]) % p
        c = c[:d]
        while c and not c[-1]:
            c.pop()
        return c

    def conv(self, n):
        """int -> element index, the way the package converts ints (signed base-p digits)."""
        if n >= 0:
            c = self.digits(n)
        else:
            c = [(-x) % self.p for x in self.digits(-n)]
        return self.toint(self.reduce(c))

    def add(self, i, j):
        a, b = self.digits(i), self.digits(j)
        n = max(len(a), len(b))
        a += [0] * (n - len(a))
        b += [0] * (n - len(b))
        return self.toint([(x + y) % self.p for x, y in zip(a, b)])

    def neg(self, i):
        return self.toint([(-x) % self.p for x in self.digits(i)])

    def mul(self, i, j):
        a, b = self.digits(i), self.digits(j)
        if not a or not b:
            return 0
        c = [0] * (len(a) + len(b) - 1)
        for s, x in enumerate(a):
            if x:
                for t, y in enumerate(b):
                    c[s + t] = (c[s + t] + x * y) % self.p
        return self.toint(self.reduce(c))


class RefPrime:
    def __init__(self, p):
        self.p = self.q = p
        self.d = 1

    def conv(self, n):
        return n % self.p

    def add(self, i, j):
        return (i + j) % self.p

    def neg(self, i):
        return -i % self.p

    def mul(self, i, j):
        return i * j % self.p


def catch(f):
    try:
        return ('ok', f())
    except (ZeroDivisionError, ValueError, TypeError) as e:
        return ('err', type(e).__name__)


def oracle_field(ctx, name, F, R, kind):
    """The property itself on the implementation of one field F with reference arithmetic R."""
    rng = ctx.rng
    q, p, d = R.q, R.p, R.d
    odd_ext = d > 1 and p > 2
    P = type(F.modulus) if isinstance(R, RefExt) else None      # polynomial type for mixing
    checks = [0]

    def bad(what, **kw):
        kw.update(field=name)
        ctx.violation('%s %s' % (what, name), kw)

    canon = {}
    cur = [None]        # operands being processed, for the replay detail of representation failures

    def val(x):
        """canonical int of an element + reducedness / normalised-representation / eq / bool / hash consistency"""
        if type(x) is not F:
            bad('result-wrong-type', got=repr(x))
            return -1
        v = x.value
        if P is None:
            if not (isinstance(v, int) and 0 <= v < p):
                bad('result-not-reduced', got=repr(v))
        else:
            if not (type(v) is P and v.degree() < d):
                bad('result-not-reduced', got=repr(v))
            rep = v.value                      # list of coefficients (odd p) or int bit mask (p = 2)
            if isinstance(rep, list):
                if (rep and not rep[-1]) or not all(isinstance(c_, int) and 0 <= c_ < p for c_ in rep):
                    bad('result-not-normalised', got=repr(rep), while_processing=cur[0])
            elif not (isinstance(rep, int) and 0 <= rep < q):
                bad('result-not-normalised', got=repr(rep), while_processing=cur[0])
        iv = int(v)
        c = canon.get(iv)
        if c is None:
            c = F(iv)
            if len(canon) < 70000:
                canon[iv] = c
        if bool(x) != (iv != 0):
            bad('bool-inconsistent', value=iv, got=bool(x), rep=repr(getattr(v, 'value', v)), while_processing=cur[0])
        if not (x == c) or (x != c) or hash(x) != hash(c):
            bad('eq-hash-inconsistent', value=iv, eq=bool(x == c), rep=repr(getattr(v, 'value', v)), while_processing=cur[0])
        return iv

    full = q <= 256
    if full:
        idx = list(range(q))
    else:
        idx = sorted(set([0, 1, 2, p - 1, p % q, (p + 1) % q, q - 1, q - 2, q // 2] +
                         [rng.randrange(q) for _ in range(ctx.n(60, 200))]))
    E = {i: F(i) for i in idx}
    for i in idx:
        if val(E[i]) != (i if i < q else R.conv(i)):
            bad('int-conversion', i=i, got=int(E[i].value))
    zero, one = F(0), F(1)

    # --- tables of the four binary operators on all (or sampled) pairs, against the reference
    T = {k: {} for k in ('add', 'sub', 'mul', 'div')}
    pairs = [(i, j) for i in idx for j in idx]
    for (i, j) in pairs:
        a, b = E[i], E[j]
        cur[0] = ['a op b', i, j]
        s = val(a + b)
        m = val(a * b)
        df = val(a - b)
        T['add'][i, j], T['mul'][i, j], T['sub'][i, j] = s, m, df
        if s != R.add(i, j):
            bad('add-wrong', a=i, b=j, got=s, want=R.add(i, j))
        if m != R.mul(i, j):
            bad('mul-wrong', a=i, b=j, got=m, want=R.mul(i, j))
        if df != R.add(i, R.neg(j)):
            bad('sub-wrong', a=i, b=j, got=df)
        if j == 0:
            r = catch(lambda: a / b)
            if r != ('err', 'ZeroDivisionError'):
                bad('div-by-zero-no-error', a=i, got=str(r))
            T['div'][i, j] = None
        else:
            qv = a / b
            qi = val(qv)
            T['div'][i, j] = qi
            if R.mul(qi, j) != i:
                bad('div-wrong', a=i, b=j, got=qi)
        # in-place forms: same object, same result, right operand untouched
        for opn, iop, key in (('+=', operator.iadd, 'add'), ('-=', operator.isub, 'sub'), ('*=', operator.imul, 'mul'),
                              ('/=', operator.itruediv, 'div')):
            if key == 'div' and j == 0:
                x = F(i)
                r = catch(lambda: iop(x, b))
                if r != ('err', 'ZeroDivisionError') or val(x) != i:
                    bad('inplace-div-by-zero', a=i, got=str(r))
                continue
            x = F(i)
            y = iop(x, b)
            if y is not x or val(y) != T[key][i, j] or val(b) != j:
                bad('inplace-differs %s' % opn, a=i, b=j, got=val(y), want=T[key][i, j])
        # comparisons / truth
        if (a == b) != (i == j) or (a != b) != (i != j):
            bad('eq-wrong', a=i, b=j)
        checks[0] += 12
        ctx.case({'f': name, 'a': i, 'b': j}, nontrivial=True, kind=kind)

    # --- field axioms
    add, mul = T['add'], T['mul']
    for i in idx:
        if add[i, 0] != i or add[0, i] != i or mul[i, 1] != i or mul[1, i] != i or mul[i, 0] != 0:
            bad('identity-law', a=i)
        ni = val(-E[i])
        if add[i, ni] != 0 if (i, ni) in add else val(E[i] + (-E[i])) != 0:
            bad('additive-inverse', a=i)
        if val(+E[i]) != i or bool(E[i]) != (i != 0):
            bad('pos-or-bool', a=i)
        # only zero has no inverse
        r = catch(lambda: E[i].reciprocal())
        if i == 0:
            if r != ('err', 'ZeroDivisionError'):
                bad('reciprocal-of-zero', got=str(r))
        else:
            if r[0] != 'ok' or R.mul(val(r[1]), i) != 1 or val(E[i] * r[1]) != 1:
                bad('reciprocal-wrong', a=i, got=str(r))
    for (i, j) in pairs:
        if add[i, j] != add[j, i] or mul[i, j] != mul[j, i]:
            bad('commutativity', a=i, b=j)
    if q <= 32:
        triples = [(i, j, k) for i in idx for j in idx for k in idx]
        ctx.extra.setdefault('fields_all_triples', []).append(name)
    else:
        triples = [(rng.choice(idx), rng.choice(idx), rng.choice(idx)) for _ in range(ctx.n(4000, 40000))]
    for (i, j, k) in triples:
        if add[add[i, j], k] != add[i, add[j, k]] if full else val((E[i] + E[j]) + E[k]) != val(E[i] + (E[j] + E[k])):
            bad('add-assoc', a=i, b=j, c=k)
        if mul[mul[i, j], k] != mul[i, mul[j, k]] if full else val((E[i] * E[j]) * E[k]) != val(E[i] * (E[j] * E[k])):
            bad('mul-assoc', a=i, b=j, c=k)
        if mul[i, add[j, k]] != add[mul[i, j], mul[i, k]] if full else \
                val(E[i] * (E[j] + E[k])) != val(E[i] * E[j] + E[i] * E[k]):
            bad('distributivity', a=i, b=j, c=k)
    checks[0] += 3 * len(triples)

    # --- mixing ints (and polynomials): equals converting first; reflected forms
    ints = sorted(set([0, 1, -1, 2, -2, p, -p, p - 1, p + 1, q, q - 1, q + 1, -q, 2 * q + 1, -q - 1, 2 ** 64, -2 ** 64 + 1,
                       p * p, p ** (d + 1) + 1] + [rng.randrange(-3 * q, 3 * q) for _ in range(ctx.n(8, 30))]))
    aset = idx if q <= 32 else [0, 1, q - 1] + [rng.choice(idx) for _ in range(ctx.n(12, 60))]
    binops = (('+', operator.add), ('-', operator.sub), ('*', operator.mul), ('/', operator.truediv))
    iops = (('+=', operator.iadd), ('-=', operator.isub), ('*=', operator.imul), ('/=', operator.itruediv))
    for i in aset:
        for n in ints:
            cur[0] = ['a op int/poly n', i, n]
            c = R.conv(n)
            forms = [('int', n)]
            if P is not None:
                forms.append(('poly', P(n)))
            for fk, N in forms:
                for (sym, f), (isym, g) in zip(binops, iops):
                    want = catch(lambda: val(f(F(i), F(n))))
                    got = catch(lambda: val(f(F(i), N)))
                    if got != want:
                        bad('mix-%s-differs %s' % (fk, sym), a=i, n=n, got=str(got), want=str(want))
                    goti = catch(lambda: val(g(F(i), N)))
                    if goti != want:
                        bad('mix-%s-inplace-differs %s' % (fk, isym), a=i, n=n, got=str(goti), want=str(want))
                    wantr = catch(lambda: val(f(F(n), F(i))))
                    gotr = catch(lambda: val(f(N, F(i))))
                    if gotr != wantr:
                        bad('reflected-%s-differs %s' % (fk, sym), a=i, n=n, got=str(gotr), want=str(wantr))
                if (F(i) == N) != (i == c) or (F(i) != N) != (i != c):
                    bad('mix-%s-eq' % fk, a=i, n=n)
                if (N == F(i)) != (i == c) or (N != F(i)) != (i != c):
                    bad('mix-%s-eq-reflected' % fk, a=i, n=n, eq=(N == F(i)), ne=(N != F(i)), want_eq=(i == c))
                if val(F(N)) != c:
                    bad('conversion-%s' % fk, n=n, got=val(F(N)), want=c)
            checks[0] += 14 * len(forms)
        ctx.case({'f': name, 'a': i, 'mix': len(ints)}, nontrivial=True, kind=kind + ' int-mixing')

    # --- pow = repeated multiplication; negative exponents via the inverse
    nmax = min(q + 2, ctx.n(40, 80))
    for i in aset:
        a = F(i)
        acc = 1
        for n in range(0, nmax + 1):
            got = val(a ** n)
            if got != acc:
                bad('pow-wrong', a=i, n=n, got=got, want=acc)
            if i != 0:
                inv = val(F(acc).reciprocal())
                gotn = catch(lambda: val(a ** -n))
                if gotn != ('ok', inv):
                    bad('neg-pow-wrong', a=i, n=-n, got=str(gotn), want=inv)
            elif n > 0:
                gotn = catch(lambda: val(a ** -n))
                if gotn[0] != 'err' or gotn[1] not in ('ZeroDivisionError', 'ValueError'):
                    bad('neg-pow-of-zero', n=-n, got=str(gotn))
            acc = R.mul(acc, i)
        if i != 0 and val(a ** (q - 1)) != 1:
            bad('fermat', a=i)
        for _ in range(3):
            n = rng.randrange(q, q ** 2 + 100)
            if i != 0 and val(a ** n) != val(a ** (n % (q - 1))):
                bad('pow-big', a=i, n=n)
            x = F(i)
            x **= 5
            if val(x) != val(a ** 5):
                bad('ipow', a=i)
        checks[0] += 2 * nmax + 8
        ctx.case({'f': name, 'a': i, 'pow': nmax}, nontrivial=i > 1, kind=kind + ' pow')

    # --- shifts = multiplication / division by 2^n (the int 2^n, converted like any int operand)
    for i in aset:
        for n in [0, 1, 2, 3, 4, 7, 8, 15, 16, 33, 64, 70]:
            a = F(i)
            for nm, sh, ish, op in (('lshift', operator.lshift, operator.ilshift, operator.mul),
                                    ('rshift', operator.rshift, operator.irshift, operator.truediv)):
                want = catch(lambda: val(op(F(i), 1 << n)))
                got = catch(lambda: val(sh(F(i), n)))
                goti = catch(lambda: val(ish(F(i), n)))
                if got != want or goti != want:
                    sig = '%s-not-%s-by-pow2' % (nm, 'mul' if nm == 'lshift' else 'div')
                    if odd_ext and nm == 'lshift':
                        sig += ' odd-char-extension'
                    bad(sig, a=i, n=n, got=str(got), inplace=str(goti), want=str(want))
            if p > 2 and not odd_ext:
                if val((a << n) >> n) != i:
                    bad('shift-roundtrip', a=i, n=n)
            checks[0] += 5
        for nm, f in (('<<', lambda: F(i) << -1), ('>>', lambda: F(i) >> -1), ('<<el', lambda: F(i) << F(1)),
                      ('>>el', lambda: F(i) >> F(1)), ('int<<', lambda: 1 << F(i)), ('int>>', lambda: 1 >> F(i))):
            if odd_ext and nm == '<<':
                continue    # negative shift counts: behaviour not stated by the property (observed: no error in GF(p^d), p odd)
            r = catch(f)
            if r[0] != 'err':
                bad('shift-malformed-accepted %s%s' % (nm, ' odd-char-extension' if odd_ext else ''), a=i, got=str(r))
        ctx.case({'f': name, 'a': i, 'shift': 1}, nontrivial=i > 0, kind=kind + ' shift')

    # --- zero operands on either side, every operator form: value 0, falsy, normalised, a*0 == 0*a
    zforms = [('F(0)', lambda: F(0)), ('int 0', lambda: 0)]
    if P is not None:
        zforms += [('poly 0', lambda: P(0)), ('F(poly 0)', lambda: F(P(0)))]
    else:
        zforms += [('int p', lambda: p), ('int -p', lambda: -p)]
    zset = sorted(set(list(aset) + [min(q - 1, p), min(q - 1, p + 1), min(q - 1, 2 * p), q - 1, q // 2]))
    for i in zset:
        for zn, zf in zforms:
            cur[0] = ['a op zero', i, zn]
            def chk0(what, f):
                r = catch(lambda: val(f()))
                if r != ('ok', 0):
                    bad('zero-operand-%s' % what, a=i, zero=zn, got=str(r))
                checks[0] += 1
            chk0('mul', lambda: F(i) * zf())
            chk0('rmul', lambda: zf() * F(i))
            chk0('imul', lambda: operator.imul(F(i), zf()))
            chk0('imul-left', lambda: operator.imul(F(0), zf() if zn != 'F(0)' else F(i)))
            chk0('mul-both-zero', lambda: F(0) * zf())
            chk0('add-neg', lambda: (F(i) + zf()) - F(i))
            chk0('sub-self', lambda: (F(i) - zf()) - F(i))
            if i != 0:
                chk0('div', lambda: zf() / F(i))
                chk0('div-left', lambda: F(0) / F(i))
                chk0('idiv', lambda: operator.itruediv(F(0), F(i)))
            r1 = catch(lambda: F(i) * zf())
            r2 = catch(lambda: zf() * F(i))
            if r1[0] != 'ok' or r2[0] != 'ok' or not (r1[1] == r2[1]) or r1[1] != r2[1] or not (r1[1] == F(0)) or not (r1[1] == 0) \
                    or bool(r1[1]) or bool(r2[1]) or hash(r1[1]) != hash(F(0)) or hash(r2[1]) != hash(F(0)):
                bad('zero-operand-product-not-zero', a=i, zero=zn, left=str(r1), right=str(r2))
            r = catch(lambda: F(i) / zf())
            if r != ('err', 'ZeroDivisionError'):
                bad('zero-operand-div-by-zero', a=i, zero=zn, got=str(r))
            # the product keeps behaving like zero afterwards
            z1 = F(i) * zf()
            if val(z1 + F(i)) != i or val(z1 * F(i)) != 0 or val(-z1) != 0 or val(z1 ** 3) != 0 or val(z1 ** 0) != 1 \
                    or catch(lambda: z1.reciprocal()) != ('err', 'ZeroDivisionError'):
                bad('zero-operand-product-misbehaves', a=i, zero=zn)
            checks[0] += 8
        for n in (1, 2, 5, q - 1, q):
            if val(F(0) ** n) != 0:
                bad('zero-operand-pow', n=n)
        ctx.case({'f': name, 'a': i, 'zero': len(zforms)}, nontrivial=i > 0, kind=kind + ' zero operand')

    # --- malformed operands
    for f in (lambda: one + 1.5, lambda: 1.5 * one, lambda: one / 'x', lambda: one ** 1.5, lambda: one ** one, lambda: 2 ** one,
              lambda: one - None):
        r = catch(f)
        if r != ('err', 'TypeError'):
            bad('malformed-operand-accepted', got=str(r))
    return checks[0]


def interleaved(ctx, finfields, rng, primes, ext_specs):
    """Operations of DIFFERENT fields mixed in one sequence (class-level caches shared between field
    classes are a realistic fault class): same shift count / inverse / power back to back across fields,
    every step checked against the per-field oracle."""
    import itertools
    Fs = {p: finfields.GF(p) for p in primes}
    trace = []
    nchk = [0]

    def step(p, op, a, x):
        got = impl_run(ctx, Fs[p], p, op, a, x)
        want = ref_run(p, op, a, x)
        trace.append(['GF(%d)' % p, op, a, list(x), got])
        del trace[:-8]
        nchk[0] += 1
        good = got in (-1, -2) if want == 'noinv' else got == want
        if not good:
            ctx.violation('interleaved-operator-wrong GF(%d) %s' % (p, op),
                          {'p': p, 'op': op, 'a': a, 'x': list(x), 'got': got, 'want': want, 'preceding_steps': list(trace)})
        ctx.case({'il': 'GF(%d)' % p, 'op': op, 'a': a, 'x': list(x), 'k': nchk[0]}, nontrivial=True, kind='interleaved prime fields')

    def el(p):
        return rng.choice([1, p - 1, rng.randrange(p), rng.randrange(1, p) if p > 1 else 0])

    # A. the same shift count back to back across two / three different prime fields
    counts = [0, 1, 2, 3, 7, 8, 31, 32, 63, 64, 65, 70]
    pairs = list(itertools.permutations(primes, 2))
    for n in counts:
        for (p1, p2) in pairs:
            x = ('int', n)
            step(p1, 'ORsh', el(p1), x)
            step(p2, 'ORsh', el(p2), x)
            step(p1, 'OIRsh', el(p1), x)
            step(p2, 'OIRsh', el(p2), x)
            step(p1, 'OLsh', el(p1), x)
            step(p2, 'ORsh', el(p2), x)
            step(p1, 'ORsh', el(p1), x)
    triples = [tuple(rng.sample(primes, 3)) for _ in range(ctx.n(80, 600))]
    for (p1, p2, p3) in triples:
        n = rng.choice(counts)
        for p, op in ((p1, 'ORsh'), (p2, 'OIRsh'), (p3, 'ORsh'), (p2, 'OILsh'), (p1, 'OIRsh'), (p3, 'OIRsh')):
            step(p, op, el(p), ('int', n))
    # B. same operand back to back across fields for inverses / negative powers / division
    for _ in range(ctx.n(300, 3000)):
        p1, p2 = rng.sample(primes, 2)
        v = rng.choice([1, 2, 3, rng.randrange(1, 1000)])
        op = rng.choice(['ORecip', 'ODiv', 'OIDiv', 'ORDiv', 'OPow'])
        for p in (p1, p2, p1):
            if op == 'ORecip':
                step(p, op, v % p, ('int', 0))
            elif op == 'OPow':
                step(p, op, v % p, ('int', rng.choice([-1, -2, -3])))
            else:
                step(p, op, el(p), ('int', v))
    # C. a random walk over all fields and all operator methods
    allops = INT_OPS + ['OPow'] + SHIFTS + UNARY
    for _ in range(ctx.n(4000, 40000)):
        p = rng.choice(primes)
        op = rng.choice(allops)
        if op in SHIFTS:
            x = ('int', rng.choice(counts + [-1]))
        elif op == 'OPow':
            x = ('int', rng.choice([-3, -2, -1, 0, 1, 2, 5, p - 1, p, -p]))
        elif op in UNARY:
            x = ('int', 0)
        else:
            x = rng.choice([('int', rng.randrange(-2 * p - 1, 2 * p + 2)), ('el', rng.randrange(p))]) if op in EL_OPS \
                else ('int', rng.randrange(-2 * p - 1, 2 * p + 2))
        step(p, op, rng.randrange(p), x)

    # D. extension / binary fields interleaved with each other and with prime fields (reference arithmetic oracle)
    X = []
    for (pp, dd) in ext_specs:
        mod = finfields.find_irreducible(pp, dd)
        X.append(('GF(%d^%d)' % (pp, dd), finfields.GF(mod), RefExt(pp, int(mod))))
    for p in primes[:6]:
        X.append(('GF(%d)' % p, Fs[p], RefPrime(p)))
    for k in range(ctx.n(6000, 60000)):
        name, F, R = X[k % len(X)] if k % 3 else rng.choice(X)
        q = R.q
        i, j = rng.randrange(q), rng.randrange(q)
        n = rng.choice([0, 1, 2, 3, 8, 16])
        kind = rng.choice(['add', 'mul', 'div', 'recip', 'pow-1', 'rsh', 'irsh', 'lsh'])
        a, b = F(i), F(j)
        good, got = True, None
        try:
            if kind == 'add':
                got = int((a + b).value)
                good = got == R.add(i, j)
            elif kind == 'mul':
                got = int((a * b).value)
                good = got == R.mul(i, j)
            elif kind == 'div':
                r = catch(lambda: int((a / b).value))
                got = str(r)
                good = (r == ('err', 'ZeroDivisionError')) if j == 0 else (r[0] == 'ok' and R.mul(r[1], j) == i)
            elif kind in ('recip', 'pow-1'):
                r = catch((lambda: int(a.reciprocal().value)) if kind == 'recip' else (lambda: int((a ** -1).value)))
                got = str(r)
                good = (r[0] == 'err') if i == 0 else (r[0] == 'ok' and R.mul(r[1], i) == 1)
            elif kind in ('rsh', 'irsh'):
                c = R.conv(1 << n)
                if kind == 'rsh':
                    r = catch(lambda: int((a >> n).value))
                else:
                    def f_():
                        y = F(i)
                        y >>= n
                        return int(y.value)
                    r = catch(f_)
                got = str(r)
                good = (r == ('err', 'ZeroDivisionError')) if c == 0 else (r[0] == 'ok' and R.mul(r[1], c) == i)
            else:
                if isinstance(R, RefExt) and R.p > 2:
                    continue        # open finding F-C20-1 (reported by the per-field pass)
                got = int((a << n).value)
                good = got == R.mul(i, R.conv(1 << n))
        except Exception as ex:  # noqa
            good, got = False, repr(ex)
        trace.append([name, kind, i, j, n, got])
        del trace[:-8]
        nchk[0] += 1
        if not good:
            ctx.violation('interleaved-%s-wrong %s' % (kind, name), {'field': name, 'op': kind, 'a': i, 'b': j, 'n': n, 'got': got,
                                                                       'preceding_steps': list(trace)})
        ctx.case({'il': name, 'op': kind, 'a': i, 'b': j, 'n': n, 'k': k}, nontrivial=True, kind='interleaved all field kinds')
    return nchk[0]


def run(ctx):
    from mpyc import finfields, gmpy
    ok = ctx.build(['MPyC.FinField']) and ctx.check_props()
    rng = ctx.rng
    ctx.rule = ('model tie: case = (prime p, operator method, left element, right operand (element | int | foreign)); '
                'all pairs for p <= 31 (x all ints in [-2p-1, 2p+1] for p <= 13, boundary ints around 0, +-p, +-2p above, all exponents in [-p-2, p+2], shift counts -2..11 and around 32, 64), '
                'random+boundary for larger primes; oracle: case = (field, a, b) / (field, a, kind) on every field kind; interleaved: case = one '
                'step of a sequence alternating between different fields (same shift count / operand back to back)')
    ctx.explanation = ('Coq theorems about the executable prime-field model; the model is compared with the real operator '
                       'methods exactly; the property is also checked on the implementation against independent '
                       'integer/polynomial arithmetic for prime, binary and extension fields')
    stubs = gmpy.version() == 'MPyC stubs'
    ctx.notes.append('gmpy backend: %s' % gmpy.version())

    small = [2, 3, 5, 7, 11, 13, 17, 19, 23, 29, 31]
    p61a = 2 ** 61 - 1                       # = 3 mod 4
    p61b = 2305843009213693921               # 61-bit, = 1 mod 4
    p64a = 18446744073709551557              # 2^64 - 59, = 1 mod 4
    p64b = 18446744073709551427              # 64-bit, = 3 mod 4
    big = [101, 257, p61a, p61b, p64a, p64b]
    for pp in big:
        assert gmpy.is_prime(pp), pp
    assert p61a % 4 == 3 and p61b % 4 == 1 and p64a % 4 == 1 and p64b % 4 == 3

    exprs, meta = [], []          # meta: (p, op, list of (a, x)), impl results
    n_model = 0

    def add_cases(p, F, op, cases, expr):
        impl = [impl_run(ctx, F, p, op, a, x) for (a, x) in cases]
        for (a, x), got in zip(cases, impl):
            want = ref_run(p, op, a, x)
            if want == 'noinv':
                okk = got in (-1, -2)
            else:
                okk = got == want
            if not okk:
                ctx.violation('operator-wrong GF(%d) %s' % (p, op), {'p': p, 'op': op, 'a': a, 'x': list(x), 'got': got, 'want': want})
            ctx.case({'p': p, 'op': op, 'a': a, 'x': list(x)}, nontrivial=True, kind='model-tie GF(p) ' + ('small' if p <= 31 else 'large'))
        exprs.append(expr)
        meta.append((p, op, cases, impl))

    for p in small:
        F = finfields.GF(p)
        els = list(range(p))
        if p <= 13 or ctx.tier == 'thorough':
            ints = list(range(-2 * p - 1, 2 * p + 2)) + [2 ** 64, -2 ** 64 - 1, p * p + 1]
        else:
            ints = [-2 * p - 1, -2 * p, -2 * p + 1, -p - 1, -p, -p + 1, -2, -1, 0, 1, 2, 3, (p + 1) // 2, p - 1, p, p + 1,
                    2 * p - 1, 2 * p, 2 * p + 1, 2 ** 64, -2 ** 64 - 1, p * p + 1]
        for op in EL_OPS:
            cases = [(a, ('el', b)) for a in els for b in els]
            add_cases(p, F, op, cases, 'List.concat (table_el %s %s)' % (zlit(p), op))
        for op in INT_OPS:
            cases = [(a, ('int', n)) for a in els for n in ints]
            add_cases(p, F, op, cases, 'List.concat (table_int %s %s %s)' % (zlit(p), op, zlist(ints)))
        exps = list(range(-p - 2, p + 3)) + [2 ** 64 + 1, -2 ** 64 - 3]
        add_cases(p, F, 'OPow', [(a, ('int', n)) for a in els for n in exps],
                  'List.concat (table_int %s OPow %s)' % (zlit(p), zlist(exps)))
        shs = list(range(-2, 71)) if p <= 7 or ctx.tier == 'thorough' else list(range(-2, 12)) + [31, 32, 33, 63, 64, 65, 70]
        for op in SHIFTS:
            add_cases(p, F, op, [(a, ('int', n)) for a in els for n in shs],
                      'List.concat (table_int %s %s %s)' % (zlit(p), op, zlist(shs)))
        for op in UNARY:
            add_cases(p, F, op, [(a, ('int', 0)) for a in els], 'List.concat (table_int %s %s [0]%%Z)' % (zlit(p), op))
        # foreign operand types
        for op in INT_OPS + ['OPow'] + SHIFTS:
            cases = [(a, ('bad',)) for a in els[:3]]
            if op in ('OPow',) + tuple(SHIFTS):
                cases += [(a, ('el', 1)) for a in els[:2]]
            add_cases(p, F, op, cases, 'row %s %s [%s]' % (zlit(p), op, '; '.join('((%d)%%Z, %s)' % (a, coq_arg(x)) for a, x in cases)))
    ctx.extra['exhaustive'] = True
    ctx.extra['exhaustive_what'] = 'all element pairs and all listed int operands for every prime p <= 31, every operator method'

    def rnd_el(p):
        return rng.choice([0, 1, 2, p - 1, p - 2, (p - 1) // 2, (p + 1) // 2, rng.randrange(p), rng.randrange(p), rng.randrange(p)])

    def rnd_int(p):
        return rng.choice([0, 1, -1, p, -p, p - 1, p + 1, 2 * p, -2 * p - 1, 2 ** 64, -2 ** 64, 2 ** 127 - 1,
                           rng.randrange(-2 ** 70, 2 ** 70), rng.randrange(-p, p), rng.randrange(p)])

    nbig = ctx.n(40, 300)
    for p in big:
        F = finfields.GF(p)
        for op in EL_OPS:
            cases = [(rnd_el(p), ('el', rnd_el(p))) for _ in range(nbig)]
            add_cases(p, F, op, cases, None)
        for op in INT_OPS:
            cases = [(rnd_el(p), ('int', rnd_int(p))) for _ in range(nbig)]
            add_cases(p, F, op, cases, None)
        cases = [(rnd_el(p), ('int', rng.choice([0, 1, -1, 2, -2, p - 1, p - 2, 1 - p, p, -p, (p - 1) // 2,
                                                   rng.randrange(-2 ** 66, 2 ** 66), rng.randrange(-p, p)])))
                 for _ in range(nbig)]
        add_cases(p, F, 'OPow', cases, None)
        for op in SHIFTS:
            cases = [(rnd_el(p), ('int', rng.choice([-1, 0, 1, 2, 31, 32, 60, 61, 63, 64, 65, 127, 128, rng.randrange(0, 200)])))
                     for _ in range(nbig)]
            add_cases(p, F, op, cases, None)
        for op in UNARY:
            cases = [(rnd_el(p), ('int', 0)) for _ in range(nbig)]
            add_cases(p, F, op, cases, None)
    for k, (p, op, cases, impl) in enumerate(meta):
        if exprs[k] is None:
            exprs[k] = 'row %s %s [%s]' % (zlit(p), op, '; '.join('((%d)%%Z, %s)' % (a, coq_arg(x)) for a, x in cases))

    ctx.log('%d operator runs on the implementation; evaluating %d model tables in Coq' % (sum(len(m[2]) for m in meta), len(exprs)))
    if ok:
        res = ctx.coq_eval(['MPyC.FinField'], exprs, chunk=40)
        mism = 0
        for r, (p, op, cases, impl) in zip(res, meta):
            if isinstance(r, tuple) and r and r[0] == 'ERROR':
                mism += 1
                ctx.broken.append({'kind': 'correspondence', 'what': 'coq evaluation failed', 'p': p, 'op': op, 'detail': r[1]})
                continue
            if len(r) != len(impl):
                mism += 1
                ctx.broken.append({'kind': 'correspondence', 'what': 'length', 'p': p, 'op': op})
                continue
            for (a, x), mv, iv in zip(cases, r, impl):
                n_model += 1
                if mv != iv and not (not stubs and {mv, iv} == {-1, -2} and op == 'OPow'):
                    mism += 1
                    if len(ctx.broken) < 50:
                        ctx.broken.append({'kind': 'correspondence', 'p': p, 'op': op, 'a': a, 'x': list(x), 'model': mv, 'impl': iv})
        ctx.extra['traces_validated_against_impl'] = n_model - mism
        ctx.log('model/implementation comparisons: %d, disagreements: %d' % (n_model, mism))

    # ---- implementation-level oracle on all field kinds
    nchk = 0
    fields = [('GF(%d)' % p, finfields.GF(p), RefPrime(p), 'oracle prime') for p in small + [101, 257, p61b, p64b]]
    for dd in [1, 2, 3, 4, 5, 6, 7, 8, 16]:
        mod = finfields.find_irreducible(2, dd)
        fields.append(('GF(2^%d)' % dd, finfields.GF(mod), RefExt(2, int(mod)), 'oracle binary'))
    for (pp, dd) in [(3, 2), (3, 3), (3, 4), (5, 2), (5, 3), (7, 2)]:
        mod = finfields.find_irreducible(pp, dd)
        fields.append(('GF(%d^%d)' % (pp, dd), finfields.GF(mod), RefExt(pp, int(mod)), 'oracle extension'))
    for name, F, R, kind in fields:
        assert F.order == R.q and F.characteristic == R.p and F.ext_deg == R.d
        nchk += oracle_field(ctx, name, F, R, kind)
    ctx.extra['oracle_checks_all_field_kinds'] = nchk
    ctx.log('oracle checks on %d fields: %d' % (len(fields), nchk))
    nil = interleaved(ctx, finfields, rng, [2, 3, 5, 7, 13, 31, 101, 257, p61b, p64b],
                      [(2, 1), (2, 4), (2, 8), (3, 2), (5, 2), (3, 3), (7, 2)])
    ctx.extra['interleaved_cross_field_checks'] = nil
    ctx.log('interleaved cross-field checks: %d' % nil)
    ctx.notes.append('extension/binary fields: property oracle on the implementation only (no Coq model of gfpx in this check)')

    if ctx.broken and not ctx.violations:
        ctx.unproved('C20 model/proof', {'broken': ctx.broken[:5]})
