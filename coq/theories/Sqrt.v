(** C21 — model of PrimeFieldElement._sqrt / _is_sqr (mpyc/finfields.py) with the gmpy stubs
    legendre = jacobi (binary-free Euclid-style loop of mpyc/gmpy.py), powmod, invert underneath. *)
Require Import MPyC.Field MPyC.Zp MPyC.FinField.
From Coq Require Import ZArith Znumtheory Lia Bool List.
Import ListNotations.
Local Open Scope Z_scope.

(** ** gmpy.jacobi(x, y), y > 0 odd (ValueError otherwise); legendre(x, y) = jacobi(x, y)
      j = 1
      while True:
          x, y = y, x % y
          if y == 0: break
          t = (y & -y).bit_length() - 1
          if t&1 and (x&7 == 3 or x&7 == 5): j = -j
          y = y >> t
          if y&3 != 1 and x&3 != 1: j = -j
      if x != 1: j = 0 *)
Fixpoint jacobi_loop (fuel : nat) (x y j : Z) : option Z :=
  match fuel with
  | O => None
  | S f =>
      let x' := y in
      let y' := x mod y in
      if y' =? 0 then Some (if x' =? 1 then j else 0)
      else
        let t := Z.log2 (Z.land y' (- y')) in
        let j1 := if (Z.land t 1 =? 1) && ((Z.land x' 7 =? 3) || (Z.land x' 7 =? 5)) then - j else j in
        let y'' := Z.shiftr y' t in
        let j2 := if negb (Z.land y'' 3 =? 1) && negb (Z.land x' 3 =? 1) then - j1 else j1 in
        jacobi_loop f x' y'' j2
  end.

Definition jacobi_fuel (y : Z) : nat := (2 * Z.to_nat (Z.log2_up y) + 4)%nat.

Definition jacobi (x y : Z) : result Z :=
  if negb ((0 <? y) && (Z.land y 1 =? 1)) then Err ValueE
  else match jacobi_loop (jacobi_fuel y) x y 1 with Some j => Ok j | None => Err Fuel end.

Definition legendre := jacobi.

(** ** _is_sqr *)
Definition is_sqr (p a : Z) : result bool :=
  if p =? 2 then Ok true
  else bind (legendre a p) (fun l => Ok (negb (l =? -1))).

(** ** _sqrt *)
(** b = 1; while legendre(b*b - 4*a, p) != -1: b += 1   ([None]: fuel exhausted / legendre failed) *)
Fixpoint find_b (fuel : nat) (p a b : Z) : option Z :=
  match fuel with
  | O => None
  | S f => match legendre (b * b - 4 * a) p with
           | Ok l => if l =? -1 then Some b else find_b f p a (b + 1)
           | Err _ => None
           end
  end.
Definition find_b_fuel (p : Z) : nat := (64 + 8 * Z.to_nat (Z.log2_up p))%nat.

(** one ladder step on u*X + v in GF(p)[X]/(X^2 - b*X + a): squaring, and multiplication by X *)
Definition lad_sq (p a b : Z) (uv : Z * Z) : Z * Z :=
  let '(u, v) := uv in
  let u2 := (u * u) mod p in
  ((Z.shiftl u 1 * v + b * u2) mod p, (v * v - a * u2) mod p).
Definition lad_mx (p a b : Z) (uv : Z * Z) : Z * Z :=
  let '(u, v) := uv in ((v + b * u) mod p, (- a * u) mod p).

(** for i in range(e.bit_length()-1, -1, -1): square; if bit i of e: multiply by X   (from (0, 1)) *)
Fixpoint ladder (p a b : Z) (e : positive) : Z * Z :=
  match e with
  | xH => lad_mx p a b (lad_sq p a b (0, 1))
  | xO e' => lad_sq p a b (ladder p a b e')
  | xI e' => lad_mx p a b (lad_sq p a b (ladder p a b e'))
  end.

Definition sqrt_ (p a : Z) (INV : bool) : result Z :=      (* classmethod _sqrt on raw values *)
  if a =? 0 then (if INV then Err ZeroDiv else Ok a)
  else if p =? 2 then Ok a
  else if Z.land p 3 =? 3 then
    let p4 := if INV then Z.shiftr (p * 3 - 5) 2 else Z.shiftr (p + 1) 2 in
    powmod a p4 p
  else
    match find_b (find_b_fuel p) p a 1 with
    | None => Err Fuel
    | Some b =>
        match Z.shiftr (p + 1) 1 with
        | Zpos e => let '(u, v) := ladder p a b e in
                    if INV then reciprocal_ p v else Ok v
        | _ => Err Fuel
        end
    end.

Definition sqrt (p a : Z) (INV : bool) : result Z := bind (sqrt_ p a INV) (fun r => Ok (mk p r)).

(** entry points for the correspondence run *)
Definition codeb (r : result bool) : Z := code (bind r (fun b => Ok (b2z b))).
Definition sqrt_table (p : Z) : list (Z * Z * Z) :=
  map (fun a => (code (sqrt p a false), code (sqrt p a true), codeb (is_sqr p a))) (zrange p).
Definition sqrt_row (p : Z) (l : list Z) : list (Z * Z * Z) :=
  map (fun a => (code (sqrt p a false), code (sqrt p a true), codeb (is_sqr p a))) l.
Definition legendre_row (p : Z) (l : list Z) : list Z := map (fun a => code (legendre a p)) l.

(** ** Proofs *)
From Coq Require Import Permutation Zpow_facts.

(** *** Fermat's little theorem, first in any field whose nonzero elements are enumerated *)
Section FermatAbstract.
Variable K : FieldT.
Add Field KF : (fth K).

Lemma fprod_perm (l l' : list K) : Permutation l l' -> fprod l = fprod l'.
Proof.
  induction 1 as [|x l l' _ IH|x y l|l l' l'' _ IH1 _ IH2]; simpl.
  - reflexivity.
  - rewrite IH. reflexivity.
  - ring.
  - rewrite IH1. exact IH2.
Qed.

Lemma fprod_map_mul (a : K) (l : list K) :
  fprod (map (fmul K a) l) = fmul K (fpow a (length l)) (fprod l).
Proof. induction l as [|x l IH]; simpl; [ring|]. rewrite IH. ring. Qed.

Theorem fermat_abstract (units : list K) :
  NoDup units -> (forall x, In x units <-> x <> f0 K) ->
  forall a, a <> f0 K -> fpow a (length units) = f1 K.
Proof.
  intros Hnd Hall a Ha.
  assert (Hinj : forall x y, fmul K a x = fmul K a y -> x = y).
  { intros x y E. apply (fsub_eq0 K). apply (fmul_eq0 K a); [|exact Ha].
    transitivity (fsub K (fmul K a x) (fmul K a y)); [ring|]. rewrite E. ring. }
  assert (HP : Permutation (map (fmul K a) units) units).
  { apply NoDup_Permutation_bis.
    - apply FinFun.Injective_map_NoDup; [exact Hinj|exact Hnd].
    - rewrite map_length. apply le_n.
    - intros y Hy. apply in_map_iff in Hy. destruct Hy as [x [<- Hx]].
      apply Hall. apply fmul_neq0; [exact Ha|apply Hall, Hx]. }
  apply fprod_perm in HP. rewrite fprod_map_mul in HP.
  assert (HN : fprod units <> f0 K) by (apply fprod_neq0; intros x Hx; apply Hall, Hx).
  apply (fsub_eq0 K). apply (fmul_eq0 K (fprod units)); [|exact HN].
  transitivity (fsub K (fmul K (fpow a (length units)) (fprod units)) (fprod units)); [ring|].
  rewrite HP. ring.
Qed.
End FermatAbstract.

(** ... then for the integers modulo a prime *)
Lemma zval_fpow p (Hn : p <> 0) a n : zval (@fpow (ZpOps p) (mkZp p a) n) = (a ^ Z.of_nat n) mod p.
Proof.
  induction n as [|n IH].
  - reflexivity.
  - cbn [fpow]. change (fmul (ZpOps p)) with (fun x y : Zp p => mkZp p (zval x * zval y)). cbv beta.
    rewrite zval_mkZp, IH, zval_mkZp. rewrite Nat2Z.inj_succ, Z.pow_succ_r by lia.
    rewrite <- Z.mul_mod by exact Hn. reflexivity.
Qed.

Definition zp_units (p : Z) : list (Zp p) := map (zp_of_nat p) (seq 1 (Z.to_nat (p - 1))).

Lemma NoDup_map_inj_in {A B} (f : A -> B) (l : list A) :
  (forall x y, In x l -> In y l -> f x = f y -> x = y) -> NoDup l -> NoDup (map f l).
Proof.
  induction l as [|a l IH]; intros Hinj Hnd; simpl; [constructor|].
  inversion Hnd as [|? ? Hnotin Hnd']; subst. constructor.
  - intros Hin. apply in_map_iff in Hin. destruct Hin as [x [E Hx]].
    assert (x = a) by (apply Hinj; simpl; auto). subst. contradiction.
  - apply IH; [|exact Hnd']. intros x y Hx Hy. apply Hinj; simpl; auto.
Qed.

Lemma zp_units_spec p : prime p ->
  NoDup (zp_units p) /\ (forall x : Zp p, In x (zp_units p) <-> x <> f0 (ZpOps p)) /\
  length (zp_units p) = Z.to_nat (p - 1).
Proof.
  intros Hp. pose proof (prime_ge_2 p Hp) as Hp2. unfold zp_units. repeat split.
  - apply NoDup_map_inj_in; [|apply seq_NoDup].
    intros i j Hi Hj. apply in_seq in Hi, Hj. apply zp_of_nat_inj; lia.
  - intros Hin E. apply in_map_iff in Hin. destruct Hin as [i [Ei Hi]]. apply in_seq in Hi.
    subst x. apply (f_equal zval) in E. unfold zp_of_nat in E. cbn [f0 ZpOps] in E. rewrite !zval_mkZp in E.
    rewrite Z.mod_0_l, Z.mod_small in E by lia. lia.
  - intros Hne. apply in_map_iff. exists (Z.to_nat (zval x)).
    assert (Hr : 0 <= zval x < p) by (rewrite <- (zval_red p x); apply Z.mod_pos_bound; lia).
    assert (Hz : zval x <> 0).
    { intros E. apply Hne. apply Zp_eq. cbn [f0 ZpOps]. rewrite zval_mkZp, Z.mod_0_l by lia. exact E. }
    split.
    + apply Zp_eq. unfold zp_of_nat. rewrite zval_mkZp, Z2Nat.id by lia. apply Z.mod_small. lia.
    + apply in_seq. lia.
  - rewrite map_length, seq_length. reflexivity.
Qed.

Theorem fermat p a : prime p -> a mod p <> 0 -> a ^ (p - 1) mod p = 1.
Proof.
  intros Hp Ha. pose proof (prime_ge_2 p Hp) as Hp2.
  destruct (zp_units_spec p Hp) as [Hnd [Hall Hlen]].
  assert (Hne : mkZp p a <> f0 (ZpOps p)).
  { intros E. apply (f_equal zval) in E. cbn [f0 ZpOps] in E. rewrite !zval_mkZp in E.
    rewrite Z.mod_0_l in E by lia. contradiction. }
  pose proof (fermat_abstract (ZpField p Hp) (zp_units p) Hnd Hall (mkZp p a) Hne) as F.
  assert (F' : zval (@fpow (ZpOps p) (mkZp p a) (Z.to_nat (p - 1))) = zval (f1 (ZpOps p))).
  { rewrite <- Hlen. exact (f_equal zval F). }
  rewrite zval_fpow in F' by lia. rewrite Z2Nat.id in F' by lia. rewrite F'.
  cbn [f1 ZpOps]. rewrite zval_mkZp. apply Z.mod_1_l. lia.
Qed.

(** half of Euler's criterion: a nonzero square has a^((p-1)/2) = 1 *)
Lemma euler_square p a b : prime p -> p <> 2 -> (b * b) mod p = a mod p -> a mod p <> 0 ->
  a ^ ((p - 1) / 2) mod p = 1.
Proof.
  intros Hp H2 Hb Ha. pose proof (prime_ge_2 p Hp) as Hp2.
  assert (Hodd : p mod 2 = 1).
  { destruct (Z.eq_dec (p mod 2) 0) as [E|E].
    - apply Zmod_divide in E; [|lia]. apply prime_div_prime in E; [lia|apply prime_2|exact Hp].
    - pose proof (Z.mod_pos_bound p 2 ltac:(lia)). lia. }
  assert (Hh : p - 1 = 2 * ((p - 1) / 2)).
  { pose proof (Z.div_mod (p - 1) 2 ltac:(lia)) as D.
    assert ((p - 1) mod 2 = 0).
    { rewrite Zminus_mod, Hodd. reflexivity. }
    lia. }
  assert (Hhn : 0 <= (p - 1) / 2) by (apply Z.div_pos; lia).
  rewrite Zpower_mod by lia. rewrite <- Hb. rewrite <- Zpower_mod by lia.
  rewrite Z.pow_mul_l. rewrite <- Z.pow_add_r by lia.
  replace ((p - 1) / 2 + (p - 1) / 2) with (p - 1) by lia.
  apply fermat; [exact Hp|].
  intros E. apply Ha. rewrite <- Hb. rewrite <- Z.mul_mod_idemp_l, E by lia. reflexivity.
Qed.

(** *** the branches of _sqrt *)
Lemma powmod_nonneg x y m : m <> 0 -> 0 <= y -> powmod x y m = Ok (x ^ y mod m).
Proof.
  intros Hm Hy. destruct y as [|e|e]; [reflexivity| |lia].
  unfold powmod. rewrite pow_pos_spec by exact Hm. reflexivity.
Qed.

Theorem sqrt_zero p : sqrt p 0 false = Ok (0 mod p) /\ sqrt p 0 true = Err ZeroDiv.
Proof. split; reflexivity. Qed.

Theorem sqrt_p2 a : 0 <= a < 2 -> exists r, sqrt 2 a false = Ok r /\ mul 2 r (El r) = a.
Proof. intros H. assert (a = 0 \/ a = 1) as [-> | ->] by lia; eexists; split; reflexivity. Qed.

Section P3mod4.
Variable p : Z.
Hypothesis Hp : prime p.
Hypothesis H34 : p mod 4 = 3.
Let Hp2 := prime_ge_2 p Hp.

Lemma land3 : Z.land p 3 = 3.
Proof. change 3 with (Z.ones 2) at 1. rewrite Z.land_ones by lia. exact H34. Qed.

Lemma p_split : exists k, p = 4 * k + 3 /\ 0 <= k.
Proof.
  exists (p / 4). pose proof (Z.div_mod p 4 ltac:(lia)). split; [lia|]. apply Z.div_pos; lia.
Qed.

Lemma sqrt_branch a INV : 0 < a < p ->
  sqrt p a INV = Ok (a ^ (if INV then (p * 3 - 5) / 4 else (p + 1) / 4) mod p).
Proof.
  intros Ha. unfold sqrt, sqrt_.
  rewrite (proj2 (Z.eqb_neq a 0)) by lia.
  assert (p <> 2) by (intros ->; discriminate H34).
  rewrite (proj2 (Z.eqb_neq p 2)) by assumption.
  rewrite land3, Z.eqb_refl. rewrite !Z.shiftr_div_pow2 by lia. change (2 ^ 2) with 4.
  destruct p_split as [k [Ek Hk]].
  rewrite powmod_nonneg; [|lia|destruct INV; apply Z.div_pos; lia].
  cbn [bind]. unfold mk. rewrite Z.mod_mod by lia. reflexivity.
Qed.

(** the root: for every nonzero square a, sqrt(a)^2 = a *)
Theorem sqrt_p3mod4 a : 0 < a < p -> (exists b, (b * b) mod p = a) ->
  exists r, sqrt p a false = Ok r /\ 0 <= r < p /\ mul p r (El r) = a.
Proof.
  intros Ha [b Hb]. rewrite (sqrt_branch a false Ha). eexists; split; [reflexivity|].
  split; [apply Z.mod_pos_bound; lia|].
  unfold mul, mk; cbn [raw]. rewrite <- Z.mul_mod by lia.
  destruct p_split as [k [Ek Hk]].
  assert (E4 : (p + 1) / 4 = k + 1).
  { symmetry. apply Z.div_unique with 0; lia. }
  assert (E2 : (p - 1) / 2 = 2 * k + 1).
  { symmetry. apply Z.div_unique with 0; lia. }
  rewrite E4. rewrite <- Z.pow_add_r by lia.
  replace (k + 1 + (k + 1)) with (1 + (2 * k + 1)) by ring.
  rewrite Z.pow_add_r, Z.pow_1_r by lia.
  rewrite <- Z.mul_mod_idemp_r by lia. rewrite <- E2.
  rewrite (euler_square p a b Hp).
  - rewrite Z.mul_1_r. apply Z.mod_small. lia.
  - intros ->. discriminate H34.
  - rewrite Hb. symmetry. apply Z.mod_small. lia.
  - rewrite Z.mod_small by lia. lia.
Qed.

(** the INV variant is the inverse of that root (for every nonzero a) *)
Theorem sqrt_inv_p3mod4 a : 0 < a < p ->
  exists r ri, sqrt p a false = Ok r /\ sqrt p a true = Ok ri /\ 0 <= ri < p /\ mul p ri (El r) = 1.
Proof.
  intros Ha. rewrite (sqrt_branch a false Ha), (sqrt_branch a true Ha).
  eexists; eexists; split; [reflexivity|]. split; [reflexivity|].
  split; [apply Z.mod_pos_bound; lia|].
  unfold mul, mk; cbn [raw]. rewrite <- Z.mul_mod by lia.
  destruct p_split as [k [Ek Hk]].
  assert (E4 : (p + 1) / 4 = k + 1) by (symmetry; apply Z.div_unique with 0; lia).
  assert (E5 : (p * 3 - 5) / 4 = 3 * k + 1) by (symmetry; apply Z.div_unique with 0; lia).
  rewrite E4, E5. rewrite <- Z.pow_add_r by lia.
  replace (3 * k + 1 + (k + 1)) with (p - 1) by lia.
  apply fermat; [exact Hp|]. rewrite Z.mod_small by lia. lia.
Qed.
End P3mod4.

(** *** bounded-exhaustive check of the whole of _sqrt / _is_sqr (incl. the Cipolla branch and jacobi) *)
Definition primes200 : list Z :=
  [2; 3; 5; 7; 11; 13; 17; 19; 23; 29; 31; 37; 41; 43; 47; 53; 59; 61; 67; 71; 73; 79; 83; 89; 97; 101; 103; 107;
   109; 113; 127; 131; 137; 139; 149; 151; 157; 163; 167; 173; 179; 181; 191; 193; 197; 199].

Definition is_square_bf (p a : Z) : bool := existsb (fun b => (b * b) mod p =? a) (zrange p).

Definition check_elem (p a : Z) : bool :=
  let sq := is_square_bf p a in
  match is_sqr p a with Ok s => Bool.eqb s sq | Err _ => false end &&
  (if sq then
     match sqrt p a false with
     | Ok r => (0 <=? r) && (r <? p) && ((r * r) mod p =? a) &&
               match sqrt p a true with
               | Ok ri => negb (a =? 0) && (0 <=? ri) && (ri <? p) && ((ri * r) mod p =? 1)
               | Err ZeroDiv => a =? 0
               | Err _ => false
               end
     | Err _ => false
     end
   else true).

Definition check_all (ps : list Z) : bool := forallb (fun p => forallb (check_elem p) (zrange p)) ps.

Lemma in_zrange n a : 0 <= a < n -> In a (zrange n).
Proof.
  intros H. unfold zrange. apply in_map_iff. exists (Z.to_nat a). split; [lia|]. apply in_seq. lia.
Qed.

Lemma is_square_bf_spec p a : 2 <= p -> 0 <= a < p ->
  (is_square_bf p a = true <-> exists b, (b * b) mod p = a).
Proof.
  intros Hp Ha. unfold is_square_bf. rewrite existsb_exists. split.
  - intros [b [_ E]]. exists b. apply Z.eqb_eq, E.
  - intros [b E]. exists (b mod p). split; [apply in_zrange, Z.mod_pos_bound; lia|].
    apply Z.eqb_eq. rewrite <- Z.mul_mod by lia. exact E.
Qed.

Lemma check_all_elem ps p a : check_all ps = true -> In p ps -> In a (zrange p) -> check_elem p a = true.
Proof.
  unfold check_all. intros C Hp Ha. rewrite forallb_forall in C. specialize (C p Hp).
  rewrite forallb_forall in C. exact (C a Ha).
Qed.

Lemma check_all_200 : check_all primes200 = true.
Proof. vm_compute. reflexivity. Qed.

Lemma primes200_prime p : In p primes200 -> prime p.
Proof.
  intros H. apply is_prime_small_correct.
  assert (F : forallb is_prime_small primes200 = true) by (vm_compute; reflexivity).
  rewrite forallb_forall in F. apply F, H.
Qed.

(** for every prime p < 200 (the 46 listed) and every element a:
    is_sqr(a) holds exactly for the squares; for squares sqrt(a)^2 = a; for nonzero squares sqrt(a, INV) is the
    inverse of sqrt(a); sqrt(0, INV) raises ZeroDivisionError *)
Theorem sqrt_is_sqr_bounded p a : In p primes200 -> 0 <= a < p ->
  (exists s, is_sqr p a = Ok s /\ (s = true <-> exists b, (b * b) mod p = a)) /\
  ((exists b, (b * b) mod p = a) ->
     (exists r, sqrt p a false = Ok r /\ 0 <= r < p /\ (r * r) mod p = a /\
        (a <> 0 -> exists ri, sqrt p a true = Ok ri /\ 0 <= ri < p /\ (ri * r) mod p = 1)) /\
     (a = 0 -> sqrt p a true = Err ZeroDiv)).
Proof.
  intros Hp Ha.
  assert (Hp2 : 2 <= p) by (apply prime_ge_2, primes200_prime, Hp).
  pose proof (check_all_elem primes200 p a check_all_200 Hp (in_zrange p a Ha)) as C.
  unfold check_elem in C. apply andb_true_iff in C. destruct C as [C1 C2].
  pose proof (is_square_bf_spec p a Hp2 Ha) as SQ.
  split.
  - destruct (is_sqr p a) as [s|e]; [|discriminate]. exists s. split; [reflexivity|].
    apply eqb_prop in C1. subst s. exact SQ.
  - intros Hsq. apply SQ in Hsq. rewrite Hsq in C2.
    destruct (sqrt p a false) as [r|e]; [|discriminate].
    apply andb_true_iff in C2. destruct C2 as [C2 C3].
    apply andb_true_iff in C2. destruct C2 as [C2 C4].
    apply andb_true_iff in C2. destruct C2 as [C2 C5].
    apply Z.leb_le in C2. apply Z.ltb_lt in C5. apply Z.eqb_eq in C4.
    split.
    + exists r. split; [reflexivity|]. split; [lia|]. split; [exact C4|].
      intros Hne. destruct (sqrt p a true) as [ri|[]]; try discriminate.
      * apply andb_true_iff in C3. destruct C3 as [C3 C6].
        apply andb_true_iff in C3. destruct C3 as [C3 C7].
        apply andb_true_iff in C3. destruct C3 as [C3 C8].
        apply Z.leb_le in C8. apply Z.ltb_lt in C7. apply Z.eqb_eq in C6.
        exists ri. split; [reflexivity|]. split; [lia|exact C6].
      * apply Z.eqb_eq in C3. contradiction.
    + intros ->. apply sqrt_zero.
Qed.
