(** Model of mpyc/secpols.py: a secure polynomial is a PADDED coefficient list (low -> high) whose
    length is the public length bound; trailing zeros are allowed and secret.  [strip] removes the
    trailing zeros (the gfpx normal form).  The operations below are the oblivious algorithms of
    class secpoly on the padded arrays; the theorems say that they commute with [strip], i.e. that
    the represented polynomial is the plain (gfpx) result on the stripped operands, and that the
    padded result lengths depend on the padded operand lengths only. *)
Require Import MPyC.Base MPyC.Field MPyC.Poly MPyC.Zp.
From Coq Require Import ZArith Lia Bool.

Section SecPolyDefs.
Variable K : Ops.
Variable isz : K -> bool.          (* zero test on coefficients *)
Notation "0" := (f0 K). Notation "1" := (f1 K).
Infix "+" := (fadd K). Infix "*" := (fmul K). Infix "-" := (fsub K).

(** normal form: drop trailing zeros *)
Definition strip (a : list K) : list K :=
  fold_right (fun c r => match r with [] => if isz c then [] else [c] | _ => c :: r end) [] a.

(** __neg__ : np_negative *)
Definition sp_neg (a : list K) : list K := map (fopp K) a.

(** _add: equal lengths: np_add; otherwise the longer one first: concatenate((a[:len(b)] + b, a[len(b):])) *)
Definition sp_add (a b : list K) : list K :=
  if length a <? length b then padd b a else padd a b.

Fixpoint psub (p q : list K) : list K :=
  match p, q with
  | [], _ => map (fopp K) q
  | _, [] => p
  | a :: p', b :: q' => (a - b) :: psub p' q'
  end.

(** _sub: m >= n: concatenate((a[:n] - b, a[n:])); m < n: b := -b; concatenate((a + b[:m], b[m:])) *)
Definition sp_sub (a b : list K) : list K :=
  if length b <=? length a then psub a b else padd a (sp_neg b).

(** np_convolve(a, b) (mode 'full'), written as the usual row-by-row accumulation *)
Fixpoint pmul (a b : list K) : list K :=
  match a with
  | [] => []
  | x :: a' => padd (pscale x b) (match a' with [] => [] | _ => 0 :: pmul a' b end)
  end.

(** _mul: an empty operand gives the empty array *)
Definition sp_mul (a b : list K) : list K :=
  match a, b with [], _ => [] | _, [] => [] | _, _ => pmul a b end.

(** __call__: share @ vander([x], n, increasing)[0] = sum_i a_i x^i *)
Definition sp_call (a : list K) (x : K) : K :=
  fsum (map (fun i => nth i a 0 * fpow x i) (seq O (length a))).

(** _degree: len(a) - 1 - np_find(np_flip(a) == 0, 0): index of the first nonzero of the flipped array *)
Fixpoint lead_zeros (l : list K) : nat :=
  match l with [] => O | c :: l' => if isz c then S (lead_zeros l') else O end.
Definition sp_degree (a : list K) : Z :=
  (Z.of_nat (length a) - 1 - Z.of_nat (lead_zeros (rev a)))%Z.

(** _lshift / _rshift / truncate *)
Definition sp_lshift (n : nat) (a : list K) : list K :=
  match a with [] => [] | _ => repeat 0 n ++ a end.
Definition sp_rshift (n : nat) (a : list K) : list K := skipn n a.
Definition sp_truncate (n : nat) (a : list K) : list K := firstn n a.

(** __eq__: np.all((self - other).share == 0) *)
Definition sp_eq (a b : list K) : bool := forallb isz (sp_sub a b).

(** plain (gfpx-style) reference operations on normal forms: compute, then normalise *)
Definition ref_add (a b : list K) : list K := strip (padd a b).
Definition ref_sub (a b : list K) : list K := strip (psub a b).
Definition ref_neg (a : list K) : list K := strip (map (fopp K) a).
Definition ref_scale (c : K) (a : list K) : list K := strip (pscale c a).
Definition ref_mul (a b : list K) : list K := strip (pmul a b).
Definition ref_degree (a : list K) : Z := (Z.of_nat (length a) - 1)%Z.

End SecPolyDefs.
Arguments strip {K}. Arguments sp_neg {K}. Arguments sp_add {K}. Arguments psub {K}. Arguments sp_sub {K}.
Arguments pmul {K}. Arguments sp_mul {K}. Arguments sp_call {K}. Arguments lead_zeros {K}.
Arguments sp_degree {K}. Arguments sp_lshift {K}. Arguments sp_rshift {K}. Arguments sp_truncate {K}.
Arguments sp_eq {K}. Arguments ref_add {K}. Arguments ref_sub {K}. Arguments ref_neg {K}.
Arguments ref_scale {K}. Arguments ref_mul {K}. Arguments ref_degree {K}.

(** Executable instance over integers modulo p (used by the correspondence run). *)
Section ZpExec.
Local Open Scope Z_scope.
Variable p : Z.
Definition zisz (a : Zp p) : bool := zval a =? 0.
Definition zin (l : list Z) : list (Zp p) := map (mkZp p) l.
Definition zout (l : list (Zp p)) : list Z := map zval l.
Definition zsp_strip (a : list Z) := zout (@strip (ZpOps p) zisz (zin a)).
Definition zsp_add (a b : list Z) := zout (@sp_add (ZpOps p) (zin a) (zin b)).
Definition zsp_sub (a b : list Z) := zout (@sp_sub (ZpOps p) (zin a) (zin b)).
Definition zsp_neg (a : list Z) := zout (@sp_neg (ZpOps p) (zin a)).
Definition zsp_mul (a b : list Z) := zout (@sp_mul (ZpOps p) (zin a) (zin b)).
(** f * poly(c): the public constant is the gfpx normal form of c: [] for c = 0, else [c] *)
Definition zsp_scale (c : Z) (a : list Z) :=
  zout (@sp_mul (ZpOps p) (zin a) (if c mod p =? 0 then [] else [mkZp p c])).
Definition zsp_call (a : list Z) (x : Z) := zval (@sp_call (ZpOps p) (zin a) (mkZp p x)).
Definition zsp_degree (a : list Z) := @sp_degree (ZpOps p) zisz (zin a).
Definition zsp_lshift (a : list Z) (n : nat) := zout (@sp_lshift (ZpOps p) n (zin a)).
Definition zsp_rshift (a : list Z) (n : nat) := zout (@sp_rshift (ZpOps p) n (zin a)).
Definition zsp_truncate (a : list Z) (n : nat) := zout (@sp_truncate (ZpOps p) n (zin a)).
Definition zsp_eq (a b : list Z) := @sp_eq (ZpOps p) zisz (zin a) (zin b).
End ZpExec.

Section SecPolyFacts.
Variable K : FieldT.
Add Field KFsp : (fth K).
Variable isz : K -> bool.
Hypothesis isz_spec : forall x, isz x = true <-> x = f0 K.
Notation "0" := (f0 K). Notation "1" := (f1 K).
Infix "+" := (fadd K). Infix "*" := (fmul K). Infix "-" := (fsub K).
Notation "- x" := (fopp K x).
Notation strip := (strip isz).
Notation cf := (fun (a : list K) (k : nat) => nth k a 0).

Lemma strip_cons c a :
  strip (c :: a) = match strip a with [] => if isz c then [] else [c] | _ => c :: strip a end.
Proof. reflexivity. Qed.

Lemma isz_false x : isz x = false -> x <> 0.
Proof. intros H E. apply isz_spec in E. congruence. Qed.

(** coefficients are unchanged by stripping *)
Lemma nth_strip a : forall k, nth k (strip a) 0 = nth k a 0.
Proof.
  induction a as [|c a IH]; intros k; [reflexivity|].
  rewrite strip_cons. destruct (strip a) as [|d r] eqn:E.
  - destruct (isz c) eqn:Ec.
    + destruct k as [|k]; simpl.
      * symmetry. apply isz_spec, Ec.
      * rewrite <- IH. destruct k; reflexivity.
    + destruct k as [|k]; simpl; [reflexivity|].
      rewrite <- IH. destruct k; reflexivity.
  - destruct k as [|k]; simpl; [reflexivity|]. apply IH.
Qed.

Lemma strip_nil_of_zero a : (forall k, nth k a 0 = 0) -> strip a = [].
Proof.
  induction a as [|c a IH]; intros H; [reflexivity|].
  rewrite strip_cons, IH by (intros k; apply (H (S k))).
  assert (Hc : isz c = true) by (apply isz_spec; apply (H O)). rewrite Hc. reflexivity.
Qed.

(** the normal form is determined by the coefficient function *)
Theorem strip_ext a : forall b, (forall k, nth k a 0 = nth k b 0) -> strip a = strip b.
Proof.
  induction a as [|c a IH]; intros b H.
  - symmetry. apply strip_nil_of_zero. intros k. rewrite <- H. destruct k; reflexivity.
  - destruct b as [|d b].
    + apply strip_nil_of_zero. intros k. rewrite H. destruct k; reflexivity.
    + rewrite !strip_cons. assert (c = d) as -> by apply (H O).
      rewrite (IH b) by (intros k; apply (H (S k))). reflexivity.
Qed.

Theorem strip_idem a : strip (strip a) = strip a.
Proof. apply strip_ext, nth_strip. Qed.

Lemma strip_eq_iff a b : strip a = strip b <-> (forall k, nth k a 0 = nth k b 0).
Proof.
  split; [|apply strip_ext]. intros E k. rewrite <- (nth_strip a), <- (nth_strip b), E. reflexivity.
Qed.

Lemma strip_snoc a c : strip (a ++ [c]) = if isz c then strip a else a ++ [c].
Proof.
  induction a as [|d a IH]; simpl app.
  - simpl. destruct (isz c); reflexivity.
  - rewrite !strip_cons, IH. destruct (isz c) eqn:Ec; [reflexivity|].
    destruct (a ++ [c]) eqn:E; [destruct a; discriminate|reflexivity].
Qed.

(** a stripped list has no trailing zero *)
Theorem strip_last_nonzero a : strip a = [] \/ last (strip a) 0 <> 0.
Proof.
  induction a as [|c a IH] using rev_ind; [left; reflexivity|].
  rewrite strip_snoc. destruct (isz c) eqn:Ec; [exact IH|].
  right. rewrite last_last. apply isz_false, Ec.
Qed.

(** ** coefficient functions of the padded operations *)
Lemma nth_padd a : forall b k, nth k (padd a b) 0 = nth k a 0 + nth k b 0.
Proof.
  induction a as [|x a IH]; intros b k.
  - simpl. destruct k; simpl; ring.
  - destruct b as [|y b].
    + simpl padd. destruct k; simpl; ring.
    + destruct k as [|k]; simpl; [reflexivity|apply IH].
Qed.

Lemma nth_opp a : forall k, nth k (map (fopp K) a) 0 = - nth k a 0.
Proof. induction a as [|x a IH]; intros [|k]; simpl; try ring; apply IH. Qed.

Lemma nth_psub a : forall b k, nth k (psub a b) 0 = nth k a 0 - nth k b 0.
Proof.
  induction a as [|x a IH]; intros b k.
  - simpl psub. rewrite nth_opp. destruct k; simpl; ring.
  - destruct b as [|y b].
    + simpl psub. destruct k; simpl; ring.
    + destruct k as [|k]; simpl; [reflexivity|apply IH].
Qed.

Lemma nth_sp_add a b k : nth k (sp_add a b) 0 = nth k a 0 + nth k b 0.
Proof. unfold sp_add. destruct (length a <? length b); rewrite nth_padd; ring. Qed.

Lemma nth_sp_sub a b k : nth k (sp_sub a b) 0 = nth k a 0 - nth k b 0.
Proof.
  unfold sp_sub. destruct (length b <=? length a); [apply nth_psub|].
  unfold sp_neg. rewrite nth_padd, nth_opp. ring.
Qed.

Lemma nth_pscale c a : forall k, nth k (pscale c a) 0 = c * nth k a 0.
Proof. unfold pscale. induction a as [|x a IH]; intros [|k]; simpl; try ring; apply IH. Qed.

Definition conv (a b : list K) (k : nat) : K :=
  fsum (map (fun i => nth i a 0 * nth (k - i) b 0) (seq O (S k))).

Lemma conv_nil_l b k : conv [] b k = 0.
Proof. unfold conv. apply fsum_map_zero. intros i _. destruct i; simpl; ring. Qed.

Lemma conv_cons x a b k :
  conv (x :: a) b k = x * nth k b 0 + match k with O => 0 | S k' => conv a b k' end.
Proof.
  unfold conv. rewrite <- cons_seq. cbn [map fsum nth]. rewrite Nat.sub_0_r. f_equal.
  destruct k as [|k]; [reflexivity|].
  rewrite <- seq_shift, map_map. reflexivity.
Qed.

Lemma nth_pmul a : forall b k, nth k (pmul a b) 0 = conv a b k.
Proof.
  induction a as [|x a IH]; intros b k.
  - rewrite conv_nil_l. destruct k; reflexivity.
  - cbn [pmul]. rewrite nth_padd, nth_pscale, conv_cons. f_equal.
    destruct a as [|y a].
    + destruct k as [|k]; [reflexivity|]. rewrite conv_nil_l. destruct k; reflexivity.
    + destruct k as [|k]; [reflexivity|]. cbn [nth]. apply IH.
Qed.

Lemma conv_zero_r a k : conv a [] k = 0.
Proof. unfold conv. apply fsum_map_zero. intros i _. destruct (k - i)%nat; simpl; ring. Qed.

Lemma nth_sp_mul a b k : nth k (sp_mul a b) 0 = conv a b k.
Proof.
  destruct a as [|x a]; [rewrite conv_nil_l; destruct k; reflexivity|].
  destruct b as [|y b]; [rewrite conv_zero_r; destruct k; reflexivity|].
  apply nth_pmul.
Qed.

Lemma conv_ext a a' b b' k :
  (forall i, nth i a 0 = nth i a' 0) -> (forall i, nth i b 0 = nth i b' 0) -> conv a b k = conv a' b' k.
Proof. intros Ha Hb. unfold conv. apply fsum_map_ext. intros i _. rewrite Ha, Hb. reflexivity. Qed.

(** ** normal-form theorems: the padded operation represents the plain result on stripped operands *)
Theorem add_normal a b : strip (sp_add a b) = ref_add isz (strip a) (strip b).
Proof.
  unfold ref_add. apply strip_ext. intros k. rewrite nth_sp_add, nth_padd, !nth_strip. reflexivity.
Qed.

Theorem sub_normal a b : strip (sp_sub a b) = ref_sub isz (strip a) (strip b).
Proof.
  unfold ref_sub. apply strip_ext. intros k. rewrite nth_sp_sub, nth_psub, !nth_strip. reflexivity.
Qed.

Theorem neg_normal a : strip (sp_neg a) = ref_neg isz (strip a).
Proof.
  unfold ref_neg, sp_neg. apply strip_ext. intros k. rewrite !nth_opp, nth_strip. reflexivity.
Qed.

Theorem scale_normal c a : strip (pscale c a) = ref_scale isz c (strip a).
Proof.
  unfold ref_scale. apply strip_ext. intros k. rewrite !nth_pscale, nth_strip. reflexivity.
Qed.

Theorem mul_normal a b : strip (sp_mul a b) = ref_mul isz (strip a) (strip b).
Proof.
  unfold ref_mul. apply strip_ext. intros k. rewrite nth_sp_mul, nth_pmul.
  apply conv_ext; intros i; rewrite nth_strip; reflexivity.
Qed.

(** stripping either operand first does not change the padded product's value *)
Corollary mul_strip_operands a b : strip (sp_mul a b) = strip (sp_mul (strip a) (strip b)).
Proof.
  apply strip_ext. intros k. rewrite !nth_sp_mul.
  apply conv_ext; intros i; rewrite nth_strip; reflexivity.
Qed.

(** the convolution really is the polynomial product: evaluation is multiplicative *)
Lemma eval_padd a : forall b x, eval (padd a b) x = eval a x + eval b x.
Proof.
  induction a as [|c a IH]; intros b x; [simpl; ring|].
  destruct b as [|d b]; [simpl; ring|]. simpl. rewrite IH. ring.
Qed.

Lemma eval_pscale c a x : eval (pscale c a) x = c * eval a x.
Proof. unfold pscale. induction a as [|d a IH]; simpl; [ring|rewrite IH; ring]. Qed.

Lemma eval_cons (c : K) q x : eval (c :: q) x = c + x * eval q x.
Proof. reflexivity. Qed.

Theorem eval_pmul a : forall b x, eval (pmul a b) x = eval a x * eval b x.
Proof.
  induction a as [|c a IH]; intros b x; [simpl; ring|].
  cbn [pmul]. rewrite eval_padd, eval_pscale. destruct a as [|d a].
  - simpl. ring.
  - rewrite (eval_cons 0), IH, (eval_cons c). ring.
Qed.

Theorem eval_sp_mul a b x : eval (sp_mul a b) x = eval a x * eval b x.
Proof.
  destruct a as [|c a]; [simpl; ring|]. destruct b as [|d b]; [simpl; ring|]. apply eval_pmul.
Qed.

(** ** evaluation *)
Theorem eval_strip a x : eval (strip a) x = eval a x.
Proof.
  induction a as [|c a IH]; [reflexivity|].
  rewrite strip_cons. simpl eval at 2. rewrite <- IH.
  destruct (strip a) as [|d r].
  - destruct (isz c) eqn:Ec; simpl; [apply isz_spec in Ec; subst; ring|ring].
  - reflexivity.
Qed.

(** the power-sum form used by __call__ is Horner's value *)
Theorem call_horner (a : list K) x : sp_call a x = eval a x.
Proof.
  unfold sp_call. induction a as [|c a IH]; [reflexivity|].
  cbn [length]. rewrite <- cons_seq. cbn [map fsum nth fpow eval].
  rewrite <- seq_shift, map_map. cbn [nth fpow]. rewrite <- IH.
  rewrite <- fsum_map_scale. f_equal; [ring|].
  apply fsum_map_ext. intros i _. ring.
Qed.

Theorem call_strip a x : sp_call a x = sp_call (strip a) x.
Proof. rewrite !call_horner, eval_strip. reflexivity. Qed.

(** ** degree *)
Lemma length_strip_lead_zeros a : (length (strip a) + lead_zeros isz (rev a) = length a)%nat.
Proof.
  induction a as [|c a IH] using rev_ind; [reflexivity|].
  rewrite strip_snoc, rev_app_distr. cbn [rev app lead_zeros].
  destruct (isz c); rewrite ?app_length; simpl; lia.
Qed.

Theorem degree_correct a : sp_degree isz a = ref_degree (strip a).
Proof. unfold sp_degree, ref_degree. pose proof (length_strip_lead_zeros a). lia. Qed.

Theorem degree_range a : (-1 <= sp_degree isz a < Z.of_nat (length a))%Z.
Proof. rewrite degree_correct. unfold ref_degree. pose proof (length_strip_lead_zeros a). lia. Qed.

(** ** shifts and truncation *)
Lemma nth_repeat_app n (a : list K) k :
  nth k (repeat 0 n ++ a) 0 = if (k <? n)%nat then 0 else nth (k - n) a 0.
Proof.
  revert k; induction n as [|n IH]; intros k; simpl.
  - rewrite Nat.sub_0_r. reflexivity.
  - destruct k as [|k]; [reflexivity|]. rewrite IH. reflexivity.
Qed.

Lemma nth_sp_lshift n a k : nth k (sp_lshift n a) 0 = if (k <? n)%nat then 0 else nth (k - n) a 0.
Proof.
  destruct a as [|c a]; [|apply nth_repeat_app].
  assert (H : forall j, nth j (@nil K) 0 = 0) by (intros [|j]; reflexivity).
  cbn [sp_lshift]. rewrite !H. destruct (k <? n)%nat; reflexivity.
Qed.

Lemma strip_zeros_app n s : s <> [] -> strip s = s -> strip (repeat 0 n ++ s) = repeat 0 n ++ s.
Proof.
  intros Hs E. induction n as [|n IH]; [exact E|].
  cbn [repeat app]. rewrite strip_cons, IH.
  destruct (repeat 0 n ++ s) eqn:E2; [|reflexivity].
  apply app_eq_nil in E2. destruct E2 as [_ E2]. contradiction.
Qed.

Theorem lshift_normal n a : strip (sp_lshift n a) = sp_lshift n (strip a).
Proof.
  transitivity (strip (sp_lshift n (strip a))).
  - apply strip_ext. intros k. rewrite !nth_sp_lshift, nth_strip. reflexivity.
  - destruct (strip a) as [|d r] eqn:E; [reflexivity|].
    cbn [sp_lshift]. apply strip_zeros_app; [discriminate|].
    rewrite <- E. apply strip_idem.
Qed.

Lemma nth_skipn {A} n (l : list A) k d : nth k (skipn n l) d = nth (n + k) l d.
Proof. revert l; induction n as [|n IH]; intros l; [reflexivity|]. destruct l; [destruct k; reflexivity|apply IH]. Qed.

Lemma nth_firstn {A} n (l : list A) k d : nth k (firstn n l) d = if (k <? n)%nat then nth k l d else d.
Proof.
  revert l k; induction n as [|n IH]; intros l k; [destruct k; reflexivity|].
  destruct l as [|x l]; [simpl; destruct k; destruct (_ <? _)%nat; reflexivity|].
  destruct k as [|k]; [reflexivity|]. simpl firstn. cbn [nth]. rewrite IH. reflexivity.
Qed.

Theorem rshift_normal n a : strip (sp_rshift n a) = strip (sp_rshift n (strip a)).
Proof. apply strip_ext. intros k. unfold sp_rshift. rewrite !nth_skipn, nth_strip. reflexivity. Qed.

Theorem truncate_normal n a : strip (sp_truncate n a) = strip (sp_truncate n (strip a)).
Proof. apply strip_ext. intros k. unfold sp_truncate. rewrite !nth_firstn, nth_strip. reflexivity. Qed.

(** ** equality test *)
Lemma forallb_isz_nth l : forallb isz l = true <-> (forall k, nth k l 0 = 0).
Proof.
  split.
  - intros H k. destruct (Nat.lt_ge_cases k (length l)) as [Hk|Hk].
    + apply isz_spec. rewrite forallb_forall in H. apply H, nth_In, Hk.
    + apply nth_overflow, Hk.
  - intros H. apply forallb_forall. intros x Hx. apply isz_spec.
    destruct (In_nth _ _ 0 Hx) as [k [_ E]]. rewrite <- E. apply H.
Qed.

Theorem eq_correct a b : sp_eq isz a b = true <-> strip a = strip b.
Proof.
  unfold sp_eq. rewrite forallb_isz_nth, strip_eq_iff. split; intros H k; specialize (H k).
  - rewrite nth_sp_sub in H. apply fsub_eq0, H.
  - rewrite nth_sp_sub, H. ring.
Qed.

End SecPolyFacts.

(** ** only the length bound is public: padded result lengths are functions of the padded operand lengths *)
Section Lengths.
Variable K : Ops.

Lemma length_padd (a : list K) : forall b, length (padd a b) = Nat.max (length a) (length b).
Proof.
  induction a as [|x a IH]; intros b; [reflexivity|].
  destruct b as [|y b]; [reflexivity|]. simpl. rewrite IH. reflexivity.
Qed.

Lemma length_psub (a : list K) : forall b, length (psub a b) = Nat.max (length a) (length b).
Proof.
  induction a as [|x a IH]; intros b; [simpl; apply map_length|].
  destruct b as [|y b]; [reflexivity|]. simpl. rewrite IH. reflexivity.
Qed.

Lemma length_pmul (a : list K) : forall b, a <> [] -> b <> [] ->
  length (pmul a b) = length a + length b - 1.
Proof.
  induction a as [|x a IH]; intros b Ha Hb; [contradiction|].
  cbn [pmul]. rewrite length_padd. unfold pscale. rewrite map_length.
  destruct a as [|y a].
  - simpl. lia.
  - cbn [length]. rewrite IH by (auto; discriminate).
    destruct b; [contradiction|]. simpl. lia.
Qed.

Definition len_add (la lb : nat) : nat := Nat.max la lb.
Definition len_mul (la lb : nat) : nat := match la, lb with O, _ => O | _, O => O | _, _ => la + lb - 1 end.
Definition len_lshift (n la : nat) : nat := match la with O => O | _ => n + la end.

Theorem length_sp_add (a b : list K) : length (sp_add a b) = len_add (length a) (length b).
Proof. unfold sp_add, len_add. destruct (length a <? length b); rewrite length_padd; lia. Qed.

Theorem length_sp_sub (a b : list K) : length (sp_sub a b) = len_add (length a) (length b).
Proof.
  unfold sp_sub, len_add, sp_neg. destruct (length b <=? length a);
    rewrite ?length_psub, ?length_padd, ?map_length; reflexivity.
Qed.

Theorem length_sp_neg (a : list K) : length (sp_neg a) = length a.
Proof. apply map_length. Qed.

Theorem length_pscale (c : K) (a : list K) : length (pscale c a) = length a.
Proof. apply map_length. Qed.

Theorem length_sp_mul (a b : list K) : length (sp_mul a b) = len_mul (length a) (length b).
Proof.
  destruct a as [|x a]; [reflexivity|]. destruct b as [|y b]; [reflexivity|].
  unfold sp_mul. rewrite length_pmul by discriminate. simpl. lia.
Qed.

Theorem length_sp_lshift n (a : list K) : length (sp_lshift n a) = len_lshift n (length a).
Proof. destruct a; [reflexivity|]. unfold sp_lshift. rewrite app_length, repeat_length. reflexivity. Qed.

Theorem length_sp_rshift n (a : list K) : length (sp_rshift n a) = length a - n.
Proof. apply skipn_length. Qed.

Theorem length_sp_truncate n (a : list K) : length (sp_truncate n a) = Nat.min n (length a).
Proof. apply firstn_length. Qed.

(** in one statement: equal padded lengths give equal padded result lengths, whatever the values *)
Theorem length_bound_public (a b a' b' : list K) (n : nat) (c c' : K) :
  length a = length a' -> length b = length b' ->
  length (sp_add a b) = length (sp_add a' b') /\
  length (sp_sub a b) = length (sp_sub a' b') /\
  length (sp_mul a b) = length (sp_mul a' b') /\
  length (sp_neg a) = length (sp_neg a') /\
  length (pscale c a) = length (pscale c' a') /\
  length (sp_lshift n a) = length (sp_lshift n a') /\
  length (sp_rshift n a) = length (sp_rshift n a') /\
  length (sp_truncate n a) = length (sp_truncate n a').
Proof.
  intros Ha Hb.
  rewrite !length_sp_add, !length_sp_sub, !length_sp_mul, !length_sp_neg, !length_pscale,
          !length_sp_lshift, !length_sp_rshift, !length_sp_truncate, Ha, Hb.
  repeat split; reflexivity.
Qed.

End Lengths.

(** the Z_p zero test meets the specification used by the theorems *)
Lemma zisz_spec p (x : Zp p) : zisz p x = true <-> x = f0 (ZpOps p).
Proof.
  unfold zisz. rewrite Z.eqb_eq. split.
  - intros H. apply Zp_eq. rewrite H. reflexivity.
  - intros ->. reflexivity.
Qed.

(** ** powmod as coded in secpols._powmod (n >= 0, modulus b given), over the Gfpx model's normal-form
    multiplication [Gfpx.mul p] and remainder [Gfpx.mod_nz p . b]:
      n == 0: 1;   c = a;   if n == 1: c = c mod b   (repair d3440b4)
      for i in range(n.bit_length()-2, -1, -1):  c = (c*c) mod b;  if bit i of n: c = (c*a) mod b
    Theorem: for n >= 1 the result is a reduced normal form (deg < deg b) congruent to a^n modulo (p, b),
    i.e. it is (a^n) mod b.  (Congruence is stated over Z[x]: x == y + k1*b + p*k2.) *)
Require MPyC.Gfpx.
From Coq Require Import Znumtheory.
Section SecPowMod.
Local Open Scope Z_scope.
Variable p : Z.
Variable b : list Z.

Definition pm_rd (x : list Z) : list Z := Gfpx.mod_nz p x b.
Fixpoint sp_powmod_pos (a : list Z) (n : positive) : list Z :=
  match n with
  | xH => a
  | xO n' => let c := sp_powmod_pos a n' in pm_rd (Gfpx.mul p c c)
  | xI n' => let c := sp_powmod_pos a n' in pm_rd (Gfpx.mul p (pm_rd (Gfpx.mul p c c)) a)
  end.
Definition sp_powmod (a : list Z) (n : Z) : list Z :=
  if n =? 0 then [1] else if n =? 1 then pm_rd a else sp_powmod_pos a (Z.to_pos n).

(** plain power in Z[x], no reduction *)
Fixpoint powz (a : list Z) (n : nat) : list Z :=
  match n with O => [1] | S n' => Gfpx.mulz a (powz a n') end.

Definition cong (x y : list Z) : Prop :=
  exists k1 k2, forall t, Gfpx.evalZ x t = Gfpx.evalZ y t + Gfpx.evalZ k1 t * Gfpx.evalZ b t + p * Gfpx.evalZ k2 t.

Lemma cong_eval x y : (forall t, Gfpx.evalZ x t = Gfpx.evalZ y t) -> cong x y.
Proof. intros H. exists [], []. intros t. rewrite H. simpl. ring. Qed.

Lemma cong_trans x y z : cong x y -> cong y z -> cong x z.
Proof.
  intros (k1 & k2 & H) (l1 & l2 & G). exists (Gfpx.addz k1 l1), (Gfpx.addz k2 l2). intros t.
  rewrite H, G, !Gfpx.evalZ_addz. ring.
Qed.

Lemma cong_peq x y : Gfpx.peq p x y -> cong x y.
Proof. intros (k & H). exists [], k. intros t. rewrite H. simpl. ring. Qed.

Lemma cong_mulz x x' y y' : cong x y -> cong x' y' -> cong (Gfpx.mulz x x') (Gfpx.mulz y y').
Proof.
  intros (k1 & k2 & H) (l1 & l2 & G).
  exists (Gfpx.addz (Gfpx.mulz k1 x') (Gfpx.mulz y l1)), (Gfpx.addz (Gfpx.mulz k2 x') (Gfpx.mulz y l2)).
  intros t. rewrite !Gfpx.evalZ_addz, !Gfpx.evalZ_mulz, H, G. ring.
Qed.

Lemma evalZ_powz a n t : Gfpx.evalZ (powz a n) t = Gfpx.evalZ a t ^ Z.of_nat n.
Proof.
  induction n as [|n IH]; [cbn [powz Gfpx.evalZ]; change (Z.of_nat 0) with 0; rewrite Z.pow_0_r; ring|].
  cbn [powz]. rewrite Gfpx.evalZ_mulz, IH, Nat2Z.inj_succ, Z.pow_succ_r by lia. reflexivity.
Qed.

Hypothesis Pp : prime p.
Hypothesis Wb : Gfpx.wf p b.
Hypothesis Hb : b <> [].

Lemma pm_rd_spec x : Gfpx.wf p x ->
  Gfpx.wf p (pm_rd x) /\ (length (pm_rd x) < length b)%nat /\ cong (pm_rd x) x.
Proof.
  intros Wx. unfold pm_rd. rewrite Gfpx.mod_nz_eq.
  destruct (Gfpx.divmod_nz_spec p x b Pp Wx Wb Hb) as (_ & Wr & Ll & (k & P)).
  split; [exact Wr|]. split; [exact Ll|].
  exists (Gfpx.negz (fst (Gfpx.divmod_nz p x b))), k. intros t.
  specialize (P t). rewrite Gfpx.evalZ_addz, Gfpx.evalZ_mulz in P.
  rewrite !Gfpx.evalZ_negz.
  set (Q := Gfpx.evalZ (fst (Gfpx.divmod_nz p x b)) t) in *. set (B := Gfpx.evalZ b t) in *.
  set (QB := Q * B) in *. replace (- Q * B) with (- QB) by (unfold QB; ring). lia.
Qed.

Lemma gmul_spec x y : Gfpx.wf p x -> Gfpx.wf p y ->
  Gfpx.wf p (Gfpx.mul p x y) /\ cong (Gfpx.mul p x y) (Gfpx.mulz x y).
Proof.
  intros Wx Wy. split; [apply Gfpx.mul_wf; assumption|].
  apply cong_peq, Gfpx.mul_peq. pose proof (prime_ge_2 p Pp). lia.
Qed.

Lemma sp_powmod_pos_spec a : Gfpx.wf p a -> forall n,
  Gfpx.wf p (sp_powmod_pos a n) /\ cong (sp_powmod_pos a n) (powz a (Pos.to_nat n)).
Proof.
  intros Wa. induction n as [n [Wc Cc]|n [Wc Cc]|]; cbn [sp_powmod_pos].
  - destruct (gmul_spec _ _ Wc Wc) as [W1 C1].
    destruct (pm_rd_spec _ W1) as (W2 & _ & C2).
    destruct (gmul_spec _ _ W2 Wa) as [W3 C3].
    destruct (pm_rd_spec _ W3) as (W4 & _ & C4).
    split; [exact W4|].
    eapply cong_trans; [exact C4|]. eapply cong_trans; [exact C3|].
    eapply cong_trans; [apply cong_mulz; [eapply cong_trans; [exact C2|eapply cong_trans; [exact C1|apply cong_mulz; exact Cc]]|apply cong_eval; reflexivity]|].
    apply cong_eval. intros t. rewrite !Gfpx.evalZ_mulz, !evalZ_powz.
    rewrite Pos2Nat.inj_xI, Nat2Z.inj_succ, Nat2Z.inj_mul. change (Z.of_nat 2) with 2.
    set (KN := Z.of_nat (Pos.to_nat n)). assert (0 <= KN) by (unfold KN; lia).
    replace (Z.succ (2 * KN)) with (KN + KN + 1) by lia.
    rewrite !Z.pow_add_r by lia. rewrite Z.pow_1_r. ring.
  - destruct (gmul_spec _ _ Wc Wc) as [W1 C1].
    destruct (pm_rd_spec _ W1) as (W2 & _ & C2).
    split; [exact W2|].
    eapply cong_trans; [exact C2|]. eapply cong_trans; [exact C1|].
    eapply cong_trans; [apply cong_mulz; exact Cc|].
    apply cong_eval. intros t. rewrite !Gfpx.evalZ_mulz, !evalZ_powz.
    rewrite Pos2Nat.inj_xO, Nat2Z.inj_mul. change (Z.of_nat 2) with 2.
    set (KN := Z.of_nat (Pos.to_nat n)). assert (0 <= KN) by (unfold KN; lia).
    replace (2 * KN) with (KN + KN) by lia. rewrite Z.pow_add_r by lia. reflexivity.
  - split; [exact Wa|]. apply cong_eval. intros t. rewrite evalZ_powz.
    change (Z.of_nat (Pos.to_nat 1)) with 1. rewrite Z.pow_1_r. reflexivity.
Qed.

(** every n >= 2 ends with a reduction *)
Lemma sp_powmod_pos_reduced a : Gfpx.wf p a -> forall n, (n <> 1)%positive ->
  (length (sp_powmod_pos a n) < length b)%nat.
Proof.
  intros Wa n Hn. destruct n as [n|n|]; [| |congruence]; cbn [sp_powmod_pos];
    destruct (sp_powmod_pos_spec a Wa n) as [Wc _];
    destruct (gmul_spec _ _ Wc Wc) as [W1 _].
  - destruct (pm_rd_spec _ W1) as (W2 & _ & _). destruct (gmul_spec _ _ W2 Wa) as [W3 _].
    apply (pm_rd_spec _ W3).
  - apply (pm_rd_spec _ W1).
Qed.

Theorem sp_powmod_correct a n : Gfpx.wf p a -> 1 <= n ->
  Gfpx.wf p (sp_powmod a n) /\ (length (sp_powmod a n) < length b)%nat /\
  cong (sp_powmod a n) (powz a (Z.to_nat n)).
Proof.
  intros Wa Hn. unfold sp_powmod.
  destruct (Z.eqb_spec n 0); [lia|]. destruct (Z.eqb_spec n 1) as [->|H1].
  - destruct (pm_rd_spec a Wa) as (W & L & C). split; [exact W|]. split; [exact L|].
    eapply cong_trans; [exact C|]. apply cong_eval. intros t. rewrite evalZ_powz.
    change (Z.of_nat (Z.to_nat 1)) with 1. rewrite Z.pow_1_r. reflexivity.
  - destruct (sp_powmod_pos_spec a Wa (Z.to_pos n)) as [W C].
    split; [exact W|]. split.
    + apply sp_powmod_pos_reduced; [exact Wa|]. intros E. apply H1.
      rewrite <- (Z2Pos.id n) by lia. rewrite E. reflexivity.
    + replace (Z.to_nat n) with (Pos.to_nat (Z.to_pos n)); [exact C|].
      rewrite <- (Z2Pos.id n) at 2 by lia. rewrite Z2Nat.inj_pos. reflexivity.
Qed.

End SecPowMod.
