(** C06 — secure conversion between types preserves values (value level).  Only statements;
    proofs in theories/Convert.v (model of runtime._convert) over theories/Masked.v (trunc, _mod). *)
Require Import MPyC.Zp MPyC.Masked MPyC.Convert.
From Coq Require Import ZArith List Znumtheory Lia.
Import ListNotations.
Local Open Scope Z_scope.

(** SecInt/SecFxp source, d = f_t - f_s >= 0 (int->int, int->fxp, fxp->fxp with more fractional
    bits): for EVERY shared random r in the range the code draws from, the result is a * 2^d in the
    target field; a must fit l = min(l_s, l_t) bits and the source prime exceed 2^(k+l+1). *)
Theorem C06_convert_int_correct : forall ps pt ls l k d a r rbits rdiv,
  1 <= k -> 1 <= l -> 0 <= d -> 2 ^ (k + l + 1) < ps ->
  - 2 ^ (l - 1) <= a < 2 ^ (l - 1) -> 0 <= r <= 2 ^ (k + l) ->
  convert_v ps pt ls l d (a mod ps) r rbits rdiv = (a * 2 ^ d) mod pt.
Proof. exact convert_int_correct. Qed.
Print Assumptions C06_convert_int_correct.

Theorem C06_int_to_fxp_exact : forall ps pt ls l k f a r,
  1 <= k -> 1 <= l -> 0 < f -> 2 ^ (k + l + 1) < ps ->
  - 2 ^ (l - 1) <= a < 2 ^ (l - 1) -> 0 <= r <= 2 ^ (k + l) ->
  convert_v ps pt ls l f (a mod ps) r [] 0 = (a * 2 ^ f) mod pt.
Proof. exact int_to_fxp_exact. Qed.
Print Assumptions C06_int_to_fxp_exact.

(** fxp -> int (d = -f < 0): floor or floor + 1 of the real value a / 2^f, for every tape *)
Theorem C06_convert_fxp_to_int_rounds : forall ps pt ls l k f a r rbits rdiv,
  prime ps -> 1 <= k -> 1 <= l -> 0 < f < ls -> 2 ^ (ls + k + 1) < ps -> 2 ^ (k + l + 1) < ps ->
  - 2 ^ (ls - 1) <= a < 2 ^ (ls - 1) ->
  - 2 ^ (l - 1) <= a / 2 ^ f -> a / 2 ^ f + 1 < 2 ^ (l - 1) ->
  Forall bit rbits -> Z.of_nat (length rbits) = f -> 0 <= rdiv < 2 ^ (k + ls - f) ->
  0 <= r <= 2 ^ (k + l) ->
  convert_v ps pt ls l (- f) (a mod ps) r rbits rdiv = (a / 2 ^ f) mod pt \/
  convert_v ps pt ls l (- f) (a mod ps) r rbits rdiv = (a / 2 ^ f + 1) mod pt.
Proof. exact convert_fxp_to_int_rounds. Qed.
Print Assumptions C06_convert_fxp_to_int_rounds.

(** prime-field source -> SecInt(lt) with ps < 2^lt (what runtime.convert uses for field -> field,
    lt = max(32, bits)): the canonical signed/unsigned representative is kept, under the explicit
    good-tape condition that the masked opening inside _mod does not wrap. *)
Theorem C06_convert_fld_correct : forall ps pt lt k signed v r rbits rdiv ssign rz,
  prime pt -> 2 <= k -> 1 <= lt -> 2 ^ (lt + k + 1) < pt -> 2 < ps < 2 ^ lt -> ps mod 2 = 1 -> 0 <= r ->
  Forall bit rbits -> bits_val rbits < ps -> ps <= 2 ^ Z.of_nat (length rbits) ->
  3 * Z.of_nat (length rbits) + 3 < pt ->
  0 <= rdiv < 2 ^ k -> (ssign = 1 \/ ssign = pt - 1) -> rz mod pt <> 0 ->
  (forall y, 0 <= y < ps -> 0 <= y - r + 2 ^ lt - (2 ^ lt) mod ps + ps * rdiv - bits_val rbits) ->
  convert_fld_v ps pt lt signed (v mod ps) r rbits rdiv ssign rz = (canon ps signed v) mod pt.
Proof. exact convert_fld_correct. Qed.
Print Assumptions C06_convert_fld_correct.

(** non-vacuity: small instance with proved primes (k = 2: ps = 131 > 2^(4+2+1), pt = 37), and the
    fields of SecInt(8) (ps = 1099511627563) / SecInt(16) (pt) with k = 30. *)
Example C06_nonvacuous_small :
  prime 131 /\ 2 ^ (2 + 4 + 1) < 131 /\
  convert_v 131 37 4 4 0 ((-8) mod 131) 64 [] 0 = (-8) mod 37 /\
  convert_v 131 37 4 4 2 (3 mod 131) 17 [] 0 = 12 /\
  convert_v 131 37 4 3 (-1) ((-7) mod 131) 9 [1] 5 = (-3) mod 37 /\ (-7) / 2 ^ 1 = -4 /\
  prime 1031 /\ 2 ^ (7 + 2 + 1) < 1031 /\ 13 < 2 ^ 7 /\
  convert_fld_v 13 1031 7 true (9 mod 13) 20 [1;0;1;0] 3 1 5 = (-4) mod 1031 /\ canon 13 true 9 = -4 /\
  convert_fld_v 13 1031 7 false (9 mod 13) 20 [1;0;1;0] 3 1030 5 = 9.
Proof.
  split; [apply is_prime_small_correct; reflexivity|].
  repeat (split; [vm_compute; (reflexivity || (intros; discriminate) || idtac)|]).
  all: try (vm_compute; reflexivity).
  all: try (apply is_prime_small_correct; reflexivity).
Qed.

Example C06_nonvacuous :
  let ps := 1099511627563 in
  convert_v ps 281474976710597 8 8 0 ((-128) mod ps) 123456789012 [] 0 = (-128) mod 281474976710597 /\
  convert_v ps 281474976710597 8 8 8 (127 mod ps) 274877906944 [] 0 = (127 * 256) mod 281474976710597.
Proof. vm_compute. split; reflexivity. Qed.
