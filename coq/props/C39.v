(** C39 — secure type and party configuration parameters are valid.
    Only statements; proofs and the model are in theories/SecFldCfg.v. *)
From Coq Require Import ZArith List Lia Bool.
Require Import MPyC.SecFldCfg.
Import ListNotations.
Local Open Scope Z_scope.

(** runtime.setup refuses every threshold with 2t >= m (AssertionError) ... *)
Theorem C39_setup_refuses :
  forall m t, m <= 2 * t -> setup_threshold m (Some t) = Err EAssert.
Proof. exact setup_refuses. Qed.
Print Assumptions C39_setup_refuses.

Theorem C39_setup_accepts_iff :
  forall m t t', setup_threshold m (Some t) = Ok t' <-> (t' = t /\ 2 * t < m).
Proof. exact setup_accepts_iff. Qed.
Print Assumptions C39_setup_accepts_iff.

(** ... and its default (m-1)//2 is accepted, valid, and the largest valid threshold *)
Theorem C39_default_threshold_ok :
  forall m, setup_threshold m None = Ok ((m - 1) / 2) /\ 2 * ((m - 1) / 2) < m /\
            (forall t, 2 * t < m -> t <= (m - 1) / 2).
Proof. exact default_threshold_ok. Qed.
Print Assumptions C39_default_threshold_ok.

(** _SecFld: lifted iff t != 0 and m >= q *)
Theorem C39_lift_iff :
  forall (clog : Z -> Z -> option Z) t m q fdeg o b e,
    lift_cfg clog t m q fdeg = Ok (o, b, e) -> (b = true <-> (t <> 0 /\ q <= m)).
Proof. exact lift_iff. Qed.
Print Assumptions C39_lift_iff.

(** under the ceil-log law the lifted field GF(q^e) has q^e > m, with e >= 2 *)
Theorem C39_lift_large_enough :
  forall (clog : Z -> Z -> option Z) t m q fdeg o e,
    (forall a b e, 2 <= b -> 1 <= a -> clog a b = Some e -> a <= b ^ e) -> 2 <= q -> 0 <= m ->
    lift_cfg clog t m q fdeg = Ok (o, true, e) -> o = q ^ e /\ m < q ^ e /\ 2 <= e.
Proof. exact lift_large_enough. Qed.
Print Assumptions C39_lift_large_enough.

(** a too-small EXTENSION field is refused by an assert, not lifted *)
Theorem C39_lift_refuses_ext :
  forall (clog : Z -> Z -> option Z) t m q fdeg,
    t <> 0 -> q <= m -> fdeg <> 1 -> lift_cfg clog t m q fdeg = Err EAssert.
Proof. exact lift_refuses_ext. Qed.
Print Assumptions C39_lift_refuses_ext.

(** outputs of a lifted type are converted into the base field [0,q); only constants pass *)
Theorem C39_outputs_in_base_field :
  forall q cs v, 0 < q -> out_conv q cs = Ok v -> 0 <= v < q /\ pdeg cs <= 0.
Proof. exact outputs_in_base_field. Qed.
Print Assumptions C39_outputs_in_base_field.

(** values of a lifted type: an int v becomes the constant (v mod q) of the extension field, an element
    of the embedded base field GF(q), whose output conversion is v mod q (any int, also outside range(q)) *)
Theorem C39_lifted_int_in_base_field :
  forall q v, 0 < q ->
    pdeg (lift_int q v) <= 0 /\ out_conv q (lift_int q v) = Ok (v mod q) /\ 0 <= v mod q < q.
Proof. exact lift_int_in_base_field. Qed.
Print Assumptions C39_lifted_int_in_base_field.

(** every secure type's field has more elements than parties when t != 0:
    SecFld (plain or lifted) ... *)
Theorem C39_all_types_field_gt_m_secfld :
  forall (clog : Z -> Z -> option Z) t m q fdeg o b e,
    (forall a b e, 2 <= b -> 1 <= a -> clog a b = Some e -> a <= b ^ e) -> 2 <= q -> 0 <= m -> t <> 0 ->
    lift_cfg clog t m q fdeg = Ok (o, b, e) -> m < o.
Proof. exact secfld_field_gt_m. Qed.
Print Assumptions C39_all_types_field_gt_m_secfld.

(** ... SecInt / SecFxp / both components of SecFlt (all through _pfield) *)
Theorem C39_all_types_field_gt_m_pfield :
  forall t m order o, pfield_cfg t m order = Ok o -> o = order /\ (t <> 0 -> m < o).
Proof. exact pfield_gt_m. Qed.
Print Assumptions C39_all_types_field_gt_m_pfield.

Theorem C39_pfield_refuses :
  forall t m order, t <> 0 -> order <= m -> pfield_cfg t m order = Err EAssert.
Proof. exact pfield_refuses. Qed.
Print Assumptions C39_pfield_refuses.

(** SecFld argument resolution ([resolve] returns (field char, field degree, resolved char, resolved
    ext_deg, claimed order)); the six primitives are arbitrary oracles.  The model includes the
    assert [ext_deg == modulus.degree()] of the polynomial branch (repo commit d972df8).
    For ALL arguments: field characteristic = resolved char; field degree = resolved ext_deg (>= 1);
    claimed order = [order] when given (else char^ext_deg); min_order <= claimed order. *)
Theorem C39_secfld_bookkeeping :
  forall fpp isprime irred iroot nextprime clog order modulus char ext_deg min_order fc fd c e q,
    resolve fpp isprime irred iroot nextprime clog order modulus char ext_deg min_order = Ok (fc, fd, c, e, q) ->
    fc = c /\ (1 <= e -> fd = e) /\ q = or_ order (c ^ e) /\ or_ min_order q <= q.
Proof. exact resolve_bookkeeping. Qed.
Print Assumptions C39_secfld_bookkeeping.

(** explicit order q0, ANY modulus argument (law of factor_prime_power: p^d = x, p <> 0, d >= 1):
    the field has exactly order q0, with (characteristic, degree) the factorisation of q0 *)
Theorem C39_secfld_order_exact :
  forall fpp isprime irred iroot nextprime clog q0 modulus char ext_deg min_order fc fd c e q,
    (forall x p d, fpp x = Some (p, d) -> p ^ d = x /\ p <> 0 /\ 1 <= d) ->
    resolve fpp isprime irred iroot nextprime clog (Some q0) modulus char ext_deg min_order = Ok (fc, fd, c, e, q) ->
    fpp q0 = Some (fc, fd) /\ fc ^ fd = q0 /\ q = q0 /\ c = fc /\ e = fd.
Proof. exact secfld_order_exact. Qed.
Print Assumptions C39_secfld_order_exact.

(** explicit nonzero char: exactly that characteristic *)
Theorem C39_secfld_char_exact :
  forall fpp isprime irred iroot nextprime clog order modulus c0 ext_deg min_order fc fd c e q,
    c0 <> 0 ->
    resolve fpp isprime irred iroot nextprime clog order modulus (Some c0) ext_deg min_order = Ok (fc, fd, c, e, q) ->
    fc = c0.
Proof. exact secfld_char_exact. Qed.
Print Assumptions C39_secfld_char_exact.

(** explicit ext_deg >= 1: exactly that degree, also with a polynomial / str / int > char modulus *)
Theorem C39_secfld_ext_deg_exact :
  forall fpp isprime irred iroot nextprime clog order modulus char e0 min_order fc fd c e q,
    1 <= e0 ->
    resolve fpp isprime irred iroot nextprime clog order modulus char (Some e0) min_order = Ok (fc, fd, c, e, q) ->
    fd = e0 /\ e = e0.
Proof. exact secfld_ext_deg_exact. Qed.
Print Assumptions C39_secfld_ext_deg_exact.

(** min_order <= claimed order: unconditional (a wrong float log can only become an AssertionError) *)
Theorem C39_secfld_min_order :
  forall fpp isprime irred iroot nextprime clog order modulus char ext_deg mo fc fd c e q,
    mo <> 0 ->
    resolve fpp isprime irred iroot nextprime clog order modulus char ext_deg (Some mo) = Ok (fc, fd, c, e, q) ->
    mo <= q.
Proof. exact secfld_min_order. Qed.
Print Assumptions C39_secfld_min_order.

(** ... and the claimed order is the order of the field handed out, so min_order <= |field|.
    (resolved ext_deg >= 1; ext_deg <= 0 only arises from ext_deg = ceil(log(min_order, char)) with
    min_order <= 1, where find_irreducible(p, 0) gives a degree-1 field, which is larger.) *)
Theorem C39_secfld_min_order_field :
  forall fpp isprime irred iroot nextprime clog order modulus char ext_deg mo fc fd c e q,
    (forall x p d, fpp x = Some (p, d) -> p ^ d = x /\ p <> 0 /\ 1 <= d) -> 1 <= e -> mo <> 0 ->
    resolve fpp isprime irred iroot nextprime clog order modulus char ext_deg (Some mo) = Ok (fc, fd, c, e, q) ->
    q = fc ^ fd /\ mo <= fc ^ fd.
Proof.
  intros. split; [eapply secfld_claimed_is_actual; eassumption|eapply secfld_min_order_field; eassumption].
Qed.
Print Assumptions C39_secfld_min_order_field.

(** the formerly accepted inconsistent calls are now refused:
    SecFld(order=8, modulus='x^2+x+1'), SecFld(modulus='x^2+x+1', ext_deg=10, min_order=100) *)
Example C39_inconsistent_degree_refused :
  resolve (fun x => if x =? 8 then Some (2, 3) else None) (fun x => x =? 2) (fun _ _ => true)
          (fun _ _ => (0, true)) (fun _ => 0) (fun _ _ => None)
          (Some 8) (MStr [1; 1; 1]) None None None = Err EAssert /\
  resolve (fun _ => None) (fun x => x =? 2) (fun _ _ => true) (fun _ _ => (0, true)) (fun _ => 0) (fun _ _ => None)
          None (MStr [1; 1; 1]) None (Some 10) (Some 100) = Err EAssert /\
  resolve (fun x => if x =? 4 then Some (2, 2) else None) (fun x => x =? 2) (fun _ _ => true)
          (fun _ _ => (0, true)) (fun _ => 0) (fun _ _ => None)
          (Some 4) (MStr [1; 1; 1]) None None (Some 3) = Ok (2, 2, 2, 2, 4).
Proof. vm_compute. repeat split. Qed.

(** Non-vacuity of the order/min_order theorems: SecFld(order=9, min_order=5) -> GF(3^2) *)
Example C39_nonvacuous_resolve :
  let fpp := fun x => if x =? 9 then Some (3, 2) else None in
  (forall x p d, fpp x = Some (p, d) -> p ^ d = x /\ p <> 0 /\ 1 <= d) /\
  resolve fpp (fun x => x =? 3) (fun _ _ => true) (fun _ _ => (0, true)) (fun _ => 0) (fun _ _ => None)
          (Some 9) MNone None None (Some 5) = Ok (3, 2, 3, 2, 9).
Proof.
  split; [|vm_compute; reflexivity].
  intros x p d. simpl. destruct (x =? 9) eqn:E; [|discriminate].
  apply Z.eqb_eq in E. intros H; inversion H; subst. repeat split; try reflexivity; lia.
Qed.

(** Non-vacuity: m = 5, t = 2, SecFld(3): clog 6 3 = 2, lifted to GF(9) *)
Example C39_nonvacuous_lift :
  let clog := fun a b => if (a =? 6) && (b =? 3) then Some 2 else None in
  lift_cfg clog 2 5 3 1 = Ok (9, true, 2) /\ setup_threshold 5 (Some 2) = Ok 2 /\
  setup_threshold 5 (Some 3) = Err EAssert /\ setup_threshold 5 None = Ok 2 /\
  pfield_cfg 2 5 7 = Ok 7 /\ pfield_cfg 2 7 7 = Err EAssert /\
  out_conv 3 [2] = Ok 2 /\ out_conv 3 [1; 1] = Err EAssert.
Proof. vm_compute. repeat split. Qed.
