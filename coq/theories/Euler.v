(** Number theory for C21: Fermat's little theorem and Euler's criterion (both directions), first in an
    abstract finite field whose nonzero elements are enumerated, then for the integers modulo an odd prime.
    No primitive roots: Fermat by the permutation-of-units argument; the converse of Euler by counting the
    roots of X^h - 1 (h = (q-1)/2) with the root bound of Poly.v against the h distinct squares of a
    half-system. *)
Require Import MPyC.Field MPyC.Poly MPyC.Zp.
From Coq Require Import ZArith Znumtheory Lia Bool List Permutation Zpow_facts.
Import ListNotations.
Local Open Scope Z_scope.

Lemma NoDup_map_inj_in {A B} (f : A -> B) (l : list A) :
  (forall x y, In x l -> In y l -> f x = f y -> x = y) -> NoDup l -> NoDup (map f l).
Proof.
  induction l as [|a l IH]; intros Hinj Hnd; simpl; [constructor|].
  inversion Hnd as [|? ? Hnotin Hnd']; subst. constructor.
  - intros Hin. apply in_map_iff in Hin. destruct Hin as [x [E Hx]].
    assert (x = a) by (apply Hinj; simpl; auto). subst. contradiction.
  - apply IH; [|exact Hnd']. intros x y Hx Hy. apply Hinj; simpl; auto.
Qed.

Section Abstract.
Variable K : FieldT.
Add Field KF : (fth K).
Notation "0" := (f0 K). Notation "1" := (f1 K).
Infix "+" := (fadd K). Infix "*" := (fmul K). Infix "-" := (fsub K).
Notation "- x" := (fopp K x).

Lemma fpow_add (x : K) (n m : nat) : fpow x (n + m) = fpow x n * fpow x m.
Proof. induction n as [|n IH]; simpl; [ring|]. rewrite IH. ring. Qed.

Lemma fpow_sq (x : K) (n : nat) : fpow (x * x) n = fpow x (2 * n).
Proof.
  induction n as [|n IH]; [reflexivity|].
  replace (2 * S n)%nat with (S (S (2 * n))) by lia. simpl fpow at 1. cbn [fpow]. rewrite IH. ring.
Qed.

Lemma fpow_0 (n : nat) : (0 < n)%nat -> fpow 0 n = 0.
Proof. destruct n; [lia|]. intros _. simpl. ring. Qed.

Lemma fprod_perm (l l' : list K) : Permutation l l' -> fprod l = fprod l'.
Proof.
  induction 1 as [|x l l' _ IH|x y l|l l' l'' _ IH1 _ IH2]; simpl.
  - reflexivity.
  - rewrite IH. reflexivity.
  - ring.
  - rewrite IH1. exact IH2.
Qed.

Lemma fprod_map_mul (a : K) (l : list K) :
  fprod (map (fmul K a) l) = fpow a (length l) * fprod l.
Proof. induction l as [|x l IH]; simpl; [ring|]. rewrite IH. ring. Qed.

(** Fermat: a^(#units) = 1 *)
Theorem fermat_abstract (units : list K) :
  NoDup units -> (forall x, In x units <-> x <> 0) ->
  forall a, a <> 0 -> fpow a (length units) = 1.
Proof.
  intros Hnd Hall a Ha.
  assert (Hinj : forall x y, a * x = a * y -> x = y).
  { intros x y E. apply (fsub_eq0 K). apply (fmul_eq0 K a); [|exact Ha].
    transitivity (a * x - a * y); [ring|]. rewrite E. ring. }
  assert (HP : Permutation (map (fmul K a) units) units).
  { apply NoDup_Permutation_bis.
    - apply FinFun.Injective_map_NoDup; [exact Hinj|exact Hnd].
    - rewrite map_length. apply le_n.
    - intros y Hy. apply in_map_iff in Hy. destruct Hy as [x [<- Hx]].
      apply Hall. apply fmul_neq0; [exact Ha|apply Hall, Hx]. }
  apply fprod_perm in HP. rewrite fprod_map_mul in HP.
  assert (HN : fprod units <> 0) by (apply fprod_neq0; intros x Hx; apply Hall, Hx).
  apply (fsub_eq0 K). apply (fmul_eq0 K (fprod units)); [|exact HN].
  transitivity (fpow a (length units) * fprod units - fprod units); [ring|].
  rewrite HP. ring.
Qed.

(** Euler's criterion.  [units]: the nonzero elements, 2h of them; [H]: a half-system — h nonzero
    elements no two of which (equal or not) add up to 0. *)
Section Euler.
Variable units : list K.
Hypothesis Hnd : NoDup units.
Hypothesis Hall : forall x, In x units <-> x <> 0.
Variable h : nat.
Hypothesis Hlen : length units = (2 * h)%nat.
Hypothesis Hh : (0 < h)%nat.

Lemma pow_2h (a : K) : a <> 0 -> fpow a (2 * h) = 1.
Proof. intros Ha. rewrite <- Hlen. apply fermat_abstract; assumption. Qed.

Lemma pow_h_pm1 (a : K) : a <> 0 -> fpow a h = 1 \/ fpow a h = fopp K 1.
Proof.
  intros Ha. set (y := fpow a h).
  assert (Hy : y * y = 1).
  { unfold y. rewrite <- fpow_add. replace (h + h)%nat with (2 * h)%nat by lia. apply pow_2h, Ha. }
  destruct (feq_dec K y 1) as [E|E]; [left; exact E|right].
  assert (Hm : (y - 1) * (y + 1) = 0) by (transitivity (y * y - 1); [ring|rewrite Hy; ring]).
  apply fmul_eq0 in Hm; [|apply fsub_neq0, E].
  transitivity ((y + 1) - 1); [ring|rewrite Hm; ring].
Qed.

Lemma square_pow_h (a b : K) : a <> 0 -> b * b = a -> fpow a h = 1.
Proof.
  intros Ha Hb. assert (Hb0 : b <> 0) by (intros ->; apply Ha; rewrite <- Hb; ring).
  rewrite <- Hb, fpow_sq. apply pow_2h, Hb0.
Qed.

Variable H : list K.
Hypothesis HHlen : length H = h.
Hypothesis HHnd : NoDup H.
Hypothesis HHsum : forall x y, In x H -> In y H -> x + y <> 0.

Lemma half_squares_nodup : NoDup (map (fun x => x * x) H).
Proof.
  apply NoDup_map_inj_in; [|exact HHnd]. intros x y Hx Hy E.
  apply (fsub_eq0 K). apply (fmul_eq0 K (x + y)); [|apply HHsum; assumption].
  transitivity (x * x - y * y); [ring|rewrite E; ring].
Qed.

Lemma eval_repeat0 (k : nat) (x : K) : eval (repeat 0 k) x = 0.
Proof. induction k as [|k IH]; simpl; [reflexivity|]. rewrite IH. ring. Qed.

(** X^h - 1 as a coefficient list of length h+1 *)
Definition xh1 : list K := (fopp K 1 :: repeat 0 (h - 1)) ++ [1].

Lemma eval_xh1 (x : K) : eval xh1 x = fpow x h - 1.
Proof.
  unfold xh1. rewrite (eval_app K). cbn [eval length]. rewrite eval_repeat0, repeat_length.
  replace (S (h - 1)) with h by lia. ring.
Qed.

Lemma pow_h_square (a : K) : a <> 0 -> fpow a h = 1 -> exists b, b * b = a.
Proof.
  intros Ha Hpow. set (S := map (fun x => x * x) H).
  destruct (in_dec (feq_dec K) a S) as [Hin|Hnin].
  - apply in_map_iff in Hin. destruct Hin as [b [Hb _]]. exists b. exact Hb.
  - exfalso.
    assert (Hroots : forall r, In r (a :: S) -> eval xh1 r = 0).
    { intros r [<-|Hr]; rewrite eval_xh1.
      - rewrite Hpow. ring.
      - apply in_map_iff in Hr. destruct Hr as [b [<- Hb]].
        rewrite (square_pow_h (b * b) b); [ring| |reflexivity].
        intros E. apply (HHsum b b Hb Hb).
        assert (b = 0) by (destruct (feq_dec K b 0) as [Z|NZ]; [exact Z|apply (fmul_eq0 K b b E) in NZ; exact NZ]).
        subst b. ring. }
    assert (Hnd' : NoDup (a :: S)) by (constructor; [exact Hnin|apply half_squares_nodup]).
    assert (Hl : (length xh1 <= length (a :: S))%nat).
    { unfold xh1, S. cbn [length]. rewrite app_length, map_length, HHlen. cbn [length]. rewrite repeat_length. lia. }
    pose proof (root_bound K (a :: S) xh1 Hnd' Hl Hroots 0) as E0.
    rewrite eval_xh1, fpow_0 in E0 by exact Hh.
    apply (f1_neq_f0 K). transitivity (0 - (0 - 1)); [ring|rewrite E0; ring].
Qed.

Theorem euler_abstract (a : K) : a <> 0 ->
  (fpow a h = 1 <-> exists b, b * b = a) /\ (fpow a h = 1 \/ fpow a h = fopp K 1).
Proof.
  intros Ha. split; [split|].
  - apply pow_h_square, Ha.
  - intros [b Hb]. eapply square_pow_h; eauto.
  - apply pow_h_pm1, Ha.
Qed.
End Euler.
End Abstract.

(** ** the integers modulo a prime *)
Lemma zval_fpow p (Hn : p <> 0) a n : zval (@fpow (ZpOps p) (mkZp p a) n) = (a ^ Z.of_nat n) mod p.
Proof.
  induction n as [|n IH].
  - reflexivity.
  - cbn [fpow]. change (fmul (ZpOps p)) with (fun x y : Zp p => mkZp p (zval x * zval y)). cbv beta.
    rewrite zval_mkZp, IH, zval_mkZp. rewrite Nat2Z.inj_succ, Z.pow_succ_r by lia.
    rewrite <- Z.mul_mod by exact Hn. reflexivity.
Qed.

Definition zp_units (p : Z) : list (Zp p) := map (zp_of_nat p) (seq 1 (Z.to_nat (p - 1))).

Lemma zp_units_spec p : prime p ->
  NoDup (zp_units p) /\ (forall x : Zp p, In x (zp_units p) <-> x <> f0 (ZpOps p)) /\
  length (zp_units p) = Z.to_nat (p - 1).
Proof.
  intros Hp. pose proof (prime_ge_2 p Hp) as Hp2. unfold zp_units. repeat split.
  - apply NoDup_map_inj_in; [|apply seq_NoDup].
    intros i j Hi Hj. apply in_seq in Hi, Hj. apply zp_of_nat_inj; lia.
  - intros Hin E. apply in_map_iff in Hin. destruct Hin as [i [Ei Hi]]. apply in_seq in Hi.
    subst x. apply (f_equal zval) in E. unfold zp_of_nat in E. cbn [f0 ZpOps] in E. rewrite !zval_mkZp in E.
    rewrite Z.mod_0_l, Z.mod_small in E by lia. lia.
  - intros Hne. apply in_map_iff. exists (Z.to_nat (zval x)).
    assert (Hr : 0 <= zval x < p) by (rewrite <- (zval_red p x); apply Z.mod_pos_bound; lia).
    assert (Hz : zval x <> 0).
    { intros E. apply Hne. apply Zp_eq. cbn [f0 ZpOps]. rewrite zval_mkZp, Z.mod_0_l by lia. exact E. }
    split.
    + apply Zp_eq. unfold zp_of_nat. rewrite zval_mkZp, Z2Nat.id by lia. apply Z.mod_small. lia.
    + apply in_seq. lia.
  - rewrite map_length, seq_length. reflexivity.
Qed.

Lemma mkZp_neq0 p a : 2 <= p -> a mod p <> 0 -> mkZp p a <> f0 (ZpOps p).
Proof.
  intros Hp Ha E. apply (f_equal zval) in E. cbn [f0 ZpOps] in E. rewrite !zval_mkZp in E.
  rewrite Z.mod_0_l in E by lia. contradiction.
Qed.

Theorem fermat p a : prime p -> a mod p <> 0 -> a ^ (p - 1) mod p = 1.
Proof.
  intros Hp Ha. pose proof (prime_ge_2 p Hp) as Hp2.
  destruct (zp_units_spec p Hp) as [Hnd [Hall Hlen]].
  pose proof (fermat_abstract (ZpField p Hp) (zp_units p) Hnd Hall (mkZp p a) (mkZp_neq0 p a Hp2 Ha)) as F.
  assert (F' : zval (@fpow (ZpOps p) (mkZp p a) (Z.to_nat (p - 1))) = zval (f1 (ZpOps p))).
  { rewrite <- Hlen. exact (f_equal zval F). }
  rewrite zval_fpow in F' by lia. rewrite Z2Nat.id in F' by lia. rewrite F'.
  cbn [f1 ZpOps]. rewrite zval_mkZp. apply Z.mod_1_l. lia.
Qed.

Lemma odd_prime_half p : prime p -> p <> 2 -> p - 1 = 2 * ((p - 1) / 2) /\ 1 <= (p - 1) / 2.
Proof.
  intros Hp H2. pose proof (prime_ge_2 p Hp) as Hp2.
  assert (Hodd : p mod 2 = 1).
  { destruct (Z.eq_dec (p mod 2) 0) as [E|E].
    - apply Zmod_divide in E; [|lia]. apply prime_div_prime in E; [lia|apply prime_2|exact Hp].
    - pose proof (Z.mod_pos_bound p 2 ltac:(lia)). lia. }
  pose proof (Z.div_mod (p - 1) 2 ltac:(lia)) as D.
  assert ((p - 1) mod 2 = 0) by (rewrite Zminus_mod, Hodd; reflexivity).
  split; [lia|]. apply Z.div_le_lower_bound; lia.
Qed.

(** the half-system 1..(p-1)/2 *)
Definition zp_half (p : Z) : list (Zp p) := map (zp_of_nat p) (seq 1 (Z.to_nat ((p - 1) / 2))).

Lemma zp_half_spec p : prime p -> p <> 2 ->
  length (zp_half p) = Z.to_nat ((p - 1) / 2) /\ NoDup (zp_half p) /\
  (forall x y : Zp p, In x (zp_half p) -> In y (zp_half p) -> fadd (ZpOps p) x y <> f0 (ZpOps p)).
Proof.
  intros Hp H2. pose proof (prime_ge_2 p Hp) as Hp2. destruct (odd_prime_half p Hp H2) as [Hh Hh1].
  unfold zp_half. repeat split.
  - rewrite map_length, seq_length. reflexivity.
  - apply NoDup_map_inj_in; [|apply seq_NoDup].
    intros i j Hi Hj. apply in_seq in Hi, Hj. apply zp_of_nat_inj; lia.
  - intros x y Hx Hy E. apply in_map_iff in Hx, Hy. destruct Hx as [i [<- Hi]]. destruct Hy as [j [<- Hj]].
    apply in_seq in Hi, Hj. apply (f_equal zval) in E. unfold zp_of_nat in E.
    cbn [fadd f0 ZpOps] in E. rewrite !zval_mkZp in E.
    rewrite Z.mod_0_l in E by lia. rewrite (Z.mod_small (Z.of_nat i)), (Z.mod_small (Z.of_nat j)) in E by lia.
    rewrite Z.mod_small in E by lia. lia.
Qed.

(** Euler's criterion, both directions, every odd prime *)
Theorem euler_criterion p a : prime p -> p <> 2 -> a mod p <> 0 ->
  (a ^ ((p - 1) / 2) mod p = 1 <-> exists b, (b * b) mod p = a mod p) /\
  (a ^ ((p - 1) / 2) mod p = 1 \/ a ^ ((p - 1) / 2) mod p = p - 1).
Proof.
  intros Hp H2 Ha. pose proof (prime_ge_2 p Hp) as Hp2.
  destruct (odd_prime_half p Hp H2) as [Hh Hh1].
  destruct (zp_units_spec p Hp) as [Hnd [Hall Hlen]].
  destruct (zp_half_spec p Hp H2) as [HHlen [HHnd HHsum]].
  set (h := Z.to_nat ((p - 1) / 2)) in *.
  assert (Hlen2 : length (zp_units p) = (2 * h)%nat) by (rewrite Hlen; unfold h; lia).
  assert (Hh0 : (0 < h)%nat) by (unfold h; lia).
  pose proof (euler_abstract (ZpField p Hp) (zp_units p) Hnd Hall h Hlen2 Hh0 (zp_half p) HHlen HHnd HHsum
                (mkZp p a) (mkZp_neq0 p a Hp2 Ha)) as [Hiff Hpm].
  assert (Hz : zval (@fpow (ZpOps p) (mkZp p a) h) = a ^ ((p - 1) / 2) mod p).
  { rewrite zval_fpow by lia. unfold h. rewrite Z2Nat.id by lia. reflexivity. }
  assert (H1 : forall y : Zp p, y = f1 (ZpOps p) <-> zval y = 1).
  { intros y. split.
    - intros ->. cbn [f1 ZpOps]. rewrite zval_mkZp. apply Z.mod_1_l. lia.
    - intros E. apply Zp_eq. cbn [f1 ZpOps]. rewrite zval_mkZp, Z.mod_1_l by lia. exact E. }
  split; [split|].
  - intros E. assert (E' : @fpow (ZpOps p) (mkZp p a) h = f1 (ZpOps p)) by (apply H1; rewrite Hz; exact E).
    apply Hiff in E'. destruct E' as [b Hb]. exists (zval b).
    apply (f_equal zval) in Hb. cbn [fmul ZpField fops ZpOps] in Hb. rewrite !zval_mkZp in Hb. exact Hb.
  - intros [b Hb]. rewrite <- Hz. apply H1. apply Hiff. exists (mkZp p b).
    apply Zp_eq. cbn [fmul ZpField fops ZpOps]. rewrite !zval_mkZp. rewrite <- Z.mul_mod by lia. exact Hb.
  - destruct Hpm as [E|E].
    + left. rewrite <- Hz. apply H1, E.
    + right. rewrite <- Hz. cbn [ZpField fops] in E. rewrite E.
      cbn [fopp f1 ZpOps]. rewrite !zval_mkZp. rewrite Z.mod_1_l by lia.
      replace (- (1)) with ((p - 1) + (-1) * p) by ring. rewrite Z.mod_add by lia. apply Z.mod_small. lia.
Qed.

Corollary euler_square p a b : prime p -> p <> 2 -> (b * b) mod p = a mod p -> a mod p <> 0 ->
  a ^ ((p - 1) / 2) mod p = 1.
Proof. intros Hp H2 Hb Ha. apply (euler_criterion p a Hp H2 Ha). exists b. exact Hb. Qed.

Corollary euler_nonsquare p a : prime p -> p <> 2 -> a mod p <> 0 ->
  (~ exists b, (b * b) mod p = a mod p) -> a ^ ((p - 1) / 2) mod p = p - 1.
Proof.
  intros Hp H2 Ha Hn. destruct (euler_criterion p a Hp H2 Ha) as [Hiff [E|E]]; [|exact E].
  exfalso. apply Hn, Hiff, E.
Qed.
