(** C31 — secure lists behave like Python lists. Only statements; proofs are in theories/SecList.v. *)
From Coq Require Import ZArith List.
Require Import MPyC.SecList.
Import ListNotations.
