(** C33 — secure random functions stay in range/shape (statements only; proofs in theories/RandomFns.v).
    All theorems are for ALL bit tapes; [Some] excludes exhaustion of the tape / restart fuel. *)
Require Import MPyC.RandomFns.
From Coq Require Import ZArith List Permutation.
Import ListNotations.
Local Open Scope nat_scope.

(** random_unit_vector: length n, entries 0/1 with sum 1 ... *)
Theorem C33_unit_vector_shape :
  forall (fuel : nat) (n : Z) (tp : tape) (u : list Z) (tp' : tape),
    (1 <= n)%Z -> bits tp -> random_unit_vector fuel n tp = Some (u, tp') ->
    length u = Z.to_nat n /\ (bits u /\ zsum u = 1%Z) /\ bits tp'.
Proof. exact unit_vector_shape. Qed.
Print Assumptions C33_unit_vector_shape.

(** ... i.e. exactly one 1, rest 0. *)
Theorem C33_unit_vector_onehot :
  forall (fuel : nat) (n : Z) (tp : tape) (u : list Z) (tp' : tape),
    (1 <= n)%Z -> bits tp -> random_unit_vector fuel n tp = Some (u, tp') ->
    exists j, j < Z.to_nat n /\ u = repeat 0%Z j ++ 1%Z :: repeat 0%Z (Z.to_nat n - 1 - j).
Proof. exact unit_vector_onehot. Qed.
Print Assumptions C33_unit_vector_onehot.

(** shuffle / random_permutation: a permutation of the input (Fisher-Yates with one-hot vectors = swaps). *)
Theorem C33_shuffle_perm :
  forall (fuel : nat) (x : list Z) (tp : tape) (r : list Z) (tp' : tape),
    bits tp -> shuffle fuel x tp = Some (r, tp') -> Permutation r x /\ bits tp'.
Proof. exact shuffle_perm. Qed.
Print Assumptions C33_shuffle_perm.

(** random_derangement: a permutation of x with y[i] <> x[i] at every position. *)
Theorem C33_derangement_no_fixed_point :
  forall (rounds fuel : nat) (x : list Z) (tp : tape) (y : list Z) (tp' : tape),
    bits tp -> random_derangement rounds fuel x tp = Some (y, tp') ->
    Permutation y x /\ (forall i, i < length x -> nth i y 0%Z <> nth i x 0%Z).
Proof. exact random_derangement_ok. Qed.
Print Assumptions C33_derangement_no_fixed_point.

(** sample, population branch: k elements that are a sub-selection (with multiplicity) of the population. *)
Theorem C33_sample_pop_subselection :
  forall (fuel : nat) (pop : list Z) (k : nat) (tp : tape) (r : list Z) (tp' : tape),
    k <= length pop -> bits tp -> sample_pop fuel pop k tp = Some (r, tp') ->
    length r = k /\ exists rest, Permutation (r ++ rest) pop.
Proof. exact sample_pop_subselection. Qed.
Print Assumptions C33_sample_pop_subselection.

(** choice returns a member of the sequence. *)
Theorem C33_choice_member :
  forall (fuel : nat) (seq : list Z) (tp : tape) (v : Z) (tp' : tape),
    bits tp -> choice fuel seq tp = Some (v, tp') -> In v seq.
Proof. exact choice_member. Qed.
Print Assumptions C33_choice_member.

(** getrandbits (and random, as scaled integer): a k-bit value. *)
Theorem C33_getrandbits_range :
  forall (k : nat) (tp : tape) (v : Z) (tp' : tape),
    bits tp -> getrandbits k tp = Some (v, tp') -> (0 <= v < 2 ^ Z.of_nat k)%Z /\ bits tp'.
Proof. exact getrandbits_range. Qed.
Print Assumptions C33_getrandbits_range.

(** Non-vacuity: concrete tapes on which the functions return [Some], incl. a restart. *)
Example C33_nonvacuous :
  bits [1; 0; 1; 1; 0; 0; 0]%Z /\
  random_unit_vector 100 5 [1; 0; 1; 1; 0; 0; 0]%Z = Some ([0; 0; 1; 0; 0]%Z, [0%Z]) /\
  shuffle 100 [10; 20; 30]%Z [1; 0; 0; 1; 1; 1]%Z = Some ([20; 30; 10]%Z, [1; 1; 1]%Z) /\
  random_derangement 5 100 [3; 9; 5]%Z [0; 0; 1; 1; 0; 0]%Z = Some ([5; 3; 9]%Z, []) /\
  sample_pop 100 [3; 9; 5; 1]%Z 2 [1; 0; 0; 1]%Z = Some ([9; 5]%Z, []) /\
  choice 100 [5; 7; 9]%Z [1; 0]%Z = Some (7%Z, []) /\
  getrandbits 3 [1; 0; 1]%Z = Some (5%Z, []).
Proof.
  split; [repeat constructor; (left; reflexivity) || (right; reflexivity)|].
  vm_compute. repeat split; reflexivity.
Qed.

(** The documented bound of uniform fails for a degenerate interval: the model (as the code) returns a+1 unit. *)
Theorem C33_uniform_bounds_refuted :
  exists (a b : Z) (tp : tape), bits tp /\ (a <= b)%Z /\
    exists v, uniform_fxp 10 a b tp = Some (v, []) /\ (b < v)%Z.
Proof. exists 16%Z, 16%Z, [1%Z]. split; [repeat constructor; right; reflexivity|]. split; [reflexivity|].
  exists 17%Z. split; reflexivity. Qed.
Print Assumptions C33_uniform_bounds_refuted.
