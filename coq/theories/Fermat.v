(** Fermat.v — Fermat's little theorem for ANY finite field given as a [FieldT] together with an
    enumeration of its elements: a^(q-1) = 1 for a <> 0, q = number of elements.
    Classical argument: x |-> a*x permutes the nonzero elements, so a^(q-1) * P = P for the
    product P <> 0 of the nonzero elements.  No axioms. *)
Require Import MPyC.Field MPyC.Zp.
From Coq Require Import List Permutation FinFun Lia ZArith Znumtheory Bool.
Import ListNotations.
Local Open Scope nat_scope.

Section Fermat.
Variable K : FieldT.
Add Field KFf : (fth K).
Local Notation "0" := (f0 K). Local Notation "1" := (f1 K).
Local Infix "*" := (fmul K).

Lemma fprod_perm (l l' : list K) : Permutation l l' -> fprod l = fprod l'.
Proof.
  induction 1 as [|x l l' _ IH|x y l|l l' l'' _ IH1 _ IH2]; simpl.
  - reflexivity.
  - rewrite IH. reflexivity.
  - ring.
  - rewrite IH1. exact IH2.
Qed.

Lemma fprod_map_scale (a : K) (l : list K) : fprod (map (fmul K a) l) = fpow a (length l) * fprod l.
Proof. induction l as [|x l IH]; simpl; [ring|]. rewrite IH. ring. Qed.

Lemma fmul_cancel_l (a x y : K) : a <> 0 -> a * x = a * y -> x = y.
Proof.
  intros Ha E. transitivity (fmul K (finv K a) (a * x)); [field; exact Ha|]. rewrite E. field. exact Ha.
Qed.

Variable elts : list K.
Hypothesis elts_nodup : NoDup elts.
Hypothesis elts_all : forall x : K, In x elts.

Definition nzb (x : K) : bool := if feq_dec K x 0 then false else true.
Definition nonzero : list K := filter nzb elts.

Lemma in_nonzero x : In x nonzero <-> x <> 0.
Proof.
  unfold nonzero. rewrite filter_In. unfold nzb. destruct (feq_dec K x 0) as [E|E].
  - split; [intros [_ H]; discriminate|intros H; contradiction].
  - split; [intros _; exact E|intros _; split; [apply elts_all|reflexivity]].
Qed.

Lemma nonzero_nodup : NoDup nonzero.
Proof. apply NoDup_filter. exact elts_nodup. Qed.

Lemma elts_perm : Permutation elts (0 :: nonzero).
Proof.
  apply NoDup_Permutation.
  - exact elts_nodup.
  - constructor; [rewrite in_nonzero; intros H; apply H; reflexivity|exact nonzero_nodup].
  - intros x. split; intros _; [|apply elts_all].
    destruct (feq_dec K x 0) as [E|E]; [left; symmetry; exact E|right; apply in_nonzero; exact E].
Qed.

Lemma length_elts : length elts = S (length nonzero).
Proof. rewrite (Permutation_length elts_perm). reflexivity. Qed.

(** a finite field has at least the two elements 0 <> 1 *)
Lemma length_elts_ge2 : 2 <= length elts.
Proof.
  rewrite length_elts. assert (H : In 1 nonzero) by (apply in_nonzero; apply f1_neq_f0).
  destruct nonzero; [destruct H|simpl; lia].
Qed.

Lemma scale_perm (a : K) : a <> 0 -> Permutation (map (fmul K a) nonzero) nonzero.
Proof.
  intros Ha. apply NoDup_Permutation_bis.
  - apply Injective_map_NoDup; [|exact nonzero_nodup].
    intros x y E. exact (fmul_cancel_l a x y Ha E).
  - rewrite map_length. lia.
  - intros y Hy. apply in_map_iff in Hy. destruct Hy as [x [<- Hx]].
    apply in_nonzero. apply fmul_neq0; [exact Ha|apply in_nonzero; exact Hx].
Qed.

(** Fermat / Lagrange for the multiplicative group of an enumerated finite field *)
Theorem fermat_finite_field (a : K) : a <> 0 -> fpow a (length elts - 1) = 1.
Proof.
  intros Ha. rewrite length_elts. replace (S (length nonzero) - 1) with (length nonzero) by lia.
  pose proof (fprod_perm _ _ (scale_perm a Ha)) as E. rewrite fprod_map_scale in E.
  assert (HP : fprod nonzero <> 0) by (apply fprod_neq0; intros x Hx; apply in_nonzero; exact Hx).
  transitivity (fmul K (fmul K (fpow a (length nonzero)) (fprod nonzero)) (finv K (fprod nonzero))).
  - field. exact HP.
  - rewrite E. field. exact HP.
Qed.

Corollary fermat_pow_order (a : K) : fpow a (length elts) = a.
Proof.
  destruct (feq_dec K a 0) as [->|Ha].
  - pose proof length_elts_ge2. destruct (length elts) as [|n]; [lia|]. simpl. ring.
  - pose proof length_elts_ge2 as H2. replace (length elts) with (S (length elts - 1)) by lia.
    simpl. rewrite fermat_finite_field by exact Ha. ring.
Qed.
End Fermat.

(** * Instance: the integers modulo a prime, enumerated as 0 .. p-1 *)
Local Open Scope Z_scope.
Definition zp_elts (p : Z) : list (Zp p) := map (fun n => mkZp p (Z.of_nat n)) (seq 0 (Z.to_nat p)).

Lemma zp_elts_length p : length (zp_elts p) = Z.to_nat p.
Proof. unfold zp_elts. rewrite map_length, seq_length. reflexivity. Qed.

Lemma NoDup_map_inj_in {A B} (f : A -> B) (l : list A) :
  (forall x y, In x l -> In y l -> f x = f y -> x = y) -> NoDup l -> NoDup (map f l).
Proof.
  intros Hinj Hnd. induction Hnd as [|x l Hx Hnd IH]; simpl; constructor.
  - intros Hin. apply in_map_iff in Hin. destruct Hin as [y [E Hy]].
    apply Hx. rewrite (Hinj x y); [exact Hy|left; reflexivity|right; exact Hy|symmetry; exact E].
  - apply IH. intros a b Ha Hb. apply Hinj; right; assumption.
Qed.

Lemma zp_elts_nodup p : NoDup (zp_elts p).
Proof.
  unfold zp_elts. apply NoDup_map_inj_in; [|apply seq_NoDup].
  intros x y Hx Hy E. apply in_seq in Hx. apply in_seq in Hy.
  apply (f_equal zval) in E. rewrite !zval_mkZp in E. rewrite !Z.mod_small in E by lia. lia.
Qed.

Lemma zp_elts_all p : 0 < p -> forall a : Zp p, In a (zp_elts p).
Proof.
  intros Hp a. unfold zp_elts. apply in_map_iff. exists (Z.to_nat (zval a)).
  assert (Hr : 0 <= zval a < p).
  { pose proof (zval_red p a) as E. rewrite <- E. apply Z.mod_pos_bound. exact Hp. }
  split.
  - apply Zp_eq. rewrite zval_mkZp, Z2Nat.id by lia. apply zval_red.
  - apply in_seq. lia.
Qed.

(** Fermat's little theorem for every prime p (no computation) *)
Theorem fermat_Zp (p : Z) (Hp : prime p) (a : Zp p) :
  a <> f0 (ZpOps p) -> fpow (K := ZpOps p) a (Z.to_nat (p - 1)) = f1 (ZpOps p).
Proof.
  intros Ha. pose proof (prime_ge_2 p Hp) as H2.
  pose proof (fermat_finite_field (ZpField p Hp) (zp_elts p) (zp_elts_nodup p) (zp_elts_all p ltac:(lia)) a Ha) as F.
  change (fpow (K := ZpOps p) a (length (zp_elts p) - 1) = f1 (ZpOps p)) in F.
  rewrite zp_elts_length in F. replace (Z.to_nat p - 1)%nat with (Z.to_nat (p - 1)) in F by lia. exact F.
Qed.
