(** C18 — values opened inside protocols are statistically masked (distance about 2^-k).
    Only statements; proofs are in theories/Stat.v.  Distributions are counting statements over Z
    intervals: [sd_num a a' R] is the number of points of a + U[0,R) outside a' + U[0,R), i.e. the
    statistical distance times R.  The per-site obligations (one per internal opening of the source) are
    generated into gen/MaskTable.v and compiled by the check, one theorem per row.
    Not mechanised: the union bound over all openings of an adaptive program; uniformity of PRF outputs
    and of [secrets] (oracle assumptions); that a coalition of <= t parties misses a summand (C16). *)
From Coq Require Import ZArith List Bool Znumtheory String.
Require Import MPyC.Zp MPyC.Stat MPyC.Masked MPyC.MaskBits.
Import ListNotations.
Local Open Scope Z_scope.

(** Shifting an interval of R points by d >= 0 moves exactly min(d,R) points out of it. *)
Theorem C18_sd_shift : forall a d R, 0 <= d -> 0 <= R -> sd_num a (a + d) R = Z.min d R.
Proof. exact sd_shift. Qed.
Print Assumptions C18_sd_shift.

(** SD(a + U[0,R), a' + U[0,R)) = min(|a - a'|, R) / R   for all a, a'. *)
Theorem C18_sd_abs : forall a a' R, 0 <= R -> sd_num a a' R = Z.min (Z.abs (a - a')) R.
Proof. exact sd_abs. Qed.
Print Assumptions C18_sd_abs.

(** Secrets less than 2^s apart, mask uniform on 2^(s+k) points: SD <= 2^-k (cross-multiplied). *)
Theorem C18_mask_bits_suffice : forall a a' s k R,
  0 <= s -> 0 <= k -> Z.abs (a - a') < 2 ^ s -> R = 2 ^ (s + k) -> sd_num a a' R * 2 ^ k <= R.
Proof. exact mask_bits_suffice. Qed.
Print Assumptions C18_mask_bits_suffice.

(** General form with a secret range S and s bits of slack: SD * 2^k <= 2^s. *)
Theorem C18_mask_range_suffices : forall a a' S R k s,
  0 <= R -> 0 <= k -> Z.abs (a - a') < S -> S * 2 ^ k <= R * 2 ^ s -> sd_num a a' R * 2 ^ k <= R * 2 ^ s.
Proof. exact mask_range_suffices. Qed.
Print Assumptions C18_mask_range_suffices.

(** The residue of the opened value modulo the mask range is perfectly hidden. *)
Theorem C18_uniform_mod_perfect : forall a N, 0 < N ->
  forall y, 0 <= y < N -> exists! r, 0 <= r < N /\ (a + r) mod N = y.
Proof. exact uniform_mod_perfect. Qed.
Print Assumptions C18_uniform_mod_perfect.

(** Multiplicative blinding in Z_p: a nonzero => r |-> a*r permutes the nonzero residues; a = 0 => 0. *)
Theorem C18_mult_blind : forall p a, prime p -> a mod p <> 0 ->
  forall y, 1 <= y < p -> exists! r, 1 <= r < p /\ (a * r) mod p = y.
Proof. exact mult_blind. Qed.
Print Assumptions C18_mult_blind.

Theorem C18_mult_blind_zero : forall p a r, a mod p = 0 -> (a * r) mod p = 0.
Proof. exact mult_blind_zero. Qed.
Print Assumptions C18_mult_blind_zero.

(** One uniform summand unknown to the coalition suffices, for every value of the other summands. *)
Theorem C18_sum_of_uniforms_contains_uniform : forall a a' R,
  0 <= R -> forall o, sd_num (a + o) (a' + o) R = sd_num a a' R.
Proof. exact sum_of_uniforms_contains_uniform. Qed.
Print Assumptions C18_sum_of_uniforms_contains_uniform.

(** scale * r + r0 with r uniform below E and r0 uniform below scale is uniform below scale * E. *)
Theorem C18_scaled_mask_bijection : forall s E, 0 < s -> 0 <= E ->
  forall y, 0 <= y < s * E -> exists! p : Z * Z,
      (0 <= fst p < E /\ 0 <= snd p < s) /\ s * fst p + snd p = y.
Proof. exact scaled_mask_bijection. Qed.
Print Assumptions C18_scaled_mask_bijection.

(** A table row that meets its obligation at a parameter point bounds the distance of that opening:
    SD * 2^k <= 2^slack, slack = ceil(log2 (number of summands)). *)
Theorem C18_row_obligation_sound : forall r prss e,
  kind r = KAdditive -> 0 <= e Vk -> row_ok_at r prss e = true ->
  forall a a', Z.abs (a - a') < meval (secret r) e ->
    let R := mask_range r prss e in
    sd_num a a' R * 2 ^ (e Vk) <= R * 2 ^ slack (row_dealers r prss e).
Proof. exact row_ok_additive_sound. Qed.
Print Assumptions C18_row_obligation_sound.

(** The computed grid check is a theorem about every grid point. *)
Theorem C18_row_grid_sound : forall r, row_ok_grid r = true ->
  forall e, In e (grid_envs r) -> pre_holds r e = true ->
    forall prss, In prss (row_modes r) -> row_ok_at r prss e = true.
Proof. exact row_ok_grid_sound. Qed.
Print Assumptions C18_row_grid_sound.

(** _randoms' rounding of a power-of-two bound loses at most ceil(log2 d) bits, for all e and d. *)
Theorem C18_eff_bound_pow2 : forall e d, 0 <= e -> 1 <= d -> 2 ^ e <= eff_bound (2 ^ e) d * 2 ^ slack d.
Proof. exact eff_bound_pow2. Qed.
Print Assumptions C18_eff_bound_pow2.

(** For-all-parameters form of the obligation for rows of shape bound = 2^eb, scale = 2^es, secret = 2^esec. *)
Theorem C18_pow2_row_ok : forall r prss e eb es esec b,
  kind r = KAdditive -> bound r = BExpr b -> bvia r = ViaRandoms -> meval (cap r) e = 0 ->
  meval b e = 2 ^ eb -> meval (scale r) e = 2 ^ es -> meval (secret r) e = 2 ^ esec ->
  0 <= eb -> 0 <= es -> 0 <= esec -> 0 <= e Vk -> 1 <= row_dealers r prss e ->
  esec + e Vk <= eb + es ->
  row_ok_at r prss e = true.
Proof. exact pow2_row_ok. Qed.
Print Assumptions C18_pow2_row_ok.

(** Opening a local product of two degree-t sharings with threshold 2t WITHOUT a fresh zero sharing: exhaustive
    count over GF(11), m = 3, t = 1, view of one party: two nonzero secrets have almost disjoint views. *)
Theorem C18_unrerandomised_product_leaks_refuted :
  List.length (toy_views 1) = 1210%nat /\
  (forall a', In a' (zrange 2 9) -> overlap 1 a' = 110%nat) /\
  exists v, In v (toy_views 1) /\ reachable v (toy_views 2) = false.
Proof. exact unrerandomised_product_leaks_refuted. Qed.
Print Assumptions C18_unrerandomised_product_leaks_refuted.

(** ... and WITH a uniform degree-2 zero sharing the opened polynomial is uniform given its constant term. *)
Theorem C18_rerandomised_product_uniform :
  forall h1 h2 y1 y2, In h1 Fp -> In h2 Fp -> In y1 Fp -> In y2 Fp -> zero_sharing_count h1 h2 y1 y2 = 1%nat.
Proof. exact rerandomised_product_uniform. Qed.
Print Assumptions C18_rerandomised_product_uniform.

(** Two openings masked by the SAME zero sharing: the mask cancels in the difference (exhaustive count, GF(7)). *)
Theorem C18_zero_sharing_reuse_leaks_refuted :
  Z.of_nat (List.length (reuse_views 1)) = 12348 /\
  forall a', In a' (zrange 2 5) -> reuse_overlap 1 a' = 1764%nat.
Proof. exact zero_sharing_reuse_leaks_refuted. Qed.
Print Assumptions C18_zero_sharing_reuse_leaks_refuted.

(** Non-vacuity. *)
Example C18_sd_shift_nonvacuous : sd_num 10 13 8 = 3 /\ sd_num 10 30 8 = 8 /\ sd_num 13 10 8 = 3.
Proof. vm_compute. auto. Qed.

Example C18_mask_bits_nonvacuous :
  Z.abs (5 - 12) < 2 ^ 3 /\ sd_num 5 12 (2 ^ (3 + 4)) * 2 ^ 4 <= 2 ^ (3 + 4) /\ sd_num 5 12 (2 ^ (3 + 4)) = 7.
Proof. vm_compute. repeat split; discriminate. Qed.

Example C18_mult_blind_nonvacuous : prime 11 /\ 3 mod 11 <> 0 /\ map (fun r => (3 * r) mod 11) [1;2;3;4;5;6;7;8;9;10] = [3;6;9;1;4;7;10;2;5;8].
Proof. split; [apply is_prime_small_correct; reflexivity|]. split; [discriminate|reflexivity]. Qed.

(** sgn's row (bound 1<<k through _randoms, scale 2^l, secret range 2^l) at l = 32, k = 30, m = 5, t = 2, PRSS:
    it meets the obligation; the same row with the bound of the np-pow site, 1 << ((l+k)//(t+1)), does not. *)
Example C18_row_nonvacuous :
  let sgn := MkRow "sgn"%string KAdditive MBoth (BExpr (Shl (Const 1) (Var Vk))) ViaRandoms
                   (Shl (Const 1) (Var Vl)) (Shl (Const 1) (Var Vl)) (Const 0) [] in
  let bad := MkRow "pow"%string KAdditive MDealers
                   (BExpr (Shl (Const 1) (FloorDiv (Add (Var Vl) (Var Vk)) (Add (Var Vt) (Const 1))))) ViaDirect
                   (Const 1) (Shl (Const 1) (Var Vl)) (Const 0) [] in
  let e := mk_env 32 32 30 0 2 5 2 2 in
  row_ok_at sgn true e = true /\ row_ok_at sgn false e = true /\ row_ok_at bad false e = false /\
  mask_range bad false e = 2 ^ 20.
Proof. vm_compute. auto. Qed.

(** ---- layout of the shared random bits in list / array truncation (runtime.trunc, np_trunc) ----
    element j's low mask is the value of the slice r_bits[f*j : f*(j+1)]; the slices are disjoint and cover the
    bit vector, so bit vectors of length f*n and mask vectors in [0,2^f)^n are in bijection: uniform independent
    bits give uniform, mutually INDEPENDENT low masks for the n openings of one call (for all f and n). *)
Theorem C18_low_masks_range : forall f n bs, Forall bit bs -> List.length bs = (f * n)%nat ->
  Forall (fun m => 0 <= m < 2 ^ Z.of_nat f) (low_masks f n bs).
Proof. exact low_masks_range. Qed.
Print Assumptions C18_low_masks_range.
Theorem C18_low_masks_injective : forall f n bs bs', Forall bit bs -> Forall bit bs' ->
  List.length bs = (f * n)%nat -> List.length bs' = (f * n)%nat -> low_masks f n bs = low_masks f n bs' -> bs = bs'.
Proof. exact low_masks_inj. Qed.
Print Assumptions C18_low_masks_injective.
Theorem C18_low_masks_surjective : forall f ms, Forall (fun m => 0 <= m < 2 ^ Z.of_nat f) ms ->
  Forall bit (bits_of_masks f ms) /\ List.length (bits_of_masks f ms) = (f * List.length ms)%nat /\
  low_masks f (List.length ms) (bits_of_masks f ms) = ms.
Proof. exact low_masks_surj. Qed.
Print Assumptions C18_low_masks_surjective.
(** non-vacuity, and the overlapping layout r_bits[j : j+f] is not injective (so its masks are dependent) *)
Example C18_low_masks_nonvacuous :
  low_masks 3 2 [1;0;1; 0;1;1] = [5; 6] /\
  low_masks_overlap 2 2 [0;0;0;1] = low_masks_overlap 2 2 [0;0;0;0].
Proof. split; reflexivity. Qed.
