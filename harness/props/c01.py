"""C01 — secure integer operations are exact in every party configuration.

Proof (value level): coq/props/C01.v over coq/theories/Masked.v (masked-opening protocols as
functions on integers modulo the field prime with explicit random tapes) and Divsteps.v.
Tie / search: generated expression programs over secint(l) run in the multi-party simulator under
every (m, t, PRSS) configuration on genuinely shared inputs; every node of every program is opened
and compared with a plain Python-int interpreter, on every receiving party.  The Coq models are
evaluated (vm_compute) on the operands that occurred in those runs with many random in-range tapes
and must equal both the Python oracle and the implementation's outputs.
"""
import math, random, itertools
from lib.core import zlit, zlist

MANIFEST = {
    'text': 'Value-level theorems in Coq (Masked.v, Divsteps.v; 26 statements in props/C01.v, all closed under the global '
            'context): for every random tape in the range the code draws from and every field prime p > 2^(l+k+1), the '
            'masked-opening protocols trunc (floor or floor+1), lsb, _mod and floor division by a public divisor b > 0 '
            '(Python sign convention), sgn in its LT / EQ / full variants (for -2^l <= a < 2^l, which covers a-b of two l-bit '
            'values), abs, is_zero_public (good tape r != 0; bad tape characterised), pow by square-and-multiply, '
            'if_else/if_swap, the n%2 pairing recursion of prod/all (every length), sum, in_prod, matrix_prod incl. the '
            'symmetric A*A^T shortcut compute exactly the Python integer result modulo p; Bernstein-Yang divsteps '
            'invariants for all step counts (f odd, gcd preserved, Bezout bookkeeping, delta parity and delta_gt0 '
            'equivalence), gcd/lcm/gcdext/inverse correct under the explicit hypothesis BY_bound l, which is proved by '
            'exhaustive computation for l <= 9. Tie: generated expression programs (all C01 operations, inputs shared with '
            'mpc.input from varying senders, values concentrated at the range extremes, intermediate values within l bits) '
            'run in the multi-party simulator for (m,t) in {(1,0),(2,0),(3,1),(4,1),(5,2)} x PRSS on/off (thorough adds '
            '(7,3)), l in {8,16,32,64}; every node is opened and compared with Python int arithmetic on every receiving '
            'party, and all receiving parties must agree. The quick tier adds PRSS configurations with many subsets '
            '((7,3): 35, (6,2): 15) on a reduced budget of masked-opening operations. The tape-range hypotheses of the '
            'theorems are tied to the code: the divisor d, the rounded per-contribution bound and the number of dealers are '
            'extracted from the source of runtime._randoms on every run (fail closed) and the obligation "contributions * '
            '(per-contribution bound - 1) < bound" is compiled by vm_compute for all (m,t) with m <= 8, PRSS and no-PRSS. '
            'Aliasing stream: every list-taking operation (sum, prod, all, any, in_prod, matrix_prod, min, max, min_max, '
            'if_else/if_swap on lists, scalar_mul, schur_prod, vector_add/sub) is called, the caller\'s list is then '
            'reversed / overwritten / shortened / extended before the result is awaited (m = 1 asynchronous and m = 3); '
            'expected are the values at call time.',
    'note': 'Share-level layer (Shamir sharing, reshare, output recombination, PRSS) is proved elsewhere (C11-C15) and here '
            'covered only by the simulator runs. Correspondence model<->code for the masked protocols: the Coq models are '
            'evaluated by vm_compute on the operands that occurred in the runs (plus boundary operands up to +-2^l) under '
            'several in-range tapes each (all-minimal, all-maximal, random) and must equal the Python oracle and the outputs '
            'the implementation produced for the same operands (for trunc: the implementation result must lie in the '
            'model/oracle set {floor, floor+1}); the tapes actually drawn in the runs are NOT extracted, so the tie is '
            'input/output level, not trace level. Missing: _is_zero (Legendre-symbol zero test used only for l > 60; '
            'exercised by the l = 64 programs only), trailing_zeros/gcp2 bit protocols (gcp2 is idealised in Divsteps.v), '
            'tournament min/max (other property), the b = 254 addition chain of pow (modelled and compared, theorem '
            'excludes e = 254), composition theorem over expression programs. gcd/lcm/gcdext/inverse theorems are partial '
            '(BY_bound l assumed for l > 9: Bernstein-Yang Theorem 11.2 not re-proved; range of inverse proved for l <= 7). '
            'Probabilistic steps are exact only outside explicit bad tapes: is_zero_public r = 0, and _mod when the masked '
            'opening wraps (only possible for r_divb = 0, probability < 2^-k). Operator-to-method mapping of '
            'sectypes.SecureNumber is covered by the runs only. The number of PRSS contributions comb(m,t) is a model of '
            'thresha.pseudorandom_share (C15), not extracted. Observed outside C01: mpc.trunc(list) keeps no copy of a list '
            'argument, so editing the list before awaiting the result changes it (trunc is not a C01 operation; not in the '
            'aliasing stream).',
    'technique': 'Coq proofs of masked-opening integer lemmas + multi-party simulator differential testing against Python ints',
}

CONFIGS = [(1, 0), (2, 0), (3, 1), (4, 1), (5, 2)]


# ------------------------------------------------------------------------------------------------
# Python-int reference semantics (the oracle).  Each op: (args values, params) -> list of results.

def _sgn(a):
    return (a > 0) - (a < 0)


def py_eval(op, a, P):
    """a: list of argument values (ints or lists of ints); P: public parameters. Returns list."""
    if op == 'add':
        return [a[0] + a[1]]
    if op == 'sub':
        return [a[0] - a[1]]
    if op == 'mul':
        return [a[0] * a[1]]
    if op == 'addc':
        return [a[0] + P['c']]
    if op == 'rsubc':
        return [P['c'] - a[0]]
    if op == 'mulc':
        return [a[0] * P['c']]
    if op == 'neg':
        return [-a[0]]
    if op == 'pos':
        return [+a[0]]
    if op == 'pow':
        return [a[0] ** P['e']]
    if op == 'lshift':
        return [a[0] << P['j']]
    if op == 'rshift':
        return [a[0] >> P['j']]
    if op in ('lt', 'le', 'gt', 'ge', 'eq', 'ne'):
        x, y = a[0], (a[1] if len(a) > 1 else P['c'])
        return [int({'lt': x < y, 'le': x <= y, 'gt': x > y, 'ge': x >= y, 'eq': x == y, 'ne': x != y}[op])]
    if op == 'sgn':
        return [_sgn(a[0])]
    if op == 'sgn_lt':
        return [int(a[0] < 0)]
    if op in ('sgn_eq', 'is_zero'):
        return [int(a[0] == 0)]
    if op == 'abs':
        return [abs(a[0])]
    if op == 'min':
        return [min(a[0])]
    if op == 'max':
        return [max(a[0])]
    if op == 'min_max':
        return [min(a[0]), max(a[0])]
    if op == 'if_else':
        return [a[1] if a[0] else a[2]]
    if op == 'if_else_list':
        return list(a[1]) if a[0] else list(a[2])
    if op == 'if_swap':
        return [a[2], a[1]] if a[0] else [a[1], a[2]]
    if op == 'if_swap_list':
        return (list(a[2]) + list(a[1])) if a[0] else (list(a[1]) + list(a[2]))
    if op == 'floordiv':
        return [a[0] // P['b']]
    if op == 'mod':
        return [a[0] % P['b']]
    if op == 'divmod':
        return list(divmod(a[0], P['b']))
    if op == 'lsb':
        return [a[0] % 2]
    if op == 'sum':
        return [sum(a[0])]
    if op == 'prod':
        return [math.prod(a[0])]
    if op == 'all':
        return [int(all(a[0]))]
    if op == 'any':
        return [int(any(a[0]))]
    if op == 'in_prod':
        return [sum(x * y for x, y in zip(a[0], a[1]))]
    if op == 'in_prod_self':
        return [sum(x * x for x in a[0])]
    if op == 'matrix_prod':
        A, B = a[0], a[1]
        if P['tr']:
            return [sum(x * y for x, y in zip(r, c)) for r in A for c in B]
        return [sum(r[k] * B[k][j] for k in range(len(B))) for r in A for j in range(len(B[0]))]
    if op == 'matrix_prod_self':
        A = a[0]
        return [sum(x * y for x, y in zip(r, c)) for r in A for c in A]
    if op == 'gcd':
        return [math.gcd(a[0], a[1])]
    if op == 'lcm':
        return [math.lcm(a[0], a[1])]
    if op == 'gcdext':          # checked through g = gcd >= 0 and s*a + t*b = g
        return [math.gcd(a[0], a[1]), None, None]
    if op == 'inverse':
        return [pow(a[0], -1, a[1])]
    if op == 'gcp2':
        x, y = a
        if x == 0 and y == 0:
            return [None]        # code returns 2^l by convention; not a Python-int notion, not compared
        g = math.gcd(x, y)
        return [g & -g]
    if op in ('is_zero_public',):
        return [a[0] == 0]
    if op == 'eq_public':
        return [a[0] == a[1]]
    if op == 'trunc':           # probabilistic rounding: floor or floor + 1
        q = a[0] >> P['f']
        return [(q, q + 1)]
    raise ValueError(op)


async def mpc_eval(mpc, secint, op, a, P):
    """Same op on one party's runtime; a: secure objects / lists thereof. Returns flat list."""
    if op == 'add':
        return [a[0] + a[1]]
    if op == 'sub':
        return [a[0] - a[1]]
    if op == 'mul':
        return [a[0] * a[1]]
    if op == 'addc':
        return [a[0] + P['c']] if P.get('r') else [P['c'] + a[0]]
    if op == 'rsubc':
        return [P['c'] - a[0]]
    if op == 'mulc':
        return [a[0] * P['c']] if P.get('r') else [P['c'] * a[0]]
    if op == 'neg':
        return [-a[0]]
    if op == 'pos':
        return [+a[0]]
    if op == 'pow':
        return [a[0] ** P['e']]
    if op == 'lshift':
        return [a[0] << P['j']]
    if op == 'rshift':
        return [a[0] >> P['j']]
    if op in ('lt', 'le', 'gt', 'ge', 'eq', 'ne'):
        x, y = a[0], (a[1] if len(a) > 1 else P['c'])
        return [{'lt': lambda: x < y, 'le': lambda: x <= y, 'gt': lambda: x > y, 'ge': lambda: x >= y,
                 'eq': lambda: x == y, 'ne': lambda: x != y}[op]()]
    if op == 'sgn':
        return [mpc.sgn(a[0])]
    if op == 'sgn_lt':
        return [mpc.sgn(a[0], LT=True)]
    if op == 'sgn_eq':
        return [mpc.sgn(a[0], EQ=True)]
    if op == 'is_zero':
        return [mpc.is_zero(a[0])]
    if op == 'abs':
        return [abs(a[0])]
    if op == 'min':
        return [mpc.min(*a[0]) if P.get('star') else mpc.min(a[0])]
    if op == 'max':
        return [mpc.max(*a[0]) if P.get('star') else mpc.max(a[0])]
    if op == 'min_max':
        return list(mpc.min_max(a[0]))
    if op == 'if_else':
        return [a[0].if_else(a[1], a[2])] if P.get('m') else [mpc.if_else(a[0], a[1], a[2])]
    if op == 'if_else_list':
        return list(mpc.if_else(a[0], list(a[1]), list(a[2])))
    if op == 'if_swap':
        return list(mpc.if_swap(a[0], a[1], a[2]))
    if op == 'if_swap_list':
        x, y = mpc.if_swap(a[0], list(a[1]), list(a[2]))
        return list(x) + list(y)
    if op == 'floordiv':
        return [a[0] // P['b']]
    if op == 'mod':
        return [a[0] % P['b']]
    if op == 'divmod':
        return list(divmod(a[0], P['b']))
    if op == 'lsb':
        return [mpc.lsb(a[0])]
    if op == 'sum':
        return [mpc.sum(list(a[0]))]
    if op == 'prod':
        return [mpc.prod(list(a[0]))]
    if op == 'all':
        return [mpc.all(list(a[0]))]
    if op == 'any':
        return [mpc.any(list(a[0]))]
    if op == 'in_prod':
        return [mpc.in_prod(list(a[0]), list(a[1]))]
    if op == 'in_prod_self':
        x = list(a[0])
        return [mpc.in_prod(x, x)]
    if op == 'matrix_prod':
        C = mpc.matrix_prod([list(r) for r in a[0]], [list(r) for r in a[1]], P['tr'])
        return [c for r in C for c in r]
    if op == 'matrix_prod_self':
        A = [list(r) for r in a[0]]
        C = mpc.matrix_prod(A, A, True)
        return [c for r in C for c in r]
    if op == 'gcd':
        return [mpc.gcd(a[0], a[1])]
    if op == 'lcm':
        return [mpc.lcm(a[0], a[1])]
    if op == 'gcdext':
        return list(mpc.gcdext(a[0], a[1]))
    if op == 'inverse':
        return [mpc.inverse(a[0], a[1])]
    if op == 'gcp2':
        return [mpc.gcp2(a[0], a[1])]
    if op == 'is_zero_public':
        return [mpc.is_zero_public(a[0])]
    if op == 'eq_public':
        return [mpc.eq_public(a[0], a[1])]
    if op == 'trunc':
        return [mpc.trunc(a[0], f=P['f'])]
    raise ValueError(op)


PUBLIC_OPS = ('is_zero_public', 'eq_public')
HEAVY_OPS = ('gcd', 'lcm', 'gcdext', 'inverse', 'gcp2')


# ------------------------------------------------------------------------------------------------
# program generation

def extreme_value(rng, l):
    h = 1 << (l - 1)
    r = rng.random()
    if r < 0.30:
        return rng.choice([-h, h - 1, -h + 1, h - 2, -h + 2, -(h >> 1), h >> 1, (h >> 1) - 1])
    if r < 0.55:
        return rng.choice([0, 1, -1, 2, -2, 3, -3])
    if r < 0.80:
        return rng.randint(-12, 12)
    if r < 0.90:
        s = rng.randrange(1, l - 1)
        return rng.choice([1, -1]) * ((1 << s) + rng.choice([-1, 0, 1]))
    return rng.randint(-h, h - 1)


def divisors_pool(rng, l):
    h = 1 << (l - 1)
    return rng.choice([1, 2, 2, 3, 3, 4, 5, 7, 8, 10, 1 << rng.randrange(1, l - 1), (1 << rng.randrange(2, l - 1)) - 1,
                       h - 1, h - 2, rng.randint(1, h - 1), rng.randint(1, 40)])


LIGHT_WEIGHTS = {
    'add': 5, 'sub': 5, 'mul': 6, 'addc': 2, 'rsubc': 2, 'mulc': 2, 'neg': 2, 'pos': 1, 'pow': 4, 'lshift': 1, 'rshift': 2,
    'lt': 5, 'le': 3, 'gt': 3, 'ge': 3, 'eq': 4, 'ne': 3, 'sgn': 4, 'sgn_lt': 2, 'sgn_eq': 2, 'is_zero': 2, 'abs': 4,
    'min': 3, 'max': 3, 'min_max': 1, 'if_else': 4, 'if_else_list': 2, 'if_swap': 3, 'if_swap_list': 2,
    'floordiv': 5, 'mod': 6, 'divmod': 3, 'lsb': 4, 'sum': 3, 'prod': 5, 'all': 4, 'any': 3,
    'in_prod': 3, 'in_prod_self': 1, 'matrix_prod': 3, 'matrix_prod_self': 1,
    'is_zero_public': 2, 'eq_public': 2, 'trunc': 2,
}
HEAVY_WEIGHTS = {'gcd': 3, 'lcm': 2, 'gcdext': 3, 'inverse': 2, 'gcp2': 1}
# reduced budget for the many-subset configurations: the protocols that open a statistically masked value
MASKED_WEIGHTS = {'lt': 4, 'le': 2, 'gt': 2, 'ge': 2, 'eq': 3, 'ne': 1, 'sgn': 3, 'sgn_lt': 2, 'sgn_eq': 1, 'abs': 3,
                  'lsb': 4, 'mod': 5, 'floordiv': 2, 'rshift': 2, 'trunc': 3, 'gcp2': 1, 'min': 1, 'max': 1, 'sub': 2, 'add': 1}
# l = 64 > 2k: is_zero / == / != go through the probabilistic Legendre-symbol test _is_zero
ZERO64_WEIGHTS = {'eq': 4, 'ne': 2, 'is_zero': 4, 'sub': 1, 'add': 1, 'neg': 1}
MANY_SUBSETS = [(7, 3, False), (6, 2, False)]          # PRSS with comb(m,t) = 35 / 15 subsets


class Gen:
    """Builds a program: inputs (value, sender slot) and instructions [op, args, params, first_node, n_results]."""

    def __init__(self, rng, l, n_inputs):
        self.rng, self.l = rng, l
        self.h = 1 << (l - 1)
        self.vals = []          # value per node: int | bool | tuple (allowed set) | None (unchecked)
        self.kind = []          # 'int' | 'bit' | 'pub' | 'term'
        self.inputs = []
        self.instrs = []
        for i in range(n_inputs):
            v = extreme_value(rng, l)
            self.inputs.append([v, rng.randrange(64)])
            self.vals.append(v)
            self.kind.append('bit' if v in (0, 1) else 'int')

    def fits(self, v):
        return isinstance(v, int) and -self.h <= v < self.h

    def ints(self):
        return [i for i, k in enumerate(self.kind) if k in ('int', 'bit')]

    def bits(self):
        return [i for i, k in enumerate(self.kind) if k == 'bit']

    def pick(self):
        c = self.ints()
        r = self.rng.random()
        if r < 0.35:
            ext = [i for i in c if abs(self.vals[i]) >= self.h - 2]
            if ext:
                return self.rng.choice(ext)
        if r > 0.75:
            return self.rng.choice(c[-6:])
        return self.rng.choice(c)

    def pick_small(self, bound):
        c = [i for i in self.ints() if abs(self.vals[i]) <= bound]
        return self.rng.choice(c) if c else None

    def pick_bit(self):
        b = self.bits()
        return self.rng.choice(b) if b else None

    def emit(self, op, args, P, kinds=None):
        def val(x):
            return [val(y) for y in x] if isinstance(x, list) else self.vals[x]
        res = py_eval(op, [val(x) for x in args], P)
        bitops = ('lt', 'le', 'gt', 'ge', 'eq', 'ne', 'sgn_lt', 'sgn_eq', 'is_zero', 'lsb', 'all', 'any')
        for r in res:
            if isinstance(r, bool) or r is None or isinstance(r, tuple):
                continue
            if not self.fits(r):
                return False
        first = len(self.vals)
        for j, r in enumerate(res):
            self.vals.append(r)
            if op in PUBLIC_OPS:
                self.kind.append('pub')
            elif r is None or isinstance(r, tuple):
                self.kind.append('term')
            elif op in bitops or (r in (0, 1) and op in ('if_else', 'mod', 'min', 'max')):
                self.kind.append('bit')
            else:
                self.kind.append('int')
        self.instrs.append([op, args, P, first, len(res)])
        return True

    def try_op(self, op):
        rng, l, h = self.rng, self.l, self.h
        a, b = self.pick(), self.pick()
        if op in ('add', 'sub'):
            return self.emit(op, [a, b], {})
        if op == 'mul':
            if rng.random() < 0.7:
                b = self.pick_small(1 << (l // 2))
                if b is None:
                    return False
            if rng.random() < 0.15:
                b = a      # squaring: a is b path
            return self.emit(op, [a, b], {})
        if op in ('addc', 'rsubc'):
            return self.emit(op, [a], {'c': extreme_value(rng, l), 'r': rng.random() < 0.5})
        if op == 'mulc':
            return self.emit(op, [a], {'c': rng.choice([0, 1, -1, 2, -2, 3, 5, -7, rng.randint(-h, h - 1)]),
                                       'r': rng.random() < 0.5})
        if op in ('neg', 'pos', 'abs', 'sgn', 'sgn_lt', 'sgn_eq', 'is_zero', 'lsb', 'is_zero_public'):
            return self.emit(op, [a], {})
        if op == 'pow':
            e = rng.choice([0, 1, 2, 2, 3, 3, 4, 5, 6, 7, 254])
            if e >= 4 and rng.random() < 0.8:
                a = self.pick_small(3 if e > 7 else 1 << max(1, (l - 1) // e))
                if a is None:
                    return False
            return self.emit(op, [a], {'e': e})
        if op == 'lshift':
            return self.emit(op, [a], {'j': rng.randrange(0, l)})
        if op == 'rshift':
            return self.emit(op, [a], {'j': rng.randrange(0, l - 1)})
        if op in ('lt', 'le', 'gt', 'ge', 'eq', 'ne'):
            r = rng.random()
            if r < 0.2:
                return self.emit(op, [a], {'c': rng.choice([0, self.vals[a], -h, h - 1, extreme_value(rng, l)])})
            if r < 0.35:
                b = a
            return self.emit(op, [a, b], {})
        if op == 'eq_public':
            if rng.random() < 0.4:
                b = a
            return self.emit(op, [a, b], {})
        if op in ('min', 'max', 'min_max'):
            n = rng.choice([2, 2, 3, 4, 5])
            xs = [self.pick() for _ in range(n)]
            return self.emit(op, [xs], {'star': rng.random() < 0.5})
        if op in ('if_else', 'if_swap'):
            c = self.pick_bit()
            if c is None:
                return False
            return self.emit(op, [c, a, b], {'m': rng.random() < 0.5})
        if op in ('if_else_list', 'if_swap_list'):
            c = self.pick_bit()
            if c is None:
                return False
            n = rng.choice([1, 2, 3])
            return self.emit(op, [c, [self.pick() for _ in range(n)], [self.pick() for _ in range(n)]], {})
        if op in ('floordiv', 'mod', 'divmod'):
            return self.emit(op, [a], {'b': divisors_pool(rng, l)})
        if op == 'trunc':
            return self.emit(op, [a], {'f': rng.randrange(1, l - 1)})
        if op == 'sum':
            n = rng.choice([1, 2, 3, 5, 8])
            return self.emit(op, [[self.pick() for _ in range(n)]], {})
        if op == 'prod':
            n = rng.choice([1, 2, 3, 3, 4, 5, 6, 7, 7, 8, 9, 11])
            xs = []
            for _ in range(n):
                i = self.pick_small(rng.choice([1, 1, 2, 3, 1 << max(1, (l - 1) // n)]))
                if i is None:
                    return False
                xs.append(i)
            return self.emit(op, [xs], {})
        if op in ('all', 'any'):
            if not self.bits():
                return False
            n = rng.choice([1, 2, 3, 3, 4, 5, 6, 7, 7, 9, 11])
            return self.emit(op, [[self.pick_bit() for _ in range(n)]], {})
        if op in ('in_prod', 'in_prod_self'):
            n = rng.choice([1, 2, 3, 4])
            bd = 1 << max(1, (l - 2 - n.bit_length()) // 2)
            xs = [self.pick_small(bd) if rng.random() < 0.8 else self.pick() for _ in range(n)]
            ys = [self.pick_small(bd) for _ in range(n)]
            if None in xs or None in ys:
                return False
            return self.emit(op, [xs] if op == 'in_prod_self' else [xs, ys], {})
        if op in ('matrix_prod', 'matrix_prod_self'):
            n1, n, n2 = rng.choice([1, 2, 3]), rng.choice([1, 2, 3]), rng.choice([1, 2])
            bd = 1 << max(1, (l - 2 - n.bit_length()) // 2)

            def mat(r, c):
                return [[self.pick_small(bd) for _ in range(c)] for _ in range(r)]
            A = mat(n1, n)
            if op == 'matrix_prod_self':
                if any(x is None for r in A for x in r):
                    return False
                return self.emit(op, [A], {})
            tr = rng.random() < 0.5
            B = mat(n2, n) if tr else mat(n, n2)
            if any(x is None for r in A + B for x in r):
                return False
            return self.emit(op, [A, B], {'tr': tr})
        if op in ('gcd', 'lcm', 'gcdext', 'gcp2'):
            return self.emit(op, [a, b], {})
        if op == 'inverse':
            c = self.ints()
            pairs = [(i, j) for i in c for j in c if self.vals[i] >= 0 and self.vals[j] > 0
                     and math.gcd(self.vals[i], self.vals[j]) == 1]
            if not pairs:
                return False
            i, j = rng.choice(pairs)
            return self.emit(op, [i, j], {})
        raise ValueError(op)

    def build(self, n_ops, weights):
        ops, ws = zip(*sorted(weights.items()))
        tries = 0
        while len(self.instrs) < n_ops and tries < 60 * n_ops:
            tries += 1
            self.try_op(self.rng.choices(ops, ws)[0])
        return {'l': self.l, 'inputs': self.inputs, 'instrs': self.instrs}


def make_prog(program, receivers):
    l, inputs, instrs = program['l'], program['inputs'], program['instrs']

    async def prog(mpc, mods, pid):
        m = len(mpc.parties)
        secint = mpc.SecInt(l)
        nodes = [None] * len(inputs)
        by_sender = {}
        for i, (v, slot) in enumerate(inputs):
            by_sender.setdefault(slot % m, []).append(i)
        for s in sorted(by_sender):
            idx = by_sender[s]
            xs = mpc.input([secint(inputs[i][0] if pid == s else 0) for i in idx], senders=s)
            for i, x in zip(idx, xs):
                nodes[i] = x

        def arg(x):
            return [arg(y) for y in x] if isinstance(x, list) else nodes[x]
        for op, args, P, first, nres in instrs:
            res = await mpc_eval(mpc, secint, op, [arg(x) for x in args], P)
            assert len(res) == nres and first == len(nodes), (op, len(res), nres)
            nodes.extend(res)
        sec_idx = [i for i, x in enumerate(nodes) if isinstance(x, secint)]
        oth_idx = [i for i in range(len(nodes)) if i not in set(sec_idx)]
        outs = await mpc.output([nodes[i] for i in sec_idx], receivers=receivers)
        final = [None] * len(nodes)
        for i, v in zip(sec_idx, outs):
            final[i] = None if v is None else int(v)
        for i in oth_idx:
            v = nodes[i]
            if hasattr(v, '__await__') or hasattr(v, 'add_done_callback'):
                v = await v
            final[i] = v if isinstance(v, bool) else ('?', repr(v))
        return final
    return prog


def check_outputs(program, vals, kinds, res, receivers, m):
    """Return list of (node, party, got, want) for every wrong / inconsistent output."""
    bad = []
    instr_of = {}
    for ins in program['instrs']:
        for j in range(ins[4]):
            instr_of[ins[3] + j] = (ins, j)
    recv = set(range(m)) if receivers is None else set(receivers)
    for pid, out in enumerate(res):
        if not isinstance(out, list):
            bad.append((-1, pid, out, 'list of outputs'))
            continue
        for i, got in enumerate(out):
            want = vals[i]
            if kinds[i] == 'pub':
                if got is not want:
                    bad.append((i, pid, got, want))
                continue
            if pid not in recv:
                if got is not None:
                    bad.append((i, pid, got, 'None (not a receiver)'))
                continue
            if isinstance(want, tuple):
                if got not in want:
                    bad.append((i, pid, got, list(want)))
            elif want is None:
                ins, j = instr_of[i]
                if ins[0] == 'gcdext' and j == 2:
                    a, b = vals[ins[1][0]], vals[ins[1][1]]
                    g, s, t = out[ins[3]], out[ins[3] + 1], out[ins[3] + 2]
                    if not (isinstance(s, int) and isinstance(t, int) and s * a + t * b == g):
                        bad.append((i, pid, [g, s, t], 's*a+t*b == g for a=%d b=%d' % (a, b)))
            elif got != want:
                bad.append((i, pid, got, want))
    # every receiving party obtains the same value (also for probabilistically rounded results)
    outs = [res[p] for p in sorted(recv) if isinstance(res[p], list)]
    for o in outs[1:]:
        if o != outs[0]:
            d = [i for i in range(len(o)) if o[i] != outs[0][i]]
            bad.append((d[0] if d else -1, -1, 'parties disagree', [x[d[0]] for x in outs] if d else None))
            break
    return bad


def describe(program, node):
    for ins in program['instrs']:
        if ins[3] <= node < ins[3] + ins[4]:
            return ins[0]
    return 'input' if 0 <= node < len(program['inputs']) else 'run'


# ------------------------------------------------------------------------------------------------
# Coq model expressions for the masked protocols (Masked.v); tape values drawn in the code's ranges

def rbits(rng, n, special=None):
    if special == 0:
        return [0] * n
    if special == 1:
        return [1] * n
    return [rng.getrandbits(1) for _ in range(n)]


def rand_below(rng, bound, special=None):
    if special == 0:
        return 0
    if special == 1:
        return bound - 1
    return rng.randrange(bound)


def bits_le(v, n):
    return [(v >> i) & 1 for i in range(n)]


def model_exprs(rng, p, l, k, op, a, P, ntapes):
    """List of (coq_expr, want) for op on operand values a (Python ints), several tapes drawn in the
    ranges the code draws from (tape 0: all-minimal, tape 1: all-maximal, then random).
    want: int (mod p), bool, or set of ints (mod p)."""
    out = []
    Z = zlit
    if op in ('lt', 'gt', 'le', 'ge', 'eq', 'ne') and len(a) == 2:
        # comparisons are sgn(x - y, LT) / is_zero(x - y) (+ a local 1 - .): model the protocol on the difference
        d = {'lt': a[0] - a[1], 'ge': a[0] - a[1], 'gt': a[1] - a[0], 'le': a[1] - a[0], 'eq': a[0] - a[1], 'ne': a[0] - a[1]}[op]
        return model_exprs(rng, p, l, k, 'sgn_eq' if op in ('eq', 'ne') else 'sgn_lt', [d], P, ntapes)
    for tno in range(ntapes):
        sp = tno if tno < 2 else None
        ssign = rng.choice([1, p - 1]) if sp is None else (1 if sp else p - 1)
        rz = rng.randrange(1, p) if sp is None else (1 if sp == 0 else p - 1)
        if op in ('sgn', 'sgn_lt', 'sgn_eq', 'is_zero'):
            x = a[0]
            mode = {'sgn': 0, 'sgn_lt': 1, 'sgn_eq': 2, 'is_zero': 2}[op]
            e = 'sgn_v %s %s %s %s %s %s %s %s' % (Z(p), Z(l), Z(mode), Z(x % p), zlist(rbits(rng, l, sp)),
                                                    Z(rand_below(rng, 1 << k, sp)), Z(ssign), Z(rz))
            want = {0: _sgn(x), 1: int(x < 0), 2: int(x == 0)}[mode] % p
        elif op == 'lsb' or (op == 'mod' and P.get('b') == 2):
            e = 'lsb_v %s %s %s %s %s' % (Z(p), Z(l), Z(a[0] % p), Z(rng.getrandbits(1) if sp is None else sp),
                                          Z(rand_below(rng, 1 << (l + k - 1), sp)))
            want = (a[0] % 2) % p
        elif op in ('mod', 'floordiv'):
            b = P['b']
            nb = (b - 1).bit_length()
            rm = rand_below(rng, b, sp)          # _randbelow(b): bits of a secret value < b
            e = '%s %s %s %s %s %s %s %s %s' % ('mod_v' if op == 'mod' else 'floordiv_v', Z(p), Z(l), Z(b), Z(a[0] % p),
                                                zlist(bits_le(rm, nb)), Z(rand_below(rng, 1 << k, sp)), Z(ssign), Z(rz))
            want = (a[0] % b if op == 'mod' else a[0] // b) % p
        elif op == 'trunc':
            f = P['f']
            e = 'trunc_v %s %s %s %s %s %s' % (Z(p), Z(l), Z(f), Z(a[0] % p), zlist(rbits(rng, f, sp)),
                                               Z(rand_below(rng, 1 << (k + l - f), sp)))
            q = a[0] >> f
            want = {q % p, (q + 1) % p}
        elif op == 'is_zero_public':
            e = 'is_zero_public_v %s %s %s' % (Z(p), Z(a[0] % p), Z(rz))
            want = a[0] == 0
        elif op == 'abs':
            e = 'abs_v %s %s %s %s %s %s %s' % (Z(p), Z(l), Z(a[0] % p), zlist(rbits(rng, l, sp)),
                                                Z(rand_below(rng, 1 << k, sp)), Z(ssign), Z(rz))
            want = abs(a[0]) % p
        elif op == 'pow':
            return [('pow_v %s %s %s' % (Z(p), Z(a[0] % p), Z(P['e'])), (a[0] ** P['e']) % p)]
        elif op in ('prod', 'all'):
            return [('prod_v %s %s' % (Z(p), zlist([x % p for x in a[0]])), math.prod(a[0]) % p)]
        elif op == 'if_else':
            return [('if_else_v %s %s %s %s' % (Z(p), Z(a[0] % p), Z(a[1] % p), Z(a[2] % p)), (a[1] if a[0] else a[2]) % p)]
        elif op == 'if_swap':
            return [('if_swap_v %s %s %s %s' % (Z(p), Z(a[0] % p), Z(a[1] % p), Z(a[2] % p)),
                     ((a[2] if a[0] else a[1]) % p, (a[1] if a[0] else a[2]) % p))]
        elif op == 'in_prod':
            return [('in_prod_v %s %s %s' % (Z(p), zlist([x % p for x in a[0]]), zlist([x % p for x in a[1]])),
                     sum(x * y for x, y in zip(a[0], a[1])) % p)]
        elif op == 'sum':
            return [('sum_v %s %s' % (Z(p), zlist([x % p for x in a[0]])), sum(a[0]) % p)]
        elif op == 'matrix_prod':
            A, B = a[0], a[1]
            Bt = B if P['tr'] else [list(c) for c in zip(*B)]
            want = [[sum(x * y for x, y in zip(r, c)) % p for c in Bt] for r in A]
            return [('matrix_prod_v %s [%s] [%s]' % (Z(p), '; '.join(zlist([x % p for x in r]) for r in A),
                                                     '; '.join(zlist([x % p for x in r]) for r in Bt)), want)]
        elif op == 'matrix_prod_self':
            A = a[0]
            want = [[sum(x * y for x, y in zip(r, c)) % p for c in A] for r in A]
            return [('matrix_prod_sym_v %s [%s]' % (Z(p), '; '.join(zlist([x % p for x in r]) for r in A)), want)]
        else:
            return []
        out.append((e, want))
    return out


MODEL_OPS = ('sgn', 'sgn_lt', 'sgn_eq', 'is_zero', 'lsb', 'mod', 'floordiv', 'trunc', 'is_zero_public', 'pow', 'abs',
             'prod', 'all', 'if_else', 'if_swap', 'in_prod', 'sum', 'matrix_prod', 'matrix_prod_self',
             'lt', 'gt', 'le', 'ge', 'eq', 'ne')


# ------------------------------------------------------------------------------------------------

# ------------------------------------------------------------------------------------------------
# As-coded mask bounds: extracted from the SOURCE of runtime._randoms / runtime._convert on every run
# (fail closed) and checked in Coq against the tape-range hypotheses of the theorems.

class ExtractError(Exception):
    pass


COQ_MASK_PREAMBLE = """
Local Open Scope Z_scope.
Fixpoint binom (n k : nat) : nat :=
  match n, k with _, O => 1%nat | O, S _ => 0%nat | S n', S k' => (binom n' k' + binom n' k)%nat end.
Definition zcomb (a b : Z) : Z := Z.of_nat (binom (Z.to_nat a) (Z.to_nat b)).
Definition blen (x : Z) : Z := if x <=? 0 then 0 else Z.log2 x + 1.
Definition mtpairs : list (Z * Z) :=
  flat_map (fun m => map (fun t => (Z.of_nat m, Z.of_nat t)) (filter (fun t => Nat.ltb (2 * t) m) (seq 0 5))) (seq 1 8).
Definition zseq (lo n : nat) : list Z := map Z.of_nat (seq lo n).
"""


def _unparse(n):
    import ast
    return ast.unparse(n)


def coq_of_expr(node, names):
    """Python arithmetic AST -> Coq Z expression. names: allowed Python names -> Coq variable.
    Anything outside the small grammar raises ExtractError (fail closed)."""
    import ast
    def tr(n):
        if isinstance(n, ast.Constant) and isinstance(n.value, int) and not isinstance(n.value, bool):
            return '(%d)' % n.value
        if isinstance(n, ast.Name) and n.id in names:
            return names[n.id]
        if isinstance(n, ast.BinOp):
            a, b = tr(n.left), tr(n.right)
            if isinstance(n.op, ast.Add):
                return '(%s + %s)' % (a, b)
            if isinstance(n.op, ast.Sub):
                return '(%s - %s)' % (a, b)
            if isinstance(n.op, ast.Mult):
                return '(%s * %s)' % (a, b)
            if isinstance(n.op, ast.FloorDiv):
                return '(%s / %s)' % (a, b)
            if isinstance(n.op, ast.LShift):
                return '(%s * 2 ^ %s)' % (a, b)
        if isinstance(n, ast.IfExp) and _unparse(n.test) == 'self.options.no_prss':
            return '(if noprss then %s else %s)' % (tr(n.body), tr(n.orelse))
        if isinstance(n, ast.Call):
            f = _unparse(n.func)
            if f == 'math.comb' and len(n.args) == 2 and not n.keywords:
                return '(zcomb %s %s)' % (tr(n.args[0]), tr(n.args[1]))
            if f == 'max' and len(n.args) == 2 and not n.keywords:
                return '(Z.max %s %s)' % (tr(n.args[0]), tr(n.args[1]))
            if isinstance(n.func, ast.Attribute) and n.func.attr == 'bit_length' and not n.args and not n.keywords:
                return '(blen %s)' % tr(n.func.value)
        raise ExtractError('expression outside the translated grammar: %s' % _unparse(n))
    return tr(node)


def _method(repo, name):
    import ast, os
    src = open(os.path.join(repo, 'mpyc', 'runtime.py')).read()
    tree = ast.parse(src)
    for cls in tree.body:
        if isinstance(cls, ast.ClassDef) and cls.name == 'Runtime':
            fs = [f for f in cls.body if isinstance(f, (ast.FunctionDef, ast.AsyncFunctionDef)) and f.name == name]
            if len(fs) == 1:
                return fs[0]
    raise ExtractError('Runtime.%s not found exactly once' % name)


def _senders_count(fn, names):
    """`senders = tuple((uci + i) % m for i in range(<count>))` -> Coq expression of <count>."""
    import ast
    found = []
    for n in ast.walk(fn):
        if isinstance(n, ast.Assign) and len(n.targets) == 1 and _unparse(n.targets[0]) == 'senders':
            v = n.value
            if not (isinstance(v, ast.Call) and _unparse(v.func) == 'tuple' and len(v.args) == 1
                    and isinstance(v.args[0], ast.GeneratorExp) and len(v.args[0].generators) == 1):
                raise ExtractError('unexpected senders assignment: %s' % _unparse(n))
            g = v.args[0].generators[0]
            if not (_unparse(v.args[0].elt) == '(uci + i) % m' and isinstance(g.iter, ast.Call)
                    and _unparse(g.iter.func) == 'range' and len(g.iter.args) == 1 and not g.ifs):
                raise ExtractError('unexpected senders assignment: %s' % _unparse(n))
            found.append(coq_of_expr(g.iter.args[0], names))
    if len(set(found)) != 1:
        raise ExtractError('senders assignment not found / not unique: %s' % found)
    return found[0]


def extract_randoms(repo):
    """From Runtime._randoms: (d, effective per-contribution bound as a function of `bound` and `d`, number of dealers).
    Also requires that the dealers draw `secrets.randbelow(bound)` and PRSS uses `self.prfs(bound)`."""
    import ast
    fn = _method(repo, '_randoms')
    names = {'t': 't', 'm': 'm', 'bound': 'B', 'd': 'd'}
    d_expr = eff_expr = None
    for n in ast.walk(fn):
        if isinstance(n, ast.If) and _unparse(n.test) == 'bound is None':
            body = n.orelse
            if len(body) != 2 or not all(isinstance(b, ast.Assign) and len(b.targets) == 1 for b in body):
                raise ExtractError('_randoms: unexpected bound-scaling block: %s' % [_unparse(b) for b in body])
            if _unparse(body[0].targets[0]) != 'd' or _unparse(body[1].targets[0]) != 'bound':
                raise ExtractError('_randoms: unexpected bound-scaling block: %s' % [_unparse(b) for b in body])
            d_expr = coq_of_expr(body[0].value, names)
            eff_expr = coq_of_expr(body[1].value, names)
    if d_expr is None:
        raise ExtractError('_randoms: `if bound is None: ... else: d = ...; bound = ...` not found')
    src = _unparse(fn)
    for need in ('secrets.randbelow(bound)', 'self.prfs(bound)', 'thresha.pseudorandom_share(field, m, self.pid, self.prfs(bound), self._prss_uci(), n)'):
        if need not in src:
            raise ExtractError('_randoms: expected `%s`' % need)
    return {'d': d_expr, 'eff': eff_expr, 'dealers': _senders_count(fn, names)}


def extract_convert(repo):
    """From Runtime._convert: the mask bound for non-field sources as a function of (k, l, m, t, noprss), number of dealers."""
    import ast
    fn = _method(repo, '_convert')
    names = {'t': 't', 'm': 'm', 'k': 'k', 'l': 'l'}

    def bound_of(stmts):
        res = None
        for st in stmts:
            if isinstance(st, ast.Assign) and len(st.targets) == 1:
                tg = _unparse(st.targets[0])
                if tg == 'k' and _unparse(st.value) == 'self.options.sec_param':
                    continue
                if tg == 'l' and _unparse(st.value) == 'min(s_type.bit_length, t_type.bit_length)':
                    continue
                if tg == 'bound':
                    res = coq_of_expr(st.value, names)
                    continue
            if isinstance(st, ast.If) and _unparse(st.test) == 'self.options.no_prss' and st.orelse:
                a, b = bound_of(st.body), bound_of(st.orelse)
                if a is None or b is None:
                    raise ExtractError('_convert: a branch does not assign bound')
                res = '(if noprss then %s else %s)' % (a, b)
                continue
            raise ExtractError('_convert: unexpected statement in bound selection: %s' % _unparse(st)[:80])
        return res
    bexpr = None
    for n in ast.walk(fn):
        if isinstance(n, ast.If) and _unparse(n.test) == 's_is_SecureFiniteField' and \
                len(n.body) == 1 and _unparse(n.body[0]) == 'bound = s_field.order':
            bexpr = bound_of(n.orelse)
    if bexpr is None:
        raise ExtractError('_convert: bound selection not found')
    src = _unparse(fn)
    for need in ('r = [secrets.randbelow(bound) for _ in range(n)]', 'prfs = self.prfs(bound)',
                 's_r = thresha.pseudorandom_share(s_field, m, self.pid, prfs, uci, n)',
                 't_r = thresha.pseudorandom_share(t_field, m, self.pid, prfs, uci, n)',
                 's_r = list(map(sum, zip(*s_r)))', 't_r = list(map(sum, zip(*t_r)))'):
        if need not in src:
            raise ExtractError('_convert: expected `%s`' % need)
    return {'bound': bexpr, 'dealers': _senders_count(fn, names)}


def randoms_obligation(ex):
    """Coq expression: list of (m, t, noprss, e) with m <= 8 for which the sum of the contributions to
    _randoms(.., bound = 2^e) can reach 2^e, i.e. violates the theorems' hypothesis r < 2^e. Must be []."""
    return ('filter (fun q : Z * Z * bool * Z => let \'(m, t, noprss, e) := q in let B := 2 ^ e in let d := %s in '
            'let eff := %s in let n := if noprss then %s else zcomb m t in negb (n * (eff - 1) <? B)) '
            '(flat_map (fun mt : Z * Z => flat_map (fun np : bool => map (fun e => (fst mt, snd mt, np, e)) (zseq 0 131)) '
            '[true; false]) mtpairs)' % (ex['d'], ex['eff'], ex['dealers']))


def convert_obligation(ex, k):
    """Coq expression: list of (m, t, noprss, l) for which dealers * (bound - 1) > 2^(k+l) (hypothesis r <= 2^(k+l) of
    convert_int_correct / convert_fxp_to_int_rounds). Must be []."""
    return ('filter (fun q : Z * Z * bool * Z => let \'(m, t, noprss, l) := q in let k := %d in let bound := %s in '
            'let n := if noprss then %s else zcomb m t in negb (n * (bound - 1) <=? 2 ^ (k + l))) '
            '(flat_map (fun mt : Z * Z => flat_map (fun np : bool => map (fun l => (fst mt, snd mt, np, l)) (zseq 1 64)) '
            '[true; false]) mtpairs)' % (k, ex['bound'], ex['dealers']))


def check_mask_bounds(ctx, which, k=30):
    """Extract + compile the obligations. Failures go to ctx.broken (a broken proof: the theorems' tape-range
    hypotheses are not implied by the code as it stands). Returns True iff all obligations hold."""
    from lib.core import REPO
    good = True
    try:
        exprs, names = [], []
        if 'randoms' in which:
            ex = extract_randoms(REPO)
            ctx.extra['as_coded_randoms'] = ex
            exprs.append(randoms_obligation(ex))
            names.append('_randoms: contributions * (per-contribution bound - 1) < bound, all (m,t) with m <= 8, PRSS/no-PRSS, bound = 2^0..2^130')
        if 'convert' in which:
            ex = extract_convert(REPO)
            ctx.extra['as_coded_convert_bound'] = ex
            exprs.append(convert_obligation(ex, k))
            names.append('_convert: contributions * (bound - 1) <= 2^(k+l), all (m,t) with m <= 8, PRSS/no-PRSS, l = 1..64, k = %d' % k)
    except ExtractError as e:
        ctx.broken.append({'kind': 'mask-bound extraction', 'detail': str(e)})
        ctx.log('mask-bound extraction FAILED (fail closed): %s' % e)
        return False
    res = ctx.coq_eval([], exprs, preamble=COQ_MASK_PREAMBLE, tag=ctx.prop + 'mask')
    for nm, r in zip(names, res):
        ctx.obligations += 1
        if r == []:
            ctx.discharged += 1
            ctx.log('mask-bound obligation holds: %s' % nm)
        else:
            good = False
            ctx.broken.append({'kind': 'mask-bound obligation', 'obligation': nm, 'failing (m,t,noprss,e|l) instances': str(r)[:600]})
            ctx.log('mask-bound obligation FAILS: %s: %s' % (nm, str(r)[:300]))
    return good


# ------------------------------------------------------------------------------------------------
# Deterministic round budgets: every simulator run is bounded, so the check terminates on broken code
# (livelock: e.g. a retry loop that never succeeds keeps messages flowing, so idle detection never fires).
# Clean-tree measurements (quick+thorough, all configurations): FIFO delivery needs <= ~600 rounds for a light
# program, <= ~60 rounds per divstep iteration for a gcd-type operation; RandomOrder delivery up to ~30x that.
# base = generous estimate of the clean-tree need; budget = 50 x base (FIFO), 20 x 30 x base (RandomOrder), < 5*10^6.
MAX_LIVELOCK_REPORTS = 3
ROUND_CAP = 4500000


def round_budget(program, random_order):
    l = program['l']
    base = 400
    for ins in program['instrs']:
        base += {'gcd': 100, 'lcm': 110, 'gcdext': 130, 'inverse': 130}.get(ins[0], 0) * (3 * l + 5) + (200 if ins[0] == 'gcp2' else 60)
    return min(ROUND_CAP, (600 if random_order else 50) * base)


def note_rounds(ctx, key, rounds, budget):
    d = ctx.extra.setdefault('rounds_observed_max', {})
    if rounds > d.get(key, [0, 0])[0]:
        d[key] = [rounds, budget]


# ------------------------------------------------------------------------------------------------
# concurrency stream: several secure-integer operations are LAUNCHED without awaiting, on operands that come
# from different senders (so they become available in a different order at different parties); every party
# then yields to its event loop a different number of times (different speeds) and all parties issue and await
# unrelated multiplications; finally everything is opened and compared with Python ints at every party.

CONC_OPS = ['in_prod_xx', 'in_prod_yy', 'in_prod_xy', 'in_prod_yz', 'matrix_prod', 'matrix_prod_self', 'prod', 'mul',
            'lt', 'eq', 'mod', 'sgn', 'abs', 'if_else', 'sum', 'schur', 'scalar_mul', 'all', 'gcd', 'gcdext', 'lsb', 'max']


def conc_case(rng, l):
    h = 1 << (l - 1)
    small = lambda: rng.choice([0, 1, -1, 2, -3, 5, -7, 11, rng.randint(-40, 40)])
    big = lambda: rng.choice([h - 1, -h, rng.randint(-(1 << (l // 2 - 2)), 1 << (l // 2 - 2))])
    n = rng.choice([3, 4])
    lim = 1 << (l // 2 - 2)
    xs = [rng.choice([small(), rng.randint(-lim, lim)]) for _ in range(n)]
    ys = [rng.choice([small(), rng.randint(-lim, lim)]) for _ in range(n)]
    zs = [small() for _ in range(n)]
    ops = rng.sample(['in_prod_xx', 'in_prod_yy', 'in_prod_xy', 'in_prod_yz'], rng.randint(2, 3))
    pool = [o for o in CONC_OPS if o not in ops and not o.startswith('gcd')]
    ops += rng.sample(pool, rng.randint(1, 3))
    if l == 8 and rng.random() < 0.35:
        ops.append(rng.choice(['gcd', 'gcdext']))
    rng.shuffle(ops)
    return {'l': l, 'xs': xs, 'ys': ys, 'zs': zs, 'ops': ops, 'ext': [big(), big()], 'b': rng.choice([2, 3, 4, 7, 10]),
            'senders': [rng.randrange(8), rng.randrange(8), rng.randrange(8)], 'nmul': rng.randrange(10, 31),
            'yields': [rng.choice([0, 0, 1, 2, 3, 4, 5, 6]) for _ in range(8)], 'mid': [rng.choice([0, 0, 1, 3, 5]) for _ in range(8)]}


def conc_expected(case):
    xs, ys, zs, (e0, e1), b = case['xs'], case['ys'], case['zs'], case['ext'], case['b']
    dot = lambda u, v: sum(p * q for p, q in zip(u, v))
    want = {}
    for op in case['ops']:
        want[op] = {
            'in_prod_xx': lambda: [dot(xs, xs)], 'in_prod_yy': lambda: [dot(ys, ys)], 'in_prod_xy': lambda: [dot(xs, ys)],
            'in_prod_yz': lambda: [dot(ys, zs)], 'matrix_prod': lambda: [dot(xs, ys), dot(xs, zs), dot(zs, ys), dot(zs, zs)],
            'matrix_prod_self': lambda: [dot(xs, xs), dot(xs, zs), dot(zs, xs), dot(zs, zs)],
            'prod': lambda: [math.prod(zs)], 'mul': lambda: [xs[0] * ys[1]], 'lt': lambda: [int(e0 < e1)], 'eq': lambda: [int(xs[0] == ys[0])],
            'mod': lambda: [e0 % b], 'sgn': lambda: [_sgn(e1)], 'abs': lambda: [abs(xs[1])], 'if_else': lambda: [ys[0] if zs[0] % 2 else xs[0]],
            'sum': lambda: [sum(xs) + sum(ys)], 'schur': lambda: [p * q for p, q in zip(xs, ys)], 'scalar_mul': lambda: [zs[0] * q for q in ys],
            'all': lambda: [int(all(v % 2 for v in zs))], 'gcd': lambda: [math.gcd(xs[0], ys[0])], 'gcdext': lambda: None,
            'lsb': lambda: [e0 % 2], 'max': lambda: [max(xs + [ys[0]])]}[op]()
    return want


def make_conc_prog(case):
    import asyncio

    async def prog(mpc, mods, pid):
        m = len(mpc.parties)
        secint = mpc.SecInt(case['l'])
        s0, s1, s2 = [q % m for q in case['senders']]
        inp = lambda vals, s: mpc.input([secint(v if pid == s else 0) for v in vals], senders=s)
        x, y, z = inp(case['xs'], s0), inp(case['ys'], s1), inp(case['zs'], s2)
        e0 = mpc.input(secint(case['ext'][0] if pid == s1 else 0), senders=s1)
        e1 = mpc.input(secint(case['ext'][1] if pid == s2 else 0), senders=s2)
        launched = []
        for j, op in enumerate(case['ops']):        # launched, NOT awaited
            r = {'in_prod_xx': lambda: [mpc.in_prod(x, x)], 'in_prod_yy': lambda: [mpc.in_prod(y, y)],
                 'in_prod_xy': lambda: [mpc.in_prod(x, y)], 'in_prod_yz': lambda: [mpc.in_prod(y, z)],
                 'matrix_prod': lambda: [c for row in mpc.matrix_prod([x, z], [y, z], True) for c in row],
                 'matrix_prod_self': lambda: (lambda A: [c for row in mpc.matrix_prod(A, A, True) for c in row])([x, z]),
                 'prod': lambda: [mpc.prod(z)], 'mul': lambda: [x[0] * y[1]], 'lt': lambda: [e0 < e1], 'eq': lambda: [x[0] == y[0]],
                 'mod': lambda: [e0 % case['b']], 'sgn': lambda: [mpc.sgn(e1)], 'abs': lambda: [abs(x[1])],
                 'if_else': lambda: [mpc.if_else(mpc.lsb(z[0]), y[0], x[0])], 'sum': lambda: [mpc.sum(x + y)],
                 'schur': lambda: list(mpc.schur_prod(x, y)), 'scalar_mul': lambda: list(mpc.scalar_mul(z[0], y)),
                 'all': lambda: [mpc.all([mpc.lsb(v) for v in z])], 'gcd': lambda: [mpc.gcd(x[0], y[0])],
                 'gcdext': lambda: list(mpc.gcdext(x[0], y[0])), 'lsb': lambda: [mpc.lsb(e0)],
                 'max': lambda: [mpc.max(x + [y[0]])]}[op]()
            launched.append((op, r))
            if j == 1:
                for _ in range(case['mid'][pid % 8]):
                    await asyncio.sleep(0)
        # local scheduling differences: each party yields to its event loop a different number of times
        for _ in range(case['yields'][pid % 8]):
            await asyncio.sleep(0)
        unrelated = []
        for j in range(case['nmul']):               # unrelated secure work, issued and awaited in the same order by all
            if j == case['nmul'] // 2:
                for _ in range(case['yields'][(pid + 1) % 8]):
                    await asyncio.sleep(0)
            w = mpc.input(secint(pid + j + 2))
            v = await mpc.output(w[0] * w[-1] + j)
            unrelated.append(int(v))
        out = {}
        for op, r in launched:
            out[op] = [int(v) for v in await mpc.output(r)]
        out['unrelated'] = unrelated
        return out
    return prog


def concurrency_stream(ctx, Sim):
    import random as _random
    from lib.sim import RandomOrder, ReverseLinks, Hold, Fifo
    rng = ctx.rng
    names = ['RandomOrder', 'Hold', 'ReverseLinks', 'RandomOrder', 'Fifo']

    def policy(k, m):
        nm = names[k % len(names)]
        if nm == 'RandomOrder':
            return RandomOrder(_random.Random(ctx.seed * 7907 + 5 + k), lazy=0.2)
        if nm == 'ReverseLinks':
            return ReverseLinks()
        if nm == 'Hold':
            links = [(i, j) for i in range(m) for j in range(m) if i != j]
            return Hold(set(rng.sample(links, len(links) // 2)), rng.choice([10, 40, 120]))
        return Fifo()
    BUDGET = 600000         # clean tree: <= ~2500 rounds per case (<= ~40000 with a gcd-type op under RandomOrder); observed maxima recorded in evidence
    ncase, nbad = 0, 0
    for (m, t, np_) in ((3, 1, False), (3, 1, True), (4, 1, False), (4, 1, True)):
        sim = None
        try:
            for k in range(ctx.n(5, 20)):
                if nbad >= 5:
                    break                         # enough reports; every unfinished case costs a full round budget
                case = conc_case(rng, rng.choice([8, 16, 32]))
                want = conc_expected(case)
                pname = names[k % len(names)]
                if sim is None:
                    sim = Sim(m=m, t=t, no_prss=np_, seed=ctx.seed * 53 + 11 * m + k + (3 if np_ else 0), log_messages=False, track_tasks=False)
                    sim.start(Fifo())
                res = sim.run(make_conc_prog(case), policy(k, m), idle_limit=BUDGET, max_rounds=BUDGET)
                note_rounds(ctx, 'concurrent %s' % pname, sim.rounds, BUDGET)
                ncase += 1
                ctx.case({'concurrent': case, 'm': m, 't': t, 'np': np_, 'policy': pname}, nontrivial=True,
                         kind='concurrent m=%d %s' % (m, 'noPRSS' if np_ else 'PRSS'))
                cfg = 'm=%d t=%d %s policy=%s' % (m, t, 'noPRSS' if np_ else 'PRSS', pname)
                if not all(isinstance(r, dict) for r in res):
                    nbad += 1
                    ctx.violation('concurrent did-not-complete ops=%s %s' % ('+'.join(case['ops']), cfg),
                                  {'case': case, 'm': m, 't': t, 'no_prss': np_, 'policy': pname, 'rounds': sim.rounds,
                                   'results': [repr(r)[:200] for r in res]})
                    sim.close()
                    sim = None                    # fresh simulator after a hang / exception
                    continue
                bad = []
                for pid, r in enumerate(res):
                    for op in case['ops']:
                        got = r[op]
                        if op == 'gcdext':
                            g, s_, t_ = got
                            a, b = case['xs'][0], case['ys'][0]
                            if g != math.gcd(a, b) or s_ * a + t_ * b != g:
                                bad.append((pid, op, got, 'gcd and Bezout identity for %d, %d' % (a, b)))
                        elif got != want[op]:
                            bad.append((pid, op, got, want[op]))
                    mm = len(res)
                    wu = [(j + 2) * (j + mm + 1) + j for j in range(case['nmul'])]
                    if r['unrelated'] != wu:
                        bad.append((pid, 'unrelated-mul', r['unrelated'][:5], wu[:5]))
                if bad:
                    nbad += 1
                    ctx.violation('concurrent wrong-result op=%s %s' % (bad[0][1], cfg),
                                  {'case': case, 'm': m, 't': t, 'no_prss': np_, 'policy': pname, 'bad': [list(map(str, b)) for b in bad[:8]]})
                    sim.close()
                    sim = None                    # program counters of the parties may be out of step
        finally:
            if sim is not None:
                sim.close()
    ctx.extra['concurrent_cases'] = ncase
    ctx.log('concurrency stream (m=3,4; t=1; PRSS on/off): %d cases, %d bad' % (ncase, nbad))


# ------------------------------------------------------------------------------------------------
# list-aliasing stream: call a list-taking API, mutate the caller's list in place, then open the result

MUTATIONS = {
    'reverse': lambda L: L.reverse(),
    'overwrite': lambda L: L.__setitem__(0, L[-1]),
    'del': lambda L: L.__delitem__(0),
    'append': lambda L: L.append(L[0]),
}


def alias_apis(mpc):
    return {
        'sum': (lambda L: mpc.sum(L), lambda v: sum(v)),
        'prod': (lambda L: mpc.prod(L), lambda v: math.prod(v)),
        'all': (lambda L: mpc.all(L), None),
        'any': (lambda L: mpc.any(L), None),
        'in_prod_x': (lambda L: mpc.in_prod(L, L[:]), lambda v: sum(x * x for x in v)),
        'in_prod_y': (lambda L: mpc.in_prod(L[:], L), lambda v: sum(x * x for x in v)),
        'matrix_prod': (lambda L: mpc.matrix_prod([L], [L[:]], True)[0], lambda v: [sum(x * x for x in v)]),
        'min': (lambda L: mpc.min(L), lambda v: min(v)),
        'max': (lambda L: mpc.max(L), lambda v: max(v)),
        'min_max': (lambda L: list(mpc.min_max(L)), lambda v: [min(v), max(v)]),
        'if_else_x': (lambda L: mpc.if_else(L[1] < 0, L, L[::-1]), lambda v: list(v) if v[1] < 0 else list(v[::-1])),
        'if_else_y': (lambda L: mpc.if_else(L[1] < 0, L[::-1], L), lambda v: list(v[::-1]) if v[1] < 0 else list(v)),
        'if_swap_x': (lambda L: mpc.if_swap(L[1] < 0, L, L[::-1])[0], lambda v: list(v[::-1]) if v[1] < 0 else list(v)),
        'scalar_mul': (lambda L: mpc.scalar_mul(L[0], L), lambda v: [v[0] * x for x in v]),
        'schur_prod': (lambda L: mpc.schur_prod(L, L[:]), lambda v: [x * x for x in v]),
        'vector_add': (lambda L: mpc.vector_add(L, L[:]), lambda v: [2 * x for x in v]),
        'vector_sub': (lambda L: mpc.vector_sub(L[:], L), lambda v: [0 for x in v]),
    }


def alias_prog(l, base, bits, muts, names):
    async def prog(mpc, mods, pid):
        secint = mpc.SecInt(l)
        apis = alias_apis(mpc)
        pend = []
        for name in names:
            f = apis[name][0]
            for mn in muts:
                vals = bits if name in ('all', 'any') else base
                L = mpc.input([secint(v if pid == 0 else 0) for v in vals], senders=0)
                y = f(L)
                MUTATIONS[mn](L)            # caller reuses / edits its own list before the result is awaited
                pend.append((name, mn, mpc.output(y)))
        out = {}
        for name, mn, o in pend:
            o = await o
            out['%s/%s' % (name, mn)] = [int(v) for v in o] if isinstance(o, list) else int(o)
        return out
    return prog


def alias_stream(ctx, Sim):
    """m = 1 (asynchronous: the simulator always passes -M1) and m = 3. Expected: the values at call time."""
    rng = ctx.rng
    names = sorted(alias_apis(None))
    for (m, t) in ((1, 0), (3, 1)):
        l = rng.choice([8, 16])
        base = [3, -5, 7, rng.choice([-2, 2, 4])]
        bits = [1, 0, 1, 1]
        for muts in (('reverse', 'overwrite'), ('del', 'append')):
            sim = Sim(m=m, t=t, no_prss=rng.random() < 0.5, seed=ctx.seed * 17 + m, log_messages=False, track_tasks=False)
            try:
                sim.start()
                res = sim.run(alias_prog(l, base, bits, muts, names), idle_limit=300000, max_rounds=300000)
                note_rounds(ctx, 'alias', sim.rounds, 300000)
                for name in names:
                    for mn in muts:
                        if name in ('all', 'any'):
                            want = int(all(bits)) if name == 'all' else int(any(bits))
                        else:
                            want = alias_apis(None)[name][1](base)
                        got = [r.get('%s/%s' % (name, mn)) if isinstance(r, dict) else r for r in res]
                        ctx.case({'alias': name, 'mut': mn, 'm': m, 'l': l}, nontrivial=True, kind='alias m=%d' % m)
                        if any(g != want for g in got):
                            ctx.violation('alias op=%s mutation=%s m=%d' % (name, mn, m),
                                          {'api': name, 'mutation': mn, 'm': m, 't': t, 'l': l, 'list_at_call': bits if name in ('all', 'any') else base,
                                           'want': want, 'got_per_party': repr(got)[:400]})
                if all(isinstance(r, dict) for r in res):
                    sim.shutdown()
            finally:
                sim.close()



def run(ctx):
    import os
    from lib.sim import Sim, Fifo, RandomOrder
    from lib.core import COQ
    have_props = os.path.exists(os.path.join(COQ, 'props', 'C01.v'))
    have_model = os.path.exists(os.path.join(COQ, 'theories', 'Masked.v'))
    ok = ctx.build(['MPyC.Masked'] if have_model else None) and have_model
    if not have_model:
        ctx.notes.append('coq/theories/Masked.v absent: no model evaluation in this run')
    if have_props:
        ok = ctx.check_props() and ok
    else:
        ctx.notes.append('coq/props/C01.v absent: no theorems recorded in this run')
    ctx.assumptions += [
        'field prime p > 2^(l+k+1) (sectypes._pfield: primes of l+k+2 bits); p prime (C26)',
        'tape ranges as drawn by the code: random bits in {0,1}, r_div < 2^k (resp. 2^(k+l-f), 2^(l+k-1)), random sign in {1, p-1}',
        'good_tape is_zero_public: blinding factor r != 0 mod p (complement: probability 1/p, or excluded by the retry loop for fields below 2k bits)',
        'good_tape _mod: the masked opening a + 2^l - 2^l mod b + b*r_divb - r_modb is non-negative (holds for every tape with r_divb >= 1; fails only for part of the tapes with r_divb = 0, probability < 2^-k)',
        'BY_bound l (g = 0 after _iterations(l) divsteps, Bernstein-Yang Thm 11.2): proved by exhaustive computation for l <= 9, hypothesis of the gcd/lcm/gcdext/inverse theorems above that; inverse_range_bound l proved for l <= 7',
        'comparisons inside divsteps/gcd and the share-level layer (reshare, output, PRSS) are idealised in the Coq value-level models; the simulator runs exercise them unmodified',
    ]
    rng = ctx.rng
    thorough = ctx.tier == 'thorough'
    configs = [(m, t, np_) for (m, t) in CONFIGS + ([(7, 3), (6, 2)] if thorough else []) for np_ in (False, True)]
    if not thorough:
        configs += MANY_SUBSETS          # quick tier: PRSS with many subsets, reduced budget (masked protocols only)
    # the tape-range hypotheses of the theorems against the bounds as coded in _randoms (extracted from the source)
    mask_ok = check_mask_bounds(ctx, ['randoms'])
    ctx.rule = ('case = (program, m, t, PRSS on/off, receivers); program = random DAG of C01 operations over secint(l), '
                'inputs shared by mpc.input from varying senders, values concentrated at -2^(l-1), 2^(l-1)-1, 0, +-1; '
                'programs whose Python-int evaluation leaves the l-bit range are rejected; every node is opened; '
                'non-trivial when m >= 2 (resharing and recombination actually run)')
    ctx.explanation = ('each program is evaluated by a Python-int interpreter (oracle) and by the real runtime in the '
                       'multi-party simulator under every configuration; all outputs of all receiving parties compared')

    # ---- programs
    plan = []       # (l, n_inputs, n_ops, weights, count, tag)
    if thorough:
        plan += [(8, 8, 26, LIGHT_WEIGHTS, 14, 'light'), (16, 8, 24, LIGHT_WEIGHTS, 10, 'light'),
                 (32, 8, 22, LIGHT_WEIGHTS, 8, 'light'), (64, 6, 10, LIGHT_WEIGHTS, 2, 'light'),
                 (8, 6, 5, HEAVY_WEIGHTS, 6, 'heavy'), (16, 6, 4, HEAVY_WEIGHTS, 3, 'heavy'), (32, 6, 2, HEAVY_WEIGHTS, 1, 'heavy')]
    else:
        plan += [(8, 8, 22, LIGHT_WEIGHTS, 5, 'light'), (16, 8, 20, LIGHT_WEIGHTS, 3, 'light'),
                 (32, 8, 16, LIGHT_WEIGHTS, 3, 'light'), (64, 5, 6, LIGHT_WEIGHTS, 1, 'light'),
                 (8, 6, 3, HEAVY_WEIGHTS, 3, 'heavy'), (16, 6, 1, HEAVY_WEIGHTS, 1, 'heavy')]
    plan += [(8, 6, 12, MASKED_WEIGHTS, 2, 'masked'), (16, 6, 12, MASKED_WEIGHTS, 2, 'masked'),
             (32, 6, 12, MASKED_WEIGHTS, ctx.n(2, 3), 'masked'), (64, 6, 7, ZERO64_WEIGHTS, ctx.n(1, 3), 'light')]
    programs = []
    for (l, nin, nops, w, cnt, tag) in plan:
        for _ in range(cnt):
            g = Gen(rng, l, nin)
            if tag == 'heavy':       # a few light ops first so heavy ops also see computed operands
                g.build(3, {'add': 1, 'sub': 1, 'mulc': 1, 'neg': 1})
                prog = g.build(3 + nops, w)
            else:
                prog = g.build(nops, w)
            programs.append((tag, prog, list(g.vals), list(g.kind)))
    opcount = {}
    for tag, prog, vals, kinds in programs:
        for ins in prog['instrs']:
            opcount[ins[0]] = opcount.get(ins[0], 0) + 1
    ctx.extra['operations_in_programs'] = opcount
    ctx.log('%d programs, %d instructions, ops: %s' % (len(programs), sum(opcount.values()), sorted(opcount.items())))

    # ---- run every program under every configuration
    import time
    impl_obs = []        # (l, op, operand values, params, outputs of party 0) for the model comparison
    per_config = {}
    livelocks = [0]
    for (m, t, np_) in configs:
        if livelocks[0] >= MAX_LIVELOCK_REPORTS:
            ctx.log('%d no-progress reports: remaining configurations skipped' % livelocks[0])
            ctx.notes.append('remaining configurations skipped after %d no-progress reports' % livelocks[0])
            break
        t0 = time.time()
        def fresh_sim(extra=0):
            sm = Sim(m=m, t=t, no_prss=np_, seed=ctx.seed * 131 + m * 7 + t + (1000 if np_ else 0) + 7919 * extra,
                     log_messages=False, track_tasks=False)      # no per-message logs: bounded memory
            st = sm.start()
            if not sm.started:
                sm.close()
                ctx.violation('start-failed m=%d t=%d' % (m, t), {'m': m, 't': t, 'no_prss': np_, 'start': repr(st)})
                return None
            return sm

        def unfinished(res):
            return any(isinstance(x, str) or (isinstance(x, tuple) and x and x[0] == 'EXC') for x in res)
        sim = fresh_sim()
        nrun = 0
        try:
            for pno, (tag, program, vals, kinds) in enumerate(programs):
                if sim is None:
                    break
                if not thorough and (m, t, np_) in MANY_SUBSETS and tag != 'masked':
                    continue
                if not thorough and tag == 'masked' and (m, t, np_) not in MANY_SUBSETS + [(3, 1, False), (5, 2, False), (2, 0, True)]:
                    continue
                r = rng.random()
                receivers = None if r < 0.6 or m == 1 else sorted(rng.sample(range(m), rng.randint(1, m)))
                policy = Fifo() if rng.random() < 0.7 else RandomOrder(random.Random(rng.randrange(1 << 30)), lazy=0.1)
                # every run is bounded by a deterministic round budget (see round_budget); idle rounds count too
                ro = isinstance(policy, RandomOrder)
                budget = round_budget(program, ro)
                res = sim.run(make_prog(program, receivers), policy, idle_limit=budget, max_rounds=budget)
                note_rounds(ctx, '%s l=%d %s' % (tag, program['l'], 'RandomOrder' if ro else 'Fifo'), sim.rounds, budget)
                if unfinished(res):
                    # unfinished / exception: the runtimes are in an undefined state. Re-run this program once, alone, in
                    # a fresh simulator (FIFO delivery, same kind of budget) before anything is reported.
                    first = repr(res)[:600]
                    sim.close()
                    sim = fresh_sim(extra=pno + 1)
                    if sim is None:
                        break
                    budget = round_budget(program, False)
                    res = sim.run(make_prog(program, receivers), Fifo(), idle_limit=budget, max_rounds=budget)
                    ctx.notes.append('program %d re-run in a fresh simulator for m=%d t=%d no_prss=%s (first attempt: %s)' % (pno, m, t, np_, first[:200]))
                    if any(x == 'PENDING' for x in res) and not any(isinstance(x, tuple) and x and x[0] == 'EXC' for x in res):
                        ctx.case({'prog': pno, 'm': m, 't': t, 'no_prss': np_, 'livelock': True}, kind='no-progress')
                        ctx.violation('no-progress/livelock program=%d l=%d m=%d t=%d %s' % (pno, program['l'], m, t, 'noPRSS' if np_ else 'PRSS'),
                                      {'m': m, 't': t, 'no_prss': np_, 'receivers': receivers, 'program': program,
                                       'round_budget': budget, 'rounds': sim.rounds,
                                       'what': 'the program did not finish within its round budget, twice (second time alone in a fresh '
                                               'simulator with FIFO delivery): livelock or deadlock', 'first_attempt': first})
                        livelocks[0] += 1
                        sim.close()
                        sim = None
                        break                   # go on with the next configuration
                nrun += 1
                bad = check_outputs(program, vals, kinds, res, receivers, m)
                key = {'prog': pno, 'm': m, 't': t, 'no_prss': np_, 'recv': receivers}
                ctx.case(key, nontrivial=m >= 2, kind='m=%d t=%d %s %s' % (m, t, 'noPRSS' if np_ else 'PRSS', tag))
                if bad:
                    node, pid, got, want = bad[0]
                    opname = describe(program, node)
                    ins = next((i for i in program['instrs'] if i[3] <= node < i[3] + i[4]), None)
                    ctx.violation('wrong-output op=%s l=%d m=%d t=%d %s' % (opname, program['l'], m, t,
                                                                           'noPRSS' if np_ else 'PRSS'),
                                  {'m': m, 't': t, 'no_prss': np_, 'receivers': receivers, 'program': program,
                                   'node': node, 'party': pid, 'got': repr(got), 'want': repr(want), 'instr': ins,
                                   'operand_values': None if ins is None else
                                   [[vals[y] for y in x] if isinstance(x, list) and x and not isinstance(x[0], list)
                                    else (vals[x] if not isinstance(x, list) else repr(x)) for x in ins[1]],
                                   'all_bad': [repr(b) for b in bad[:6]], 'raw': repr(res)[:1500]})
                    if unfinished(res):
                        sim.close()
                        sim = fresh_sim(extra=1000 + pno)
                        continue
                rp = 0 if receivers is None else min(receivers)
                if (m, t, np_) in ((3, 1, False), (1, 0, False)) and isinstance(res[rp], list) and not bad:
                    for ins in program['instrs']:
                        if ins[0] in MODEL_OPS:
                            impl_obs.append((program['l'], ins, vals, res[rp][ins[3]:ins[3] + ins[4]], m))
            if sim is not None:
                sim.shutdown()
        finally:
            if sim is not None:
                sim.close()
        per_config['m=%d t=%d %s' % (m, t, 'noPRSS' if np_ else 'PRSS')] = {'programs': nrun, 'seconds': round(time.time() - t0, 1)}
        ctx.log('config m=%d t=%d no_prss=%s: %d programs in %.1fs' % (m, t, np_, nrun, time.time() - t0))
    ctx.extra['per_config'] = per_config

    # ---- Coq value-level models on the operands that occurred, many random tapes
    if ok:
        from mpyc.runtime import mpc as mpc1
        k = mpc1.options.sec_param
        fieldp = {}
        exprs, meta = [], []
        ntapes = ctx.n(4, 16)
        seen = set()
        for (l, ins, vals, got, m) in impl_obs:
            if l not in fieldp:
                fieldp[l] = mpc1.SecInt(l).field.modulus
            p = fieldp[l]

            def val(x):
                return [val(y) for y in x] if isinstance(x, list) else vals[x]
            a = [val(x) for x in ins[1]]
            sig = repr((l, ins[0], a, ins[2]))
            for (e, want) in model_exprs(rng, p, l, k, ins[0], a, ins[2], 1 if sig in seen else ntapes):
                exprs.append(e)
                meta.append((l, p, ins[0], a, ins[2], want, got))
            seen.add(sig)
        # boundary operands for the core protocols irrespective of what the programs contained
        for l in (8, 16, 32):
            p = fieldp.setdefault(l, mpc1.SecInt(l).field.modulus)
            h = 1 << (l - 1)
            for x in (-2 * h, -2 * h + 1, -h - 1, -h, -h + 1, -2, -1, 0, 1, 2, h - 1, h, 2 * h - 1):
                for op in ('sgn_lt', 'sgn_eq', 'sgn'):
                    if op != 'sgn_lt' and x == -2 * h:
                        continue
                    for (e, want) in model_exprs(rng, p, l, k, op, [x], {}, ctx.n(3, 6)):
                        exprs.append(e)
                        meta.append((l, p, op, [x], {}, want, None))
            for x in (-h, -h + 1, -2, -1, 0, 1, 2, h - 1) if not thorough else (-h, -h + 1, -3, -2, -1, 0, 1, 2, 3, h - 2, h - 1):
                for op, P in [('lsb', {}), ('abs', {})] + [(o, {'b': b}) for o in ('mod', 'floordiv')
                                                             for b in (1, 3, 4, h - 1, h)] + \
                             [('trunc', {'f': f}) for f in (1, l // 2, l - 2)]:
                    for (e, want) in model_exprs(rng, p, l, k, op, [x], P, 2 if op == 'floordiv' else 3):
                        exprs.append(e)
                        meta.append((l, p, op, [x], P, want, None))
        cap = ctx.n(1300, 5000)
        if len(exprs) > cap:
            idx = sorted(rng.sample(range(len(exprs)), cap))
            exprs, meta = [exprs[i] for i in idx], [meta[i] for i in idx]
        ctx.log('evaluating %d model expressions in Coq' % len(exprs))
        res = ctx.coq_eval(['MPyC.Masked'], exprs, chunk=200)
        mism = 0
        for r, (l, p, op, a, P, want, got) in zip(res, meta):
            if isinstance(r, tuple) and not isinstance(want, tuple):
                good = False
            elif isinstance(want, set):
                good = r in want
            else:
                good = (r == want and type(r) is type(want))
            if good and got is not None:     # the implementation's outputs for the same operands
                if isinstance(want, set):
                    good = (got[0] % p) in want
                elif isinstance(want, bool):
                    good = got[0] is want
                elif isinstance(want, tuple):
                    good = tuple(g % p for g in got) == want
                elif isinstance(want, list):
                    good = [g % p for g in got] == [x for row in want for x in row]
                elif op in ('le', 'ge', 'ne'):      # 1 - (protocol result)
                    good = (1 - got[0]) % p == want
                else:
                    good = (got[0] % p) == want
            if not good:
                mism += 1
                if len(ctx.broken) < 20:
                    ctx.broken.append({'kind': 'correspondence', 'what': op, 'l': l, 'operands': a, 'params': P,
                                       'model': str(r)[:200], 'oracle': str(want), 'impl': repr(got)})
            ctx.case({'model': op, 'l': l, 'a': a, 'P': P, 'i': len(ctx._distinct)}, nontrivial=True, kind='coq-model ' + op)
        ctx.extra['model_evaluations'] = len(exprs)
        ctx.extra['model_disagreements'] = mism
        ctx.log('model vs oracle/implementation disagreements: %d of %d' % (mism, len(exprs)))

    # ---- list aliasing: the caller edits its list after the call, before the result is awaited
    alias_stream(ctx, Sim)

    # ---- concurrency: operations launched without awaiting, parties at different speeds, adversarial delivery schedules
    concurrency_stream(ctx, Sim)

    if ctx.broken and not ctx.violations:
        ctx.unproved('C01 model/proof', {'broken': ctx.broken[:5]})
