(** Buffers.v — model of MessageExchanger.buffers: the pc-keyed rendez-vous between arriving
    payloads (tail of [data_received]) and [receive(pc)] calls.

    A buffer is an insertion-ordered association list (a Python dict): label -> stored payload
    or a waiting receive (a Future).

      data_received:   if pc in self.buffers: self.buffers.pop(pc).set_result(payload)
                       else:                  self.buffers[pc] = payload
      receive(pc):     payload = self.buffers.pop(pc, None)
                       if payload is None: payload = self.buffers[pc] = Future()
                       return payload

    Main result: [receive_commutes] (+ corollaries [receive_gets_own_payload],
    [buffer_empty_iff]). *)
From Coq Require Import ZArith List Lia Bool.
Import ListNotations.
Require Import MPyC.Frame.
Local Open Scope Z_scope.

Inductive slot := Payload (p : list Z) | Waiting.
Definition buffer := list (Z * slot).

Fixpoint lookup (pc : Z) (b : buffer) : option slot :=
  match b with
  | [] => None
  | (k, v) :: r => if k =? pc then Some v else lookup pc r
  end.

Fixpoint remove (pc : Z) (b : buffer) : buffer :=
  match b with
  | [] => []
  | (k, v) :: r => if k =? pc then remove pc r else (k, v) :: remove pc r
  end.

(** what one operation does, as seen from outside *)
Inductive out :=
| Stored                          (* arrival: payload put into the dict *)
| Resolved (pc : Z) (p : list Z)  (* arrival: waiting future popped and set_result(p) *)
| DupError                        (* arrival under a label whose payload is still stored:
                                     bytes.set_result -> AttributeError (labels not distinct) *)
| Got (p : list Z)                (* receive: stored payload popped and returned *)
| NewFuture                       (* receive: new future registered and returned *)
| OldFuture.                      (* receive: a future was already registered under this label;
                                     it is popped (not None) and returned (label received twice) *)

Definition arrive (b : buffer) (pc : Z) (p : list Z) : buffer * out :=
  match lookup pc b with
  | Some Waiting => (remove pc b, Resolved pc p)
  | Some (Payload _) => (remove pc b, DupError)
  | None => (b ++ [(pc, Payload p)], Stored)
  end.

Definition receive (b : buffer) (pc : Z) : buffer * out :=
  match lookup pc b with
  | Some (Payload p) => (remove pc b, Got p)
  | Some Waiting => (remove pc b, OldFuture)
  | None => (b ++ [(pc, Waiting)], NewFuture)
  end.

Inductive action := Arr (pc : Z) (p : list Z) | Rcv (pc : Z).

Definition act (b : buffer) (a : action) : buffer * out :=
  match a with Arr pc p => arrive b pc p | Rcv pc => receive b pc end.

(** the (label, payload) pair a receive obtains through this operation, if any *)
Definition obtained (a : action) (o : out) : list (Z * list Z) :=
  match a, o with
  | Arr pc p, Resolved _ _ => [(pc, p)]
  | Rcv pc, Got p => [(pc, p)]
  | _, _ => []
  end.

Definition act_st (st : buffer * list (Z * list Z)) (a : action) : buffer * list (Z * list Z) :=
  let (b', o) := act (fst st) a in (b', snd st ++ obtained a o).

(** final buffer and everything obtained by receives, in time order *)
Definition runb (acts : list action) : buffer * list (Z * list Z) :=
  fold_left act_st acts ([], []).

(** per-operation observations for the correspondence check *)
Fixpoint traceb (b : buffer) (acts : list action) : list (buffer * out) :=
  match acts with
  | [] => []
  | a :: r => let x := act b a in x :: traceb (fst x) r
  end.

(** ** Parser and buffers together: chunks and receive calls interleaved *)
Inductive input := Chunk (c : list Z) | Receive (pc : Z).

Fixpoint deliver_all (b : buffer) (evs : list event) : buffer * list out :=
  match evs with
  | [] => (b, [])
  | Deliver pc p :: r =>
      let (b1, o) := arrive b pc p in
      let (b2, os) := deliver_all b1 r in (b2, o :: os)
  | Handshake _ _ :: r => deliver_all b r
  end.

(** one call: [data_received(c)] or [receive(pc)] *)
Definition sim_step (np : bool) (subs : Z -> list (list nat)) (s : state) (b : buffer) (i : input)
  : state * list event * buffer * list out :=
  match i with
  | Chunk c =>
      let (s1, evs) := step np subs s c in
      let (b1, os) := deliver_all b evs in (s1, evs, b1, os)
  | Receive pc =>
      let (b1, o) := receive b pc in (s, [], b1, [o])
  end.

Fixpoint sim (np : bool) (subs : Z -> list (list nat)) (s : state) (b : buffer) (ins : list input)
  : list (state * list event * buffer * list out) :=
  match ins with
  | [] => []
  | i :: r =>
      let x := sim_step np subs s b i in
      x :: sim np subs (fst (fst (fst x))) (snd (fst x)) r
  end.

(** what receives obtain in one call: futures resolved by a chunk, payload returned by receive *)
Fixpoint got_of (i : input) (os : list out) : list (Z * list Z) :=
  match os with
  | [] => []
  | Resolved pc p :: r => (pc, p) :: got_of i r
  | Got p :: r => match i with Receive pc => (pc, p) :: got_of i r | _ => got_of i r end
  | _ :: r => got_of i r
  end.

(** final (parser state, buffer, everything obtained by receives) of an interleaved run *)
Fixpoint sim_final (np : bool) (subs : Z -> list (list nat)) (s : state) (b : buffer)
         (g : list (Z * list Z)) (ins : list input) : state * buffer * list (Z * list Z) :=
  match ins with
  | [] => (s, b, g)
  | i :: r =>
      let x := sim_step np subs s b i in
      sim_final np subs (fst (fst (fst x))) (snd (fst x)) (g ++ got_of i (snd x)) r
  end.

Definition sim_mt (np : bool) (m t me : nat) := sim np (matching m t me).

(* ------------------------------------------------------------------------------------- *)
(** * Facts about lookup / remove *)

Lemma lookup_remove k pc b : lookup k (remove pc b) = if k =? pc then None else lookup k b.
Proof.
  induction b as [|[k' v] b IH]; simpl.
  - destruct (k =? pc); reflexivity.
  - destruct (Z.eqb_spec k' pc) as [->|Hne]; simpl.
    + rewrite IH. destruct (Z.eqb_spec k pc) as [->|Hk]; [reflexivity|].
      destruct (Z.eqb_spec pc k); [congruence|reflexivity].
    + rewrite IH. destruct (Z.eqb_spec k' k) as [->|Hk'].
      * destruct (Z.eqb_spec k pc); [congruence|reflexivity].
      * reflexivity.
Qed.

Lemma lookup_snoc k pc v b :
  lookup k (b ++ [(pc, v)]) =
    match lookup k b with Some x => Some x | None => if k =? pc then Some v else None end.
Proof.
  induction b as [|[k' v'] b IH]; simpl.
  - rewrite (Z.eqb_sym pc k). reflexivity.
  - destruct (k' =? k); [reflexivity|exact IH].
Qed.

Lemma lookup_all_none b : (forall k, lookup k b = None) <-> b = [].
Proof.
  split; [|intros ->; reflexivity].
  destruct b as [|[k v] b]; [reflexivity|]. intros H. specialize (H k). simpl in H.
  rewrite Z.eqb_refl in H. discriminate.
Qed.

(* ------------------------------------------------------------------------------------- *)
(** * History functions *)

Fixpoint find_arr (pc : Z) (acts : list action) : option (list Z) :=
  match acts with
  | [] => None
  | Arr k p :: r => if k =? pc then Some p else find_arr pc r
  | Rcv _ :: r => find_arr pc r
  end.

Fixpoint has_rcv (pc : Z) (acts : list action) : bool :=
  match acts with
  | [] => false
  | Rcv k :: r => (k =? pc) || has_rcv pc r
  | Arr _ _ :: r => has_rcv pc r
  end.

Fixpoint arr_labels (acts : list action) : list Z :=
  match acts with [] => [] | Arr k _ :: r => k :: arr_labels r | Rcv _ :: r => arr_labels r end.

Fixpoint rcv_labels (acts : list action) : list Z :=
  match acts with [] => [] | Rcv k :: r => k :: rcv_labels r | Arr _ _ :: r => rcv_labels r end.

(** what the buffer must contain under label [pc] after history [acts] *)
Definition spec (acts : list action) (pc : Z) : option slot :=
  match find_arr pc acts, has_rcv pc acts with
  | Some p, false => Some (Payload p)
  | None, true => Some Waiting
  | _, _ => None
  end.

Lemma find_arr_app pc a b :
  find_arr pc (a ++ b) = match find_arr pc a with Some x => Some x | None => find_arr pc b end.
Proof.
  induction a as [|[k p|k] a IH]; simpl; auto. destruct (k =? pc); auto.
Qed.

Lemma has_rcv_app pc a b : has_rcv pc (a ++ b) = has_rcv pc a || has_rcv pc b.
Proof.
  induction a as [|[k p|k] a IH]; simpl; auto. rewrite IH. apply orb_assoc.
Qed.

Lemma arr_labels_app a b : arr_labels (a ++ b) = arr_labels a ++ arr_labels b.
Proof. induction a as [|[k p|k] a IH]; simpl; auto. f_equal; auto. Qed.

Lemma rcv_labels_app a b : rcv_labels (a ++ b) = rcv_labels a ++ rcv_labels b.
Proof. induction a as [|[k p|k] a IH]; simpl; auto. f_equal; auto. Qed.

Lemma find_arr_none pc acts : find_arr pc acts = None <-> ~ In pc (arr_labels acts).
Proof.
  induction acts as [|[k p|k] acts IH]; simpl.
  - tauto.
  - destruct (Z.eqb_spec k pc) as [->|Hne].
    + split; [discriminate|]. intros H; exfalso; apply H; auto.
    + rewrite IH. tauto.
  - exact IH.
Qed.

Lemma find_arr_some pc p acts : find_arr pc acts = Some p -> In pc (arr_labels acts).
Proof.
  intros H. destruct (in_dec Z.eq_dec pc (arr_labels acts)) as [Hi|Hn]; [exact Hi|].
  apply find_arr_none in Hn. congruence.
Qed.

Lemma has_rcv_true pc acts : has_rcv pc acts = true <-> In pc (rcv_labels acts).
Proof.
  induction acts as [|[k p|k] acts IH]; simpl.
  - split; [discriminate|tauto].
  - exact IH.
  - rewrite orb_true_iff, IH, Z.eqb_eq. tauto.
Qed.

Lemma has_rcv_in pc acts : has_rcv pc acts = true <-> In (Rcv pc) acts.
Proof.
  induction acts as [|[k p|k] acts IH]; simpl.
  - split; [discriminate|tauto].
  - rewrite IH. split; [auto|]. intros [H|H]; [discriminate|exact H].
  - rewrite orb_true_iff, IH, Z.eqb_eq. split; intros [H|H]; auto; [left; congruence|].
    left. congruence.
Qed.

Lemma find_arr_in pc p acts :
  NoDup (arr_labels acts) -> (find_arr pc acts = Some p <-> In (Arr pc p) acts).
Proof.
  induction acts as [|[k q|k] acts IH]; simpl; intros Hnd.
  - split; [discriminate|tauto].
  - inversion Hnd as [|? ? Hk Hnd']; subst.
    destruct (Z.eqb_spec k pc) as [->|Hne].
    + split.
      * intros H; left; congruence.
      * intros [H|H]; [congruence|]. exfalso. apply Hk.
        clear -H. induction acts as [|[k' q'|k'] acts IH]; simpl in *; [tauto| |].
        -- destruct H as [H|H]; [left; congruence|right; auto].
        -- destruct H as [H|H]; [discriminate|auto].
    + rewrite (IH Hnd'). split; [auto|]. intros [H|H]; [congruence|exact H].
  - rewrite (IH Hnd). split; [auto|]. intros [H|H]; [discriminate|exact H].
Qed.

(* ------------------------------------------------------------------------------------- *)
(** * The invariant *)

Definition Inv (acts : list action) (st : buffer * list (Z * list Z)) : Prop :=
  (forall k, lookup k (fst st) = spec acts k) /\
  (forall k p, In (k, p) (snd st) <-> find_arr k acts = Some p /\ has_rcv k acts = true).

Lemma runb_snoc acts a : runb (acts ++ [a]) = act_st (runb acts) a.
Proof. unfold runb. rewrite fold_left_app. reflexivity. Qed.

Lemma inv_step acts a st :
  NoDup (arr_labels (acts ++ [a])) -> NoDup (rcv_labels (acts ++ [a])) ->
  Inv acts st -> Inv (acts ++ [a]) (act_st st a).
Proof.
  intros Ha Hr [Hb Hg]. destruct st as [b got]. cbn [fst snd] in *.
  rewrite arr_labels_app in Ha. rewrite rcv_labels_app in Hr.
  destruct a as [pc p|pc].
  - (* arrival *)
    assert (Hfresh : find_arr pc acts = None).
    { apply find_arr_none. simpl in Ha. apply NoDup_remove_2 in Ha. rewrite app_nil_r in Ha. exact Ha. }
    unfold act_st, act, arrive. cbn [fst snd].
    pose proof (Hb pc) as Hpc. unfold spec in Hpc. rewrite Hfresh in Hpc.
    destruct (has_rcv pc acts) eqn:Hrc; rewrite Hpc.
    + (* a receive is waiting: resolve it *)
      split; cbn [fst snd obtained].
      * intros k. rewrite lookup_remove, Hb. unfold spec.
        rewrite find_arr_app, has_rcv_app. cbn [find_arr has_rcv]. rewrite orb_false_r.
        destruct (Z.eqb_spec k pc) as [->|Hne].
        -- rewrite Hfresh, Z.eqb_refl, Hrc. reflexivity.
        -- destruct (Z.eqb_spec pc k); [congruence|]. destruct (find_arr k acts); reflexivity.
      * intros k q. rewrite in_app_iff, Hg, find_arr_app, has_rcv_app.
        cbn [find_arr has_rcv In]. rewrite orb_false_r.
        destruct (Z.eqb_spec pc k) as [<-|Hne].
        -- rewrite Hfresh, Hrc. split.
           ++ intros [[H _]|[H|[]]]; [discriminate|]. inversion H; subst. auto.
           ++ intros [H _]. right. left. congruence.
        -- split.
           ++ intros [[H1 H2]|[H|[]]]; [rewrite H1; auto|]. inversion H; congruence.
           ++ intros [H1 H2]. left. destruct (find_arr k acts); [auto|discriminate].
    + (* nobody waiting: store *)
      split; cbn [fst snd obtained].
      * intros k. rewrite lookup_snoc, Hb. unfold spec.
        rewrite find_arr_app, has_rcv_app. cbn [find_arr has_rcv]. rewrite orb_false_r.
        destruct (Z.eqb_spec k pc) as [->|Hne].
        -- rewrite Hfresh, Z.eqb_refl, Hrc. reflexivity.
        -- destruct (Z.eqb_spec pc k); [congruence|].
           destruct (find_arr k acts); destruct (has_rcv k acts); reflexivity.
      * intros k q. rewrite app_nil_r, Hg, find_arr_app, has_rcv_app.
        cbn [find_arr has_rcv]. rewrite orb_false_r.
        destruct (Z.eqb_spec pc k) as [<-|Hne].
        -- rewrite Hfresh, Hrc. split; intros [H1 H2]; discriminate.
        -- destruct (find_arr k acts); split; intros [H1 H2]; auto; discriminate.
  - (* receive *)
    assert (Hfresh : has_rcv pc acts = false).
    { destruct (has_rcv pc acts) eqn:E; [|reflexivity]. apply has_rcv_true in E.
      simpl in Hr. apply NoDup_remove_2 in Hr. rewrite app_nil_r in Hr. contradiction. }
    unfold act_st, act, receive. cbn [fst snd].
    pose proof (Hb pc) as Hpc. unfold spec in Hpc. rewrite Hfresh in Hpc.
    destruct (find_arr pc acts) as [p|] eqn:Hfa; rewrite Hpc.
    + (* payload already there: take it *)
      split; cbn [fst snd obtained].
      * intros k. rewrite lookup_remove, Hb. unfold spec.
        rewrite find_arr_app, has_rcv_app. cbn [find_arr has_rcv]. rewrite orb_false_r.
        destruct (Z.eqb_spec k pc) as [->|Hne].
        -- rewrite Hfa, Z.eqb_refl, orb_true_r. reflexivity.
        -- destruct (Z.eqb_spec pc k); [congruence|]. rewrite orb_false_r.
           destruct (find_arr k acts); reflexivity.
      * intros k q. rewrite in_app_iff, Hg, find_arr_app, has_rcv_app.
        cbn [find_arr has_rcv In]. rewrite orb_false_r.
        destruct (Z.eqb_spec pc k) as [<-|Hne].
        -- rewrite Hfa, Hfresh. cbn [orb]. split.
           ++ intros [[_ H]|[H|[]]]; [discriminate|]. inversion H; subst. auto.
           ++ intros [H _]. right. left. congruence.
        -- rewrite orb_false_r. split.
           ++ intros [[H1 H2]|[H|[]]]; [rewrite H1; auto|]. inversion H; congruence.
           ++ intros [H1 H2]. left. destruct (find_arr k acts); [auto|discriminate].
    + (* not yet arrived: register a future *)
      split; cbn [fst snd obtained].
      * intros k. rewrite lookup_snoc, Hb. unfold spec.
        rewrite find_arr_app, has_rcv_app. cbn [find_arr has_rcv]. rewrite orb_false_r.
        destruct (Z.eqb_spec k pc) as [->|Hne].
        -- rewrite Hfa, Z.eqb_refl, Hfresh. reflexivity.
        -- destruct (Z.eqb_spec pc k); [congruence|]. rewrite orb_false_r.
           destruct (find_arr k acts); destruct (has_rcv k acts); reflexivity.
      * intros k q. rewrite app_nil_r, Hg, find_arr_app, has_rcv_app.
        cbn [find_arr has_rcv]. rewrite orb_false_r.
        destruct (Z.eqb_spec pc k) as [<-|Hne].
        -- rewrite Hfa. split; intros [H1 H2]; discriminate.
        -- rewrite orb_false_r. destruct (find_arr k acts); split; intros [H1 H2]; auto.
Qed.

Lemma NoDup_app_l {A} (a b : list A) : NoDup (a ++ b) -> NoDup a.
Proof.
  induction a as [|x a IH]; simpl; intros H; [constructor|].
  inversion H; subst. constructor; [rewrite in_app_iff in *; tauto|auto].
Qed.

Lemma inv_run : forall acts,
  NoDup (arr_labels acts) -> NoDup (rcv_labels acts) -> Inv acts (runb acts).
Proof.
  induction acts as [|a acts IH] using rev_ind; intros Ha Hr.
  - split; cbn; [reflexivity|]. intros k p. split; [tauto|intros [H _]; discriminate].
  - rewrite runb_snoc. apply inv_step; auto.
    apply IH.
    + rewrite arr_labels_app in Ha. eapply NoDup_app_l; eauto.
    + rewrite rcv_labels_app in Hr. eapply NoDup_app_l; eauto.
Qed.

(* ------------------------------------------------------------------------------------- *)
(** * C10: receives and arrivals commute *)

(** For any interleaving of arrivals and receive calls with pairwise distinct arrival labels and
    pairwise distinct receive labels:
    - a receive obtains (pc, p) iff p arrived under pc and receive(pc) was called;
    - the buffer holds exactly: payloads nobody asked for yet, futures whose payload has not arrived. *)
Theorem receive_commutes : forall acts,
  NoDup (arr_labels acts) -> NoDup (rcv_labels acts) ->
  let (b, got) := runb acts in
  (forall pc p, In (pc, p) got <-> In (Arr pc p) acts /\ In (Rcv pc) acts) /\
  (forall pc p, lookup pc b = Some (Payload p) <-> In (Arr pc p) acts /\ ~ In (Rcv pc) acts) /\
  (forall pc, lookup pc b = Some Waiting <-> In (Rcv pc) acts /\ ~ In pc (arr_labels acts)).
Proof.
  intros acts Ha Hr. destruct (inv_run acts Ha Hr) as [Hb Hg].
  destruct (runb acts) as [b got]. cbn [fst snd] in *.
  split; [|split].
  - intros pc p. rewrite Hg, (find_arr_in pc p acts Ha), has_rcv_in. reflexivity.
  - intros pc p. rewrite Hb. unfold spec. rewrite <- (find_arr_in pc p acts Ha), <- has_rcv_in.
    destruct (find_arr pc acts) as [q|]; destruct (has_rcv pc acts);
      (split; [intros H | intros [H1 H2]]); try discriminate.
    + exfalso. apply H2. reflexivity.
    + inversion H; subst. split; [reflexivity|discriminate].
    + inversion H1; subst. reflexivity.
  - intros pc. rewrite Hb. unfold spec. rewrite <- find_arr_none, <- has_rcv_in.
    destruct (find_arr pc acts) as [q|]; destruct (has_rcv pc acts);
      (split; [intros H | intros [H1 H2]]); try discriminate.
    + split; reflexivity.
    + reflexivity.
Qed.

(** each receive obtains exactly the payload sent under its label (and only one) *)
Corollary receive_gets_own_payload : forall acts pc p,
  NoDup (arr_labels acts) -> NoDup (rcv_labels acts) ->
  In (Arr pc p) acts -> In (Rcv pc) acts ->
  In (pc, p) (snd (runb acts)) /\ forall p', In (pc, p') (snd (runb acts)) -> p' = p.
Proof.
  intros acts pc p Ha Hr H1 H2. pose proof (receive_commutes acts Ha Hr) as H.
  destruct (runb acts) as [b got]. destruct H as [Hg _]. cbn [snd]. split.
  - apply Hg. auto.
  - intros p' Hp'. apply Hg in Hp' as [Hp' _].
    apply (find_arr_in pc p' acts Ha) in Hp'. apply (find_arr_in pc p acts Ha) in H1. congruence.
Qed.

(** at the end the buffer is empty iff sends and receives match *)
Corollary buffer_empty_iff : forall acts,
  NoDup (arr_labels acts) -> NoDup (rcv_labels acts) ->
  (fst (runb acts) = [] <-> forall pc, In pc (arr_labels acts) <-> In pc (rcv_labels acts)).
Proof.
  intros acts Ha Hr. destruct (inv_run acts Ha Hr) as [Hb _].
  rewrite <- lookup_all_none. split.
  - intros H pc. specialize (H pc). rewrite Hb in H. unfold spec in H.
    rewrite <- has_rcv_true.
    destruct (find_arr pc acts) eqn:E1; destruct (has_rcv pc acts) eqn:E2; try discriminate.
    + split; [reflexivity|]. intros _. eapply find_arr_some; eauto.
    + apply find_arr_none in E1. split; [contradiction|discriminate].
  - intros H pc. rewrite Hb. unfold spec. specialize (H pc). rewrite <- has_rcv_true in H.
    destruct (find_arr pc acts) eqn:E1; destruct (has_rcv pc acts) eqn:E2; try reflexivity.
    + exfalso. assert (Hin : In pc (arr_labels acts)).
      { eapply find_arr_some; eauto. }
      apply H in Hin. discriminate.
    + exfalso. apply find_arr_none in E1. apply E1. apply H. reflexivity.
Qed.

(* ------------------------------------------------------------------------------------- *)
(** * Compact observations for the correspondence check.
      Printing the full state after every call is quadratic, and this Coq prints (and parses)
      numerals of more than a few digits very slowly; so: per call (peer_pid, |self.bytes|, events,
      buffer labels with a waiting flag, outs); the full leftover bytes and buffer once, at the end;
      every label pc is printed as its 8 bytes [enc_q pc] (injective on the signed 64-bit range, see
      [dec_enc_q]), and receive labels are given as [Receive (dec_q bytes)]. *)

Inductive pevent := PHandshake (pid : Z) (keys : list (list nat * list Z)) | PDeliver (pc8 payload : list Z).
Inductive pout := PStored | PResolved (pc8 : list Z) | PDupError | PGot (p : list Z) | PNewFuture | POldFuture.

Definition pev (e : event) : pevent :=
  match e with Handshake pid ks => PHandshake pid ks | Deliver pc p => PDeliver (enc_q pc) p end.

Definition po (o : out) : pout :=
  match o with
  | Stored => PStored | Resolved pc _ => PResolved (enc_q pc) | DupError => PDupError
  | Got p => PGot p | NewFuture => PNewFuture | OldFuture => POldFuture
  end.

Definition compact (x : state * list event * buffer * list out)
  : option Z * Z * list pevent * list (list Z * bool) * list pout :=
  let '(s, evs, b, os) := x in
  (fst s, len (snd s), map pev evs,
   map (fun e => (enc_q (fst e), match snd e with Waiting => true | Payload _ => false end)) b,
   map po os).

Definition sim_c (np : bool) (subs : Z -> list (list nat)) (s : state) (b : buffer) (ins : list input)
  : list (option Z * Z * list pevent * list (list Z * bool) * list pout) * (list Z * list (list Z * slot)) :=
  let tr := sim np subs s b ins in
  (map compact tr,
   match last tr (s, [], b, []) with
   | (sf, _, bf, _) => (snd sf, map (fun e => (enc_q (fst e), snd e)) bf)
   end).

Definition sim_c_mt (np : bool) (m t me : nat) := sim_c np (matching m t me).

(** Input side: byte lists are written as hex strings ([hx "00ff"] = [0; 255]) — one token instead
    of one numeral per byte (parsing long list literals dominates the run time otherwise). *)
From Coq Require Import Ascii String.

Definition hexval (c : ascii) : Z :=
  let n := Z.of_nat (nat_of_ascii c) in
  if (48 <=? n) && (n <=? 57) then n - 48
  else if (97 <=? n) && (n <=? 102) then n - 87
  else 0.

Fixpoint hx (s : string) : list Z :=
  match s with
  | String a (String b r) => (16 * hexval a + hexval b) :: hx r
  | _ => []
  end.

(* ------------------------------------------------------------------------------------- *)
(** * End to end: parser and buffers together *)

Fixpoint evs_acts (evs : list event) : list action :=
  match evs with
  | [] => []
  | Deliver pc p :: r => Arr pc p :: evs_acts r
  | Handshake _ _ :: r => evs_acts r
  end.

Fixpoint acts_of (np : bool) (subs : Z -> list (list nat)) (s : state) (ins : list input) : list action :=
  match ins with
  | [] => []
  | Chunk c :: r => let x := step np subs s c in evs_acts (snd x) ++ acts_of np subs (fst x) r
  | Receive pc :: r => Rcv pc :: acts_of np subs s r
  end.

Fixpoint chunks_of (ins : list input) : list (list Z) :=
  match ins with [] => [] | Chunk c :: r => c :: chunks_of r | Receive _ :: r => chunks_of r end.

Fixpoint rcvs_of (ins : list input) : list Z :=
  match ins with [] => [] | Receive pc :: r => pc :: rcvs_of r | Chunk _ :: r => rcvs_of r end.

Fixpoint arrs (acts : list action) : list (Z * list Z) :=
  match acts with [] => [] | Arr pc p :: r => (pc, p) :: arrs r | Rcv _ :: r => arrs r end.

Lemma deliver_all_fold : forall evs b g i,
  (match i with Chunk _ => True | Receive _ => False end) ->
  let (b1, os) := deliver_all b evs in
  fold_left act_st (evs_acts evs) (b, g) = (b1, g ++ got_of i os).
Proof.
  induction evs as [|[pid ks|pc p] evs IH]; intros b g i Hi.
  - simpl. rewrite app_nil_r. reflexivity.
  - simpl. apply IH. exact Hi.
  - cbn [deliver_all evs_acts fold_left]. unfold act_st at 2. cbn [fst snd act].
    destruct (arrive b pc p) as [b1 o] eqn:Ea.
    specialize (IH b1 (g ++ obtained (Arr pc p) o) i Hi).
    destruct (deliver_all b1 evs) as [b2 os]. rewrite IH. f_equal.
    rewrite <- app_assoc. f_equal.
    unfold arrive in Ea. destruct (lookup pc b) as [[q|]|]; inversion Ea; subst; cbn; reflexivity.
Qed.

Lemma sim_final_acts : forall np subs ins s b g,
  sim_final np subs s b g ins =
    (fst (run np subs s (chunks_of ins)),
     fst (fold_left act_st (acts_of np subs s ins) (b, g)),
     snd (fold_left act_st (acts_of np subs s ins) (b, g))).
Proof.
  induction ins as [|[c|pc] ins IH]; intros s b g.
  - reflexivity.
  - cbn [sim_final sim_step acts_of chunks_of run].
    destruct (step np subs s c) as [s1 evs] eqn:Es. cbn [fst snd].
    pose proof (deliver_all_fold evs b g (Chunk c) I) as Hd.
    destruct (deliver_all b evs) as [b1 os]. cbn [fst snd].
    rewrite IH, fold_left_app, Hd.
    destruct (run np subs s1 (chunks_of ins)) as [s2 e2]. reflexivity.
  - cbn [sim_final sim_step acts_of chunks_of fold_left].
    unfold act_st at 2 4. cbn [fst snd act].
    destruct (receive b pc) as [b1 o] eqn:Er. cbn [fst snd]. rewrite IH.
    replace (got_of (Receive pc) [o]) with (obtained (Rcv pc) o); [reflexivity|].
    unfold receive in Er. destruct (lookup pc b) as [[q|]|]; inversion Er; subst; reflexivity.
Qed.

Lemma arrs_app a b : arrs (a ++ b) = arrs a ++ arrs b.
Proof. induction a as [|[k p|k] a IH]; simpl; auto. f_equal; auto. Qed.

Lemma evs_acts_app a b : evs_acts (a ++ b) = evs_acts a ++ evs_acts b.
Proof. induction a as [|[k p|k q] a IH]; simpl; auto. f_equal; auto. Qed.

Lemma arrs_acts_of : forall np subs ins s,
  arrs (acts_of np subs s ins) = arrs (evs_acts (snd (run np subs s (chunks_of ins)))).
Proof.
  induction ins as [|[c|pc] ins IH]; intros s.
  - reflexivity.
  - cbn [acts_of chunks_of run]. destruct (step np subs s c) as [s1 e1]. cbn [fst snd].
    rewrite arrs_app, IH. destruct (run np subs s1 (chunks_of ins)) as [s2 e2]. cbn [snd].
    rewrite evs_acts_app, arrs_app. reflexivity.
  - cbn [acts_of chunks_of arrs]. apply IH.
Qed.

Lemma rcvs_acts_of : forall np subs ins s, rcv_labels (acts_of np subs s ins) = rcvs_of ins.
Proof.
  induction ins as [|[c|pc] ins IH]; intros s.
  - reflexivity.
  - cbn [acts_of rcvs_of]. rewrite rcv_labels_app, IH.
    assert (H : forall evs, rcv_labels (evs_acts evs) = []).
    { induction evs as [|[k p|k q] evs IHe]; simpl; auto. }
    rewrite H. reflexivity.
  - cbn [acts_of rcvs_of rcv_labels]. f_equal. apply IH.
Qed.

Lemma arrs_deliveries msgs : arrs (evs_acts (deliveries msgs)) = msgs.
Proof. induction msgs as [|[pc p] msgs IH]; simpl; [reflexivity|]. f_equal. exact IH. Qed.

Lemma arr_labels_arrs acts : arr_labels acts = map fst (arrs acts).
Proof. induction acts as [|[k p|k] acts IH]; simpl; auto. f_equal; auto. Qed.

Lemma in_arr_arrs pc p acts : In (Arr pc p) acts <-> In (pc, p) (arrs acts).
Proof.
  induction acts as [|[k q|k] acts IH]; simpl; [tauto| |].
  - rewrite IH. split; intros [H|H]; auto; left; congruence.
  - rewrite IH. split; [intros [H|H]; [discriminate|auto]|auto].
Qed.

Lemma in_rcv_labels pc acts : In (Rcv pc) acts <-> In pc (rcv_labels acts).
Proof. rewrite <- has_rcv_in. apply has_rcv_true. Qed.

(** ** C10, end to end.  Any message list with distinct labels, any chunking of its byte stream,
       any placement of (distinct) receive calls between the chunks: the parser ends clean, a
       receive obtains (pc, p) iff (pc, p) was sent and receive(pc) was called; what is left in the
       buffer is exactly the unclaimed payloads and the receives whose label was never sent. *)
Theorem framing_end_to_end : forall np subs pid msgs ins,
  Forall wf_msg msgs -> NoDup (map fst msgs) -> NoDup (rcvs_of ins) ->
  List.concat (chunks_of ins) = List.concat (map encode msgs) ->
  match sim_final np subs (Some pid, []) [] [] ins with
  | (sf, bf, got) =>
      sf = (Some pid, []) /\
      (forall pc p, In (pc, p) got <-> In (pc, p) msgs /\ In pc (rcvs_of ins)) /\
      (forall pc p, lookup pc bf = Some (Payload p) <-> In (pc, p) msgs /\ ~ In pc (rcvs_of ins)) /\
      (forall pc, lookup pc bf = Some Waiting <-> In pc (rcvs_of ins) /\ ~ In pc (map fst msgs))
  end.
Proof.
  intros np subs pid msgs ins Hwf Hnd Hr Hc.
  rewrite sim_final_acts.
  pose proof (chunking_irrelevant np subs pid msgs (chunks_of ins) Hwf Hc) as Hrun.
  set (acts := acts_of np subs (Some pid, []) ins).
  assert (Harrs : arrs acts = msgs).
  { unfold acts. rewrite arrs_acts_of, Hrun. apply arrs_deliveries. }
  assert (Hrcv : rcv_labels acts = rcvs_of ins) by apply rcvs_acts_of.
  assert (Ha : NoDup (arr_labels acts)) by (rewrite arr_labels_arrs, Harrs; exact Hnd).
  assert (Hr' : NoDup (rcv_labels acts)) by (rewrite Hrcv; exact Hr).
  pose proof (receive_commutes acts Ha Hr') as H.
  rewrite Hrun. cbn [fst].
  change (fold_left act_st acts ([], [])) with (runb acts).
  destruct (runb acts) as [bf got]. cbn [fst snd].
  destruct H as [H1 [H2 H3]].
  split; [reflexivity|]. split; [|split].
  - intros pc p. rewrite H1, in_arr_arrs, Harrs, in_rcv_labels, Hrcv. reflexivity.
  - intros pc p. rewrite H2, in_arr_arrs, Harrs, in_rcv_labels, Hrcv. reflexivity.
  - intros pc. rewrite H3, in_rcv_labels, Hrcv, arr_labels_arrs, Harrs. reflexivity.
Qed.
