(** Value-level models of MPyC's composite secure-integer protocols (runtime.py): each protocol is a
    function on integers modulo the field prime [p] (field elements are their representatives in
    [0,p), as [FiniteFieldElement.value]) with the random values the protocol draws
    ([random_bits], [_random], [_randoms]) as explicit tape arguments.  The theorems show that the
    masked-opening arithmetic yields exactly the Python-integer result (mod p) for EVERY tape in
    the range the code draws from, under the no-wrap condition [2^(l+k+1) < p] guaranteed by
    [sectypes._pfield] (field primes have l+k+2 bits).  The share-level layer (Shamir, reshare,
    output, PRSS) is not part of this file: an opened value is the value. *)
From Coq Require Import ZArith List Lia Znumtheory Bool Zpow_facts Setoid Morphisms.
Require Import MPyC.Zp.
Import ListNotations.
Local Open Scope Z_scope.

(** * Modular-arithmetic toolkit *)

(** congruence modulo p as a setoid, so that nested reductions can be rewritten away *)
Definition cong (p a b : Z) : Prop := a mod p = b mod p.
#[global] Instance cong_equiv p : Equivalence (cong p).
Proof. split; unfold cong; congruence. Qed.
#[global] Instance cong_add p : Proper (cong p ==> cong p ==> cong p) Z.add.
Proof. intros a b H c d H'. unfold cong in *. rewrite (Zplus_mod a c), (Zplus_mod b d). congruence. Qed.
#[global] Instance cong_sub p : Proper (cong p ==> cong p ==> cong p) Z.sub.
Proof. intros a b H c d H'. unfold cong in *. rewrite (Zminus_mod a c), (Zminus_mod b d). congruence. Qed.
#[global] Instance cong_mul p : Proper (cong p ==> cong p ==> cong p) Z.mul.
Proof. intros a b H c d H'. unfold cong in *. rewrite (Zmult_mod a c), (Zmult_mod b d). congruence. Qed.
#[global] Instance cong_opp p : Proper (cong p ==> cong p) Z.opp.
Proof.
  intros a b H. unfold cong in *. replace (- a) with (0 - a) by ring. replace (- b) with (0 - b) by ring.
  rewrite (Zminus_mod 0 a), (Zminus_mod 0 b). congruence.
Qed.
Lemma cong_mod p a : cong p (a mod p) a.
Proof. unfold cong. apply Zmod_mod. Qed.
Lemma cong_intro p a b : cong p a b -> a mod p = b mod p.
Proof. unfold cong. auto. Qed.
Lemma cong_eq p a b : a = b -> cong p a b.
Proof. intros ->. reflexivity. Qed.
#[global] Typeclasses Opaque cong.
#[global] Opaque cong.

(** [modring]: prove [E1 mod p = E2 mod p] for ring expressions with nested [_ mod p] *)
Ltac modring :=
  match goal with |- _ mod ?p = _ mod ?p =>
    apply (cong_intro p); rewrite ?(cong_mod p); apply cong_eq; try ring end.
(** [modsmall]: prove [E1 mod p = E2] when E2 is the reduced representative *)
Ltac modsmall E2 p := transitivity (E2 mod p); [modring | apply Z.mod_small].

Definition bit (b : Z) : Prop := b = 0 \/ b = 1.

(** little-endian value of a bit list: [for r_i in reversed(r_bits): r <<= 1; r += r_i.value] *)
Fixpoint bits_val (bs : list Z) : Z :=
  match bs with [] => 0 | b :: r => b + 2 * bits_val r end.

Lemma bits_val_range bs : Forall bit bs -> 0 <= bits_val bs < 2 ^ Z.of_nat (length bs).
Proof.
  induction 1 as [|b r Hb _ IH]; [simpl; lia|].
  cbn [bits_val length]. rewrite Nat2Z.inj_succ, Z.pow_succ_r by lia. destruct Hb; subst; lia.
Qed.

(** bits of a public value, little-endian, [n] of them: [(c >> i) & 1] *)
Fixpoint to_bits (n : nat) (c : Z) : list Z :=
  match n with O => [] | S n' => (c mod 2) :: to_bits n' (c / 2) end.

Lemma to_bits_length n : forall c, length (to_bits n c) = n.
Proof. induction n; intros; simpl; auto. Qed.

Lemma to_bits_bit n : forall c, Forall bit (to_bits n c).
Proof.
  induction n; intros c; simpl; constructor; auto.
  pose proof (Z.mod_pos_bound c 2 ltac:(lia)). unfold bit. lia.
Qed.

Lemma to_bits_val n : forall c, 0 <= c < 2 ^ Z.of_nat n -> bits_val (to_bits n c) = c.
Proof.
  induction n as [|n IH]; intros c Hc.
  - simpl in *. lia.
  - cbn [to_bits bits_val]. rewrite Nat2Z.inj_succ, Z.pow_succ_r in Hc by lia.
    rewrite IH.
    + pose proof (Z.div_mod c 2 ltac:(lia)). lia.
    + split; [apply Z.div_pos; lia|apply Z.div_lt_upper_bound; lia].
Qed.

(** ** exact division by 2^f in the field: [x >> f] = x * invert(2^f, p) *)
Definition fdiv2 (p f x : Z) : Z := (x * inv_raw p (2 ^ f)) mod p.

Lemma pow2_mod_nz p f : prime p -> 2 < p -> 0 <= f -> (2 ^ f) mod p <> 0.
Proof.
  intros Hp H2 Hf E. apply Zmod_divide in E; [|lia].
  pose proof (prime_power_prime p 2 f Hf Hp prime_2 E). lia.
Qed.

Lemma fdiv2_exact p f q : prime p -> 2 < p -> 0 <= f -> fdiv2 p f ((q * 2 ^ f) mod p) = q mod p.
Proof.
  intros Hp H2 Hf. unfold fdiv2. rewrite Zmult_mod_idemp_l.
  replace (q * 2 ^ f * inv_raw p (2 ^ f)) with (q * (2 ^ f * inv_raw p (2 ^ f))) by ring.
  rewrite <- Zmult_mod_idemp_r, inv_raw_spec by (auto using pow2_mod_nz). f_equal. ring.
Qed.

(** general field division by a public nonzero integer: [x / b] = x * invert(b, p) *)
Definition fdiv (p b x : Z) : Z := (x * inv_raw p b) mod p.

Lemma fdiv_exact p b q : prime p -> b mod p <> 0 -> fdiv p b ((q * b) mod p) = q mod p.
Proof.
  intros Hp Hb. unfold fdiv. rewrite Zmult_mod_idemp_l.
  replace (q * b * inv_raw p b) with (q * (b * inv_raw p b)) by ring.
  rewrite <- Zmult_mod_idemp_r, inv_raw_spec by auto. f_equal. ring.
Qed.

(** * trunc (runtime.trunc): probabilistic rounding of a / 2^f *)
(** tape: [rbits] = the f random bits (little-endian), [rdiv] = r_divf drawn below 2^(k+l-f) *)
Definition trunc_v (p l f x : Z) (rbits : list Z) (rdiv : Z) : Z :=
  let xr := (x + bits_val rbits) mod p in                          (* xr_modf = x + r_modf *)
  let c := (xr + (2 ^ (l - 1) + rdiv * 2 ^ f)) mod p in             (* opened value *)
  let c' := c mod 2 ^ f in
  fdiv2 p f ((xr - c') mod p).                                      (* (xr_modf - c) >> f *)

Theorem trunc_floor_or_ceil p l k f a rbits rdiv :
  prime p -> 0 <= k -> 0 <= f < l -> 2 ^ (l + k + 1) < p ->
  - 2 ^ (l - 1) <= a < 2 ^ (l - 1) ->
  Forall bit rbits -> Z.of_nat (length rbits) = f -> 0 <= rdiv < 2 ^ (k + l - f) ->
  trunc_v p l f (a mod p) rbits rdiv = (a / 2 ^ f) mod p \/
  trunc_v p l f (a mod p) rbits rdiv = (a / 2 ^ f + 1) mod p.
Proof.
  intros Hp Hk Hf Hpl Ha Hb Hlen Hr.
  pose proof (bits_val_range rbits Hb) as HR. rewrite Hlen in HR.
  set (R := bits_val rbits) in *. set (M := 2 ^ f) in *.
  assert (HM : 0 < M) by (apply Z.pow_pos_nonneg; lia).
  assert (E1 : 2 ^ (l - 1) = 2 ^ (l - 1 - f) * M).
  { unfold M. rewrite <- Z.pow_add_r by lia. f_equal. lia. }
  assert (E2 : 2 ^ (k + l) = 2 ^ (k + l - f) * M).
  { unfold M. rewrite <- Z.pow_add_r by lia. f_equal. lia. }
  assert (E3 : 2 ^ (l + k + 1) = 2 * 2 ^ (k + l)).
  { rewrite <- Z.pow_succ_r by lia. f_equal. lia. }
  assert (E4 : 2 ^ l = 2 * 2 ^ (l - 1)).
  { rewrite <- Z.pow_succ_r by lia. f_equal. lia. }
  assert (E5 : 2 ^ l <= 2 ^ (k + l)) by (apply Z.pow_le_mono_r; lia).
  assert (H2 : 2 < p).
  { assert (2 ^ 1 <= 2 ^ (l + k + 1)) by (apply Z.pow_le_mono_r; lia). simpl in *. lia. }
  assert (Hc : trunc_v p l f (a mod p) rbits rdiv = ((a + R) / M) mod p).
  { unfold trunc_v. fold R. fold M.
    assert (Ec : ((a mod p + R) mod p + (2 ^ (l - 1) + rdiv * M)) mod p
                 = a + R + 2 ^ (l - 1) + rdiv * M).
    { modsmall (a + R + 2 ^ (l - 1) + rdiv * M) p. nia. }
    rewrite Ec.
    replace (a + R + 2 ^ (l - 1) + rdiv * M) with (a + R + (2 ^ (l - 1 - f) + rdiv) * M) by lia.
    rewrite Z_mod_plus_full.
    replace (((a mod p + R) mod p - (a + R) mod M) mod p) with (((a + R) / M * M) mod p).
    - apply fdiv2_exact; auto; lia.
    - pose proof (Z.div_mod (a + R) M ltac:(lia)) as Hdm.
      replace ((a + R) / M * M) with (a + R - (a + R) mod M) by lia. modring. }
  rewrite Hc.
  assert (Hq : (a + R) / M = a / M \/ (a + R) / M = a / M + 1).
  { pose proof (Z.div_mod a M ltac:(lia)). pose proof (Z.mod_pos_bound a M HM).
    pose proof (Z.div_mod (a + R) M ltac:(lia)). pose proof (Z.mod_pos_bound (a + R) M HM).
    assert (-1 < (a + R) / M - a / M < 2) by nia. lia. }
  destruct Hq as [-> | ->]; auto.
Qed.

(** * lsb (runtime.lsb, a la [ST06]); tape: random bit [b], [r] drawn below 2^(l+k-1) *)
Definition lsb_v (p l x b r : Z) : Z :=
  let c := (x + (2 ^ l + 2 * r + b)) mod p in
  if Z.odd c then (1 - b) mod p else b.

Theorem lsb_correct p l k a b r :
  2 <= k -> 1 <= l -> 2 ^ (l + k + 1) < p -> - 2 ^ l <= a < 2 ^ l ->
  bit b -> 0 <= r < 2 ^ (l + k - 1) ->
  lsb_v p l (a mod p) b r = a mod 2.
Proof.
  intros Hk Hl Hpl Ha Hb Hr. unfold lsb_v.
  assert (E1 : 2 ^ (l + k + 1) = 4 * 2 ^ (l + k - 1)).
  { change 4 with (2 ^ 2). rewrite <- Z.pow_add_r by lia. f_equal. lia. }
  assert (E2 : 2 ^ (l + 1) <= 2 ^ (l + k - 1)) by (apply Z.pow_le_mono_r; lia).
  assert (E3 : 2 ^ (l + 1) = 2 * 2 ^ l) by (rewrite <- Z.pow_succ_r by lia; f_equal; lia).
  assert (E4 : 2 ^ l = 2 * 2 ^ (l - 1)) by (rewrite <- Z.pow_succ_r by lia; f_equal; lia).
  assert (0 < 2 ^ (l - 1)) by (apply Z.pow_pos_nonneg; lia).
  assert (Ec : (a mod p + (2 ^ l + 2 * r + b)) mod p = a + 2 ^ l + 2 * r + b).
  { modsmall (a + 2 ^ l + 2 * r + b) p. destruct Hb; subst; lia. }
  rewrite Ec.
  replace (a + 2 ^ l + 2 * r + b) with (a + b + 2 * (2 ^ (l - 1) + r)) by lia.
  rewrite Z.odd_add_mul_2.
  pose proof (Zmod_odd a) as Ho. pose proof (Zmod_odd (a + b)) as Hob.
  destruct Hb as [-> | ->].
  - rewrite Z.add_0_r in *. rewrite Ho. destruct (Z.odd a); [apply Z.mod_small; lia|reflexivity].
  - rewrite Z.odd_add. rewrite Ho. destruct (Z.odd a); simpl; [reflexivity|apply Z.mod_0_l; lia].
Qed.
