(** C32 — reduce and accumulate agree with functools/itertools; logarithmic depth.
    (statements only; proofs in theories/Tools.v). *)
Require Import MPyC.Tools.
From Coq Require Import List Arith ZArith.
Import ListNotations.
Local Open Scope nat_scope.

(** mpctools.reduce(f, x, initial) = functools.reduce(f, x, initial) for associative f
    (no commutativity); [None] on both sides = TypeError on the empty sequence. *)
Theorem C32_reduce_eq_fold :
  forall {A} (f : A -> A -> A), (forall a b c, f (f a b) c = f a (f b c)) ->
  forall (x : list A) (initial : option A), reduce f x initial = py_reduce f x initial.
Proof. exact (@reduce_eq_fold). Qed.
Print Assumptions C32_reduce_eq_fold.

(** mpctools.accumulate(f, x, initial, method='Sklansky') = itertools.accumulate(...) *)
Theorem C32_accumulate_Sk_eq_scan :
  forall {A} (f : A -> A -> A) (d : A), (forall a b c, f (f a b) c = f a (f b c)) ->
  forall (x : list A) (initial : option A),
    accumulate f d false x initial = py_accumulate f x initial.
Proof. exact (@accumulate_Sk_eq_scan). Qed.
Print Assumptions C32_accumulate_Sk_eq_scan.

(** mpctools.accumulate(f, x, initial, method='Brent-Kung') = itertools.accumulate(...) *)
Theorem C32_accumulate_BK_eq_scan :
  forall {A} (f : A -> A -> A) (d : A), (forall a b c, f (f a b) c = f a (f b c)) ->
  forall (x : list A) (initial : option A),
    accumulate f d true x initial = py_accumulate f x initial.
Proof. exact (@accumulate_BK_eq_scan). Qed.
Print Assumptions C32_accumulate_BK_eq_scan.

(** depth of the f-tree computed by reduce: ceil(log2 n); no hypothesis on f *)
Theorem C32_reduce_depth :
  forall {A} (f : A -> A -> A) (x : list A) v dep,
    reduce (fdepth f) (leaves x) None = Some (v, dep) -> dep <= Nat.log2_up (length x).
Proof. exact (@reduce_depth). Qed.
Print Assumptions C32_reduce_depth.

(** every output of Sklansky accumulate has depth <= ceil(log2 n) *)
Theorem C32_accumulate_Sk_depth :
  forall {A} f (dd : A * nat) (x : list A),
    Forall (fun p => snd p <= Nat.log2_up (length x))
           (accumulate (fdepth f) dd false (leaves x) None).
Proof. exact (@accumulate_Sk_depth). Qed.
Print Assumptions C32_accumulate_Sk_depth.

(** every output of Brent-Kung accumulate has depth <= 2 ceil(log2 n) *)
Theorem C32_accumulate_BK_depth :
  forall {A} f (dd : A * nat) (x : list A),
    Forall (fun p => snd p <= 2 * Nat.log2_up (length x))
           (accumulate (fdepth f) dd true (leaves x) None).
Proof. exact (@accumulate_BK_depth). Qed.
Print Assumptions C32_accumulate_BK_depth.

(** the depth instrumentation does not change the computed values *)
Theorem C32_fdepth_erasure_reduce :
  forall {A} (f : A -> A -> A) (y : list (A * nat)) (initial : option (A * nat)),
    option_map fst (reduce (fdepth f) y initial)
    = reduce f (map fst y) (option_map fst initial).
Proof. exact (@fdepth_erasure_reduce). Qed.
Print Assumptions C32_fdepth_erasure_reduce.

Theorem C32_fdepth_erasure_accumulate :
  forall {A} (f : A -> A -> A) (dd : A * nat) (bk : bool) (y : list (A * nat))
         (initial : option (A * nat)),
    map fst (accumulate (fdepth f) dd bk y initial)
    = accumulate f (fst dd) bk (map fst y) (option_map fst initial).
Proof. exact (@fdepth_erasure_accumulate). Qed.
Print Assumptions C32_fdepth_erasure_accumulate.

Theorem C32_fdepth_erasure_reduce_leaves :
  forall {A} (f : A -> A -> A) (x : list A),
    option_map fst (reduce (fdepth f) (leaves x) None) = reduce f x None.
Proof. exact (@fdepth_erasure_reduce_leaves). Qed.
Print Assumptions C32_fdepth_erasure_reduce_leaves.

Theorem C32_fdepth_erasure_accumulate_leaves :
  forall {A} (f : A -> A -> A) (dd : A * nat) (bk : bool) (x : list A),
    map fst (accumulate (fdepth f) dd bk (leaves x) None) = accumulate f (fst dd) bk x None.
Proof. exact (@fdepth_erasure_accumulate_leaves). Qed.
Print Assumptions C32_fdepth_erasure_accumulate_leaves.

(** ** non-vacuity: an associative, NON-commutative operation (composition of affine maps
    t |-> a*t + b on Z, represented by (a, b)) *)
Definition aff (p q : Z * Z) : Z * Z := (fst p * fst q, fst p * snd q + snd p)%Z.

Lemma aff_assoc : forall a b c, aff (aff a b) c = aff a (aff b c).
Proof. intros [? ?] [? ?] [? ?]; unfold aff; simpl; f_equal; ring. Qed.

Example aff_not_comm : aff (2, 1)%Z (3, 5)%Z <> aff (3, 5)%Z (2, 1)%Z.
Proof. vm_compute. discriminate. Qed.

Definition aff_xs : list (Z * Z) := [(2, 1); (3, 5); (1, -4); (5, 0); (-1, 2)]%Z.

Example C32_reduce_aff : reduce aff aff_xs None = Some (-30, 47)%Z.
Proof. vm_compute; reflexivity. Qed.
Example C32_reduce_aff_rev : reduce aff (rev aff_xs) None = Some (-30, -18)%Z.
Proof. vm_compute; reflexivity. Qed.
Example C32_reduce_aff_initial : reduce aff aff_xs (Some (7, 7)%Z) = Some (-210, 336)%Z.
Proof. vm_compute; reflexivity. Qed.
Example C32_reduce_empty : reduce aff [] None = None /\ py_reduce aff [] None = None.
Proof. split; reflexivity. Qed.

Example C32_accumulate_BK_aff :
  accumulate aff (0, 0)%Z true aff_xs None = [(2, 1); (6, 11); (6, -13); (30, -13); (-30, 47)]%Z.
Proof. vm_compute; reflexivity. Qed.
Example C32_accumulate_Sk_aff :
  accumulate aff (0, 0)%Z false aff_xs None = [(2, 1); (6, 11); (6, -13); (30, -13); (-30, 47)]%Z.
Proof. vm_compute; reflexivity. Qed.
Example C32_accumulate_Sk_aff_rev :
  accumulate aff (0, 0)%Z false (rev aff_xs) None
  = [(-1, 2); (-5, 2); (-5, 22); (-15, -3); (-30, -18)]%Z.
Proof. vm_compute; reflexivity. Qed.

(** the general theorems instantiated at [aff] (hypothesis discharged) *)
Theorem C32_aff_instance :
  forall (x : list (Z * Z)) (initial : option (Z * Z)),
    reduce aff x initial = py_reduce aff x initial /\
    accumulate aff (0, 0)%Z false x initial = py_accumulate aff x initial /\
    accumulate aff (0, 0)%Z true x initial = py_accumulate aff x initial.
Proof.
  intros x initial. split; [|split].
  - apply reduce_eq_fold, aff_assoc.
  - apply accumulate_Sk_eq_scan, aff_assoc.
  - apply accumulate_BK_eq_scan, aff_assoc.
Qed.
Print Assumptions C32_aff_instance.

(** depth hypotheses are inhabited and the bounds are met: n = 5, ceil(log2 5) = 3 *)
Example C32_reduce_depth_aff :
  reduce (fdepth aff) (leaves aff_xs) None = Some ((-30, 47)%Z, 3) /\ Nat.log2_up 5 = 3.
Proof. split; vm_compute; reflexivity. Qed.
Example C32_accumulate_depths_aff :
  map snd (accumulate (fdepth aff) ((0, 0)%Z, 0) false (leaves aff_xs) None) = [0; 1; 2; 2; 3] /\
  map snd (accumulate (fdepth aff) ((0, 0)%Z, 0) true (leaves aff_xs) None) = [0; 1; 2; 3; 3].
Proof. split; vm_compute; reflexivity. Qed.
