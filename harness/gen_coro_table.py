"""Translator: /repo/mpyc/*.py  ->  coq/gen/CoroTable.v (+ obligation files), regenerated on every run.

For every function decorated `mpc_coro` / `mpc_coro_no_pc` (spelled `@asyncoro.mpc_coro`, `@mpc_coro`,
`@mpc.coroutine`, `@runtime.coroutine`, ...; all modules, nested functions included) the table holds
(name, kind, silent) where, for kind NoPC, `silent` says that NO statement reachable after the body's
first `await` can touch the program counter.  Touching the counter =

  * a call that may resolve (name-based, transitive call graph over all scanned modules) to a
    counter-touching function: every PC coroutine (its wrapper forks: `_program_counter[0] += 1`),
    `_prss_uci`, `_send_message`, `_receive_message`, every function mentioning `_program_counter`,
    and every plain / NoPC function that calls one of these.  Only calls whose receiver chain is rooted at
    `self` / `runtime` / `mpc` / `cls` / `rt` or at an mpyc module alias resolve to methods; a bare name
    resolves to a nested def of the enclosing function(s) or a module-level function of the same module
    (so builtin `all`, `sum`, ndarray methods do not resolve to the runtime methods of the same name);
  * an arithmetic / comparison / subscript operator applied to a secure placeholder (light taint: a name
    bound from an un-awaited call on the runtime, from a secure-type constructor, or from another
    placeholder; names bound from `await ...` are plain);
  * a direct mention of `_program_counter`.

"First await" is taken per control-flow path (branches of an `if` are followed separately; the argument
of an `await` is evaluated before the await).  Coroutines with a return annotation have no synchronous
first segment at all (asyncoro.typed_asyncoro creates the Task without running them), so their whole
body counts as "after the first await".  The analysis FAILS CLOSED: a construct it does not recognise
after the first await of a NoPC body (call of a non-resolvable callable, method call on a placeholder,
yield, exec/eval/getattr-calls, ...) makes the entry not silent.

Assumption recorded in the output (not silently made): operators applied to PARAMETERS that were not
re-bound by `await self.gather(...)` are taken to act on public values (e.g. the shift count `b` in
`lshift`); each such site is listed in `assumed_public_param_ops`.  The simulator check backs this with a
dynamic monitor (no NoPC task is ever observed forking / sending / receiving).

Second table: the `_pc_level += 1 / -= 1` sites of asyncoro.py, as the list of exit paths of
`typed_asyncoro` with the number of increments / decrements along each (C35 obligation `balanced`).
"""
import ast, os, sys, json

HERE = os.path.dirname(os.path.abspath(__file__))
if HERE not in sys.path:
    sys.path.insert(0, HERE)
from lib.core import REPO, COQ   # noqa: E402

RUNTIME_ROOTS = {'self', 'runtime', 'mpc', 'cls', 'rt'}
PRIMS = {'_prss_uci', '_send_message', '_receive_message'}
# pure helpers of asyncoro/runtime that are called on the runtime object but are known not to touch the counter
# (they are ordinary functions in the call graph: nothing is assumed about them, this set is empty on purpose)
SAFE_BUILTINS = {
    'len', 'range', 'list', 'tuple', 'dict', 'set', 'zip', 'map', 'filter', 'enumerate', 'isinstance', 'issubclass',
    'type', 'int', 'float', 'bool', 'str', 'bytes', 'max', 'min', 'sum', 'all', 'any', 'abs', 'round', 'reversed',
    'sorted', 'iter', 'next', 'hasattr', 'id', 'repr', 'print', 'pow', 'divmod', 'slice', 'super', 'object',
    'ValueError', 'TypeError', 'NotImplementedError', 'IndexError', 'KeyError', 'AssertionError', 'frozenset',
    'bytearray', 'complex', 'callable', 'format', 'hash', 'ord', 'chr', 'bin', 'hex',
}
# naming convention of the code base for type-valued local names (recorded as an assumption in the output):
# calling `field(...)`/`Zp(...)` builds a plain finite-field element, calling `stype(...)` etc. a secure object
FIELD_TYPE_NAMES = {'field', 'Zp'}
SECURE_TYPE_NAMES = {'stype', 'sftype', 'sectype', 'secint', 'secfxp', 'secfld', 'secnum', 'secflt'}
UNSAFE_BUILTINS = {'exec', 'eval', 'getattr', 'setattr', 'compile', '__import__', 'globals', 'locals', 'vars'}


def deco_kind(d):
    s = ast.unparse(d)
    last = s.split('(')[0].split('.')[-1]
    if last == 'mpc_coro_no_pc':
        return 'NoPC'
    if last in ('mpc_coro', 'coroutine'):
        if isinstance(d, ast.Call):      # mpc_coro(f, pc=False) spelled as a decorator factory: be safe
            for kw in d.keywords:
                if kw.arg == 'pc' and ast.unparse(kw.value) == 'False':
                    return 'NoPC'
        return 'PC'
    return None


class Func:
    def __init__(self, module, qual, node, kind, parent):
        self.module, self.qual, self.node, self.kind, self.parent = module, qual, node, kind, parent
        self.name = node.name if hasattr(node, 'name') else '<lambda>'
        self.locals = {}          # nested defs: name -> Func
        self.has_rettype = getattr(node, 'returns', None) is not None
        self.calls = []           # (root, attrname | None, barename | None)
        self.mentions_pc = False

    @property
    def key(self):
        return '%s.%s' % (self.module, self.qual)


def load_modules():
    d = os.path.join(REPO, 'mpyc')
    mods = {}
    for fn in sorted(os.listdir(d)):
        if fn.endswith('.py'):
            mods[fn[:-3]] = ast.parse(open(os.path.join(d, fn)).read(), filename=fn)
    return mods


def module_aliases(tree):
    """name -> mpyc module name, for `from mpyc import x`, `import mpyc.x as y`, `from mpyc import x as y`."""
    al = {}
    for n in ast.walk(tree):
        if isinstance(n, ast.ImportFrom) and n.module and n.module.split('.')[0] == 'mpyc':
            for a in n.names:
                if n.module == 'mpyc':
                    al[a.asname or a.name] = a.name
                else:
                    al[a.asname or a.name] = ('from', n.module.split('.', 1)[1], a.name)
        elif isinstance(n, ast.Import):
            for a in n.names:
                if a.name.startswith('mpyc.'):
                    al[a.asname or a.name] = a.name.split('.', 1)[1]
    return al


def collect(mods):
    funcs = []          # all Func
    by_name = {}        # simple name -> [Func]  (methods and module-level functions and nested)
    modlevel = {}       # module -> {name: Func}

    def visit(module, node, qual, parent, cls):
        for ch in ast.iter_child_nodes(node):
            if isinstance(ch, (ast.FunctionDef, ast.AsyncFunctionDef)):
                kinds = [k for k in map(deco_kind, ch.decorator_list) if k]
                kind = kinds[0] if kinds else 'Plain'
                q = (qual + '.' if qual else '') + ch.name
                f = Func(module, q, ch, kind, parent)
                funcs.append(f)
                by_name.setdefault(ch.name, []).append(f)
                if parent is not None:
                    parent.locals[ch.name] = f
                elif cls is None:
                    modlevel.setdefault(module, {})[ch.name] = f
                visit(module, ch, q, f, None)
            elif isinstance(ch, ast.ClassDef):
                visit(module, ch, (qual + '.' if qual else '') + ch.name, parent, ch)
            else:
                visit(module, ch, qual, parent, cls)

    for m, tree in mods.items():
        visit(m, tree, '', None, None)
    return funcs, by_name, modlevel


def root_and_chain(e):
    """Attribute chain a.b.c -> ('a', ['b','c']); None if the root is not a Name."""
    chain = []
    while isinstance(e, ast.Attribute):
        chain.append(e.attr)
        e = e.value
    if isinstance(e, ast.Name):
        return e.id, chain[::-1]
    return None, chain[::-1]


def own_nodes(fnode):
    """Nodes of a function body excluding nested function bodies (lambdas/comprehensions included)."""
    todo = list(fnode.body)
    while todo:
        n = todo.pop()
        yield n
        for ch in ast.iter_child_nodes(n):
            if isinstance(ch, (ast.FunctionDef, ast.AsyncFunctionDef)):
                for d in ch.decorator_list:
                    todo.append(d)
                continue
            todo.append(ch)


class Analysis:
    def __init__(self):
        self.mods = load_modules()
        self.aliases = {m: module_aliases(t) for m, t in self.mods.items()}
        self.funcs, self.by_name, self.modlevel = collect(self.mods)
        self.touch_funcs = set()      # Func keys that touch the counter when called
        self.touch_names = set()      # simple names (for method resolution)
        self._closure()

    # ---- call resolution ------------------------------------------------------------------
    def resolve(self, f, call):
        """Resolve a Call node inside function f.  Returns ('funcs', [Func...]) | ('safe', why) |
        ('unknown', why)."""
        fn = call.func
        if isinstance(fn, ast.Name):
            nm = fn.id
            g = f
            while g is not None:
                if nm in g.locals:
                    return 'funcs', [g.locals[nm]]
                g = g.parent
            if nm in self.modlevel.get(f.module, {}):
                return 'funcs', [self.modlevel[f.module][nm]]
            al = self.aliases[f.module].get(nm)
            if isinstance(al, tuple):      # from mpyc.x import name
                tgt = self.modlevel.get(al[1], {}).get(al[2])
                if tgt is not None:
                    return 'funcs', [tgt]
                return 'safe', 'imported class/constant'
            if nm in UNSAFE_BUILTINS:
                return 'unknown', 'builtin ' + nm
            if nm in SAFE_BUILTINS:
                return 'safe', 'builtin'
            return 'local', nm              # a local variable / parameter used as a callable
        if isinstance(fn, ast.Attribute):
            root, chain = root_and_chain(fn)
            attr = chain[-1] if chain else None
            if root is None:
                return 'expr', attr          # method call on a computed expression
            if root in RUNTIME_ROOTS:
                cands = [g for g in self.by_name.get(attr, []) if g.parent is None]
                if cands:
                    return 'funcs', cands
                return 'safe', 'runtime attribute without scanned definition'
            al = self.aliases[f.module].get(root)
            if al is not None and not isinstance(al, tuple):
                # module alias: resolve the last attribute inside that module (name-based over all modules if nested)
                tgt = self.modlevel.get(al, {}).get(attr)
                if tgt is not None:
                    return 'funcs', [tgt]
                cands = [g for g in self.by_name.get(attr, []) if g.module == al]
                if cands:
                    return 'funcs', cands
                return 'safe', 'module attribute'
            return 'method', (root, attr)    # method call on a local name
        return 'expr', None

    def _closure(self):
        prim = set()
        for f in self.funcs:
            for n in own_nodes(f.node):
                if isinstance(n, ast.Attribute) and n.attr == '_program_counter':
                    f.mentions_pc = True
            if f.kind == 'PC' or f.name in PRIMS or f.mentions_pc:
                prim.add(f.key)
        self.touch_funcs = set(prim)
        changed = True
        while changed:
            changed = False
            for f in self.funcs:
                if f.key in self.touch_funcs:
                    continue
                for n in own_nodes(f.node):
                    if isinstance(n, ast.Call):
                        kind, val = self.resolve(f, n)
                        if kind == 'funcs' and any(g.key in self.touch_funcs for g in val):
                            self.touch_funcs.add(f.key)
                            changed = True
                            break
        self.touch_names = {k.rsplit('.', 1)[-1] for k in self.touch_funcs}

    # ---- per NoPC body ---------------------------------------------------------------------
    def analyse_body(self, f):
        """Returns (hits, assumed) : hits = list of (lineno, why) after the first await."""
        return BodyScan(self, f).run()


PLAIN, SECURE, PARAM, TYPE, UNKNOWN = 'plain', 'secure', 'param', 'type', 'unknown'


class BodyScan:
    def __init__(self, an, f):
        self.an, self.f = an, f
        self.hits, self.assumed = [], []
        self.env = {}
        a = f.node.args
        for arg in a.posonlyargs + a.args + a.kwonlyargs + ([a.vararg] if a.vararg else []) + ([a.kwarg] if a.kwarg else []):
            self.env[arg.arg] = PARAM
        for r in RUNTIME_ROOTS:
            if r in self.env:
                self.env[r] = PLAIN
        self.awaited = f.has_rettype     # no synchronous first segment when a return annotation is present

    def hit(self, node, why):
        if self.awaited:
            self.hits.append((getattr(node, 'lineno', 0), why))

    def run(self):
        self.block(self.f.node.body)
        return sorted(set(self.hits)), sorted(set(self.assumed))

    # -- statements
    def block(self, stmts):
        for s in stmts:
            self.stmt(s)

    def stmt(self, s):
        if isinstance(s, (ast.FunctionDef, ast.AsyncFunctionDef)):
            self.env[s.name] = PLAIN          # calls are resolved through f.locals
            return
        if isinstance(s, ast.ClassDef):
            self.hit(s, 'unrecognised: class definition')
            return
        if isinstance(s, ast.If):
            self.expr(s.test)
            a0, e0 = self.awaited, dict(self.env)
            self.block(s.body)
            a1, e1 = self.awaited, self.env
            self.awaited, self.env = a0, dict(e0)
            self.block(s.orelse)
            self.awaited = self.awaited or a1
            self.env = self.join(e1, self.env)
            return
        if isinstance(s, (ast.For, ast.AsyncFor, ast.While)):
            if isinstance(s, ast.While):
                self.expr(s.test)
            else:
                st = self.expr(s.iter)
                self.bind(s.target, st)
            a0 = self.awaited
            e0 = dict(self.env)
            self.block(s.body)
            if self.awaited != a0 or self.env != e0:     # later iterations run after the await of an earlier one
                self.env = self.join(e0, self.env)
                if isinstance(s, ast.While):
                    self.expr(s.test)
                self.block(s.body)
            self.block(s.orelse)
            return
        if isinstance(s, (ast.With, ast.AsyncWith)):
            for it in s.items:
                st = self.expr(it.context_expr)
                if it.optional_vars is not None:
                    self.bind(it.optional_vars, st)
            self.block(s.body)
            return
        if isinstance(s, ast.Try) or s.__class__.__name__ == 'TryStar':
            self.block(s.body)
            for h in s.handlers:
                if h.name:
                    self.env[h.name] = PLAIN
                self.block(h.body)
            self.block(s.orelse)
            self.block(s.finalbody)
            return
        if isinstance(s, ast.Assign):
            st = self.expr(s.value)
            for t in s.targets:
                self.bind(t, st, s.value)
            return
        if isinstance(s, ast.AnnAssign):
            st = self.expr(s.value) if s.value is not None else PLAIN
            self.bind(s.target, st)
            return
        if isinstance(s, ast.AugAssign):
            lt = self.expr(self.as_load(s.target))
            rt = self.expr(s.value)
            st = self.operator(s, [(self.as_load(s.target), lt), (s.value, rt)])
            self.bind(s.target, st)
            return
        if isinstance(s, (ast.Return, ast.Expr)):
            if s.value is not None:
                self.expr(s.value)
            return
        if isinstance(s, ast.Raise):
            if s.exc is not None:
                self.expr(s.exc)
            return
        if isinstance(s, ast.Assert):
            self.expr(s.test)
            if s.msg is not None:
                self.expr(s.msg)
            return
        if isinstance(s, ast.Delete):
            return
        if isinstance(s, (ast.Pass, ast.Break, ast.Continue, ast.Import, ast.ImportFrom)):
            return
        self.hit(s, 'unrecognised statement ' + s.__class__.__name__)

    @staticmethod
    def as_load(t):
        t2 = ast.parse(ast.unparse(t), mode='eval').body
        ast.copy_location(t2, t)
        for n in ast.walk(t2):
            if not hasattr(n, 'lineno'):
                n.lineno = getattr(t, 'lineno', 0)
        return t2

    @staticmethod
    def join(e1, e2):
        order = {PLAIN: 0, TYPE: 1, PARAM: 2, UNKNOWN: 3, SECURE: 4}
        out = {}
        for k in set(e1) | set(e2):
            a, b = e1.get(k, PLAIN), e2.get(k, PLAIN)
            out[k] = a if order[a] >= order[b] else b
        return out

    def bind(self, target, st, value=None):
        if isinstance(target, ast.Name):
            self.env[target.id] = st
        elif isinstance(target, (ast.Tuple, ast.List)):
            for i, e in enumerate(target.elts):
                if isinstance(e, ast.Starred):
                    e = e.value
                self.bind(e, st)
        elif isinstance(target, ast.Subscript):
            # x[i] = v : container keeps the worse status; storing into a placeholder array is an operator
            cs = self.expr(target.value)
            self.expr(target.slice)
            if cs == SECURE:
                self.hit(target, 'item assignment on secure placeholder `%s`' % ast.unparse(target.value)[:40])
            r, _ = root_and_chain(target.value)
            if r is not None and st in (SECURE, UNKNOWN):
                self.env[r] = self.join({r: self.env.get(r, PLAIN)}, {r: st})[r]
        elif isinstance(target, ast.Attribute):
            self.expr(target.value)
        elif isinstance(target, ast.Starred):
            self.bind(target.value, st)

    # -- expressions: returns status of the value
    def expr(self, e):
        an = self.an
        if e is None:
            return PLAIN
        if isinstance(e, ast.Await):
            self.expr(e.value)
            self.awaited = True
            return PLAIN
        if isinstance(e, (ast.Yield, ast.YieldFrom)):
            self.hit(e, 'unrecognised: yield')
            self.awaited = True
            return UNKNOWN
        if isinstance(e, ast.Constant):
            return PLAIN
        if isinstance(e, ast.Name):
            return self.env.get(e.id, PLAIN)
        if isinstance(e, ast.Attribute):
            if e.attr == '_program_counter':
                self.hit(e, 'mentions _program_counter')
            st = self.expr(e.value)
            if e.attr in ('sectype', 'array', 'field') or st == TYPE:
                return TYPE if e.attr in ('sectype', 'array') else PLAIN
            return PLAIN      # attributes of secure objects (integral, shape, ndim, value, ...) are public metadata
        if isinstance(e, ast.Call):
            return self.call(e)
        if isinstance(e, (ast.BinOp,)):
            ops = [(e.left, self.expr(e.left)), (e.right, self.expr(e.right))]
            return self.operator(e, ops)
        if isinstance(e, ast.UnaryOp):
            ops = [(e.operand, self.expr(e.operand))]
            if isinstance(e.op, ast.Not):
                if ops[0][1] == SECURE:
                    self.hit(e, 'truth value of secure placeholder')
                return PLAIN
            return self.operator(e, ops)
        if isinstance(e, ast.Compare):
            ops = [(e.left, self.expr(e.left))] + [(c, self.expr(c)) for c in e.comparators]
            if all(isinstance(o, (ast.Is, ast.IsNot)) for o in e.ops):
                return PLAIN
            self.operator(e, ops)
            return PLAIN if all(s != SECURE for _, s in ops) else SECURE
        if isinstance(e, ast.BoolOp):
            sts = [self.expr(v) for v in e.values]
            return self.worst(sts)
        if isinstance(e, ast.IfExp):
            self.expr(e.test)
            return self.worst([self.expr(e.body), self.expr(e.orelse)])
        if isinstance(e, ast.Subscript):
            st = self.expr(e.value)
            self.expr(e.slice)
            if st == SECURE and not self.is_list_like(e.value):
                pass
            return st if st in (SECURE, PARAM, UNKNOWN) else PLAIN
        if isinstance(e, ast.Slice):
            for x in (e.lower, e.upper, e.step):
                self.expr(x)
            return PLAIN
        if isinstance(e, (ast.Tuple, ast.List, ast.Set)):
            return self.worst([self.expr(x) for x in e.elts])
        if isinstance(e, ast.Dict):
            return self.worst([self.expr(x) for x in list(e.keys) + list(e.values) if x is not None])
        if isinstance(e, ast.Starred):
            return self.expr(e.value)
        if isinstance(e, (ast.ListComp, ast.SetComp, ast.GeneratorExp, ast.DictComp)):
            saved = dict(self.env)
            for g in e.generators:
                st = self.expr(g.iter)
                self.bind(g.target, st)
                for c in g.ifs:
                    self.expr(c)
            if isinstance(e, ast.DictComp):
                r = self.worst([self.expr(e.key), self.expr(e.value)])
            else:
                r = self.expr(e.elt)
            self.env = saved
            return r
        if isinstance(e, ast.Lambda):
            saved = dict(self.env)
            for arg in e.args.args:
                self.env[arg.arg] = PARAM
            self.expr(e.body)       # conservatively: as if called here
            self.env = saved
            return PLAIN
        if isinstance(e, ast.JoinedStr):
            for v in e.values:
                self.expr(v)
            return PLAIN
        if isinstance(e, ast.FormattedValue):
            self.expr(e.value)
            return PLAIN
        if isinstance(e, ast.NamedExpr):
            st = self.expr(e.value)
            self.bind(e.target, st)
            return st
        self.hit(e, 'unrecognised expression ' + e.__class__.__name__)
        return UNKNOWN

    @staticmethod
    def is_list_like(e):
        return True

    @staticmethod
    def worst(sts):
        order = {PLAIN: 0, TYPE: 1, PARAM: 2, UNKNOWN: 3, SECURE: 4}
        w = PLAIN
        for s in sts:
            if order[s] > order[w]:
                w = s
        return w

    def operator(self, node, ops):
        """Arithmetic/comparison operator on operands with statuses."""
        sts = [s for _, s in ops]
        if SECURE in sts or UNKNOWN in sts:
            self.hit(node, 'operator on secure placeholder: `%s`' % ast.unparse(node)[:60])
            return SECURE
        if PARAM in sts and self.awaited:
            self.assumed.append((getattr(node, 'lineno', 0), ast.unparse(node)[:60]))
        return PLAIN

    def call(self, e):
        an, f = self.an, self.f
        argst = [self.expr(a) for a in e.args] + [self.expr(k.value) for k in e.keywords]
        kind, val = an.resolve(f, e)
        fn = e.func
        if isinstance(fn, ast.Attribute):
            recv = self.expr(fn.value)
        else:
            recv = None
        txt = ast.unparse(fn)[:50]
        if kind == 'funcs':
            touching = [g for g in val if g.key in an.touch_funcs]
            if touching:
                self.hit(e, 'call `%s` may reach counter-touching %s' % (txt, sorted({g.key for g in touching})[:3]))
            root, chain = root_and_chain(fn) if isinstance(fn, ast.Attribute) else (None, [])
            coro = any(g.kind in ('PC', 'NoPC') for g in val)
            if chain and chain[-1] in ('gather', 'returnType'):
                return PLAIN
            if coro or touching or root in RUNTIME_ROOTS:
                return SECURE       # un-awaited call on the runtime: result may be a placeholder
            return self.worst(argst) if self.worst(argst) == SECURE else PLAIN
        if kind == 'safe':
            # builtins / module functions / runtime attributes without definition (e.g. mpc.gather alias)
            if isinstance(fn, ast.Name) and fn.id == 'type':
                return TYPE
            return SECURE if SECURE in argst and isinstance(fn, ast.Name) and fn.id in (
                'list', 'tuple', 'zip', 'map', 'reversed', 'sorted', 'enumerate', 'iter', 'next', 'filter') else PLAIN
        if kind == 'unknown':
            self.hit(e, 'unrecognised: call of `%s` (%s)' % (txt, val))
            return UNKNOWN
        if kind == 'local':
            st = self.env.get(val, None)
            if st == TYPE or (val in SECURE_TYPE_NAMES and st in (None, PARAM, PLAIN)):
                return SECURE       # stype(c): a fresh secure object
            if val in FIELD_TYPE_NAMES and st in (None, PARAM, PLAIN):
                if self.awaited:
                    self.assumed.append((getattr(e, 'lineno', 0), 'constructor call %s(...)' % val))
                return PLAIN        # field(v): a plain field element
            if st == PARAM or st is None or st in (UNKNOWN, SECURE):
                self.hit(e, 'unrecognised: call of local callable `%s`' % val)
                return UNKNOWN
            # PLAIN local name used as a callable (e.g. `field`, `Zp` bound from an attribute): a type/constructor
            return PLAIN
        if kind == 'method':
            root, attr = val
            st = self.env.get(root, None)
            if st is None:
                # a global name that is neither a function nor an mpyc module alias (np, math, pickle, logging, ...)
                return PLAIN
            if st == SECURE or st == UNKNOWN:
                self.hit(e, 'unrecognised: method `%s` on secure placeholder' % txt)
                return UNKNOWN
            if st == TYPE:
                # stype.field(s), sftype.array(x) : constructors; stype.sectype(...) -> secure object
                return SECURE if attr in ('sectype', 'array') or len(root_and_chain(fn)[1]) == 1 and attr not in (
                    'field',) and False else PLAIN
            if st == PARAM:
                if self.awaited:
                    self.assumed.append((getattr(e, 'lineno', 0), 'method ' + txt))
                return PLAIN
            return PLAIN
        # kind == 'expr': method call on a computed expression, e.g. x[0].f(), (a+b).g()
        if recv in (SECURE, UNKNOWN):
            self.hit(e, 'unrecognised: method `%s` on secure placeholder expression' % txt)
            return UNKNOWN
        if not isinstance(fn, ast.Attribute):
            self.hit(e, 'unrecognised: call of computed callable `%s`' % txt)
            return UNKNOWN
        return PLAIN


# --------------------------------------------------------------------------------------------
# pc_level sites of asyncoro.py

def pc_level_paths(tree):
    """Exit paths of typed_asyncoro (inside mpc_coro) and of _reconcile with their `_pc_level` deltas.
    Returns list of (name, increments, decrements, task_created, note)."""
    fn = {n.name: n for n in ast.walk(tree) if isinstance(n, ast.FunctionDef)}
    out = []
    ta = fn.get('typed_asyncoro')
    rec = fn.get('_reconcile')

    def delta(stmts):
        inc = dec = 0
        for s in stmts:
            if isinstance(s, ast.AugAssign) and ast.unparse(s.target).endswith('_pc_level'):
                v = ast.literal_eval(s.value)
                if isinstance(s.op, ast.Add):
                    inc += v
                elif isinstance(s.op, ast.Sub):
                    dec += v
                else:
                    inc += 1000
        return inc, dec

    if ta is None or rec is None:
        return [('missing typed_asyncoro/_reconcile', 0, 1, False, 'translator could not find the functions')]
    # prefix: straight-line statements at the top of typed_asyncoro
    top_inc, top_dec = delta(ta.body)
    # every nested statement list is a candidate path segment; enumerate exits structurally:
    #   try/except inside `if rettype ... else`, try/except inside `if no_async: while True`, and the tail
    def handlers_of(node):
        res = []
        for t in ast.walk(node):
            if isinstance(t, ast.Try):
                for h in t.handlers:
                    leaves = h.body[-1]
                    exits = isinstance(leaves, (ast.Return, ast.Raise))
                    res.append((t, h, exits))
        return res
    seen_try = handlers_of(ta)
    for t, h, exits in seen_try:
        hi, hd = delta(h.body)
        # is the try inside a `while True` (no_async loop)?
        where = 'no_async' if any(isinstance(w, ast.While) and t in list(ast.walk(w)) for w in ast.walk(ta)) else 'first_segment'
        exc = ast.unparse(h.type) if h.type is not None else 'BaseException'
        if not exits:
            out.append(('%s:%s:falls-through' % (where, exc), top_inc + hi, top_dec + hd, False, 'handler does not exit'))
        else:
            out.append(('%s:%s' % (where, exc), top_inc + hi, top_dec + hd, False, ''))
    # the asynchronous tail: Task created, done-callback must be _reconcile which decrements once, first thing
    tail_cb = any(isinstance(c, ast.Call) and ast.unparse(c.func).endswith('add_done_callback') and '_reconcile' in ast.unparse(c)
                  for c in ast.walk(ta))
    ri, rd = 0, 0
    first_dec = False
    for i, s in enumerate(rec.body):
        a, b = delta([s])
        ri += a
        rd += b
        if i == 0 and b == 1:
            first_dec = True
    # nested decrements in _reconcile (would double count)
    for n in ast.walk(rec):
        if isinstance(n, ast.AugAssign) and n not in rec.body and ast.unparse(n.target).endswith('_pc_level'):
            rd += 100
    out.append(('task:_reconcile', top_inc + ri, top_dec + (rd if tail_cb and first_dec else 0), True,
                '' if tail_cb and first_dec else 'done-callback is not _reconcile or its first statement is not the decrement'))
    # any other `_pc_level` assignment in asyncoro outside these functions
    other = 0
    for n in ast.walk(tree):
        if isinstance(n, (ast.AugAssign, ast.Assign)) and '_pc_level' in ast.unparse(n):
            other += 1
    counted = sum(1 for n in ast.walk(ta) if isinstance(n, ast.AugAssign) and '_pc_level' in ast.unparse(n)) + \
        sum(1 for n in ast.walk(rec) if isinstance(n, ast.AugAssign) and '_pc_level' in ast.unparse(n))
    if other != counted:
        out.append(('stray _pc_level assignment', 0, 1, False, '%d assignments outside typed_asyncoro/_reconcile' % (other - counted)))
    # exceptions of the no_async / first segment that are NOT caught would leave the level raised: the handlers must
    # be `except Exception` (BaseException subclasses such as CancelledError/KeyboardInterrupt are outside the model)
    return out


def completion_shape(tree):
    """Tokens describing where the `_pc_level` decrement of an asynchronous coroutine happens and whether the program
    counter is restored on every path (see Barrier.completion_shape_wf).  Fail-closed: exact statement shapes only."""
    fn = {}
    for n in ast.walk(tree):
        if isinstance(n, ast.FunctionDef):
            fn.setdefault(n.name, []).append(n)
    out = []

    def bad(what, node=None):
        return 'unrecognised: %s%s' % (what, (' ' + ' ;; '.join(ast.unparse(node).split('\n'))[:160]) if node is not None else '')
    ta = fn.get('typed_asyncoro', [None])[0]
    rec = fn.get('_reconcile', [None])[0]
    if ta is None or rec is None or len(fn.get('typed_asyncoro', [])) != 1 or len(fn.get('_reconcile', [])) != 1:
        return [bad('typed_asyncoro/_reconcile not found exactly once')]
    body = ta.body
    src = [ast.unparse(b) for b in body]
    # 1. increment first, then the coroutine object
    out.append('increment_first' if len(body) >= 2 and src[0] == 'runtime._pc_level += 1' and src[1] == 'coro = func(*args, **kwargs)'
               else bad('typed_asyncoro does not start with the increment', body[0]))
    # 2. `if rettype:` branch neutral
    ifr = body[2] if len(body) > 2 and isinstance(body[2], ast.If) and ast.unparse(body[2].test) == 'rettype' else None
    if ifr is None or any('_pc_level' in ast.unparse(b) for b in ifr.body) or \
            [ast.unparse(b) for b in ifr.body] != ['decl = returnType(rettype, wrap=False)'] or \
            len(ifr.orelse) != 1 or not isinstance(ifr.orelse[0], ast.Try):
        out.append(bad('declaration branch', body[2] if len(body) > 2 else None))
    else:
        out.append('declaration_neutral')
    # 3. straight-line tail after the no_async block
    idx = next((k for k, b in enumerate(body) if isinstance(b, ast.If) and ast.unparse(b.test) == 'runtime.options.no_async'), None)
    tail = body[idx + 1:] if idx == 3 else None
    want_tail = ['if pc:\n    coro = _wrap_in_coro(_ProgramCounterWrapper(runtime, coro))',
                 'task = Task(coro, loop=runtime._loop)', 'task.f_back = sys._getframe(1)',
                 'task.add_done_callback(lambda t: _reconcile(decl, t))', 'return _ncopy(decl)']
    if tail is None or [ast.unparse(b) for b in tail] != want_tail:
        out.append(bad('task tail of typed_asyncoro', ast.Module(body=tail or body[-3:], type_ignores=[])))
    else:
        out.append('task_tail_straight')
    # 4. _reconcile: decrement first, unconditionally, exactly once
    rb = [b for b in rec.body if not (isinstance(b, ast.Expr) and isinstance(b.value, ast.Constant))]
    ndec = sum(1 for n in ast.walk(rec) if isinstance(n, (ast.AugAssign, ast.Assign)) and '_pc_level' in ast.unparse(n))
    out.append('reconcile_first' if rb and ast.unparse(rb[0]) == 'runtime._pc_level -= 1' and ndec == 1
               else bad('_reconcile', rb[0] if rb else None))
    # 5. wrapper: restore in finally
    aw = None
    for n in ast.walk(tree):
        if isinstance(n, ast.ClassDef) and n.name == '_ProgramCounterWrapper':
            aw = next((f for f in n.body if isinstance(f, ast.FunctionDef) and f.name == '__await__'), None)
    ok = False
    if aw is not None and len(aw.body) == 1 and isinstance(aw.body[0], ast.While) and ast.unparse(aw.body[0].test) == 'True':
        wb = aw.body[0].body
        if len(wb) == 4 and isinstance(wb[2], ast.Try):
            t = wb[2]
            ok = (ast.unparse(wb[0]) == 'pc = self.runtime._program_counter'
                  and ast.unparse(wb[1]) == 'self.runtime._program_counter = self.pc'
                  and [ast.unparse(b) for b in t.body] == ['val = self.coro.send(None)']
                  and len(t.handlers) == 1 and ast.unparse(t.handlers[0].type) == 'StopIteration'
                  and [ast.unparse(b) for b in t.handlers[0].body] == ['return exc.value']
                  and [ast.unparse(b) for b in t.orelse] == ['self.pc = self.runtime._program_counter']
                  and [ast.unparse(b) for b in t.finalbody] == ['self.runtime._program_counter = pc']
                  and ast.unparse(wb[3]) == 'yield val')
    out.append('wrapper_finally' if ok else bad('_ProgramCounterWrapper.__await__', aw))
    return out


def shutdown_order(tree):
    """Order of the relevant statements in Runtime.shutdown: ['wait_level', 'transfer', 'close', 'await_own']."""
    seq = []
    for n in ast.walk(tree):
        if isinstance(n, ast.AsyncFunctionDef) and n.name == 'shutdown':
            for s in n.body:
                src = ast.unparse(s)
                if isinstance(s, ast.While) and '_pc_level' in src and 'sleep' in src:
                    seq.append('wait_level')
                elif 'await self.transfer(' in src:
                    seq.append('transfer')
                elif 'close_connection' in src:
                    seq.append('close')
                elif isinstance(s, ast.Expr) and isinstance(s.value, ast.Await) and '.protocol' in src:
                    seq.append('await_own')
                elif isinstance(s, ast.If) and 'return' in src and 'm == 1' in src:
                    seq.append('return_if_single')
    return seq


def unset_condition(tree):
    """Shape of Runtime.unset_protocol: deregister the peer, then resolve the own future iff EVERY peer other than self
    is deregistered.  Anything else (other iteration range, other filter, other body) -> 'unrecognised: ...'."""
    fn = [n for n in ast.walk(tree) if isinstance(n, ast.FunctionDef) and n.name == 'unset_protocol']
    if len(fn) != 1:
        return 'unrecognised: %d definitions of unset_protocol' % len(fn)
    body = [b for b in fn[0].body if not (isinstance(b, ast.Expr) and isinstance(b.value, ast.Constant))]
    src = [ast.unparse(b) for b in body]
    if len(body) != 2 or src[0] != 'self.parties[peer_pid].protocol = None' or not isinstance(body[1], ast.If):
        return 'unrecognised: body ' + ' ;; '.join(src)[:200]
    iff = body[1]
    if iff.orelse or [ast.unparse(b) for b in iff.body] != ['self.parties[self.pid].protocol.set_result(None)']:
        return 'unrecognised: branch ' + ast.unparse(iff)[:200]
    t = iff.test
    ok = (isinstance(t, ast.Call) and isinstance(t.func, ast.Name) and t.func.id == 'all' and len(t.args) == 1 and not t.keywords
          and isinstance(t.args[0], ast.GeneratorExp) and len(t.args[0].generators) == 1)
    if ok:
        g = t.args[0].generators[0]
        ok = (ast.unparse(t.args[0].elt) == 'p.protocol is None' and ast.unparse(g.target) == 'p'
              and ast.unparse(g.iter) == 'self.parties' and not g.is_async
              and [ast.unparse(c) for c in g.ifs] in (['p.pid != self.pid'], ['self.pid != p.pid']))
    return 'all_peers_except_self' if ok else 'unrecognised: condition ' + ast.unparse(t)[:200]


# --------------------------------------------------------------------------------------------

def coqstr(s):
    return '"' + s.replace('"', '""') + '"'


def generate(write=True, verbose=False):
    an = Analysis()
    rows, detail = [], {}
    assumed_all = {}
    for f in an.funcs:
        if f.kind not in ('PC', 'NoPC'):
            continue
        if f.kind == 'NoPC':
            hits, assumed = an.analyse_body(f)
            silent = not hits
            detail[f.key] = hits
            if assumed:
                assumed_all[f.key] = assumed
        else:
            silent = True
        rows.append((f.key, f.kind, silent))
    rows.sort()
    aco = an.mods['asyncoro']
    paths = pc_level_paths(aco)
    order = shutdown_order(an.mods['runtime'])
    comp = completion_shape(aco)
    unset = unset_condition(an.mods['runtime'])
    info = {
        'n_pc': sum(1 for r in rows if r[1] == 'PC'), 'n_nopc': sum(1 for r in rows if r[1] == 'NoPC'),
        'flagged': {k: [list(h) for h in v] for k, v in detail.items() if v},
        'assumed_public_param_ops': {k: [list(x) for x in v] for k, v in assumed_all.items()},
        'touching_functions': len(an.touch_funcs),
        'pc_level_paths': [list(p) for p in paths], 'shutdown_order': order, 'unset_condition': unset, 'completion_shape': comp,
        'rows': [list(r) for r in rows],
    }
    if write:
        gen = os.path.join(COQ, 'gen')
        os.makedirs(gen, exist_ok=True)
        lines = ['(* GENERATED by harness/gen_coro_table.py from %s/mpyc/*.py -- do not edit *)' % REPO,
                 'From Coq Require Import List String Bool.', 'Import ListNotations.',
                 'Require Import MPyC.PC MPyC.Barrier.', 'Local Open Scope string_scope.', '',
                 'Definition coro_table : list (string * kind * bool) := [']
        lines.append(';\n'.join('  (%s, %s, %s)' % (coqstr(k), kind, 'true' if s else 'false') for k, kind, s in rows))
        lines += ['].', '',
                  '(* exit paths of asyncoro.typed_asyncoro: (name, increments, decrements, task_created) *)',
                  'Definition pc_level_paths : list (string * nat * nat * bool) := [']
        lines.append(';\n'.join('  (%s, %d, %d, %s)' % (coqstr(n), i, d, 'true' if t else 'false') for n, i, d, t, _ in paths))
        lines += ['].', '', 'Definition shutdown_order : list string := [%s].' % '; '.join(coqstr(x) for x in order),
                  'Definition unset_condition : string := %s.' % coqstr(unset),
                  'Definition completion_shape : list string := [%s].' % '; '.join(coqstr(x) for x in comp), '']
        _write(os.path.join(gen, 'CoroTable.v'), '\n'.join(lines))
        _write(os.path.join(gen, 'CoroWf.v'), '\n'.join([
            '(* GENERATED obligation: every NoPC coroutine of the current source is pc-silent after its first await *)',
            'From Coq Require Import List String Bool.', 'Require Import MPyC.PC MPyCGen.CoroTable.',
            'Theorem all_wf : forallb wf_entry coro_table = true.', 'Proof. vm_compute. reflexivity. Qed.', '']))
        _write(os.path.join(gen, 'CoroBalanced.v'), '\n'.join([
            '(* GENERATED obligation: every exit path of typed_asyncoro is balanced; shutdown statement order *)',
            'From Coq Require Import List String Bool.', 'Require Import MPyC.Barrier MPyCGen.CoroTable.',
            'Theorem all_balanced : balanced pc_level_paths && completion_shape_wf completion_shape = true.', 'Proof. vm_compute. reflexivity. Qed.',
            'Theorem shutdown_order_ok : shutdown_order_wf shutdown_order && unset_condition_wf unset_condition = true.',
            'Proof. vm_compute. reflexivity. Qed.', '']))
    if verbose:
        print(json.dumps({k: v for k, v in info.items() if k != 'rows'}, indent=1))
    return info


def _write(path, txt):
    old = open(path).read() if os.path.exists(path) else None
    if old != txt:
        with open(path, 'w') as f:
            f.write(txt)


if __name__ == '__main__':
    generate(write='--no-write' not in sys.argv, verbose=True)
