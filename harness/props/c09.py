"""C09 — every message is labelled uniquely and consumed exactly once.

Proof: coq/props/C09.v over PC.v (labels) and the buffer machine of PC.v (MessageExchanger.buffers: data_received /
receive).  Tie: simulator sessions (several programs per session, then shutdown) under Fifo / random / bytewise /
reverse / hold schedules and (m,t) in {(2,0),(3,1),(4,1),(5,2)}:
  * independent frame parser over the raw byte stream of every directed connection: no label occurs twice, and the
    frame sequence equals the logged sends;
  * every sent label is received exactly once by the peer and vice versa (multisets);
  * the interleaving of frame arrivals and receive calls of every connection end is replayed through the Coq buffer
    machine: predicted buffer contents = real `buffers` after every program, and empty after shutdown;
  * the Section hypotheses of labels_unique (counter ranges of different contexts are disjoint: `hop` injective and
    sparse on the observed values) are checked on the observed labels of every party.
"""
import collections, struct, time

from lib.core import zlit
from props import c08 as base

MANIFEST = {
    'text': 'Coq (PC.v): buffer machine of MessageExchanger (data_received/receive on the pc-keyed dict, including the '
            'set_result-on-bytes exception and the pop-a-waiting-future case): bm_spec / consumed_once / empty_iff_matched '
            '(with duplicate-free delivered and received label sequences, after ANY interleaving of arrivals and '
            'receives, no exception occurs and the buffer holds exactly the delivered-not-received payloads and the '
            'received-not-delivered futures; buffers are empty iff the two label sets coincide), bm_duplicate_refuted '
            '(a repeated label raises or orphans a payload); send labels are schedule-independent under wf (from C08); '
            'labels_unique: for wf programs, if the SEQUENTIAL reading has no two sends to one peer with the same label '
            '(executable check seq_sends_unique) then in every pair of executions under any schedulers two sends at '
            'distinct structural positions to one peer carry different labels. '
            'Simulator: independent frame parser over every directed byte stream (no repeated label, frames = logged '
            'sends), send/receive label multisets equal per connection, every connection end replayed through the Coq '
            'buffer machine (mid-run contents and emptiness after shutdown), buffers empty after shutdown.',
    'note': 'PARTIAL: labels_unique is proved only as a reduction to the sequential reading; that the sequential reading '
            'is duplicate-free for EVERY program is NOT proved (it needs `_hop`, the Python tuple hash, injective and '
            'sparse, and one send per peer and counter value inside each protocol). It is CHECKED on every run: '
            'seq_sends_unique evaluated in Coq on logged call trees with the real hop values, no repeated label on any '
            'connection (frame parser), observed counter ranges of all contexts of a party pairwise disjoint. '
            'Trusted: Coq kernel + vm_compute; simulator (lib.sim) driving the real MessageExchanger. Programs avoid `%` '
            '(their own property is C08; F-C08-1/2 are fixed in /repo). Handshakes whose preamble arrives coalesced with (or cut 0/1/2 bytes into) the first message of the client, followed by a request/response program, are run for m=2,3,4 with PRSS on and off. Sessions also run with --no-barrier and with one lagging party while un-awaited coroutine chains are still running at shutdown. Per-protocol at_most_one_send_per_peer belongs to C07 (routing); here observed only.',
    'technique': 'Coq proof of the buffer machine + independent frame parser and buffer replay on simulator runs',
}


class BufLog:
    """Per connection end (owner, peer): sequence of ('d', pc) frame arrivals (parsed independently from the raw bytes
    handed to data_received) and ('r', pc) receive calls."""

    def __init__(self, sess):
        self.ops = collections.defaultdict(list)
        self.acc = collections.defaultdict(bytearray)
        sim = sess.sim
        for i in range(sim.m):
            ME = sim.mods[i]['mpyc.asyncoro'].MessageExchanger
            odr, orecv = ME.data_received, ME.receive

            def data_received(self_, data, _o=odr, _i=i):
                key = (_i, self_.peer_pid)
                if self_.peer_pid is not None:
                    acc = self.acc[key]
                    acc.extend(data)
                    while len(acc) >= 12:
                        pc, size = struct.unpack_from('<qI', acc)
                        if len(acc) < 12 + size:
                            break
                        del acc[:12 + size]
                        self.ops[key].append(('d', pc))
                return _o(self_, data)

            def receive(self_, pc, _o=orecv, _i=i):
                self.ops[(_i, self_.peer_pid)].append(('r', pc))
                return _o(self_, pc)
            ME.data_received, ME.receive = data_received, receive


def coq_ops(ops):
    return '[' + '; '.join(('Deliver (%d)%%Z' if k == 'd' else 'Receive (%d)%%Z') % pc for k, pc in ops) + ']'


def context_ranges(mon, pid):
    """Observed counter intervals [start, max] per context of one party."""
    rng = {}
    for e in mon.events[pid]:
        ctx = e[0]
        if e[1] == 'fork':
            vals = [e[2][0], e[2][0] + 1]
            rng.setdefault(e[4], [e[3][0], e[3][0]])
        elif e[1] == 'uci':
            vals = [e[2] - 1, e[2]]
        else:
            vals = [e[3]]
        r = rng.setdefault(ctx, [min(vals), max(vals)])
        r[0], r[1] = min(r[0], *vals), max(r[1], *vals)
    return rng


def drive_exchanger(rng, n):
    """Drive one real MessageExchanger (no network) with random deliver/receive sequences."""
    import asyncio
    from mpyc import asyncoro

    class RT:
        pass
    loop = asyncio.new_event_loop()
    rt = RT()
    rt._loop = loop
    out = []
    try:
        for _ in range(n):
            me = asyncoro.MessageExchanger(rt, peer_pid=1)
            ops = [(rng.choice('dr'), rng.choice([1, 2, 3, -(1 << 62), (1 << 62) + 5])) for _ in range(rng.randint(0, 9))]
            exc = False
            for k, pc in ops:
                if k == 'd':
                    payload = bytes([rng.randrange(256)]) * rng.randint(0, 3)
                    frame = struct.pack('<qI', pc, len(payload)) + payload
                    cut = rng.randint(0, len(frame))
                    try:
                        me.data_received(frame[:cut])
                        me.data_received(frame[cut:])
                    except AttributeError:
                        exc = True
                else:
                    me.receive(pc)
            state = sorted((pc, 'Payload' if isinstance(v, (bytes, bytearray)) else 'Waiting') for pc, v in me.buffers.items())
            out.append((ops, state, exc))
    finally:
        loop.close()
    return out


def run(ctx):
    ok = ctx.build() and ctx.check_props()
    ctx.rule = ('case = (session: 3-6 random secure-integer programs run back to back + shutdown, configuration, schedule); '
                'checked per directed connection; non-trivial when the connection carried >= 2 frames')
    ctx.explanation = ('buffer machine proved in Coq for all interleavings; frame-level uniqueness and exactly-once '
                       'consumption checked by an independent parser and by replaying every connection end through the model')
    rng = ctx.rng
    stats = collections.Counter()
    exprs, meta = [], []
    uniq_exprs, uniq_meta = [], []
    t0 = time.time()
    budget = ctx.n(70, 900)
    for ci, (m, t) in enumerate(base.CONFIGS):
        nprog = ctx.n(3, 6)
        progs = [base.gen_spec(rng, m, ctx.n(24, 40)) for _ in range(nprog)]
        # many concurrent operations to provoke label reuse: a wide program without awaits
        wide = {'m': m, 'ops': [['input', [rng.randint(-9, 9) for _ in range(m)]]] +
                [[rng.choice(['mul', 'lt', 'mul', 'eq']), rng.randrange(m), rng.randrange(m)] for _ in range(ctx.n(20, 120))] +
                [['transfer_all', 'W'], ['await', 0], ['output_all']]}
        # the last program of every session leaves a chain of un-awaited coroutines running when shutdown begins
        base.add_unawaited_chain(wide)
        pols = [(pn, pf, ()) for pn, pf in base.policies(rng, m, nhold=ctx.n(2, m * (m - 1)), nrand=ctx.n(2, 4))]
        lag = rng.randrange(m)
        # barriers disabled (--no-barrier): shutdown must wait for outstanding coroutines all the same; one lagging party
        pols += [('fifo', pols[0][1], ('--no-barrier',)),
                 ('lag:%d:25' % lag, base.lagging(m, lag, 25), ('--no-barrier',)),
                 ('lag:%d:25' % ((lag + 1) % m), base.lagging(m, (lag + 1) % m, 25), ())]
        for pn, pf, extra in pols:
            if time.time() - t0 > budget * (ci + 1) / len(base.CONFIGS) and not extra:
                ctx.notes.append('time budget: skipped %s for (%d,%d)' % (pn, m, t))
                continue
            for no_prss in ((False, True) if pn == 'fifo' and not extra else (False,)):
                sess = base.Session(m, t, ctx.seed + 5, no_prss=no_prss, extra=extra, start_policy=pf())
                try:
                    bl = BufLog(sess)
                    sim = sess.sim
                    key0 = {'m': m, 't': t, 'schedule': pn, 'no_prss': no_prss, 'options': list(extra)}
                    if not sess.ok:
                        ctx.violation('start (handshake) did not complete under %s (m=%d,t=%d)' % (pn.split(':')[0], m, t), {'case': key0})
                        continue
                    failed = False
                    for pi, (spec, want) in enumerate(progs + [(wide, None)]):
                        res, starts = sess.run(spec, pf)
                        stats['programs'] += 1
                        if len(uniq_exprs) < ctx.n(10, 60) and rng.random() < 0.12 and not base.is_bad(res):
                            party = rng.randrange(m)
                            tree = sess.mon.tree(party, starts[party])
                            uniq_exprs.append('(seq_sends_unique %s, List.length (sends %s []))' % (
                                (base.coq_tree_args(tree, sess.c0[party]),) * 2))
                            uniq_meta.append(dict(key0, program=pi, party=party))
                        if base.is_bad(res) or (want is not None and any(r != want for r in res)):
                            ctx.violation('program did not complete correctly under %s (m=%d,t=%d)' % (pn.split(':')[0], m, t),
                                          {'case': key0, 'program': spec['ops'], 'results': res, 'want': want,
                                           'buffers_left': sess.leftover()})
                            failed = True
                            break
                        # buffers right now vs model prediction (mid-run, generally non-empty is possible)
                        for (a, b), p in sess.protos.items():
                            real = sorted((pc, 'Payload' if isinstance(v, (bytes, bytearray)) else 'Waiting')
                                          for pc, v in p.buffers.items())
                            if real or (stats['midrun'] < ctx.n(16, 100) and rng.random() < 0.1):
                                stats['midrun'] += 1
                                exprs.append('bm_run %s' % coq_ops(bl.ops[(a, b)]))
                                meta.append((dict(key0, end=[a, b], after_program=pi), real, False))
                    if failed:
                        continue
                    stats['sessions_with_tasks_pending_at_shutdown'] += 1 if any(sess.mon.pending_tasks(i) for i in range(m)) else 0
                    sd = sess.shutdown(pf)
                    if any(r is not True for r in sd):
                        ctx.violation('shutdown incomplete under %s (m=%d,t=%d)' % (pn.split(':')[0], m, t), {'case': key0, 'shutdown': sd})
                        continue
                    # 1. frames: unique labels, equal to logged sends; 2. send/receive multisets; 3. buffers empty
                    for a in range(m):
                        for b in range(m):
                            if a == b:
                                continue
                            frames, rest = sim.frames(a, b)
                            labels = [pc for pc, _ in frames]
                            key = dict(key0, link=[a, b])
                            ctx.case(key, nontrivial=len(labels) >= 2, kind='(%d,%d) %s%s' % (m, t, pn.split(':')[0], ' no-barrier' if extra else ''))
                            stats['frames'] += len(labels)
                            if rest:
                                ctx.violation('partial frame left on connection', dict(key, nbytes=len(rest)))
                            dup = [pc for pc, n in collections.Counter(labels).items() if n > 1]
                            if dup:
                                ctx.violation('label used twice on one directed connection', dict(key, labels=dup[:5]))
                            sent = [(e[2], e[3]) for e in sim.msglog[a] if e[0] == 'send' and e[1] == b]
                            if [(pc, len(pl)) for pc, pl in frames] != sent:
                                ctx.violation('frames on the wire differ from the sends', dict(key, n_frames=len(frames), n_sent=len(sent)))
                            recv = collections.Counter(e[2] for e in sim.msglog[b] if e[0] == 'recv' and e[1] == a)
                            snt = collections.Counter(labels)
                            if recv != snt:
                                d1 = list((snt - recv).items())[:4]
                                d2 = list((recv - snt).items())[:4]
                                ctx.violation('sent and received labels do not match one to one',
                                              dict(key, sent_not_received=d1, received_not_sent=d2))
                            # final buffer state through the model (sampled: the op lists are long)
                            if rng.random() < ctx.n(0.12, 0.5):
                                exprs.append('bm_run %s' % coq_ops(bl.ops[(b, a)]))
                                meta.append((dict(key0, end=[b, a], after_program='shutdown'), [], False))
                    sess.check_shutdown_state(ctx, key0)
                    left = sess.leftover()
                    if left:
                        ctx.violation('receive buffers not empty after shutdown', {'case': key0, 'left': left})
                    # 4. hypotheses of labels_unique on the observed values: context ranges pairwise disjoint
                    for i in range(m):
                        rs = sorted(context_ranges(sess.mon, i).values())
                        stats['contexts'] += len(rs)
                        for (lo1, hi1), (lo2, hi2) in zip(rs, rs[1:]):
                            if lo2 <= hi1:
                                ctx.violation('counter ranges of two contexts overlap (hop not sparse on observed values)',
                                              {'case': key0, 'party': i, 'ranges': [[lo1, hi1], [lo2, hi2]]})
                                break
                    stats['sessions'] += 1
                finally:
                    sess.close()
    # connection preamble coalesced with the first labelled message(s), request/response right after start
    base.coalesced_handshake_stream(ctx, stats, full=True)
    # the real MessageExchanger driven directly with short random op sequences over a tiny label space (repeated labels,
    # receive-before-deliver, double receive, double deliver -> exception), against the model including its error flag
    for real_ops, real_state, real_exc in drive_exchanger(rng, ctx.n(150, 600)):
        exprs.append('bm_run %s' % coq_ops(real_ops))
        meta.append(({'direct': real_ops}, real_state, real_exc))
        ctx.case({'direct': real_ops}, nontrivial=len(real_ops) >= 3, kind='direct MessageExchanger')
    ctx.log('simulator: %s; evaluating %d buffer replays in Coq' % (dict(stats), len(exprs)))
    if ok and exprs:
        res = ctx.coq_eval(['MPyC.PC'], exprs, chunk=40, timeout=600)
        good = 0
        for r, (key, real, exc) in zip(res, meta):
            if isinstance(r, tuple) and r and r[0] == 'ERROR':
                ctx.broken.append({'kind': 'correspondence', 'what': 'coq evaluation failed', 'detail': r[1][:300]})
                continue
            model = sorted((pc, sl) for pc, sl in r[0])
            if model != [(pc, k) for pc, k in real] or r[2] is not exc:
                ctx.broken.append({'kind': 'correspondence', 'what': 'buffer machine vs MessageExchanger.buffers', 'case': key,
                                   'model': str(model)[:300], 'impl': str(real)[:300]})
            else:
                good += 1
        ctx.extra['traces_validated_against_impl'] = good
        ctx.log('buffer machine: %d/%d connection-end replays agree' % (good, len(exprs)))
    # hypothesis of labels_unique, evaluated by Coq on logged call trees with the real hop values
    if ok and uniq_exprs:
        res = ctx.coq_eval(['MPyC.PC'], uniq_exprs, chunk=1, timeout=600)
        nu = 0
        for r, key in zip(res, uniq_meta):
            if isinstance(r, tuple) and r and r[0] == 'ERROR':
                ctx.broken.append({'kind': 'correspondence', 'what': 'coq evaluation failed (seq_sends_unique)', 'detail': r[1][:300]})
            elif r[0] is not True:
                ctx.violation('sequential reading of a logged program has two sends to one peer with the same label', {'case': key})
            else:
                nu += 1
                stats['sends_checked_unique_in_coq'] += r[1]
        ctx.log('seq_sends_unique holds on %d/%d logged call trees (%d sends)' % (nu, len(uniq_exprs), stats['sends_checked_unique_in_coq']))
    ctx.extra['simulator'] = dict(stats)
    if ctx.broken and not ctx.violations:
        ctx.unproved('C09 model/proof/correspondence', {'broken': ctx.broken[:5]})
