(** C29 — value-level models of runtime.min / max / min_max / argmin / argmax (tournament
    recursion on the halves x[:n//2], x[n//2:]) and their correctness for every length. *)
From Coq Require Import List ZArith Arith Bool Lia.
Import ListNotations.
Require Import MPyC.SortNet.
Local Open Scope Z_scope.

Section Tour.
Context {A : Type}.
Variable key : A -> Z.

(** ** min, max

      n = len(x);  n == 0: ValueError;  n == 1: return x[0]
      min0 = min(x[:n//2]); min1 = min(x[n//2:]); return if_else(key(min0) < key(min1), min0, min1)
      max0 = max(x[:n//2]); max1 = max(x[n//2:]); return if_else(key(max0) < key(max1), max1, max0)

    [None] = ValueError (empty) or fuel exhausted; fuel = length suffices (theorems). *)
Fixpoint tour (pick : A -> A -> A) (fuel : nat) (x : list A) : option A :=
  match fuel with
  | O => None
  | S k =>
    match x with
    | [] => None
    | [a] => Some a
    | _ => let h := (length x / 2)%nat in
           match tour pick k (firstn h x), tour pick k (skipn h x) with
           | Some m0, Some m1 => Some (pick m0 m1)
           | _, _ => None
           end
    end
  end.

Definition pick_min (m0 m1 : A) : A := if key m0 <? key m1 then m0 else m1.
Definition pick_max (m0 m1 : A) : A := if key m0 <? key m1 then m1 else m0.
Definition min_model (x : list A) : option A := tour pick_min (length x) x.
Definition max_model (x : list A) : option A := tour pick_max (length x) x.

(** ** argmin, argmax

      n == 1: return 0, x[0]
      i0, min0 = _argmin(x[:n//2]); i1, min1 = _argmin(x[n//2:]); i1 += n//2
      c = key(min1) < key(min0)          (argmax: c = key(max0) < key(max1))
      return if_else(c, i1, i0), if_else(c, min1, min0)                                   *)
Fixpoint targ (better : A -> A -> bool) (fuel : nat) (x : list A) : option (nat * A) :=
  match fuel with
  | O => None
  | S k =>
    match x with
    | [] => None
    | [a] => Some (O, a)
    | _ => let h := (length x / 2)%nat in
           match targ better k (firstn h x), targ better k (skipn h x) with
           | Some (i0, m0), Some (i1, m1) =>
             let i1 := (i1 + h)%nat in
             let c := better m1 m0 in
             Some (if c then i1 else i0, if c then m1 else m0)
           | _, _ => None
           end
    end
  end.

Definition better_min (m1 m0 : A) : bool := key m1 <? key m0.
Definition better_max (m1 m0 : A) : bool := key m0 <? key m1.
Definition argmin_model (x : list A) : option (nat * A) := targ better_min (length x) x.
Definition argmax_model (x : list A) : option (nat * A) := targ better_max (length x) x.

(** ** halving facts *)
Lemma halves (x : list A) : (2 <= length x)%nat ->
  let h := (length x / 2)%nat in
  x = firstn h x ++ skipn h x /\ length (firstn h x) = h /\ length (skipn h x) = (length x - h)%nat /\
  (1 <= h)%nat /\ (h < length x)%nat.
Proof.
  intros H h.
  assert (Hh : (1 <= h /\ h < length x)%nat).
  { unfold h. split.
    - apply Nat.div_le_lower_bound; lia.
    - apply Nat.div_lt_upper_bound; lia. }
  split; [symmetry; apply firstn_skipn|].
  rewrite firstn_length, skipn_length. lia.
Qed.

(** ** generic tournament: result is an element, related to every element *)
Section Spec.
Variable pick : A -> A -> A.
Variable R : A -> A -> Prop.       (* R m a: m is at least as extreme as a *)
Hypothesis R_refl : forall a, R a a.
Hypothesis R_trans : forall a b c, R a b -> R b c -> R a c.
Hypothesis pick_in : forall a b, pick a b = a \/ pick a b = b.
Hypothesis pick_R : forall a b, R (pick a b) a /\ R (pick a b) b.

Lemma tour_spec fuel : forall x, x <> [] -> (length x <= fuel)%nat ->
  exists m, tour pick fuel x = Some m /\ In m x /\ forall a, In a x -> R m a.
Proof.
  induction fuel as [|k IH]; intros x Hne Hlen.
  - destruct x; [contradiction|simpl in Hlen; lia].
  - destruct x as [|a [|b r]]; [contradiction| |].
    + exists a. simpl. split; [reflexivity|]. split; [auto|]. intros c [<-|[]]. apply R_refl.
    + set (x := a :: b :: r) in *.
      assert (H2 : (2 <= length x)%nat) by (unfold x; simpl; lia).
      destruct (halves x H2) as [Hx [L1 [L2 [Hh1 Hh2]]]].
      set (h := (length x / 2)%nat) in *.
      destruct (IH (firstn h x)) as [m0 [E0 [I0 M0]]].
      { intros E. assert (length (firstn h x) = 0)%nat by (rewrite E; reflexivity). lia. } { lia. }
      destruct (IH (skipn h x)) as [m1 [E1 [I1 M1]]].
      { intros E. assert (length (skipn h x) = 0)%nat by (rewrite E; reflexivity). lia. } { lia. }
      exists (pick m0 m1).
      change (tour pick (S k) x) with
        (match tour pick k (firstn h x), tour pick k (skipn h x) with
         | Some m0, Some m1 => Some (pick m0 m1) | _, _ => None end).
      rewrite E0, E1. split; [reflexivity|].
      destruct (pick_R m0 m1) as [R0 R1].
      split.
      * rewrite Hx. apply in_or_app. destruct (pick_in m0 m1) as [-> | ->]; auto.
      * intros c Hc. rewrite Hx in Hc. apply in_app_or in Hc. destruct Hc as [Hc|Hc].
        -- eapply R_trans; [exact R0|apply M0; exact Hc].
        -- eapply R_trans; [exact R1|apply M1; exact Hc].
Qed.
End Spec.

Theorem min_model_spec : forall x, x <> [] ->
  exists m, min_model x = Some m /\ In m x /\ forall a, In a x -> key m <= key a.
Proof.
  intros x Hne. unfold min_model.
  apply (tour_spec pick_min (fun m a => key m <= key a)); cbv beta.
  - intros; lia.
  - intros; lia.
  - intros a b. unfold pick_min. destruct (key a <? key b); auto.
  - intros a b. unfold pick_min. destruct (Z.ltb_spec (key a) (key b)); lia.
  - exact Hne.
  - lia.
Qed.

Theorem max_model_spec : forall x, x <> [] ->
  exists m, max_model x = Some m /\ In m x /\ forall a, In a x -> key a <= key m.
Proof.
  intros x Hne. unfold max_model.
  apply (tour_spec pick_max (fun m a => key a <= key m)); cbv beta.
  - intros; lia.
  - intros; lia.
  - intros a b. unfold pick_max. destruct (key a <? key b); auto.
  - intros a b. unfold pick_max. destruct (Z.ltb_spec (key a) (key b)); lia.
  - exact Hne.
  - lia.
Qed.

Lemma tour_empty pick fuel : tour pick fuel [] = None.
Proof. destruct fuel; reflexivity. Qed.

(** ** argmin / argmax: first extreme index *)
Section ArgSpec.
Variable better : A -> A -> bool.
Variable k' : A -> Z.     (* better a b <-> k' a < k' b *)
Hypothesis better_lt : forall a b, better a b = (k' a <? k' b).
Variable d : A.

Lemma targ_spec fuel : forall x, x <> [] -> (length x <= fuel)%nat ->
  exists i m, targ better fuel x = Some (i, m) /\ (i < length x)%nat /\ nth i x d = m /\
    (forall j, (j < length x)%nat -> k' m <= k' (nth j x d)) /\
    (forall j, (j < i)%nat -> k' m < k' (nth j x d)).
Proof.
  induction fuel as [|k IH]; intros x Hne Hlen.
  - destruct x; [contradiction|simpl in Hlen; lia].
  - destruct x as [|a [|b r]]; [contradiction| |].
    + exists O, a. simpl. repeat split; try lia.
      intros j Hj. destruct j; [lia|lia].
    + set (x := a :: b :: r) in *.
      assert (H2 : (2 <= length x)%nat) by (unfold x; simpl; lia).
      destruct (halves x H2) as [Hx [L1 [L2 [Hh1 Hh2]]]].
      set (h := (length x / 2)%nat) in *.
      destruct (IH (firstn h x)) as [i0 [m0 [E0 [B0 [N0 [M0 F0]]]]]].
      { intros E. assert (length (firstn h x) = 0)%nat by (rewrite E; reflexivity). lia. } { lia. }
      destruct (IH (skipn h x)) as [i1 [m1 [E1 [B1 [N1 [M1 F1]]]]]].
      { intros E. assert (length (skipn h x) = 0)%nat by (rewrite E; reflexivity). lia. } { lia. }
      change (targ better (S k) x) with
        (match targ better k (firstn h x), targ better k (skipn h x) with
         | Some (i0, m0), Some (i1, m1) =>
           let i1 := (i1 + h)%nat in let c := better m1 m0 in
           Some (if c then i1 else i0, if c then m1 else m0)
         | _, _ => None end).
      rewrite E0, E1. cbv zeta. rewrite better_lt.
      set (l1 := firstn h x) in *. set (l2 := skipn h x) in *.
      assert (Nlo : forall j, (j < h)%nat -> nth j x d = nth j l1 d).
      { intros j Hj. rewrite Hx. apply app_nth1. lia. }
      assert (Nhi : forall j, (h <= j)%nat -> nth j x d = nth (j - h) l2 d).
      { intros j Hj. rewrite Hx. rewrite app_nth2 by lia. rewrite L1. reflexivity. }
      destruct (Z.ltb_spec (k' m1) (k' m0)) as [Hc|Hc].
      * exists (i1 + h)%nat, m1. split; [reflexivity|]. split; [lia|]. split.
        { rewrite Nhi by lia. replace (i1 + h - h)%nat with i1 by lia. exact N1. }
        split.
        { intros j Hj. destruct (Nat.lt_ge_cases j h) as [Hjh|Hjh].
          - rewrite Nlo by exact Hjh. specialize (M0 j ltac:(lia)). lia.
          - rewrite Nhi by exact Hjh. apply M1. lia. }
        { intros j Hj. destruct (Nat.lt_ge_cases j h) as [Hjh|Hjh].
          - rewrite Nlo by exact Hjh. specialize (M0 j ltac:(lia)). lia.
          - rewrite Nhi by exact Hjh. apply F1. lia. }
      * exists i0, m0. split; [reflexivity|]. split; [lia|]. split.
        { rewrite Nlo by lia. exact N0. }
        split.
        { intros j Hj. destruct (Nat.lt_ge_cases j h) as [Hjh|Hjh].
          - rewrite Nlo by exact Hjh. apply M0. lia.
          - rewrite Nhi by exact Hjh. specialize (M1 (j - h)%nat ltac:(lia)). lia. }
        { intros j Hj. rewrite Nlo by lia. apply F0. exact Hj. }
Qed.
End ArgSpec.

Theorem argmin_model_spec : forall (d : A) x, x <> [] ->
  exists i m, argmin_model x = Some (i, m) /\ (i < length x)%nat /\ nth i x d = m /\
    (forall j, (j < length x)%nat -> key m <= key (nth j x d)) /\
    (forall j, (j < i)%nat -> key m < key (nth j x d)).
Proof.
  intros d x Hne. unfold argmin_model.
  apply (targ_spec better_min key); [intros a b; reflexivity|exact Hne|lia].
Qed.

Theorem argmax_model_spec : forall (d : A) x, x <> [] ->
  exists i m, argmax_model x = Some (i, m) /\ (i < length x)%nat /\ nth i x d = m /\
    (forall j, (j < length x)%nat -> key (nth j x d) <= key m) /\
    (forall j, (j < i)%nat -> key (nth j x d) < key m).
Proof.
  intros d x Hne. unfold argmax_model.
  destruct (targ_spec better_max (fun a => - key a) ) with (d := d) (fuel := length x) (x := x)
    as [i [m [E [B [N [M F]]]]]]; auto.
  - intros a b. unfold better_max. destruct (Z.ltb_spec (key b) (key a)), (Z.ltb_spec (- key a) (- key b)); auto; lia.
  - exists i, m. repeat split; auto.
    + intros j Hj. specialize (M j Hj). lia.
    + intros j Hj. specialize (F j Hj). lia.
Qed.

End Tour.

(** ** numbers (key = identity): min = fold Z.min, max = fold Z.max *)

Lemma fold_min_spec l : forall a, let r := fold_left Z.min l a in In r (a :: l) /\ forall y, In y (a :: l) -> r <= y.
Proof.
  induction l as [|b l IH]; intros a; simpl.
  - split; [auto|]. intros y [<-|[]]. lia.
  - destruct (IH (Z.min a b)) as [I M]. simpl in I, M. split.
    + destruct I as [I|I]; [|auto]. rewrite <- I. destruct (Z.min_spec a b) as [[_ ->]|[_ ->]]; auto.
    + intros y [<-|[<-|Hy]].
      * specialize (M (Z.min a b) (or_introl eq_refl)). lia.
      * specialize (M (Z.min a b) (or_introl eq_refl)). lia.
      * apply M. auto.
Qed.

Lemma fold_max_spec l : forall a, let r := fold_left Z.max l a in In r (a :: l) /\ forall y, In y (a :: l) -> y <= r.
Proof.
  induction l as [|b l IH]; intros a; simpl.
  - split; [auto|]. intros y [<-|[]]. lia.
  - destruct (IH (Z.max a b)) as [I M]. simpl in I, M. split.
    + destruct I as [I|I]; [|auto]. rewrite <- I. destruct (Z.max_spec a b) as [[_ ->]|[_ ->]]; auto.
    + intros y [<-|[<-|Hy]].
      * specialize (M (Z.max a b) (or_introl eq_refl)). lia.
      * specialize (M (Z.max a b) (or_introl eq_refl)). lia.
      * apply M. auto.
Qed.

Definition zid (a : Z) : Z := a.

Theorem min_eq_fold : forall a l, min_model zid (a :: l) = Some (fold_left Z.min l a).
Proof.
  intros a l. destruct (min_model_spec zid (a :: l)) as [m [E [I M]]]; [discriminate|].
  rewrite E. f_equal. destruct (fold_min_spec l a) as [I' M']. unfold zid in M.
  specialize (M _ I'). specialize (M' _ I). lia.
Qed.

Theorem max_eq_fold : forall a l, max_model zid (a :: l) = Some (fold_left Z.max l a).
Proof.
  intros a l. destruct (max_model_spec zid (a :: l)) as [m [E [I M]]]; [discriminate|].
  rewrite E. f_equal. destruct (fold_max_spec l a) as [I' M']. unfold zid in M.
  specialize (M _ I'). specialize (M' _ I). lia.
Qed.

Theorem min_empty : forall {A} (key : A -> Z), min_model key [] = None /\ max_model key [] = None
  /\ argmin_model key [] = None /\ argmax_model key [] = None.
Proof. intros. repeat split. Qed.

(** ** min_max

      for i in range(n//2):
          a, b = x[i], x[-1-i]
          x[i], x[-1-i] = self.if_swap(key(a) >= key(b), a, b)
      return min(x[:(n+1)//2], key=key), max(x[n//2:], key=key)      # x[n//2] in both halves if n odd *)

Section MinMax.
Context {A : Type}.
Variable key : A -> Z.
Variable d : A.      (* default for out-of-range reads; never used *)

(** if_swap(key(a) >= key(b), a, b): on equal keys the two elements ARE swapped *)
Definition lo (a b : A) : A := if key a >=? key b then b else a.
Definition hi (a b : A) : A := if key a >=? key b then a else b.

Definition prepass_step (n : nat) (x : list A) (i : nat) : list A :=
  let a := nth i x d in let b := nth (n - 1 - i) x d in
  set_nth (n - 1 - i) (hi a b) (set_nth i (lo a b) x).

Definition prepass (x : list A) : list A :=
  let n := length x in fold_left (prepass_step n) (seq 0 (n / 2)) x.

Definition min_max_model (x : list A) : option A * option A :=
  let n := length x in
  let x' := prepass x in
  (min_model key (firstn ((n + 1) / 2) x'), max_model key (skipn (n / 2) x')).

Lemma lo_cases a b : (lo a b = a \/ lo a b = b) /\ key (lo a b) = Z.min (key a) (key b).
Proof. unfold lo. destruct (Z.geb_spec (key a) (key b)); split; auto; lia. Qed.
Lemma hi_cases a b : (hi a b = a \/ hi a b = b) /\ key (hi a b) = Z.max (key a) (key b).
Proof. unfold hi. destruct (Z.geb_spec (key a) (key b)); split; auto; lia. Qed.

Lemma prepass_step_length n x i : length (prepass_step n x i) = length x.
Proof. unfold prepass_step. rewrite !set_nth_length. reflexivity. Qed.

Lemma prepass_steps_length n l : forall x, length (fold_left (prepass_step n) l x) = length x.
Proof. induction l as [|i l IH]; intros x; simpl; [reflexivity|]. rewrite IH. apply prepass_step_length. Qed.

(** state after the first k iterations, position by position *)
Lemma prepass_nth (x : list A) (k : nat) : (k <= length x / 2)%nat ->
  forall j, (j < length x)%nat ->
    nth j (fold_left (prepass_step (length x)) (seq 0 k) x) d =
      if (j <? k)%nat then lo (nth j x d) (nth (length x - 1 - j) x d)
      else if (length x - 1 - k <? j)%nat then hi (nth (length x - 1 - j) x d) (nth j x d)
      else nth j x d.
Proof.
  set (n := length x).
  assert (Hn2 : (2 * (n / 2) <= n)%nat) by (apply Nat.mul_div_le; lia).
  induction k as [|k IH]; intros Hk j Hj.
  - simpl. destruct (Nat.ltb_spec (n - 1 - 0) j); [lia|reflexivity].
  - rewrite seq_S, fold_left_app. simpl fold_left. cbn [plus].
    set (y := fold_left (prepass_step n) (seq 0 k) x) in *.
    assert (Ly : length y = n) by (unfold y; apply prepass_steps_length).
    unfold prepass_step.
    rewrite !nth_set_nth, set_nth_length, Ly.
    rewrite (IH ltac:(lia) k ltac:(lia)), (IH ltac:(lia) (n - 1 - k)%nat ltac:(lia)).
    rewrite (IH ltac:(lia) j Hj).
    replace (n - 1 - (n - 1 - k))%nat with k by lia.
    repeat match goal with
           | |- context [Nat.ltb ?a ?b] => destruct (Nat.ltb_spec a b); try lia
           | |- context [Nat.eqb ?a ?b] => destruct (Nat.eqb_spec a b); try lia
           end; cbn [andb]; subst;
    try replace (n - 1 - (n - 1 - k))%nat with k by lia; try reflexivity; try lia.
Qed.

Lemma prepass_length x : length (prepass x) = length x.
Proof. unfold prepass. apply prepass_steps_length. Qed.

Lemma prepass_spec (x : list A) : forall j, (j < length x)%nat ->
  nth j (prepass x) d =
    if (j <? length x / 2)%nat then lo (nth j x d) (nth (length x - 1 - j) x d)
    else if (length x - 1 - length x / 2 <? j)%nat then hi (nth (length x - 1 - j) x d) (nth j x d)
    else nth j x d.
Proof. intros j Hj. unfold prepass. apply prepass_nth; [lia|exact Hj]. Qed.

Lemma half_facts n : (2 * (n / 2) <= n /\ n < 2 * (n / 2) + 2 /\ (n + 1) / 2 = n - n / 2)%nat.
Proof.
  pose proof (Nat.div_mod n 2 ltac:(lia)). pose proof (Nat.mod_upper_bound n 2 ltac:(lia)).
  split; [lia|]. split; [lia|].
  symmetry. apply Nat.div_unique with (r := (n + 1 - 2 * (n - n / 2))%nat); lia.
Qed.

(** every entry after the pre-pass is an entry of the input *)
Lemma prepass_elem x j : (j < length x)%nat -> exists j', (j' < length x)%nat /\ nth j (prepass x) d = nth j' x d.
Proof.
  intros Hj. rewrite prepass_spec by exact Hj. set (n := length x) in *.
  destruct (Nat.ltb_spec j (n / 2)).
  - destruct (lo_cases (nth j x d) (nth (n - 1 - j) x d)) as [[-> | ->] _];
      [exists j|exists (n - 1 - j)%nat]; split; auto; lia.
  - destruct (Nat.ltb_spec (n - 1 - n / 2) j).
    + destruct (hi_cases (nth (n - 1 - j) x d) (nth j x d)) as [[-> | ->] _];
        [exists (n - 1 - j)%nat|exists j]; split; auto; lia.
    + exists j. auto.
Qed.

(** every input entry is dominated from below by an entry of the lower half (incl. the middle) ... *)
Lemma prepass_lower x j : (j < length x)%nat ->
  exists j0, (j0 < (length x + 1) / 2)%nat /\ key (nth j0 (prepass x) d) <= key (nth j x d).
Proof.
  intros Hj. set (n := length x) in *. destruct (half_facts n) as [H1 [H2 H3]].
  destruct (Nat.lt_ge_cases j (n / 2)) as [Hlt|Hge].
  - exists j. split; [lia|]. rewrite prepass_spec by exact Hj. fold n.
    destruct (Nat.ltb_spec j (n / 2)); [|lia].
    destruct (lo_cases (nth j x d) (nth (n - 1 - j) x d)) as [_ ->]. lia.
  - destruct (Nat.lt_ge_cases j ((n + 1) / 2)) as [Hmid|Hup].
    + (* the middle element of an odd-length list *)
      exists j. split; [exact Hmid|]. rewrite prepass_spec by exact Hj. fold n.
      destruct (Nat.ltb_spec j (n / 2)); [lia|].
      destruct (Nat.ltb_spec (n - 1 - n / 2) j); [lia|]. lia.
    + exists (n - 1 - j)%nat. split; [lia|]. rewrite prepass_spec by (fold n; lia). fold n.
      destruct (Nat.ltb_spec (n - 1 - j) (n / 2)); [|lia].
      replace (n - 1 - (n - 1 - j))%nat with j by lia.
      destruct (lo_cases (nth (n - 1 - j) x d) (nth j x d)) as [_ ->]. lia.
Qed.

(** ... and from above by an entry of the upper half (incl. the middle) *)
Lemma prepass_upper x j : (j < length x)%nat ->
  exists j1, (length x / 2 <= j1 < length x)%nat /\ key (nth j x d) <= key (nth j1 (prepass x) d).
Proof.
  intros Hj. set (n := length x) in *. destruct (half_facts n) as [H1 [H2 H3]].
  destruct (Nat.lt_ge_cases j (n / 2)) as [Hlt|Hge].
  - exists (n - 1 - j)%nat. split; [lia|]. rewrite prepass_spec by (fold n; lia). fold n.
    destruct (Nat.ltb_spec (n - 1 - j) (n / 2)); [lia|].
    destruct (Nat.ltb_spec (n - 1 - n / 2) (n - 1 - j)); [|lia].
    replace (n - 1 - (n - 1 - j))%nat with j by lia.
    destruct (hi_cases (nth j x d) (nth (n - 1 - j) x d)) as [_ ->]. lia.
  - exists j. split; [lia|]. rewrite prepass_spec by exact Hj. fold n.
    destruct (Nat.ltb_spec j (n / 2)); [lia|].
    destruct (Nat.ltb_spec (n - 1 - n / 2) j).
    + destruct (hi_cases (nth (n - 1 - j) x d) (nth j x d)) as [_ ->]. lia.
    + lia.
Qed.

Lemma In_nth_ex (l : list A) a : In a l -> exists j, (j < length l)%nat /\ nth j l d = a.
Proof. intros H. destruct (In_nth l a d H) as [j [H1 H2]]. eauto. Qed.

(** min_max with any key: both results are elements of x, with minimal resp. maximal key *)
Theorem min_max_key_spec : forall x, x <> [] ->
  exists m M, min_max_model x = (Some m, Some M) /\ In m x /\ In M x /\
    (forall a, In a x -> key m <= key a) /\ (forall a, In a x -> key a <= key M).
Proof.
  intros x Hne. unfold min_max_model.
  set (n := length x). set (x' := prepass x).
  assert (Hn : (1 <= n)%nat) by (unfold n; destruct x; [contradiction|simpl; lia]).
  assert (L' : length x' = n) by apply prepass_length.
  destruct (half_facts n) as [H1 [H2 H3]].
  set (lo_half := firstn ((n + 1) / 2) x').
  assert (Llo : length lo_half = ((n + 1) / 2)%nat) by (unfold lo_half; rewrite firstn_length; lia).
  assert (Nlo : forall j, (j < (n + 1) / 2)%nat -> nth j lo_half d = nth j x' d).
  { intros j Hj. unfold lo_half. rewrite <- (firstn_skipn ((n + 1) / 2) x') at 2.
    rewrite app_nth1 by (fold lo_half; lia). reflexivity. }
  set (hi_half := skipn (n / 2) x').
  assert (Lhi : length hi_half = (n - n / 2)%nat) by (unfold hi_half; rewrite skipn_length; lia).
  assert (Nhi : forall j, (j < n - n / 2)%nat -> nth j hi_half d = nth (n / 2 + j) x' d).
  { intros j Hj. unfold hi_half. rewrite <- (firstn_skipn (n / 2) x') at 2.
    rewrite app_nth2; rewrite firstn_length; [|lia]. f_equal. lia. }
  destruct (min_model_spec key lo_half) as [m [Em [Im Mm]]].
  { intros E. assert (length lo_half = 0)%nat by (rewrite E; reflexivity). lia. }
  destruct (max_model_spec key hi_half) as [M [EM [IM MM]]].
  { intros E. assert (length hi_half = 0)%nat by (rewrite E; reflexivity). lia. }
  exists m, M. rewrite Em, EM. split; [reflexivity|].
  split; [|split; [|split]].
  - destruct (In_nth_ex lo_half m Im) as [j [Hj <-]]. rewrite Nlo by lia.
    destruct (prepass_elem x j ltac:(fold n; lia)) as [j' [Hj' E]]. fold x' in E. rewrite E.
    apply nth_In. exact Hj'.
  - destruct (In_nth_ex hi_half M IM) as [j [Hj <-]]. rewrite Nhi by lia.
    destruct (prepass_elem x (n / 2 + j)%nat ltac:(fold n; lia)) as [j' [Hj' E]]. fold x' in E. rewrite E.
    apply nth_In. exact Hj'.
  - intros a Ha. destruct (In_nth_ex x a Ha) as [j [Hj <-]].
    destruct (prepass_lower x j Hj) as [j0 [Hj0 Hle]]. fold n in Hj0. fold x' in Hle.
    assert (Hm : key m <= key (nth j0 lo_half d)) by (apply Mm, nth_In; lia).
    rewrite Nlo in Hm by exact Hj0. lia.
  - intros a Ha. destruct (In_nth_ex x a Ha) as [j [Hj <-]].
    destruct (prepass_upper x j Hj) as [j1 [Hj1 Hle]]. fold n in Hj1. fold x' in Hle.
    assert (HM : key (nth (j1 - n / 2) hi_half d) <= key M) by (apply MM, nth_In; lia).
    rewrite Nhi in HM by lia. replace (n / 2 + (j1 - n / 2))%nat with j1 in HM by lia. lia.
Qed.

End MinMax.

(** numbers without key: both extremes, every length *)
Theorem min_max_eq_fold : forall a l,
  min_max_model zid 0 (a :: l) = (Some (fold_left Z.min l a), Some (fold_left Z.max l a)).
Proof.
  intros a l. destruct (min_max_key_spec zid 0 (a :: l)) as [m [M [E [Im [IM [Hm HM]]]]]]; [discriminate|].
  rewrite E. unfold zid in Hm, HM.
  destruct (fold_min_spec l a) as [I1 M1]. destruct (fold_max_spec l a) as [I2 M2].
  pose proof (Hm _ I1). pose proof (M1 _ Im). pose proof (HM _ I2). pose proof (M2 _ IM).
  f_equal; f_equal; lia.
Qed.
