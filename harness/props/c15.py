"""C15 — pseudorandom secret sharing is consistent for every key assignment.

Proof: coq/props/C15.v.  Tie: the real thresha.pseudorandom_share / pseudorandom_share_zero (and
the np_ variants when NumPy is importable) are called per party with real PRF objects over random
keys; the PRF outputs (recomputed by calling the same PRF objects) feed the Coq model `zp_prss`
/ `zp_prss_zero`; all m shares compared exactly, and an independent interpolation oracle checks
degree and secret on the implementation's shares.
"""
import itertools
from lib.core import zlist, natlit, zlit

MANIFEST = {
    'text': 'Theorems in Coq over an abstract field, for all m, t, every family of subsets with complements of size <= t and '
            'EVERY table of PRF outputs: the shares computed independently by the m parties (each summing only over its own '
            'subsets) lie on one polynomial of degree <= t whose secret is the sum of the subset outputs; zero-shares lie on a '
            'polynomial of degree <= 2t with secret 0; f_S is one polynomial for all parties. The executable Z_p instance is '
            'compared share-by-share with thresha on real PRF outputs every run; list and array variants are compared.',
    'note': 'Trusted: Coq kernel+vm_compute; model coq/theories/PRSS.v tied to thresha by exact comparison for prime fields '
            '(all (m,t) with m<=6/7, batch sizes 0,1,2,5); extension/binary fields: abstract theorems + implementation oracle '
            'only. The PRF is an oracle: theorems hold for every output table. The array variant of the zero sharing used the '
            'PRF block of a subset in reversed coefficient order (finding F-C15-1: list and array variants differed for t >= 2), '
            'repaired in /repo by f8c83ff; the check now requires exact equality of the two variants and of both with the model. '
            'An end-to-end part runs real handshakes in the simulator and checks the sharings made with the keys parties actually hold.',
    'technique': 'Coq proof (f_S as Lagrange basis polynomial; omitted terms vanish) + vm_compute correspondence on real PRF outputs',
}


def interp_ok(p, xs, ys, deg, secret):
    """Independent check: points lie on a polynomial of degree <= deg with value `secret` at 0 (mod p)."""
    def lag(xs_, ys_, x):
        tot = 0
        for i, xi in enumerate(xs_):
            num = den = 1
            for j, xj in enumerate(xs_):
                if i != j:
                    num = num * (x - xj) % p
                    den = den * (xi - xj) % p
            tot = (tot + ys_[i] * num * pow(den, -1, p)) % p
        return tot
    k = min(deg + 1, len(xs))
    bx, by = xs[:k], ys[:k]
    for x, y in zip(xs[k:], ys[k:]):
        if lag(bx, by, x) != y % p:
            return False
    if len(xs) >= deg + 1 and lag(bx, by, 0) != secret % p:
        return False
    return True


def coq_tbl(tbl, lists=False):
    items = []
    for S, v in tbl:
        key = '[' + '; '.join(natlit(x) for x in S) + ']'
        items.append('(%s, %s)' % (key, zlist(v) if lists else zlit(v)))
    return '[' + '; '.join(items) + ']'


def run(ctx):
    from mpyc import thresha, finfields
    ok = ctx.build(['MPyC.Exec']) and ctx.check_props()
    rng = ctx.rng
    try:
        from mpyc.numpy import np
        have_np = bool(np)
    except Exception:
        have_np = False
    ctx.rule = ('case = (prime field, m, t, PRF keys, uci, batch n); all (m,t) with 2t<m and also t up to m-1, m <= %d; '
                'non-trivial when t >= 1 and n >= 1' % ctx.n(6, 7))
    ctx.explanation = 'abstract-field theorems; Z_p model vs thresha on real PRF outputs; interpolation oracle'
    primes = [7, 11, 101, 2**31 - 1, 2**61 - 1, 18446744073709551557]
    maxm = ctx.n(6, 7)
    exprs, meta = [], []
    for p in primes:
        F = finfields.GF(p)
        for m in range(1, maxm + 1):
            if m >= p:
                continue
            for t in range(0, (m + 1) // 2 if rng.random() < 0.8 else m):
                if 2 * t >= m and t > 0 and rng.random() < 0.5:
                    continue
                n = rng.choice([0, 1, 1, 2, 5])
                bound = rng.choice([p, p, 2 ** 8, 2 ** 40]) if p > 2 ** 40 else p
                subsets = list(itertools.combinations(range(m), m - t))
                keys = {S: bytes(rng.getrandbits(8) for _ in range(16)) for S in subsets}
                uci = bytes(rng.getrandbits(8) for _ in range(rng.choice([1, 8])))
                # implementation: each party with its own PRF objects
                shares, zshares, npshares, npz = [], [], [], []
                for i in range(m):
                    prfs = {S: thresha.PRF(keys[S], bound) for S in subsets if i in S}
                    sh = thresha.pseudorandom_share(F, m, i, prfs, uci, n)
                    shares.append([int(v.value) for v in sh])
                    zs = thresha.pseudorandom_share_zero(F, m, i, prfs, uci, n)
                    zshares.append([int(v.value) for v in zs])
                    if have_np and n >= 1:
                        a = thresha.np_pseudorandom_share(F, m, i, prfs, uci, n)
                        npshares.append([int(v) % p for v in a.value.tolist()])
                        if t >= 1:
                            b = thresha.np_pseudorandom_share_0(F, m, i, prfs, uci, n)
                            npz.append([int(v) % p for v in b.value.tolist()])
                # PRF outputs (oracle table)
                d = t
                rtab = {S: thresha.PRF(keys[S], bound)(uci, n) for S in subsets}
                ztab = {S: thresha.PRF(keys[S], bound)(uci, n * d) for S in subsets}
                key = {'p': p, 'm': m, 't': t, 'n': n, 'bound': bound, 'uci': uci.hex()}
                ctx.case(key, nontrivial=(t >= 1 and n >= 1), kind='t=%d' % t)
                xs = list(range(1, m + 1))
                for h in range(n):
                    col = [shares[i][h] for i in range(m)]
                    sec = sum(rtab[S][h] for S in subsets)
                    if not interp_ok(p, xs, col, t, sec):
                        ctx.violation('prss-not-degree-t p=%d m=%d t=%d' % (p, m, t),
                                      {**key, 'h': h, 'shares': col, 'expected_secret': sec % p,
                                       'keys': {str(S): k.hex() for S, k in keys.items()}})
                    zcol = [zshares[i][h] for i in range(m)]
                    if not interp_ok(p, xs, zcol, 2 * t, 0):
                        ctx.violation('prss-zero-not-degree-2t p=%d m=%d t=%d' % (p, m, t),
                                      {**key, 'h': h, 'shares': zcol,
                                       'keys': {str(S): k.hex() for S, k in keys.items()}})
                    exprs.append('zp_prss %s %s %s' % (zlit(p), natlit(m), coq_tbl([(S, rtab[S][h]) for S in subsets])))
                    meta.append(('share', key, h, col))
                    exprs.append('zp_prss_zero %s %s %s' % (zlit(p), natlit(m), coq_tbl(
                        [(S, ztab[S][h * d:(h + 1) * d]) for S in subsets], lists=True)))
                    meta.append(('zero', key, h, zcol))
                    if npshares:
                        ncol = [npshares[i][h] for i in range(m)]
                        if ncol != col:
                            ctx.violation('np-prss-differs p=%d m=%d t=%d' % (p, m, t), {**key, 'h': h, 'list': col, 'np': ncol})
                    if npz:
                        # array variant: PRF outputs shaped (n, d); block h used as coefficients of X^1..X^d
                        ztab2 = {S: thresha.PRF(keys[S], bound)(uci, (n, d)).tolist() for S in subsets}
                        exprs.append('zp_prss_zero %s %s %s' % (zlit(p), natlit(m), coq_tbl(
                            [(S, [int(v) for v in ztab2[S][h]]) for S in subsets], lists=True)))
                        meta.append(('npzero', key, h, [npz[i][h] for i in range(m)]))
                        if [npz[i][h] for i in range(m)] != zcol:
                            ctx.violation('np-prss-zero-differs-from-list-variant p=%d m=%d t=%d' % (p, m, t),
                                          {**key, 'h': h, 'list': zcol, 'np': [npz[i][h] for i in range(m)]})
                        if not interp_ok(p, xs, [npz[i][h] for i in range(m)], 2 * t, 0):
                            ctx.violation('np-prss-zero-not-degree-2t p=%d m=%d t=%d' % (p, m, t), {**key, 'h': h})
    ctx.log('evaluating %d model expressions' % len(exprs))
    if ok and exprs:
        res = ctx.coq_eval(['MPyC.Exec'], exprs, chunk=60)
        bad = 0
        for r, (kind, key, h, col) in zip(res, meta):
            if r != col:
                bad += 1
                ctx.broken.append({'kind': 'correspondence', 'what': kind, 'case': key, 'h': h, 'model': str(r)[:300], 'impl': col})
        ctx.extra['traces_validated_against_impl'] = len(exprs) - bad
        ctx.log('model/implementation disagreements: %d' % bad)
    # extension fields: implementation oracle with field arithmetic
    nx = 0
    for (pp, dd) in [(2, 3), (2, 8), (3, 2), (3, 3)]:
        F = finfields.GF(finfields.find_irreducible(pp, dd))
        q = pp ** dd
        for m in range(2, min(maxm, q - 1, 5) + 1):
            for t in range(1, (m + 1) // 2):
                subsets = list(itertools.combinations(range(m), m - t))
                keys = {S: bytes(rng.getrandbits(8) for _ in range(16)) for S in subsets}
                uci = b'\x01\x02'
                n = 2
                shares = []
                zsh = []
                for i in range(m):
                    prfs = {S: thresha.PRF(keys[S], q) for S in subsets if i in S}
                    shares.append(thresha.pseudorandom_share(F, m, i, prfs, uci, n))
                    zsh.append(thresha.pseudorandom_share_zero(F, m, i, prfs, uci, n))
                    if have_np and hasattr(thresha, 'np_pseudorandom_share'):
                        # array variants on the same keys must give the same shares (extension-field arithmetic)
                        for nm, fn, ref in (('np_pseudorandom_share', thresha.np_pseudorandom_share, shares[-1]),
                                            ('np_pseudorandom_share_0', thresha.np_pseudorandom_share_0, zsh[-1])):
                            arr = fn(F, m, i, prfs, uci, n)
                            got = [a if isinstance(a, F) else F(a) for a in list(arr)]
                            want = [a if isinstance(a, F) else F(a) for a in ref]
                            nx += 1
                            if got != want:
                                ctx.violation('np-prss-ext-field-differs-from-list-variant %s GF(%d^%d) m=%d t=%d' % (nm, pp, dd, m, t),
                                              {'party': i, 'np': [str(a) for a in got], 'list': [str(a) for a in want]})
                for h in range(n):
                    for (vec, deg, want0) in ((shares, t, None), (zsh, 2 * t, F(0))):
                        pts = [(i + 1, [vec[i][h]]) for i in range(m)]
                        base = pts[:deg + 1]
                        for (x, y) in pts[deg + 1:]:
                            nx += 1
                            if thresha.recombine(F, base, x)[0] != y[0]:
                                ctx.violation('prss-ext-field-degree GF(%d^%d) m=%d t=%d' % (pp, dd, m, t), {'h': h, 'deg': deg})
                        if want0 is not None and len(pts) >= deg + 1:
                            if thresha.recombine(F, base, 0)[0] != want0:
                                ctx.violation('prss-zero-ext-field-secret GF(%d^%d) m=%d t=%d' % (pp, dd, m, t), {'h': h})
                        if want0 is None:
                            sec = F(0)
                            for S in subsets:
                                sec += F(thresha.PRF(keys[S], q)(uci, n)[h])
                            if thresha.recombine(F, base, 0)[0] != sec:
                                ctx.violation('prss-ext-field-secret GF(%d^%d) m=%d t=%d' % (pp, dd, m, t), {'h': h})
                ctx.case({'ext': [pp, dd], 'm': m, 't': t}, kind='GF(p^d)')
    ctx.extra['extension_field_oracle_checks'] = nx
    # ---- end to end: the keys the parties actually hold after real handshakes (simulator), real runtime calls
    from lib.sim import Sim, Fifo
    ne2e = 0
    # (m, t, t0): t0 is not None = the runtime comes up with threshold t0, PRSS functions are obtained for the bounds used
    # below (prfs(bound) is cached per bound), then every party sets mpc.threshold = t before start() (as
    # demos/parallelsort.py does): the sharings must follow the keys of the threshold in force
    for (m, t, t0) in [(3, 1, None), (4, 1, None), (5, 2, None), (5, 2, 1), (5, 1, 2), (3, 1, 0)] + (
            [(5, 1, None), (7, 3, None), (7, 3, 2)] if ctx.tier == 'thorough' else []):
        sim = Sim(m, t if t0 is None else t0, seed=rng.randrange(10**6))
        try:
            if t0 is not None:
                for i in range(m):
                    mpc_i = sim.mpcs[i]
                    for st in (mpc_i.SecInt(16), mpc_i.SecFld(modulus=2**31 - 1)):
                        mpc_i.prfs(st.field.order)
                    mpc_i.threshold = t
            sim.start()

            async def prog(mpc, mods, pid):
                th = mods['mpyc.thresha']
                out = {}
                for name, st in (('secint16', mpc.SecInt(16)), ('secfld', mpc.SecFld(modulus=2**31 - 1))):
                    fld = st.field
                    r = mpc._randoms(st, 3)
                    out[name + '/rand'] = [int(v.value) for v in await mpc.gather(r)]
                    z = th.pseudorandom_share_zero(fld, len(mpc.parties), mpc.pid, mpc.prfs(fld.order), mpc._prss_uci(), 3)
                    out[name + '/zero'] = [int(v.value) for v in z]
                    out[name + '/p'] = int(fld.modulus)
                    out[name + '/open'] = [int(v.value) if hasattr(v, 'value') else int(v) for v in await mpc.output(r, raw=True)]
                return out
            res = sim.run(prog, Fifo(), idle_limit=400)
            key = {'m': m, 't': t, 'e2e': True, 'threshold_at_startup': t0}
            ctx.case(key, kind='end-to-end m=%d t=%d%s' % (m, t, '' if t0 is None else ' after threshold change'))
            if any(not isinstance(r, dict) for r in res):
                ctx.violation('e2e-run-failed m=%d t=%d' % (m, t), {**key, 'result': str(res)[:400]})
                continue
            xs = list(range(1, m + 1))
            for name in ('secint16', 'secfld'):
                p = res[0][name + '/p']
                for h in range(3):
                    ne2e += 1
                    col = [res[i][name + '/rand'][h] for i in range(m)]
                    opened = res[0][name + '/open'][h] % p
                    if not interp_ok(p, xs, col, t, opened):
                        ctx.violation('e2e-prss-shares-inconsistent m=%d t=%d' % (m, t), {**key, 'type': name, 'shares': col, 'opened': opened})
                    zcol = [res[i][name + '/zero'][h] for i in range(m)]
                    if not interp_ok(p, xs, zcol, 2 * t, 0):
                        ctx.violation('e2e-prss-zero-shares-inconsistent m=%d t=%d' % (m, t), {**key, 'type': name, 'shares': zcol})
        finally:
            sim.close()
    ctx.extra['end_to_end_values_checked'] = ne2e
    ctx.notes.append('numpy variants compared: %s' % have_np)
    if ctx.broken and not ctx.violations:
        ctx.unproved('C15 model/proof', {'broken': ctx.broken[:5]})
