"""In-process m-party MPyC simulator.

m fresh copies of the `mpyc` package (one per party) share one asyncio event loop; the loop's
create_server/create_connection are replaced by fakes so that the REAL `mpc.start()`,
`mpc.shutdown()`, MessageExchanger and all protocols run unmodified, while every byte between
parties passes through `Net`, whose delivery schedule (order across connections, chunking, delays,
cuts) is decided by a policy object.  Nothing in /repo is patched on disk; per-party hooks are set
on the freshly imported module copies:

  * `secrets` in runtime/thresha copies -> PartySecrets (seeded tape, logs every draw)
  * MessageExchanger.send/receive       -> logged (peer, pc, size)
  * asyncoro.Task                        -> TrackedTask (creation / completion of MPyC coroutines)
"""
import sys, os, asyncio, importlib, random, struct, collections, warnings, logging

REPO = os.environ.get('MPYC_REPO', '/repo')


class PartySecrets:
    """Stand-in for the `secrets` module of one party copy: seeded, logged."""

    def __init__(self, seed):
        self.rng = random.Random(seed)
        self.log = []
        self.forced = collections.deque()   # values to return first (for replay)

    def _take(self, kind, arg, gen):
        if self.forced:
            v = self.forced.popleft()
        else:
            v = gen()
        self.log.append((kind, arg, v))
        return v

    def randbelow(self, n):
        return self._take('randbelow', n, lambda: self.rng.randrange(n))

    def randbits(self, k):
        return self._take('randbits', k, lambda: self.rng.getrandbits(k))

    def token_bytes(self, n=32):
        return self._take('token_bytes', n, lambda: bytes(self.rng.getrandbits(8) for _ in range(n)))

    def choice(self, seq):
        return seq[self.randbelow(len(seq))]


class FakeTransport:
    def __init__(self, net, src, dst):
        self.net, self.src, self.dst = net, src, dst
        self.closing = False

    def write(self, data):
        if self.closing:
            return
        self.net.on_write(self.src, self.dst, bytes(data))

    def writelines(self, lst):
        for d in lst:
            self.write(d)

    def close(self):
        if not self.closing:
            self.closing = True
            self.net.on_close(self.src, self.dst)

    def is_closing(self):
        return self.closing

    def get_extra_info(self, name, default=None):
        return default

    def abort(self):
        self.close()


class FakeServer:
    def __init__(self, net, port):
        self.net, self.port = net, port

    def close(self):
        self.net.listeners.pop(self.port, None)

    async def wait_closed(self):
        return


class Net:
    def __init__(self, sim):
        self.sim = sim
        self.queues = collections.defaultdict(collections.deque)   # (src,dst) -> deque[bytes]
        self.protos = {}        # (owner, peer) -> protocol object of `owner` for its link with `peer`
        self.listeners = {}     # port -> (pid, factory)
        self.stream = collections.defaultdict(bytearray)           # everything ever written on (src,dst)
        self.delivered = collections.defaultdict(int)              # bytes delivered on (src,dst)
        self.closed = []        # (src,dst) close() calls in order
        self.close_pending = collections.deque()
        self.order = collections.deque()   # global write order of (src,dst) per chunk
        self.writes = 0
        self.dead = set()       # crashed parties
        self.cut = {}           # src -> remaining byte budget of a crashing party (over all its links)
        self.events = []        # ('write'|'deliver'|'close', ...)
        self.loss_mode = None   # None: survivors are never told | 'none': connection_lost(None) | 'exc': connection_lost(exc)
        self.loss_notified = set()

    def on_write(self, src, dst, data):
        if src in self.dead:
            return
        if src in self.cut:
            left = self.cut[src]
            if left <= 0:
                self.dead.add(src)
                return
            if len(data) > left:
                data = data[:left]
            self.cut[src] = left - len(data)
            if self.cut[src] <= 0:
                # the party dies right after these bytes are on the wire
                self.queues[(src, dst)].append(data)
                self.order.append((src, dst))
                self.stream[(src, dst)].extend(data)
                self.writes += 1
                self.dead.add(src)
                return
        self.queues[(src, dst)].append(data)
        self.order.append((src, dst))
        self.stream[(src, dst)].extend(data)
        self.writes += 1

    def on_close(self, src, dst):
        self.closed.append((src, dst))
        self.close_pending.append((src, dst))

    def pending(self):
        return any(q for q in self.queues.values())

    def deliver(self, link, nbytes=None):
        """Deliver the first nbytes (default: the whole head chunk) queued on link to the peer."""
        q = self.queues[link]
        if not q:
            return 0
        data = q.popleft()
        if nbytes is not None and nbytes < len(data):
            q.appendleft(data[nbytes:])
            data = data[:nbytes]
        else:
            try:
                self.order.remove(link)
            except ValueError:
                pass
        src, dst = link
        if dst in self.dead:
            return len(data)
        proto = self.protos.get((dst, src))
        if proto is None:
            raise RuntimeError('no protocol for %s' % (link,))
        self.delivered[link] += len(data)
        proto.data_received(data)
        return len(data)

    def process_deaths(self):
        """Once a dead party's outgoing queues have drained, tell the survivors (if loss_mode is set)."""
        n = 0
        if self.loss_mode is None:
            return 0
        for d in list(self.dead):
            if d in self.loss_notified or any(q for (s_, _), q in self.queues.items() if s_ == d):
                continue
            self.loss_notified.add(d)
            for (a, b) in [k for k in self.protos if k[1] == d and k[0] not in self.dead]:
                proto = self.protos.get((a, b))
                try:
                    proto.connection_lost(None if self.loss_mode == 'none' else ConnectionResetError('peer died'))
                except Exception as exc:  # noqa
                    self.events.append(('connection_lost_exc', a, b, repr(exc)))
                n += 1
        return n

    def process_closes(self):
        """A closed link delivers connection_lost(None) to both ends once its queue has drained."""
        n = 0
        for _ in range(len(self.close_pending)):
            src, dst = self.close_pending.popleft()
            if self.queues[(src, dst)] or self.queues[(dst, src)]:
                self.close_pending.append((src, dst))
                continue
            for a, b in ((src, dst), (dst, src)):
                proto = self.protos.pop((a, b), None)
                if proto is not None and a not in self.dead:
                    try:
                        proto.connection_lost(None)
                    except Exception as exc:  # noqa
                        self.events.append(('connection_lost_exc', a, b, repr(exc)))
            n += 1
        return n


# ---------------------------------------------------------------------------------------------
# delivery policies: deliver(net, rng) -> number of bytes delivered in this round

class Fifo:
    """Deliver every queued chunk, in global write order."""

    def deliver(self, net):
        n = 0
        while net.order:
            link = net.order[0]
            n += net.deliver(link) or 0
            if net.order and net.order[0] == link and not net.queues[link]:
                net.order.popleft()
        return n


class Coalesce:
    """Like TCP under load: everything queued on a link is delivered in ONE data_received call
    (several frames, possibly followed by a partial one, arrive together)."""

    def deliver(self, net):
        n = 0
        for link in sorted(l for l, q in net.queues.items() if q):
            q = net.queues[link]
            if len(q) > 1:
                data = b''.join(q)
                q.clear()
                q.append(data)
                net.order = collections.deque(l for l in net.order if l != link)
                net.order.append(link)
            n += net.deliver(link)
        return n


class HoldCoalesce:
    """Delay everything sent by party `src` until nothing else moves (or src has died), then deliver each of
    its links' backlog in ONE data_received call: many complete frames followed, after a crash cut, by a
    partial one.  Everything else is delivered FIFO."""

    def __init__(self, src, patience=8):
        self.src, self.patience, self.quiet = src, patience, 0

    def deliver(self, net):
        n = 0
        for link in list(net.order):
            if link[0] == self.src:
                continue
            while net.queues[link]:
                n += net.deliver(link)
        held = [l for l, q in net.queues.items() if q and l[0] == self.src]
        if n:
            self.quiet = 0
        else:
            self.quiet += 1
        if held and (self.src in net.dead or self.quiet >= self.patience):
            self.quiet = 0
            for link in sorted(held):
                q = net.queues[link]
                data = b''.join(q)
                q.clear()
                q.append(data)
                net.order = collections.deque(l for l in net.order if l != link)
                net.order.append(link)
                n += net.deliver(link)
        return n


class RandomOrder:
    """Each round deliver a random number of randomly chosen head chunks, randomly split."""

    def __init__(self, rng, split=0.3, burst=3, lazy=0.3, join=0.0):
        self.rng, self.split, self.burst, self.lazy, self.join = rng, split, burst, lazy, join

    def deliver(self, net):
        n = 0
        if self.rng.random() < self.lazy:
            return 0
        for _ in range(self.rng.randint(1, self.burst)):
            links = sorted(l for l, q in net.queues.items() if q)
            if not links:
                break
            link = self.rng.choice(links)
            if self.join and len(net.queues[link]) > 1 and self.rng.random() < self.join:
                # TCP coalescing: several writes arrive in ONE data_received call, cut anywhere (typically: complete
                # message(s) followed by an incomplete one)
                q = net.queues[link]
                for _ in range(self.rng.randint(1, min(3, len(q) - 1))):
                    a = q.popleft()
                    q[0] = a + q[0]
                    try:
                        net.order.remove(link)
                    except ValueError:
                        pass
            head = net.queues[link][0]
            if len(head) > 1 and self.rng.random() < self.split:
                n += net.deliver(link, self.rng.randint(1, len(head) - 1))
            else:
                n += net.deliver(link)
        return n


class Bytewise:
    """Deliver one byte at a time, round-robin over links."""

    def deliver(self, net):
        n = 0
        for link in sorted(l for l, q in net.queues.items() if q):
            n += net.deliver(link, 1)
        return n


class Hold:
    """Hold the given directed links for `rounds` delivery rounds (everything else FIFO), then release."""

    def __init__(self, links, rounds):
        self.links, self.rounds = set(links), rounds
        self.fifo = Fifo()

    def deliver(self, net):
        if self.rounds <= 0:
            return self.fifo.deliver(net)
        self.rounds -= 1
        n = 0
        for link in list(net.order):
            if link in self.links:
                continue
            while net.queues[link]:
                n += net.deliver(link)
        return n


class ReverseLinks:
    """Deliver link by link in reverse link order (all queued data of the last link first)."""

    def deliver(self, net):
        n = 0
        for link in sorted((l for l, q in net.queues.items() if q), reverse=True):
            while net.queues[link]:
                n += net.deliver(link)
        return n


# ---------------------------------------------------------------------------------------------

class Sim:
    def __init__(self, m, t=None, no_prss=False, seed=0, extra=(), log_messages=True, track_tasks=True):
        self.m = m
        self.t = (m - 1) // 2 if t is None else t
        self.no_prss = no_prss
        self.seed = seed
        self.loop = asyncio.new_event_loop()
        asyncio.set_event_loop(self.loop)
        self.net = Net(self)
        self.mpcs, self.mods, self.secrets = [], [], []
        self.msglog = [[] for _ in range(m)]     # per party: ('send'|'recv', peer, pc, size)
        self.tasklog = [[] for _ in range(m)]    # per party: ('start'|'done', id, name, pc_level)
        self.loop.create_server = self._create_server
        self.loop.create_connection = self._create_connection
        args = ['-M', str(m), '-T', str(self.t), '--no-log'] + (['--no-prss'] if no_prss else []) + list(extra)
        for i in range(m):
            self._load_party(i, args, log_messages, track_tasks)
        self.started = False

    # -- loading
    def _load_party(self, pid, args, log_messages, track_tasks):
        for k in [k for k in sys.modules if k == 'mpyc' or k.startswith('mpyc.')]:
            del sys.modules[k]
        if REPO not in sys.path:
            sys.path.insert(0, REPO)
        argv = sys.argv
        sys.argv = ['sim', '-I', str(pid)] + args
        lvl = logging.root.manager.disable
        try:
            with warnings.catch_warnings():
                warnings.simplefilter('ignore')
                rtmod = importlib.import_module('mpyc.runtime')
        finally:
            sys.argv = argv
        mods = {k: v for k, v in sys.modules.items() if k == 'mpyc' or k.startswith('mpyc.')}
        mpc = rtmod.mpc
        assert mpc._loop is self.loop
        sec = PartySecrets(self.seed * 7919 + pid * 104729 + 17)
        mods['mpyc.runtime'].secrets = sec
        mods['mpyc.thresha'].secrets = sec
        mpc.threshold = self.t          # regenerate PRSS keys from the party's own tape
        if log_messages:
            ME = mods['mpyc.asyncoro'].MessageExchanger
            osend, orecv = ME.send, ME.receive
            mlog = self.msglog[pid]

            def send(self_, pc, payload, _o=osend, _l=mlog):
                _l.append(('send', self_.peer_pid, pc, len(payload)))
                return _o(self_, pc, payload)

            def receive(self_, pc, _o=orecv, _l=mlog):
                _l.append(('recv', self_.peer_pid, pc, None))
                return _o(self_, pc)
            ME.send, ME.receive = send, receive
        if track_tasks:
            tlog = self.tasklog[pid]
            aco = mods['mpyc.asyncoro']

            class TrackedTask(asyncio.Task):
                def __init__(self_, coro, *, loop=None, **kw):
                    super().__init__(coro, loop=loop, **kw)
                    tlog.append(('start', id(self_), getattr(coro, '__qualname__', '?'), mpc._pc_level))
                    self_.add_done_callback(lambda t: tlog.append(('done', id(t), None, mpc._pc_level)))
            aco.Task = TrackedTask
        self.mpcs.append(mpc)
        self.mods.append(mods)
        self.secrets.append(sec)

    # -- fake networking
    async def _create_server(self, factory, port=None, ssl=None, **kw):
        pid = next(i for i, mpc in enumerate(self.mpcs) if mpc.parties[i].port == port)
        self.net.listeners[port] = (pid, factory)
        return FakeServer(self.net, port)

    async def _create_connection(self, factory, host=None, port=None, ssl=None, **kw):
        while port not in self.net.listeners:
            await asyncio.sleep(0)
        spid, sfactory = self.net.listeners[port]
        cli = factory()
        cpid = cli.runtime.pid
        srv = sfactory()
        self.net.protos[(cpid, spid)] = cli
        self.net.protos[(spid, cpid)] = srv
        srv.connection_made(FakeTransport(self.net, spid, cpid))
        cli.connection_made(FakeTransport(self.net, cpid, spid))
        return None, cli

    # -- running
    def spin(self, n=1):
        for _ in range(n):
            self.loop.call_soon(self.loop.stop)
            self.loop.run_forever()

    def run(self, make_coro, policy=None, idle_limit=1500, max_rounds=2000000, spins=1):
        """make_coro(mpc, mods, pid) -> coroutine for that party. Returns list of results:
        value, or ('EXC', repr) or 'PENDING'."""
        policy = policy or Fifo()
        if self.m == 1:
            idle_limit = max(idle_limit, 10**7)     # a single party never waits for messages
        futs = [asyncio.ensure_future(make_coro(self.mpcs[i], self.mods[i], i), loop=self.loop)
                for i in range(self.m)]
        idle = 0
        rounds = 0
        while rounds < max_rounds:
            rounds += 1
            w0 = self.net.writes
            try:
                self.spin(spins)
            except Exception as exc:  # exception escaping the loop (e.g. raised in a callback)
                self.net.events.append(('loop_exc', repr(exc)))
            n = policy.deliver(self.net)
            n += self.net.process_closes()
            n += self.net.process_deaths()
            if all(f.done() for f in futs) and not self.net.pending():
                break
            if n or self.net.writes != w0:
                idle = 0
            else:
                idle += 1
                if idle > idle_limit:
                    break
        self.rounds = rounds
        out = []
        for f in futs:
            if not f.done():
                out.append('PENDING')
            elif f.cancelled():
                out.append(('EXC', 'cancelled'))
            elif f.exception() is not None:
                out.append(('EXC', repr(f.exception())))
            else:
                out.append(f.result())
        return out

    def start(self, policy=None):
        async def st(mpc, mods, i):
            await mpc.start()
            return True
        r = self.run(st, policy)
        self.started = all(x is True for x in r)
        return r

    def shutdown(self, policy=None):
        async def sd(mpc, mods, i):
            await mpc.shutdown()
            return True
        return self.run(sd, policy)

    def close(self):
        try:
            self.loop.set_exception_handler(lambda loop, context: None)
            logging.getLogger('asyncio').setLevel(logging.CRITICAL)
            for t in asyncio.all_tasks(self.loop):
                t.cancel()
            self.spin(3)
        except Exception:
            pass
        try:
            self.loop.close()
        except Exception:
            pass
        asyncio.set_event_loop(None)
        for k in [k for k in sys.modules if k == 'mpyc' or k.startswith('mpyc.')]:
            del sys.modules[k]

    # -- helpers
    def frames(self, src, dst, skip_handshake=True):
        """Parse everything written on (src,dst) into (pc, payload) frames with an independent parser."""
        data = bytes(self.net.stream[(src, dst)])
        pos = 0
        if skip_handshake and src < dst:    # client side sent pid + keys first
            nkeys = 0
            if not self.no_prss:
                import itertools
                for S in itertools.combinations(range(self.m), self.m - self.t):
                    if S[0] == src and dst in S:
                        nkeys += 1
            pos = 2 + 16 * nkeys
        out = []
        while pos + 12 <= len(data):
            pc, size = struct.unpack_from('<qI', data, pos)
            if pos + 12 + size > len(data):
                break
            out.append((pc, data[pos + 12:pos + 12 + size]))
            pos += 12 + size
        return out, data[pos:]


def run_program(m, t, prog, no_prss=False, seed=0, policy=None, shutdown=True, extra=()):
    """Convenience: start, run prog on every party, (shutdown), close. prog(mpc, mods, pid) coroutine.
    Returns (results, sim) — sim is closed."""
    sim = Sim(m, t, no_prss=no_prss, seed=seed, extra=extra)
    try:
        st = sim.start()
        if not sim.started:
            return [('EXC', 'start failed: %r' % (st,))] * m, sim
        res = sim.run(prog, policy)
        if shutdown and all(r != 'PENDING' for r in res):
            sim.shutdown_result = sim.shutdown()
        return res, sim
    finally:
        sim.close()
