"""Translator: integrality-flag rule table of /repo, regenerated from the source on every run.

Visits (by `ast`) every function of mpyc/{runtime,sectypes,seclists,random,statistics}.py and emits
one *site* for

  * every `returnType((stype, <flag expr>[, shape]) [, dims...])` (directly or through a local
    variable such as `rettype = (sftype, x[0].integral)`),
  * every constructor call `...(…, integral=<expr>)`,
  * the inference in `SecureFixedPoint.__init__` / `SecureFixedPointArray.__init__`
    (assignments `integral = …` feeding `self.integral = integral`),
  * every direct assignment `<obj>.integral = <expr>`,
  * every guard `if <test reading .integral>: raise …` (kind guard; listed, not part of the
    list obligation).

The flag expression is resolved through the local straight-line/branching assignments of the
function (`a_integral = a.integral`, `integral = [a.integral for a in x]`, nested helper functions)
and translated into the tiny language of coq/theories/Fxp.v:

  Elem "a"       a.integral                      flag of scalar/array operand a
  Idx "x" k      x[k].integral, x[k][k'].integral  flag of ONE element of list operand x
                 (k = 0 is the design's `First xs`)
  AllOf "x"      all(a.integral for a in x)      flags of all elements of x
                 (all(... for a in x + y) = And (AllOf "x") (AllOf "y"); `for r in A for a in r` = AllOf "A")
  Const b | And | Or | Not
  Pub "text"     public condition not reading any flag (types, public operands)
  Ctor "text"    flag inferred by the constructor from a public value
  Alt e1 e2      either rule applies, depending on a public branch
  Other "text"   NOT RECOGNISED (fail-closed: obligation `rule_no_other` fails)

Nothing here names a call site: which sites are defective is decided by the obligations compiled
by Coq (coq/gen/FlagOblig.v) and by running the synthesised programs (harness/props/c03.py).
"""
import ast, os, sys, json

HERE = os.path.dirname(os.path.abspath(__file__))
if HERE not in sys.path:
    sys.path.insert(0, HERE)
from lib.core import REPO, COQ  # noqa: E402

FILES = ['runtime.py', 'sectypes.py', 'seclists.py', 'random.py', 'statistics.py']


# ---------------------------------------------------------------- expression language (tuples)
def Const(b): return ('Const', bool(b))
def Elem(a): return ('Elem', a)
def Idx(x, k): return ('Idx', x, k)
def AllOf(x): return ('AllOf', x)
def Pub(t): return ('Pub', t)
def Ctor(t): return ('Ctor', t)
def Other(t): return ('Other', t)
def Not(e): return ('Not', e)


def And(a, b):
    return ('And', a, b)


def Or(a, b):
    return ('Or', a, b)


def Alt(a, b):
    if a == b:
        return a
    return ('Alt', a, b)


def reads_flags(e):
    """Does the translated expression consult any flag (or is unrecognised)?"""
    t = e[0]
    if t in ('Elem', 'Idx', 'AllOf', 'Other', 'Flags'):
        return True
    if t in ('Const', 'Pub', 'Ctor'):
        return False
    return any(reads_flags(x) for x in e[1:] if isinstance(x, tuple))


def src(node):
    try:
        return ' '.join(ast.unparse(node).split())
    except Exception:  # pragma: no cover
        return '<?>'


def mentions_integral(node):
    for n in ast.walk(node):
        if isinstance(n, ast.Attribute) and n.attr == 'integral':
            return True
        if isinstance(n, ast.Name) and 'integral' in n.id:
            return True
    return False


class RT:
    """Abstract value of a `rettype`-like variable: alternatives of (flag expr or None)."""

    def __init__(self, alts):
        self.alts = []
        for a in alts:
            if a not in self.alts:
                self.alts.append(a)

    def __eq__(self, o):
        return isinstance(o, RT) and self.alts == o.alts


def merge(a, b):
    if a is None:
        return b
    if b is None:
        return a
    if isinstance(a, RT) or isinstance(b, RT):
        aa = a.alts if isinstance(a, RT) else [None]
        bb = b.alts if isinstance(b, RT) else [None]
        return RT(aa + bb)
    return Alt(a, b)


class FuncAnalysis:
    def __init__(self, fname, qual, fn, sites, outer_funcs=None):
        self.fname, self.qual, self.fn, self.sites = fname, qual, fn, sites
        self.local_funcs = dict(outer_funcs or {})
        self.params = [a.arg for a in fn.args.posonlyargs + fn.args.args + fn.args.kwonlyargs]
        nd = len(fn.args.defaults)
        self.required = [a.arg for a in (fn.args.posonlyargs + fn.args.args)][:len(fn.args.posonlyargs + fn.args.args) - nd]
        self.count = 0
        self.in_call = []
        self.depth = {}
        self.flag_line = 10 ** 9     # first line at which a flag-reading local was computed

    # -- expression translation
    def tr(self, node, env):
        if isinstance(node, ast.Constant):
            if node.value is True or node.value is False:
                return Const(node.value)
            if node.value is None:
                return Const(False)
            return Pub(src(node))
        if isinstance(node, ast.Name):
            if node.id in env:
                v = env[node.id]
                if isinstance(v, RT):
                    return Other('rettype used as flag: ' + node.id)
                return v
            return Pub(node.id)
        if isinstance(node, ast.Attribute) and node.attr == 'integral':
            v = node.value
            if isinstance(v, ast.Name):
                if v.id in env and env[v.id][0] == 'LoopVar':
                    return ('LoopFlag', v.id)
                return Elem(v.id)
            # x[k].integral / A[k][k'].integral
            idx = []
            while isinstance(v, ast.Subscript):
                s = v.slice
                if isinstance(s, ast.UnaryOp) and isinstance(s.op, ast.USub) and isinstance(s.operand, ast.Constant):
                    k = -s.operand.value
                elif isinstance(s, ast.Constant) and isinstance(s.value, int):
                    k = s.value
                else:
                    return Other(src(node))
                idx.append(k)
                v = v.value
            if isinstance(v, ast.Name) and idx:
                ks = set(idx)
                if len(ks) == 1:
                    self.depth[v.id] = max(self.depth.get(v.id, 0), len(idx))
                    return Idx(v.id, idx[0])
                return Other(src(node))
            # stype(a).integral : constructor inference on a public value
            if isinstance(v, ast.Call) and not mentions_integral(v):
                return Ctor(src(node))
            return Other(src(node))
        if isinstance(node, ast.BoolOp):
            parts = [self.tr(v, env) for v in node.values]
            out = parts[0]
            for p in parts[1:]:
                out = And(out, p) if isinstance(node.op, ast.And) else Or(out, p)
            return out
        if isinstance(node, ast.UnaryOp) and isinstance(node.op, ast.Not):
            e = self.tr(node.operand, env)
            if not reads_flags(e):
                return Pub(src(node))
            return Not(e)
        if isinstance(node, ast.IfExp):
            a, b = self.tr(node.body, env), self.tr(node.orelse, env)
            if reads_flags(self.tr(node.test, env)):
                return Other(src(node))
            return Alt(a, b)
        if isinstance(node, ast.ListComp) and len(node.generators) == 1:
            g = node.generators[0]
            if isinstance(g.target, ast.Name) and isinstance(g.iter, ast.Name) and not g.ifs:
                env2 = dict(env)
                env2[g.target.id] = ('LoopVar', g.target.id)
                e = self.tr(node.elt, env2)
                if self.only_loopflag(e, g.target.id):
                    return ('Flags', g.iter.id)
            if mentions_integral(node):
                return Other(src(node))
            return Pub(src(node))
        if isinstance(node, ast.Call):
            f = node.func
            # bool(x)
            if isinstance(f, ast.Name) and f.id == 'bool' and len(node.args) == 1:
                return self.tr(node.args[0], env)
            if isinstance(f, ast.Name) and f.id == 'all' and len(node.args) == 1:
                a = node.args[0]
                if isinstance(a, ast.Name) and a.id in env and env[a.id][0] == 'Flags':
                    return AllOf(env[a.id][1])
                if isinstance(a, (ast.GeneratorExp, ast.ListComp)) and len(a.generators) >= 1:
                    gens = a.generators
                    # `for r in A for a in r`: nested iteration over all entries of A
                    chain = all(isinstance(g.target, ast.Name) and isinstance(g.iter, ast.Name) and not g.ifs for g in gens) \
                        and all(gens[i + 1].iter.id == gens[i].target.id for i in range(len(gens) - 1))
                    g = ast.comprehension(target=gens[-1].target, iter=gens[0].iter, ifs=[], is_async=0) if chain else gens[0]
                    if chain:
                        env2 = dict(env)
                        env2[g.target.id] = ('LoopVar', g.target.id)
                        e = self.tr(a.elt, env2)
                        if self.only_loopflag(e, g.target.id):
                            it = g.iter.id
                            if it in env and env[it][0] == 'Param':
                                it = env[it][1]
                            return AllOf(it)
                    # `for a in x + y`: concatenation of list operands -> AllOf x AND AllOf y
                    if len(gens) == 1 and isinstance(gens[0].target, ast.Name) and not gens[0].ifs:
                        names = concat_names(gens[0].iter)
                        if names and len(names) >= 2:
                            var = gens[0].target.id
                            env2 = dict(env)
                            env2[var] = ('LoopVar', var)
                            e = self.tr(a.elt, env2)
                            if self.only_loopflag(e, var):
                                out = None
                                for nm in names:
                                    if nm in env and env[nm][0] == 'Param':
                                        nm = env[nm][1]
                                    out = AllOf(nm) if out is None else And(out, AllOf(nm))
                                return out
                if mentions_integral(node) or self.calls_local(node):
                    return Other(src(node))
                return Pub(src(node))
            # call of a nested helper function defined in this function
            if isinstance(f, ast.Name) and f.id in self.local_funcs and len(node.args) == 1:
                if f.id in self.in_call:
                    a = node.args[0]
                    if isinstance(a, ast.Name) and a.id in env and env[a.id][0] == 'LoopVar':
                        return ('LoopFlag', a.id)   # recursion over the elements
                    return Other(src(node))
                return self.inline(f.id, node.args[0], env)
            if mentions_integral(node):
                return Other(src(node))
            return Pub(src(node))
        if isinstance(node, ast.Compare) or isinstance(node, ast.BinOp):
            if mentions_integral(node):
                return Other(src(node))
            return Pub(src(node))
        if mentions_integral(node):
            return Other(src(node))
        return Pub(src(node))

    def calls_local(self, node):
        return any(isinstance(n, ast.Call) and isinstance(n.func, ast.Name) and n.func.id in self.local_funcs
                   for n in ast.walk(node))

    def only_loopflag(self, e, var):
        """e consults flags only through the loop variable's own flag, possibly combined (and/or/
        public alternative) with public conditions or constructor inference on a public element."""
        def leaves_ok(x):
            t = x[0]
            if t == 'LoopFlag':
                return x[1] == var
            if t in ('Ctor', 'Pub', 'Const'):
                return True
            if t in ('And', 'Or', 'Alt'):
                return leaves_ok(x[1]) and leaves_ok(x[2])
            return False
        return leaves_ok(e) and reads_loop(e)

    def inline(self, name, arg, env):
        g = self.local_funcs[name]
        ps = [a.arg for a in g.args.args]
        if len(ps) != 1 or not isinstance(arg, ast.Name):
            return Other('call ' + name)
        self.in_call.append(name)
        try:
            env2 = {ps[0]: ('Param', arg.id)}
            rets = []
            self.block(g.body, env2, rets=rets, emit=False)
            if not rets:
                return Other('call ' + name)
            out = rets[0]
            for r in rets[1:]:
                out = Alt(out, r)
            return self.subst(out, ps[0], arg.id)
        finally:
            self.in_call.pop()

    def subst(self, e, p, a):
        if not isinstance(e, tuple):
            return e
        if e[0] in ('Elem', 'AllOf') and e[1] == p:
            return (e[0], a)
        if e[0] == 'Idx' and e[1] == p:
            return ('Idx', a, e[2])
        if e[0] in ('Const', 'Pub', 'Ctor', 'Other', 'Elem', 'AllOf', 'Idx'):
            return e
        return (e[0],) + tuple(self.subst(x, p, a) for x in e[1:])

    # -- statements
    def site(self, node, kind, expr, dims=(), note=''):
        self.count += 1
        expr = self.clean(expr)
        operands, late = self.operand_facts(min(node.lineno, self.flag_line))
        self.sites.append({
            'file': self.fname, 'func': self.qual, 'line': node.lineno, 'kind': kind,
            'ord': self.count, 'expr': expr, 'dims': list(dims), 'src': src(node)[:160],
            'params': self.params, 'required': self.required, 'note': note, 'depth': dict(self.depth),
            'operands': operands, 'late': late, 'exempt': [], 'listlike': self.listlike(),
        })

    def listlike(self):
        """parameters used as sequences in the function body (subscripted, sliced, iterated, len())"""
        out = set()
        for n in ast.walk(self.fn):
            if isinstance(n, ast.Subscript) and isinstance(n.value, ast.Name):
                out.add(n.value.id)
            elif isinstance(n, (ast.For, ast.comprehension)) and isinstance(n.iter, ast.Name):
                out.add(n.iter.id)
            elif isinstance(n, ast.Call) and isinstance(n.func, ast.Name) and n.func.id in ('len', 'list', 'zip', 'iter'):
                out.update(a.id for a in n.args if isinstance(a, ast.Name))
        return sorted(p for p in self.params if p in out)

    def operand_facts(self, eval_line):
        """(secret operands = parameters passed to gather, in parameter order;
            late modifications 'p<-q': operand p (or an element of it) is assigned, mixing in another
            parameter q, after the flag expression was evaluated and before p's shares are gathered)."""
        gathers = []
        for c in ast.walk(self.fn):
            if isinstance(c, ast.Call) and isinstance(c.func, ast.Attribute) and c.func.attr == 'gather':
                gathers.append((c.lineno, {n.id for a in c.args for n in ast.walk(a) if isinstance(n, ast.Name)}))
        params = [p for p in self.params if p != 'self']
        operands = [p for p in params if any(p in ns for (_, ns) in gathers)]
        late = []
        for st in ast.walk(self.fn):
            if isinstance(st, ast.Assign):
                targets, value = st.targets, st.value
            elif isinstance(st, ast.AugAssign):
                targets, value = [st.target], st.value
            else:
                continue
            if st.lineno <= eval_line:
                continue
            if any(isinstance(n, ast.Call) and isinstance(n.func, ast.Attribute) and n.func.attr == 'gather'
                   for n in ast.walk(value)):
                continue      # `a = b = await self.gather(a)`: taking the shares, not modifying the operand
            for tg in targets:
                base = tg
                while isinstance(base, ast.Subscript):
                    base = base.value
                if not (isinstance(base, ast.Name) and base.id in params):
                    continue
                p = base.id
                first_gather = min([ln for (ln, ns) in gathers if ln > eval_line and p in ns] or [10 ** 9])
                if st.lineno >= first_gather:
                    continue
                others = sorted({n.id for n in ast.walk(value) if isinstance(n, ast.Name) and n.id in params and n.id != p})
                for q in others:
                    if '%s<-%s' % (p, q) not in late:
                        late.append('%s<-%s' % (p, q))
        return operands, late

    def clean(self, e):
        """Remove internal markers that must not escape."""
        if not isinstance(e, tuple):
            return Other(repr(e))
        if e[0] in ('LoopFlag', 'LoopVar', 'Flags', 'Param'):
            return Other('%s %s' % (e[0], e[1]))
        if e[0] in ('Const', 'Pub', 'Ctor', 'Other', 'Elem', 'AllOf', 'Idx'):
            return e
        return (e[0],) + tuple(self.clean(x) for x in e[1:])

    def rt_of_tuple(self, node, env):
        """(stype, flag[, shape]) -> flag expr or None (no flag in this tuple)."""
        if not isinstance(node, ast.Tuple) or len(node.elts) < 2:
            return None
        second = node.elts[1]
        if shape_like(second) and not mentions_integral(second):
            return None
        return self.tr(second, env)

    def dims_of(self, args):
        out = []
        for a in args:
            if isinstance(a, ast.Starred):
                out.append('*')
            elif isinstance(a, ast.Constant) and isinstance(a.value, int):
                out.append(a.value)
            else:
                out.append(src(a))
        return out

    def handle_return_type(self, call, env):
        if not call.args:
            return
        a0 = call.args[0]
        dims = self.dims_of(call.args[1:])
        alts = []
        if isinstance(a0, ast.Tuple):
            alts = [self.rt_of_tuple(a0, env)]
        elif isinstance(a0, ast.Name) and a0.id in env and isinstance(env[a0.id], RT):
            alts = env[a0.id].alts
        for e in alts:
            if e is not None:
                self.site(call, 'return', e, dims)

    def scan_expr(self, node, env):
        """Sites inside an arbitrary expression/statement: returnType calls, integral= keywords."""
        for n in ast.walk(node):
            if isinstance(n, ast.Call):
                f = n.func
                if isinstance(f, ast.Attribute) and f.attr == 'returnType' or isinstance(f, ast.Name) and f.id == 'returnType':
                    self.handle_return_type(n, env)
                else:
                    for kw in n.keywords:
                        if kw.arg == 'integral':
                            self.site(n, 'ctor', self.tr(kw.value, env))

    def block(self, stmts, env, rets=None, emit=True):
        """Abstractly execute statements; returns False when the block cannot fall through."""
        for st in stmts:
            if isinstance(st, (ast.FunctionDef, ast.AsyncFunctionDef)):
                self.local_funcs[st.name] = st
                continue
            if isinstance(st, ast.Return):
                if rets is not None and st.value is not None:
                    rets.append(self.tr(st.value, env))
                if emit and st.value is not None:
                    self.scan_expr(st.value, env)
                return False
            if isinstance(st, ast.Raise):
                return False
            if isinstance(st, ast.If):
                if emit:
                    self.scan_expr(st.test, env)
                    if mentions_integral(st.test) and any(isinstance(s, ast.Raise) for s in st.body):
                        t = self.tr(st.test, env)
                        if reads_flags(t):
                            self.site(st, 'guard', nnf(Not(t)))
                e1, e2 = dict(env), dict(env)
                f1 = self.block(st.body, e1, rets, emit)
                f2 = self.block(st.orelse, e2, rets, emit)
                if f1 and f2:
                    for k in set(e1) | set(e2):
                        env[k] = merge(e1.get(k), e2.get(k))
                elif f1:
                    env.clear(); env.update(e1)
                elif f2:
                    env.clear(); env.update(e2)
                else:
                    return False
                continue
            if isinstance(st, (ast.For, ast.AsyncFor, ast.While)):
                if emit:
                    self.scan_expr(st.iter if not isinstance(st, ast.While) else st.test, env)
                e1 = dict(env)
                self.block(st.body, e1, rets, emit)
                for k in set(e1):
                    if k in env and env[k] != e1[k]:
                        env[k] = merge(env[k], e1[k])
                    elif k not in env:
                        env[k] = e1[k]
                self.block(st.orelse, env, rets, emit)
                continue
            if isinstance(st, (ast.With, ast.AsyncWith)):
                self.block(st.body, env, rets, emit)
                continue
            if isinstance(st, ast.Try):
                self.block(st.body, env, rets, emit)
                for h in st.handlers:
                    self.block(h.body, dict(env), rets, emit)
                self.block(st.finalbody, env, rets, emit)
                continue
            if isinstance(st, ast.Assign):
                if emit:
                    self.scan_expr(st.value, env)
                for tg in st.targets:
                    if isinstance(tg, ast.Name):
                        self.assign(tg.id, st.value, env)
                    elif isinstance(tg, ast.Attribute) and tg.attr == 'integral':
                        if emit:
                            self.site(st, 'assign', self.tr(st.value, env), note='target ' + src(tg))
                    elif isinstance(tg, ast.Tuple):
                        for el in tg.elts:
                            if isinstance(el, ast.Name) and (el.id in env or 'integral' in el.id):
                                env[el.id] = Other('tuple assignment ' + src(st)[:60])
                continue
            if isinstance(st, ast.AugAssign):
                if isinstance(st.target, ast.Name) and st.target.id in env:
                    env[st.target.id] = Other('augmented assignment ' + src(st)[:60])
                continue
            if emit:
                self.scan_expr(st, env)
        return True

    def assign(self, name, value, env):
        if isinstance(value, ast.Tuple):
            e = self.rt_of_tuple(value, env)
            if e is not None or (value.elts and is_type_like(value.elts[0])):
                env[name] = RT([e])
                if e is not None and reads_flags(e):
                    self.flag_line = min(self.flag_line, value.lineno)
                return
        if isinstance(value, ast.Name) and value.id in env:
            env[name] = env[value.id]
            return
        if mentions_integral(value) or 'integral' in name or self.calls_local(value) or \
                any(isinstance(n, ast.Name) and n.id in env for n in ast.walk(value)):
            e = self.tr(value, env)
            if 'integral' in name or reads_flags(e) or isinstance(env.get(name), tuple):
                env[name] = e
                if reads_flags(e):
                    self.flag_line = min(self.flag_line, value.lineno)
                return
        if name in env:
            if isinstance(env[name], RT):
                env[name] = RT([None])   # e.g. rettype = sftype
            else:
                del env[name]

    def run(self):
        env = {p: Pub('argument ' + p) for p in self.params if 'integral' in p}
        self.block(self.fn.body, env)


def concat_names(node):
    """[x, y, ...] when node is the list concatenation x + y (+ ...) of plain names, else None."""
    if isinstance(node, ast.Name):
        return [node.id]
    if isinstance(node, ast.BinOp) and isinstance(node.op, ast.Add):
        l, r = concat_names(node.left), concat_names(node.right)
        if l and r:
            return l + r
    return None


def reads_loop(e):
    return e[0] == 'LoopFlag' or any(isinstance(x, tuple) and reads_loop(x) for x in e[1:])


def shape_like(node):
    if isinstance(node, ast.Tuple):
        return True
    s = src(node)
    return 'shape' in s or s.endswith('.size') or s.startswith('tuple(')


def is_type_like(node):
    s = src(node)
    return 'type' in s


def nnf(e):
    """Push Not inward (guards): Not over Pub becomes Pub, Not Not cancels."""
    if e[0] != 'Not':
        if e[0] in ('And', 'Or', 'Alt'):
            return (e[0], nnf(e[1]), nnf(e[2]))
        return e
    x = e[1]
    if x[0] == 'Not':
        return nnf(x[1])
    if x[0] == 'And':
        return Or(nnf(Not(x[1])), nnf(Not(x[2])))
    if x[0] == 'Or':
        return And(nnf(Not(x[1])), nnf(Not(x[2])))
    if x[0] == 'Pub':
        return Pub('not (%s)' % x[1])
    if x[0] == 'Const':
        return Const(not x[1])
    return e


def collect(repo=None):
    repo = repo or REPO
    sites = []
    for fname in FILES:
        path = os.path.join(repo, 'mpyc', fname)
        tree = ast.parse(open(path).read(), path)

        def visit(node, prefix):
            for ch in ast.iter_child_nodes(node):
                if isinstance(ch, ast.ClassDef):
                    visit(ch, prefix + ch.name + '.')
                elif isinstance(ch, (ast.FunctionDef, ast.AsyncFunctionDef)):
                    fa = FuncAnalysis(fname, prefix + ch.name, ch, sites)
                    fa.run()
                    # nested functions that set flags themselves are analysed as functions too
                    for sub in ast.walk(ch):
                        if sub is not ch and isinstance(sub, (ast.FunctionDef, ast.AsyncFunctionDef)):
                            if any(isinstance(n, ast.Call) and src(n.func).endswith('returnType') for n in ast.walk(sub)):
                                FuncAnalysis(fname, prefix + ch.name + '.' + sub.name, sub, sites).run()
        visit(tree, '')
    # constructor inference: SecureFixedPoint.__init__ / SecureFixedPointArray.__init__
    for s in sites:
        s['key'] = '%s:%s#%d' % (s['file'][:-3], s['func'], s['ord'])
    exempt_by_caller_guards(repo, sites)
    return sites


def expr_mentions(e, name):
    if not isinstance(e, (tuple, list)):
        return False
    if e[0] in ('Elem', 'Idx', 'AllOf') and e[1] == name:
        return True
    return any(expr_mentions(x, name) for x in e[1:])


def exempt_by_caller_guards(repo, sites):
    """An operand that the rule does not consult is exempt when EVERY call of the function (in the same
    file) passes, in that position, a name on which the calling function has an integrality guard
    (`if ... not c.integral: raise`), e.g. the condition of _if_else_list, guarded in if_else."""
    trees = {}
    for s in sites:
        if s['kind'] == 'guard':
            continue
        missing = [p for p in s['operands'] if not expr_mentions(s['expr'], p)]
        if not missing:
            continue
        fname = s['file']
        if fname not in trees:
            tree = ast.parse(open(os.path.join(repo, 'mpyc', fname)).read())
            calls = []

            def walk(node, qual):
                for ch in ast.iter_child_nodes(node):
                    if isinstance(ch, ast.ClassDef):
                        walk(ch, qual + ch.name + '.')
                    elif isinstance(ch, (ast.FunctionDef, ast.AsyncFunctionDef)):
                        for n in ast.walk(ch):
                            if isinstance(n, ast.Call) and isinstance(n.func, ast.Attribute):
                                calls.append((qual + ch.name, n))
                        walk(ch, qual + ch.name + '.')
            walk(tree, '')
            trees[fname] = calls
        short = s['func'].split('.')[-1]
        pos_params = [p for p in s['params'] if p != 'self']
        for p in missing:
            k = pos_params.index(p)
            callers = [(q, c) for (q, c) in trees[fname] if c.func.attr == short and q != s['func']]
            ok = bool(callers)
            for (q, c) in callers:
                arg = c.args[k] if k < len(c.args) else None
                guarded = isinstance(arg, ast.Name) and any(
                    g['kind'] == 'guard' and g['file'] == fname and g['func'] == q and g['line'] < c.lineno
                    and expr_mentions(g['expr'], arg.id) for g in sites)
                ok = ok and guarded
            if ok:
                s['exempt'].append(p)


def init_inference(repo=None):
    """The `integral = …` assignments inside the fixed-point constructors (value-dependent)."""
    repo = repo or REPO
    path = os.path.join(repo, 'mpyc', 'sectypes.py')
    tree = ast.parse(open(path).read(), path)
    out = []
    for cls in ast.walk(tree):
        if isinstance(cls, ast.ClassDef) and cls.name in ('SecureFixedPoint', 'SecureFixedPointArray'):
            for fn in cls.body:
                if isinstance(fn, ast.FunctionDef) and fn.name == '__init__':
                    for n in ast.walk(fn):
                        if isinstance(n, ast.Assign) and any(isinstance(t, ast.Name) and t.id == 'integral' for t in n.targets):
                            out.append({'class': cls.name, 'line': n.lineno, 'src': src(n)})
    return out


# ---------------------------------------------------------------- Coq emission
def qs(s):
    return '"' + s.replace('"', "'").replace('\\', '/') + '"'


def coq_expr(e):
    t = e[0]
    if t == 'Const':
        return '(Const %s)' % ('true' if e[1] else 'false')
    if t in ('Elem', 'AllOf', 'Pub', 'Ctor', 'Other'):
        return '(%s %s)' % (t, qs(str(e[1])[:120]))
    if t == 'Idx':
        return '(Idx %s (%d)%%Z)' % (qs(e[1]), e[2])
    if t == 'Not':
        return '(Not %s)' % coq_expr(e[1])
    if t in ('And', 'Or', 'Alt'):
        return '(%s %s %s)' % (t, coq_expr(e[1]), coq_expr(e[2]))
    return '(Other %s)' % qs(repr(e)[:100])


KIND = {'return': 'KReturn', 'ctor': 'KCtor', 'assign': 'KAssign', 'guard': 'KGuard'}


def coq_site(s):
    dims = '[' + '; '.join('Some %d%%nat' % d if isinstance(d, int) and 0 <= d < 1000 else 'None' for d in s['dims']) + ']'
    ops = '[' + '; '.join(qs(p) for p in s['operands'] if p not in s['exempt']) + ']'
    late = '[' + '; '.join(qs(p) for p in s['late']) + ']'
    return '  mkSite %s %s %s %s %s %s' % (qs(s['key']), KIND[s['kind']], dims, coq_expr(s['expr']), ops, late)


# scalar operations whose rule is modelled (and proved sound) in Fxp.v:  key -> Fxp.v constant
MODELLED = [
    ('runtime:Runtime.neg#1', 'rule_neg'), ('runtime:Runtime.pos#1', 'rule_neg'),
    ('runtime:Runtime.add#1', 'rule_add'), ('runtime:Runtime.sub#1', 'rule_add'),
    ('runtime:Runtime.mul#1', 'rule_mul'), ('runtime:Runtime.lshift#1', 'rule_lshift'),
    ('runtime:Runtime.sum#1', 'rule_sum'), ('runtime:Runtime.in_prod#1', 'rule_in_prod'),
    ('runtime:Runtime.prod#1', 'rule_sum'),
    # elementwise list operations: all elements of both lists (allof_rule_sound_elementwise)
    ('runtime:Runtime.vector_add#1', 'rule_in_prod'), ('runtime:Runtime.vector_sub#1', 'rule_in_prod'),
    # shift of an array by an array of public amounts: ALL amounts >= f (sound_np_lshift)
    ('runtime:Runtime.np_left_shift#1', 'rule_np_lshift'),
    # secure floats: the significand (a fixed-point number in [0.5, 1]) is constructed with integral=False
    ('sectypes:SecureFloat.__init__#1', '(Const false)'),
]


def emit(sites, outdir=None):
    outdir = outdir or os.path.join(COQ, 'gen')
    os.makedirs(outdir, exist_ok=True)
    head = ('(* GENERATED by harness/gen_flag_rules.py from %s/mpyc — do not edit *)\n'
            'From Coq Require Import String List Bool ZArith.\nRequire Import MPyC.Fxp.\n'
            'Import ListNotations.\nLocal Open Scope string_scope.\n\n' % REPO)
    body = 'Definition rules : list site := [\n' + ';\n'.join(coq_site(s) for s in sites) + '\n].\n'
    with open(os.path.join(outdir, 'FlagRules.v'), 'w') as f:
        f.write(head + body)
    ob = ('(* GENERATED obligations over the regenerated table *)\n'
          'From Coq Require Import String List Bool ZArith.\nRequire Import MPyC.Fxp MPyCGen.FlagRules.\n'
          'Import ListNotations.\nLocal Open Scope string_scope.\n\n'
          '(* every flag expression was recognised by the translator *)\n'
          'Theorem rule_no_other : forallb (fun s => no_other (s_rule s)) rules = true.\n'
          'Proof. vm_compute. reflexivity. Qed.\n\n'
          '(* the scalar rules proved sound in Fxp.v are the rules in the source *)\n')
    for key, const in MODELLED:
        ob += ('Theorem modelled_%s : map s_rule (filter (fun s => String.eqb (s_key s) %s) rules) = [%s].\n'
               'Proof. vm_compute. reflexivity. Qed.\n' % (
                   key.replace(':', '_').replace('.', '_').replace('#', '_'), qs(key), const))
    with open(os.path.join(outdir, 'FlagOblig.v'), 'w') as f:
        f.write(ob)
    cv = ('(* GENERATED obligation: list coverage *)\n'
          'From Coq Require Import String List Bool ZArith.\nRequire Import MPyC.Fxp MPyCGen.FlagRules.\n'
          'Import ListNotations.\n\n'
          '(* a rule that sets the flag of a result consults ALL elements of every list operand and EVERY secret operand\n'
          '   of the result, and no operand is modified between the evaluation of the rule and the use of its shares *)\n'
          'Theorem rule_consults_all : forallb site_ok (filter is_setting_site rules) = true.\n'
          'Proof. vm_compute. reflexivity. Qed.\n')
    with open(os.path.join(outdir, 'FlagCover.v'), 'w') as f:
        f.write(cv)
    return [os.path.join(outdir, n) for n in ('FlagRules.v', 'FlagOblig.v', 'FlagCover.v')]


if __name__ == '__main__':
    ss = collect()
    if '--emit' in sys.argv:
        print(emit(ss))
    for s in ss:
        print('%-50s %-7s L%-5d dims=%-22s %s' % (s['key'], s['kind'], s['line'], s['dims'], json.dumps(s['expr'])))
    print(len(ss), 'sites')
    for i in init_inference():
        print('init', i)
