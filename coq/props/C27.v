(** C27 — every finite group family obeys the group laws in all coordinate systems.
    Only statements; proofs are in theories/Group.v, Sym.v, Curves.v.

    PARTIAL by design: class groups and hyperelliptic curves are not modelled; associativity of
    curve addition is proved only on toy curves (exhaustively, bounds in the statements);
    refinement of the projective Weierstrass ADDITION (Renes et al.) is proved only on toy curves. *)
Require Import MPyC.Field MPyC.Zp MPyC.Group MPyC.Sym MPyC.Curves.
From Coq Require Import Znumtheory.
Local Open Scope nat_scope.
Local Open Scope Z_scope.

(** the literal loop of FiniteGroupElement.repeat = its recursion on the binary expansion (no hypotheses) *)
Theorem C27_repeat_loop_eq :
  forall (G : Type) (op : G -> G -> G) (op2 inv : G -> G) (e a : G) (n : Z),
         repeat_loop op op2 inv e a n = repeat op op2 inv e a n.
Proof. exact @repeat_loop_eq. Qed.
Print Assumptions C27_repeat_loop_eq.

(** repeat a n = n-fold application, every integer n (Leibniz equality, whole carrier) *)
Theorem C27_repeat_correct :
  forall (G : Type) (op : G -> G -> G) (op2 inv : G -> G) (e : G),
         (forall a b c : G, op (op a b) c = op a (op b c)) ->
         (forall a : G, op e a = a) ->
         (forall a : G, op a e = a) ->
         (forall a : G, op2 a = op a a) -> forall (a : G) (n : Z), repeat op op2 inv e a n = pow op inv e a n.
Proof. exact @repeat_correct. Qed.
Print Assumptions C27_repeat_correct.

(** same, laws only up to an equivalence R on a closed subset P (projective coordinates, valid permutations, points on the curve) *)
Theorem C27_repeat_correct_gen :
  forall (G : Type) (op : G -> G -> G) (op2 inv : G -> G) (e : G) (P : G -> Prop) (R : G -> G -> Prop),
         (forall a : G, R a a) ->
         (forall a b : G, R a b -> R b a) ->
         (forall a b c : G, R a b -> R b c -> R a c) ->
         P e ->
         (forall a b : G, P a -> P b -> P (op a b)) ->
         (forall a : G, P a -> P (op2 a)) ->
         (forall a : G, P a -> P (inv a)) ->
         (forall a a' b b' : G, P a -> P a' -> P b -> P b' -> R a a' -> R b b' -> R (op a b) (op a' b')) ->
         (forall a : G, P a -> R (op2 a) (op a a)) ->
         (forall a b c : G, P a -> P b -> P c -> R (op (op a b) c) (op a (op b c))) ->
         (forall a : G, P a -> R (op e a) a) ->
         (forall a : G, P a -> R (op a e) a) ->
         forall (a : G) (n : Z), P a -> R (repeat op op2 inv e a n) (pow op inv e a n).
Proof. exact @repeat_correct_gen. Qed.
Print Assumptions C27_repeat_correct_gen.

(** with the inverse law: a^n * (a^-1)^n = e, so pow for negative n is the inverse power *)
Theorem C27_pow_neg :
  forall (G : Type) (op : G -> G -> G) (inv : G -> G) (e : G) (P : G -> Prop) (R : G -> G -> Prop),
         (forall a : G, R a a) ->
         (forall a b : G, R a b -> R b a) ->
         (forall a b c : G, R a b -> R b c -> R a c) ->
         P e ->
         (forall a b : G, P a -> P b -> P (op a b)) ->
         (forall a : G, P a -> P (inv a)) ->
         (forall a a' b b' : G, P a -> P a' -> P b -> P b' -> R a a' -> R b b' -> R (op a b) (op a' b')) ->
         (forall a b c : G, P a -> P b -> P c -> R (op (op a b) c) (op a (op b c))) ->
         (forall a : G, P a -> R (op e a) a) ->
         (forall a : G, P a -> R (op a e) a) ->
         (forall a : G, P a -> R (op a (inv a)) e) ->
         forall (a : G) (n : Z), P a -> R (op (pow op inv e a n) (pow op inv e (inv a) n)) e.
Proof. exact @pow_neg. Qed.
Print Assumptions C27_pow_neg.

(** __matmul__ dispatch (self is other -> operation2) agrees with operation *)
Theorem C27_matmul_correct :
  forall (G : Type) (op : G -> G -> G) (op2 : G -> G) (P : G -> Prop) (R : G -> G -> Prop),
         (forall a : G, R a a) ->
         (forall a : G, P a -> R (op2 a) (op a a)) ->
         forall (same : bool) (a : G), P a -> R (matmul op op2 same a a) (op a a).
Proof. exact @matmul_correct. Qed.
Print Assumptions C27_matmul_correct.

Theorem C27_qr_repeat_eq_pow :
  forall p : Z,
         1 < p -> forall a n : Z, powmod p a n = pow (mul_mod p) (inv_mod p) (1 mod p) (a mod p) n.
Proof. exact qr_repeat_eq_pow. Qed.
Print Assumptions C27_qr_repeat_eq_pow.

Theorem C27_mulgrp_generic_repeat_eq_pow :
  forall p : Z,
         1 < p ->
         forall a n : Z, red p a -> mulgrp_repeat_generic p a n = pow (mul_mod p) (inv_mod p) (1 mod p) a n.
Proof. exact mulgrp_generic_repeat_eq_pow. Qed.
Print Assumptions C27_mulgrp_generic_repeat_eq_pow.

Theorem C27_powmod_spec :
  forall p : Z, 1 < p -> forall a n : Z, 0 <= n -> powmod p a n = a ^ n mod p.
Proof. exact powmod_spec. Qed.
Print Assumptions C27_powmod_spec.

Theorem C27_mulmod_group :
  forall p : Z,
         1 < p ->
         prime p ->
         (forall a b : Z, unit p a -> unit p b -> unit p (mul_mod p a b)) /\
         (forall a : Z, unit p a -> unit p (inv_mod p a)) /\
         unit p (1 mod p) /\
         (forall a b c : Z, mul_mod p (mul_mod p a b) c = mul_mod p a (mul_mod p b c)) /\
         (forall a : Z, unit p a -> mul_mod p (1 mod p) a = a /\ mul_mod p a (1 mod p) = a) /\
         (forall a : Z, unit p a -> mul_mod p a (inv_mod p a) = 1 mod p /\ mul_mod p (inv_mod p a) a = 1 mod p).
Proof. exact mulmod_group. Qed.
Print Assumptions C27_mulmod_group.

Theorem C27_qr_mul_closed :
  forall p : Z,
         1 < p -> prime p -> forall a b : Z, is_square p a -> is_square p b -> is_square p (mul_mod p a b).
Proof. exact qr_mul_closed. Qed.
Print Assumptions C27_qr_mul_closed.

Theorem C27_schnorr_mul_closed :
  forall p : Z,
         1 < p ->
         prime p ->
         forall q a b : Z, 0 <= q -> in_subgroup p q a -> in_subgroup p q b -> in_subgroup p q (mul_mod p a b).
Proof. exact schnorr_mul_closed. Qed.
Print Assumptions C27_schnorr_mul_closed.

Theorem C27_qr_decode_encode :
  forall p : Z,
         1 < p ->
         prime p ->
         forall (leg : Z -> bool) (gap m M Zv : Z),
         0 <= m -> (m + 1) * gap < p -> qr_encode leg p gap m = Some (M, Zv) -> qr_decode p gap M Zv = m.
Proof. exact qr_decode_encode. Qed.
Print Assumptions C27_qr_decode_encode.

Theorem C27_sg_decode_encode :
  forall p : Z,
         1 < p ->
         forall g m : Z,
         0 <= m < 1024 ->
         (forall j : Z, 0 <= j < m -> g ^ j mod p <> g ^ m mod p) -> sg_decode p g (sg_encode p g m) = m.
Proof. exact sg_decode_encode. Qed.
Print Assumptions C27_sg_decode_encode.

Theorem C27_operation_valid :
  forall (n : nat) (p q : list nat), valid n p -> valid n q -> valid n (operation p q).
Proof. exact operation_valid. Qed.
Print Assumptions C27_operation_valid.

Theorem C27_operation_assoc :
  forall (n : nat) (p q r : list nat),
         valid n p -> valid n q -> operation (operation p q) r = operation p (operation q r).
Proof. exact operation_assoc. Qed.
Print Assumptions C27_operation_assoc.

Theorem C27_operation_ident_l :
  forall (n : nat) (q : list nat), length q = n -> operation (ident n) q = q.
Proof. exact operation_ident_l. Qed.
Print Assumptions C27_operation_ident_l.

Theorem C27_operation_ident_r :
  forall (n : nat) (p : list nat), (forall x : nat, In x p -> (x < n)%nat) -> operation p (ident n) = p.
Proof. exact operation_ident_r. Qed.
Print Assumptions C27_operation_ident_r.

Theorem C27_inversion_valid :
  forall (n : nat) (p : list nat), valid n p -> valid n (inversion p).
Proof. exact inversion_valid. Qed.
Print Assumptions C27_inversion_valid.

Theorem C27_operation_inversion_r :
  forall (n : nat) (p : list nat), valid n p -> operation p (inversion p) = ident n.
Proof. exact operation_inversion_r. Qed.
Print Assumptions C27_operation_inversion_r.

Theorem C27_operation_inversion_l :
  forall (n : nat) (p : list nat), valid n p -> operation (inversion p) p = ident n.
Proof. exact operation_inversion_l. Qed.
Print Assumptions C27_operation_inversion_l.

Theorem C27_inversion_spec :
  forall (n : nat) (p : list nat),
         valid n p -> forall i : nat, (i < n)%nat -> nth (nth i p 0%nat) (inversion p) 0%nat = i.
Proof. exact inversion_spec. Qed.
Print Assumptions C27_inversion_spec.

Theorem C27_validb_spec :
  forall (n : nat) (p : list nat), validb n p = true <-> valid n p.
Proof. exact validb_spec. Qed.
Print Assumptions C27_validb_spec.

Theorem C27_equality_spec :
  forall p q : list nat, equality p q = true <-> p = q.
Proof. exact equality_spec. Qed.
Print Assumptions C27_equality_spec.

Theorem C27_eda_add_comm :
  forall (K : FieldT) (a d : K) (P Q : pt2 K), eda_add a d P Q = eda_add a d Q P.
Proof. exact eda_add_comm. Qed.
Print Assumptions C27_eda_add_comm.

Theorem C27_eda_add_id_r :
  forall (K : FieldT) (a d : K) (P : pt2 K), eda_add a d P eda_id = P.
Proof. exact eda_add_id_r. Qed.
Print Assumptions C27_eda_add_id_r.

Theorem C27_eda_add_inv_r :
  forall (K : FieldT) (a d x y : K),
         fadd K (fmul K a (fmul K x x)) (fmul K y y) =
         fadd K (f1 K) (fmul K (fmul K d (fmul K x x)) (fmul K y y)) ->
         (let E := fmul K (fmul K d (fmul K x (fopp K x))) (fmul K y y) in fsub K (f1 K) (fmul K E E) <> f0 K) ->
         eda_add a d (x, y) (eda_inv (x, y)) = eda_id.
Proof. exact eda_add_inv_r. Qed.
Print Assumptions C27_eda_add_inv_r.

Theorem C27_eda_add_closed :
  forall (K : FieldT) (a d x1 y1 x2 y2 : K),
         fadd K (fmul K a (fmul K x1 x1)) (fmul K y1 y1) =
         fadd K (f1 K) (fmul K (fmul K d (fmul K x1 x1)) (fmul K y1 y1)) ->
         fadd K (fmul K a (fmul K x2 x2)) (fmul K y2 y2) =
         fadd K (f1 K) (fmul K (fmul K d (fmul K x2 x2)) (fmul K y2 y2)) ->
         (let E := fmul K (fmul K d (fmul K x1 x2)) (fmul K y1 y2) in fsub K (f1 K) (fmul K E E) <> f0 K) ->
         let
         '(x3, y3) := eda_add a d (x1, y1) (x2, y2) in
          fadd K (fmul K a (fmul K x3 x3)) (fmul K y3 y3) =
          fadd K (f1 K) (fmul K (fmul K d (fmul K x3 x3)) (fmul K y3 y3)).
Proof. exact eda_add_closed. Qed.
Print Assumptions C27_eda_add_closed.

Theorem C27_edp_add_refines :
  forall (K : FieldT) (a d x1 y1 z1 x2 y2 z2 : K),
         z1 <> f0 K ->
         z2 <> f0 K ->
         (let E :=
            fmul K (fmul K d (fmul K (fdiv K x1 z1) (fdiv K x2 z2))) (fmul K (fdiv K y1 z1) (fdiv K y2 z2)) in
          fsub K (f1 K) (fmul K E E) <> f0 K) ->
         let
         '(x3, y3, z3) := edp_add a d (x1, y1, z1) (x2, y2, z2) in
          z3 <> f0 K /\ edp_aff (x3, y3, z3) = eda_add a d (edp_aff (x1, y1, z1)) (edp_aff (x2, y2, z2)).
Proof. exact edp_add_refines. Qed.
Print Assumptions C27_edp_add_refines.

Theorem C27_ede_dbl_eq_add :
  forall (K : FieldT) (d : K) (P : pt4 K), ede_dbl d P = ede_add d P P.
Proof. exact ede_dbl_eq_add. Qed.
Print Assumptions C27_ede_dbl_eq_add.

Theorem C27_ede_add_refines :
  forall (K : FieldT) (d x1 y1 z1 t1 x2 y2 z2 t2 : K),
         c2 K <> f0 K ->
         z1 <> f0 K ->
         z2 <> f0 K ->
         fmul K t1 z1 = fmul K x1 y1 ->
         fmul K t2 z2 = fmul K x2 y2 ->
         (let E :=
            fmul K (fmul K d (fmul K (fdiv K x1 z1) (fdiv K x2 z2))) (fmul K (fdiv K y1 z1) (fdiv K y2 z2)) in
          fsub K (f1 K) (fmul K E E) <> f0 K) ->
         let
         '(x3, y3, z3, t3) := ede_add d (x1, y1, z1, t1) (x2, y2, z2, t2) in
          z3 <> f0 K /\
          fmul K t3 z3 = fmul K x3 y3 /\
          ede_aff (x3, y3, z3, t3) =
          eda_add (fopp K (f1 K)) d (ede_aff (x1, y1, z1, t1)) (ede_aff (x2, y2, z2, t2)).
Proof. exact ede_add_refines. Qed.
Print Assumptions C27_ede_add_refines.

Theorem C27_edp_inv_refines :
  forall (K : FieldT) (x y z : K),
         z <> f0 K -> edp_aff (edp_inv (x, y, z)) = eda_inv (edp_aff (x, y, z)).
Proof. exact edp_inv_refines. Qed.
Print Assumptions C27_edp_inv_refines.

Theorem C27_ede_inv_refines :
  forall (K : FieldT) (x y z t : K),
         z <> f0 K -> ede_aff (ede_inv (x, y, z, t)) = eda_inv (ede_aff (x, y, z, t)).
Proof. exact ede_inv_refines. Qed.
Print Assumptions C27_ede_inv_refines.

Theorem C27_edp_norm_spec :
  forall (K : FieldT) (x y z : K),
         z <> f0 K ->
         edp_norm (x, y, z) = (fdiv K x z, fdiv K y z, f1 K) /\
         edp_aff (edp_norm (x, y, z)) = edp_aff (x, y, z) /\ edp_norm (edp_norm (x, y, z)) = edp_norm (x, y, z).
Proof. exact edp_norm_spec. Qed.
Print Assumptions C27_edp_norm_spec.

Theorem C27_ede_norm_spec :
  forall (K : FieldT) (x y z t : K),
         z <> f0 K ->
         ede_norm (x, y, z, t) = (fdiv K x z, fdiv K y z, f1 K, fmul K (fdiv K x z) (fdiv K y z)) /\
         ede_aff (ede_norm (x, y, z, t)) = ede_aff (x, y, z, t) /\
         ede_norm (ede_norm (x, y, z, t)) = ede_norm (x, y, z, t).
Proof. exact ede_norm_spec. Qed.
Print Assumptions C27_ede_norm_spec.

Theorem C27_edp_eq_spec :
  forall (K : FieldT) (x1 y1 z1 x2 y2 z2 : K),
         z1 <> f0 K ->
         z2 <> f0 K ->
         edp_eq (feqb K) (x1, y1, z1) (x2, y2, z2) = true <-> edp_aff (x1, y1, z1) = edp_aff (x2, y2, z2).
Proof. exact edp_eq_spec. Qed.
Print Assumptions C27_edp_eq_spec.

Theorem C27_ede_eq_spec :
  forall (K : FieldT) (x1 y1 z1 t1 x2 y2 z2 t2 : K),
         z1 <> f0 K ->
         z2 <> f0 K ->
         ede_eq (feqb K) (x1, y1, z1, t1) (x2, y2, z2, t2) = true <->
         ede_aff (x1, y1, z1, t1) = ede_aff (x2, y2, z2, t2).
Proof. exact ede_eq_spec. Qed.
Print Assumptions C27_ede_eq_spec.

Theorem C27_wa_add_comm :
  forall (K : FieldT) (a : K) (P Q : option (pt2 K)), wa_add (feqb K) a P Q = wa_add (feqb K) a Q P.
Proof. exact wa_add_comm. Qed.
Print Assumptions C27_wa_add_comm.

Theorem C27_wa_add_id :
  forall (K : FieldT) (a : K) (P : option (pt2 K)),
         wa_add (feqb K) a None P = P /\ wa_add (feqb K) a P None = P.
Proof. exact wa_add_id. Qed.
Print Assumptions C27_wa_add_id.

Theorem C27_wa_add_inv_r :
  forall (K : FieldT) (a : K) (P : option (pt2 K)),
         c2 K <> f0 K -> wa_add (feqb K) a P (wa_inv P) = None.
Proof. exact wa_add_inv_r. Qed.
Print Assumptions C27_wa_add_inv_r.

Theorem C27_wa_add_closed_generic :
  forall (K : FieldT) (a b x1 y1 x2 y2 : K),
         fmul K y1 y1 = fadd K (fadd K (fmul K (fmul K x1 x1) x1) (fmul K a x1)) b ->
         fmul K y2 y2 = fadd K (fadd K (fmul K (fmul K x2 x2) x2) (fmul K a x2)) b ->
         x1 <> x2 ->
         exists x3 y3 : K,
           wa_add (feqb K) a (Some (x1, y1)) (Some (x2, y2)) = Some (x3, y3) /\
           fmul K y3 y3 = fadd K (fadd K (fmul K (fmul K x3 x3) x3) (fmul K a x3)) b.
Proof. exact wa_add_closed_generic. Qed.
Print Assumptions C27_wa_add_closed_generic.

Theorem C27_wa_dbl_closed :
  forall (K : FieldT) (a b x y : K),
         c2 K <> f0 K ->
         fmul K y y = fadd K (fadd K (fmul K (fmul K x x) x) (fmul K a x)) b ->
         y <> f0 K ->
         exists x3 y3 : K,
           wa_dbl (feqb K) a (Some (x, y)) = Some (x3, y3) /\
           fmul K y3 y3 = fadd K (fadd K (fmul K (fmul K x3 x3) x3) (fmul K a x3)) b.
Proof. exact wa_dbl_closed. Qed.
Print Assumptions C27_wa_dbl_closed.

Theorem C27_wa_add_same :
  forall (K : FieldT) (a : K) (P : pt2 K),
         wa_add (feqb K) a (Some P) (Some P) = wa_dbl (feqb K) a (Some P).
Proof. exact wa_add_same. Qed.
Print Assumptions C27_wa_add_same.

Theorem C27_wj_add_refines_generic :
  forall (K : FieldT) (a x1 y1 z1 x2 y2 z2 : K),
         c2 K <> f0 K ->
         z1 <> f0 K ->
         z2 <> f0 K ->
         fdiv K x1 (fmul K z1 z1) <> fdiv K x2 (fmul K z2 z2) ->
         wj_aff (feqb K) (wj_add (feqb K) (x1, y1, z1) (x2, y2, z2)) =
         wa_add (feqb K) a (wj_aff (feqb K) (x1, y1, z1)) (wj_aff (feqb K) (x2, y2, z2)).
Proof. exact wj_add_refines_generic. Qed.
Print Assumptions C27_wj_add_refines_generic.

Theorem C27_wj_dbl_refines :
  forall (K : FieldT) (x y z : K),
         c2 K <> f0 K ->
         z <> f0 K ->
         y <> f0 K -> wj_aff (feqb K) (wj_dbl (x, y, z)) = wa_dbl (feqb K) (f0 K) (wj_aff (feqb K) (x, y, z)).
Proof. exact wj_dbl_refines. Qed.
Print Assumptions C27_wj_dbl_refines.

Theorem C27_wj_add_same :
  forall (K : FieldT) (x1 y1 z1 x2 y2 z2 : K),
         z1 <> f0 K ->
         z2 <> f0 K ->
         fdiv K x1 (fmul K z1 z1) = fdiv K x2 (fmul K z2 z2) ->
         fdiv K y1 (fmul K (fmul K z1 z1) z1) = fdiv K y2 (fmul K (fmul K z2 z2) z2) ->
         wj_add (feqb K) (x1, y1, z1) (x2, y2, z2) = wj_dbl (x1, y1, z1).
Proof. exact wj_add_same. Qed.
Print Assumptions C27_wj_add_same.

Theorem C27_wj_add_opposite :
  forall (K : FieldT) (x1 y1 z1 x2 y2 z2 : K),
         c2 K <> f0 K ->
         z1 <> f0 K ->
         z2 <> f0 K ->
         fdiv K x1 (fmul K z1 z1) = fdiv K x2 (fmul K z2 z2) ->
         fdiv K y1 (fmul K (fmul K z1 z1) z1) <> fdiv K y2 (fmul K (fmul K z2 z2) z2) ->
         wj_aff (feqb K) (wj_add (feqb K) (x1, y1, z1) (x2, y2, z2)) = None.
Proof. exact wj_add_opposite. Qed.
Print Assumptions C27_wj_add_opposite.

Theorem C27_wp_dbl_refines :
  forall (K : FieldT) (b x y z : K),
         c2 K <> f0 K ->
         z <> f0 K ->
         y <> f0 K ->
         fmul K (fmul K y y) z = fadd K (fmul K (fmul K x x) x) (fmul K b (fmul K (fmul K z z) z)) ->
         wp_aff (feqb K) (wp_dbl b (x, y, z)) = wa_dbl (feqb K) (f0 K) (wp_aff (feqb K) (x, y, z)).
Proof. exact wp_dbl_refines. Qed.
Print Assumptions C27_wp_dbl_refines.

Theorem C27_assoc_toy_edwards :
  forall p a d : Z,
         In (p, a, d) toy_ed ->
         let add := eda_add (zk p a) (zk p d) in
         let on := ed_on (zeqb p) (zk p a) (zk p d) in
         forall P Q R : pt2 (ZpOps p),
         In P (ed_points p a d) ->
         In Q (ed_points p a d) ->
         In R (ed_points p a d) ->
         add P eda_id = P /\
         add eda_id P = P /\
         add P (eda_inv P) = eda_id /\
         on (eda_inv P) = true /\ on (add P Q) = true /\ add P Q = add Q P /\ add (add P Q) R = add P (add Q R).
Proof. exact assoc_toy_edwards. Qed.
Print Assumptions C27_assoc_toy_edwards.

Theorem C27_assoc_toy_weierstrass :
  forall p a b : Z,
         In (p, a, b) toy_w ->
         let add := wa_add (zeqb p) (zk p a) in
         forall P Q R : option (pt2 (ZpOps p)),
         In P (w_points p a b) ->
         In Q (w_points p a b) ->
         In R (w_points p a b) ->
         add P None = P /\
         add None P = P /\
         add P (wa_inv P) = None /\
         In (wa_inv P) (w_points p a b) /\
         add P P = wa_dbl (zeqb p) (zk p a) P /\
         In (add P Q) (w_points p a b) /\ add P Q = add Q P /\ add (add P Q) R = add P (add Q R).
Proof. exact assoc_toy_weierstrass. Qed.
Print Assumptions C27_assoc_toy_weierstrass.

Theorem C27_toy_coords_agree :
  (forall c : Z * Z * Z, In c toy_edp -> edp_toy_check c = true) /\
         (forall c : Z * Z * Z, In c toy_ed_ext -> ede_toy_check c = true) /\
         (forall c : Z * Z * Z, In c toy_w0 -> wp_toy_check c = true) /\
         (forall c : Z * Z * Z, In c toy_wj -> wj_toy_check c = true).
Proof. exact toy_coords_agree. Qed.
Print Assumptions C27_toy_coords_agree.

Theorem C27_toy_ede_a1_refuted :
  ede_toy_check (13, 1, 2) = false.
Proof. exact toy_ede_a1_refuted. Qed.
Print Assumptions C27_toy_ede_a1_refuted.

Theorem C27_toy_wp_even_order_refuted :
  wp_toy_check (13, 0, 1) = false.
Proof. exact toy_wp_even_order_refuted. Qed.
Print Assumptions C27_toy_wp_even_order_refuted.

Theorem C27_ed_points_complete :
  forall (p a d : Z) (P : pt2 (ZpOps p)),
         0 < p -> In P (ed_points p a d) <-> ed_on (zeqb p) (zk p a) (zk p d) P = true.
Proof. exact ed_points_complete. Qed.
Print Assumptions C27_ed_points_complete.

Theorem C27_w_points_complete :
  forall (p a b : Z) (P : option (pt2 (ZpOps p))),
         0 < p ->
         In P (w_points p a b) <->
         match P with
         | Some Q => w_on (zeqb p) (zk p a) (zk p b) Q = true
         | None => True
         end.
Proof. exact w_points_complete. Qed.
Print Assumptions C27_w_points_complete.

(** ---- non-vacuity ---- *)
(** repeat on (Z, +): the hypotheses of C27_repeat_correct hold and -13 * 5 = -65 *)
Example C27_repeat_nonvacuous :
  (forall a b c : Z, (a + b) + c = a + (b + c)) /\ (forall a : Z, 0 + a = a) /\ (forall a : Z, a + 0 = a) /\
  repeat Z.add (fun c => c + c) Z.opp 0 5 (-13) = -65 /\ pow Z.add Z.opp 0 5 (-13) = -65 /\
  repeat_loop Z.add (fun c => c + c) Z.opp 0 5 (-13) = -65.
Proof. repeat split; intros; try ring. Qed.

(** a valid permutation of Sym(4) with its inverse and a product *)
Example C27_sym_nonvacuous :
  validb 4 [2; 0; 3; 1]%nat = true /\ inversion [2; 0; 3; 1]%nat = [1; 3; 0; 2]%nat /\
  operation [2; 0; 3; 1]%nat [1; 3; 0; 2]%nat = ident 4 /\ operation [1; 0; 2; 3]%nat [1; 2; 3; 0]%nat = [2; 1; 3; 0]%nat.
Proof. vm_compute. repeat split. Qed.

(** QR(23), gap 4 (toy): message 3 encodes (legendre oracle = squares mod 23) and decodes; 23 is prime *)
Example C27_qr_nonvacuous :
  prime 23 /\
  let leg := fun x => existsb (Z.eqb (x mod 23)) [1; 2; 3; 4; 6; 8; 9; 12; 13; 16; 18] in
  qr_encode leg 23 4 3 = Some (13, 1) /\ qr_decode 23 4 13 1 = 3 /\ (3 + 1) * 4 < 23 /\
  powmod 23 2 (-5) = 18 /\ (18 * 2 ^ 5) mod 23 = 1 /\ sg_decode 23 2 (sg_encode 23 2 7) = 7.
Proof. split; [apply is_prime_small_correct; reflexivity|]. vm_compute. repeat split; intro; discriminate. Qed.

(** a curve point of the toy Edwards curve x^2 + y^2 = 1 + 2 x^2 y^2 over Z_13 in two projective
    scalings: hypotheses of the refinement theorems (z <> 0, denominators <> 0) are met and the sums agree *)
Example C27_curves_nonvacuous :
  prime 13 /\
  length (ed_points 13 1 2) = 8%nat /\ length (w_points 13 0 7) = 7%nat /\
  z_eda_add 13 1 2 (4, 4) (1, 0) = (4, 9) /\
  z_edp_norm 13 (z_edp_add 13 1 2 (4 * 5, 4 * 5, 5) (1 * 7, 0 * 7, 7)) = (4, 9, 1) /\
  z_wa_add 13 (0) (Some (7, 5)) (Some (8, 5)) = Some (11, 8) /\
  z_wj_norm 13 (z_wj_add 13 (7 * 4, 5 * 8, 2) (8 * 9, 5 * 27, 3)) = (11, 8, 1) /\
  z_wp_norm 13 (z_wp_add 13 7 (7 * 2, 5 * 2, 2) (8 * 3, 5 * 3, 3)) = (11, 8, 1).
Proof. split; [apply is_prime_small_correct; reflexivity|]. vm_compute. repeat split. Qed.
