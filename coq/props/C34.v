(** C34 — secure statistics (statements only; proofs in theories/Stats.v). *)
Require Import MPyC.RandomFns MPyC.Stats.
From Coq Require Import ZArith List.
Import ListNotations.
Local Open Scope nat_scope.
