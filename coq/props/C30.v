(** C30 — bit-level oblivious building blocks are correct for all inputs.
    Only statements; the models and proofs are in theories/Bits.v and theories/FindUnit.v. *)
From Coq Require Import ZArith List.
Require Import MPyC.Base MPyC.Bits MPyC.FindUnit.
Import ListNotations.
Local Open Scope Z_scope.

(** add_bits: binary addition modulo 2^n of two n-bit vectors, all n; the outputs are bits. *)
Theorem C30_add_bits_correct :
  forall x y : list Z, length y = length x -> allbits x -> allbits y ->
    value (add_bits x y) = (value x + value y) mod 2 ^ Z.of_nat (length x)
    /\ allbits (add_bits x y) /\ length (add_bits x y) = length x.
Proof. exact add_bits_correct. Qed.
Print Assumptions C30_add_bits_correct .

Theorem C30_add_bits_is_expansion :
  forall x y : list Z, length y = length x -> allbits x -> allbits y ->
    add_bits x y = bits_of (value x + value y) (length x).
Proof. exact add_bits_is_bits_of. Qed.
Print Assumptions C30_add_bits_is_expansion .

(** from_bits is the value; from_bits of the l-bit expansion of a is a mod 2^l. *)
Theorem C30_from_bits_value : forall x : list Z, from_bits x = value x.
Proof. exact from_bits_value. Qed.
Print Assumptions C30_from_bits_value .

Theorem C30_from_to_bits : forall (a : Z) (l : nat), from_bits (bits_of a l) = a mod 2 ^ Z.of_nat l.
Proof. exact from_to_bits. Qed.
Print Assumptions C30_from_to_bits .

(** to_bits on secure integers and fixed-point numbers (incl. the integral shortcut): for EVERY
    tape (rbits, rdivl) that does not wrap around the field, the two's complement expansion. *)
Theorem C30_to_bits_num_correct :
  forall (p : Z) (L f : nat) (integral : bool) (A : Z) (l : nat) (rbits : list Z) (rdivl : Z),
    let rs := rshift_f f integral in
    let l' := if rs then (l - f)%nat else l in
    let A' := if rs then A / 2 ^ Z.of_nat f else A in
    (rs = true -> A mod 2 ^ Z.of_nat f = 0) ->
    ((rs && (l <=? f)%nat)%bool = true \/
     ((l' <= L)%nat /\ length rbits = l' /\ allbits rbits /\
      0 <= A' + (2 ^ Z.of_nat L + rdivl * 2 ^ Z.of_nat l' - value rbits) < p)) ->
    to_bits_num p L f integral A l rbits rdivl = bits_of A l.
Proof. exact to_bits_num_correct. Qed.
Print Assumptions C30_to_bits_num_correct .

Theorem C30_to_bits_int_correct :
  forall (p : Z) (L : nat) (a : Z) (l : nat) (rbits : list Z) (rdivl : Z),
    (l <= L)%nat -> length rbits = l -> allbits rbits ->
    0 <= a + (2 ^ Z.of_nat L + rdivl * 2 ^ Z.of_nat l - value rbits) < p ->
    to_bits_num p L 0 false a l rbits rdivl = bits_of a l.
Proof. exact to_bits_int_correct. Qed.
Print Assumptions C30_to_bits_int_correct .

(** the no-wrap condition holds on the ranges used by the code unless r_divl = 0 and l = L *)
Theorem C30_to_bits_nowrap_from_ranges :
  forall (p : Z) (L k : nat) (a : Z) (l : nat) (rbits : list Z) (rdivl : Z),
    (l <= L)%nat -> (1 <= k)%nat -> length rbits = l -> allbits rbits ->
    - 2 ^ Z.of_nat L <= 2 * a < 2 ^ Z.of_nat L ->
    0 <= rdivl < 2 ^ Z.of_nat (L + k - l) -> (1 <= rdivl \/ (l < L)%nat) ->
    2 ^ Z.of_nat (L + k + 1) <= p ->
    0 <= a + (2 ^ Z.of_nat L + rdivl * 2 ^ Z.of_nat l - value rbits) < p.
Proof. exact nowrap_from_ranges. Qed.
Print Assumptions C30_to_bits_nowrap_from_ranges .

(** ... and in that remaining event (probability <= 2^-k) the bits are wrong: statistical error *)
Theorem C30_to_bits_wrap_witness :
  to_bits_num 1099511627563 8 0 false (-128) 8 [1;1;1;1;1;1;1;1] 0 <> bits_of (-128) 8.
Proof. exact to_bits_wrap_witness. Qed.
Print Assumptions C30_to_bits_wrap_witness .

(** FINDING: l > bit_length passes the assert (l <= bit_length + frac_length) but is wrong *)
Theorem C30_to_bits_l_gt_bit_length_refuted :
  exists p L f A l rbits rdivl,
    (l <= L + f)%nat /\ length rbits = l /\ allbits rbits /\
    - 2 ^ Z.of_nat L <= 2 * A < 2 ^ Z.of_nat L /\
    0 <= A + (2 ^ Z.of_nat L + rdivl * 2 ^ Z.of_nat l - value rbits) < p /\
    to_bits_num p L f false A l rbits rdivl <> bits_of A l.
Proof. exact to_bits_l_gt_bit_length_refuted. Qed.
Print Assumptions C30_to_bits_l_gt_bit_length_refuted .

Theorem C30_to_bits_gf2_correct :
  forall (a : Z) (l : nat) (rbits : list Z),
    length rbits = l -> allbits rbits -> to_bits_gf2 a l rbits = bits_of a l.
Proof. exact to_bits_gf2_correct. Qed.
Print Assumptions C30_to_bits_gf2_correct .

Theorem C30_to_bits_gfp_correct :
  forall (p' : Z) (bl : nat) (a : Z) (l : nat) (rbits : list Z) (rdivl : Z),
    (l <= S bl)%nat -> length rbits = l -> allbits rbits ->
    0 <= a + (2 ^ Z.of_nat (S bl) + rdivl * 2 ^ Z.of_nat l - value rbits) < p' ->
    to_bits_gfp p' bl a l rbits rdivl = bits_of a l.
Proof. exact to_bits_gfp_correct. Qed.
Print Assumptions C30_to_bits_gfp_correct .

(** trailing_zeros: bit i is right whenever all lower bits of a are 0 (up to and incl. the lowest 1) *)
Theorem C30_trailing_zeros_correct :
  forall (p : Z) (L : nat) (A : Z) (l : nat) (rbits : list Z) (rdivl : Z),
    (l <= L)%nat -> length rbits = l -> allbits rbits ->
    0 <= A + (2 ^ Z.of_nat L + rdivl * 2 ^ Z.of_nat l + value rbits) < p ->
    forall i, (i < l)%nat -> A mod 2 ^ Z.of_nat i = 0 ->
      nth i (trailing_zeros p L A l rbits rdivl) 0 = (A / 2 ^ Z.of_nat i) mod 2.
Proof. exact trailing_zeros_correct. Qed.
Print Assumptions C30_trailing_zeros_correct .

Theorem C30_trailing_zeros_bits :
  forall (p : Z) (L : nat) (A : Z) (l : nat) (rbits : list Z) (rdivl : Z),
    allbits rbits -> allbits (trailing_zeros p L A l rbits rdivl).
Proof. exact trailing_zeros_allbits. Qed.
Print Assumptions C30_trailing_zeros_bits .

(** unit_vector: the a-th unit vector of length n for all n and 0 <= a < n; a = n wraps to e_0 *)
Theorem C30_unit_vector_correct :
  forall a n : Z, 0 <= a < n ->
    length (unit_vector a n) = Z.to_nat n /\
    forall i, (i < Z.to_nat n)%nat -> nth i (unit_vector a n) 0 = if Z.of_nat i =? a then 1 else 0.
Proof. exact unit_vector_correct. Qed.
Print Assumptions C30_unit_vector_correct .

Theorem C30_unit_vector_wrap :
  forall n : Z, 1 <= n -> unit_vector n n = 1 :: repeat 0 (Z.to_nat (n - 1)).
Proof. exact unit_vector_wrap. Qed.
Print Assumptions C30_unit_vector_wrap .

(** find: f(index of the first occurrence of a), f(e) if absent, or the raw pair (nf, f(ix));
    F = effective f (find_F); a given cs_f must satisfy cs_f(b, i) = F(i + b), b in {0, 1} *)
Theorem C30_find_correct :
  forall (x : list Z) (a : aarg) (bits : bool) (e : earg)
         (f : option (Z -> list Z)) (cs_f : option (Z -> Z -> list Z)) (F : Z -> list Z),
    find_wf x a bits ->
    find_F f cs_f = Some F ->
    (forall i j, length (F i) = length (F j)) ->
    (forall cs, cs_f = Some cs -> forall i, 0 <= i -> cs 0 i = F i /\ cs 1 i = F (i + 1)) ->
    find x a bits e f cs_f = Some (find_result x (aval a) e F).
Proof. exact find_correct. Qed.
Print Assumptions C30_find_correct .

(** both f and cs_f given, consistent by the docstring's (star): same result as with f alone
    (repaired in /repo by f1f6f50; was F-C30-1) *)
Theorem C30_find_both_correct :
  forall (x : list Z) (a : aarg) (bits : bool) (e : earg) (f : Z -> list Z) (cs : Z -> Z -> list Z),
    find_wf x a bits ->
    (forall i j, length (f i) = length (f j)) ->
    (forall i, 0 <= i -> cs 0 i = f i /\ cs 1 i = f (i + 1)) ->
    find x a bits e (Some f) (Some cs) = Some (find_result x (aval a) e f).
Proof. exact find_both_correct. Qed.
Print Assumptions C30_find_both_correct .

(** the empty list, every form of a incl. public a = 1 (repaired in /repo by 7bf810d; was F-C30-2) *)
Theorem C30_find_empty :
  forall (a : aarg) (bits : bool) (e : earg)
         (f : option (Z -> list Z)) (cs_f : option (Z -> Z -> list Z)) (F : Z -> list Z),
    find_F f cs_f = Some F ->
    (forall i j, length (F i) = length (F j)) ->
    (forall cs, cs_f = Some cs -> forall i, 0 <= i -> cs 0 i = F i /\ cs 1 i = F (i + 1)) ->
    (bits = true -> isbit (aval a)) ->
    find [] a bits e f cs_f
    = Some (match e with ERaw => (Some 1, F 0) | EStr off => (None, F (0 + off)) | EVal v => (None, F v) end).
Proof. exact find_empty. Qed.
Print Assumptions C30_find_empty .

(** gcp2 = 2^t, t the position of the lowest 1 of a or b; 2^l if there is none below l *)
Theorem C30_gcp2_correct :
  forall (p : Z) (L : nat) (A B : Z) (l : nat) (ra : list Z) (da : Z) (rb : list Z) (db : Z) (t : nat),
    (l <= L)%nat -> tape_ok p L A l ra da -> tape_ok p L B l rb db ->
    (t < l)%nat -> A mod 2 ^ Z.of_nat t = 0 -> B mod 2 ^ Z.of_nat t = 0 ->
    ((A / 2 ^ Z.of_nat t) mod 2 = 1 \/ (B / 2 ^ Z.of_nat t) mod 2 = 1) ->
    gcp2 p L A B l ra da rb db = Some (2 ^ Z.of_nat t).
Proof. exact gcp2_correct. Qed.
Print Assumptions C30_gcp2_correct .

Theorem C30_gcp2_zero :
  forall (p : Z) (L : nat) (A B : Z) (l : nat) (ra : list Z) (da : Z) (rb : list Z) (db : Z),
    (l <= L)%nat -> tape_ok p L A l ra da -> tape_ok p L B l rb db ->
    A mod 2 ^ Z.of_nat l = 0 -> B mod 2 ^ Z.of_nat l = 0 ->
    gcp2 p L A B l ra da rb db = Some (2 ^ Z.of_nat l).
Proof. exact gcp2_zero. Qed.
Print Assumptions C30_gcp2_zero .

(** Non-vacuity: concrete instances meeting the hypotheses (SecInt(8): p = 1099511627563, L = 8). *)
Example C30_nonvacuous_add_bits :
  let x := [1;0;1;1;0;1;1] in let y := [1;1;0;0;1;1;0] in
  length y = length x /\ allbitsb x = true /\ allbitsb y = true /\ add_bits x y = [0;0;0;0;0;1;0].
Proof. vm_compute. auto. Qed.

Example C30_nonvacuous_to_bits :
  let p := 1099511627563 in let rb := [1;0;1;1;0;0;1;0] in
  (8 <= 8)%nat /\ length rb = 8%nat /\ allbitsb rb = true /\
  (0 <=? -3 + (2 ^ 8 + 12345 * 2 ^ 8 - value rb)) = true /\ (-3 + (2 ^ 8 + 12345 * 2 ^ 8 - value rb) <? p) = true /\
  to_bits_num p 8 0 false (-3) 8 rb 12345 = [1;0;1;1;1;1;1;1].
Proof. vm_compute. repeat split; auto. Qed.

Example C30_nonvacuous_to_bits_integral_fxp :   (* SecFxp(8,4), a = 3.0: A = 48, integral *)
  rshift_f 4 true = true /\ 48 mod 2 ^ 4 = 0 /\
  to_bits_num 17592186044423 8 4 true 48 8 [1;0;0;1] 77 = [0;0;0;0;1;1;0;0].
Proof. vm_compute. auto. Qed.

Example C30_nonvacuous_trailing_zeros :
  let p := 1099511627563 in let rb := [1;0;1;1;0;0;1;0] in
  12 mod 2 ^ 2 = 0 /\ nth 2 (trailing_zeros p 8 12 8 rb 5) 0 = 1 /\
  firstn 3 (trailing_zeros p 8 12 8 rb 5) = [0;0;1].
Proof. vm_compute. auto. Qed.

Example C30_nonvacuous_unit_vector :
  unit_vector 3 5 = [0;0;0;1;0] /\ unit_vector 5 5 = [1;0;0;0;0] /\ unit_vector 6 7 = [0;0;0;0;0;0;1].
Proof. vm_compute. auto. Qed.

Example C30_nonvacuous_find :
  find_wf [1;1;0;1;0] (ASec 0) true /\
  find [1;1;0;1;0] (ASec 0) true (EStr 0) (Some (fun i => [i; i * i])) None = Some (None, [2; 4]) /\
  find [1;1;1] (AInt 0) true (EVal (-1)) None (Some (fun b i => [i + b])) = Some (None, [-1]) /\
  find [1;1;1] (AInt 0) true ERaw None None = Some (Some 1, [3]) /\
  find [1;0] (AInt 0) true (EStr 0) (Some (fun i => [2 * i])) (Some (fun b i => [2 * (i + b)])) = Some (None, [2]) /\
  find [] (AInt 1) true (EVal (-1)) None None = Some (None, [-1]).
Proof.
  split; [|vm_compute; repeat split; auto].
  intros _; split; [apply allbitsb_correct; reflexivity | left; reflexivity].
Qed.

Example C30_nonvacuous_gcp2 :
  let p := 1099511627563 in
  12 mod 2 ^ 2 = 0 /\ 40 mod 2 ^ 2 = 0 /\ (12 / 2 ^ 2) mod 2 = 1 /\
  gcp2 p 8 12 40 8 [1;0;1;1;0;0;1;0] 12345 [1;1;1;1;0;0;1;0] 999 = Some 4.
Proof. vm_compute. auto. Qed.
