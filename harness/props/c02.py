"""C02 — secure fixed-point arithmetic stays within its rounding bounds.

Proof: coq/props/C02.v over the scaled-integer model coq/theories/Fxp.v (trunc as coded is
floor/ceil for every mask; secure x secure product < 1 unit for both flag paths; public int exact;
public float <= 1 + |x|/2 <= 2(1+|x|) units; + - neg comparisons exact).
Tie: multi-party simulator runs ((1,0),(3,1),(5,2) x PRSS on/off) of + - neg comparisons, x*y,
x*int, x*float, x/y, 1/y, x**n, trunc, sin/cos on SecFxp(l,f) for five (l,f), inputs genuinely
shared by mpc.input; every opened result (scaled integer) is checked against an exact
`fractions.Fraction` oracle with the property's unit bounds, and the modelled operations
(mul variants, trunc, pow, + - neg) are compared with the Coq model by vm_compute: value and flag
equal to the model's for one of the rounding tapes.
"""
import math, re
from fractions import Fraction as Fr
from lib.core import zlit, blit
from props import c03 as H

MANIFEST = {
    'text': 'Coq theorems over Z (units of 2^-f multiplied out), for all f>0, all odd moduli p, all in-range values and all '
            'rounding tapes: runtime.trunc as coded = floor((X+r)/2^f) = floor or ceiling of X/2^f (both reachable); secure x '
            'secure product strictly within one unit on both the truncating and the skip-truncation path; public-integer factor '
            'exact; public-float factor within 1+|x|/2 <= 2(1+|x|) units (trailing-zero stripping modelled); + - neg < == exact. '
            'The model is run against the real multi-party implementation (simulator, 6 configurations, 5 types) every run, and '
            'all operations incl. division, reciprocal, pow, sin/cos are checked against an exact rational oracle; '
            'compositions (mpc.prod over every whole/fractional pattern of length 2..6, sum, in_prod, schur_prod, scalar_mul, '
            'matrix_prod on mixed lists, x**n for n<=6, chains (a*b)*c, a*(b*c), (a*b)/c; m=1 and m=3) are checked against '
            'the bounds composed along the operation tree; a reduced budget runs on m=7,t=3 and m=6,t=2 (PRSS on), and the secure '
            'fixed-point ARRAY operations (np_multiply, float array factor, matmul, outer, comparisons, np_trunc) run under the NumPy '
            'interpreter in a subprocess at m=3 and m=1; types with equal f and different l are used alternately call by call '
            '(per-field caches), and ==/!= are run on 300+ equal/unequal pairs with -K 4 (plus -K 8, -K 40).',
    'note': 'Trusted: Coq kernel+vm_compute; scaled-integer model (field wrap-around excluded by in-range hypotheses; Shamir '
            'sharing/resharing abstracted: the simulator runs the real protocols); Python float round(b*2^f) is an input of the '
            'model. NOT proved in Coq: pow_bound, division/reciprocal (_rec/_norm Newton iteration), sin/cos: implementation-level '
            'oracle only. Known findings (recorded from the implementation, not modelled): F-C02-1 division/reciprocal error '
            'grows like 1/|y|: it exceeds 16(1+|x|) units but stays within the envelope 16(1+|x|) + 4(1+|x|)/|y| (measured need 1.65); '
            'beyond the envelope is a violation; F-C02-2 division returns 0 for every input on '
            'types with l > 2f+1 (normalisation constant 2^(f-l+1) rounds to 0); F-C02-3 sin/cos error grows like |x| '
            '(> 4 units for |x| >= 128 on all types); F-C02-4 (mpc.trunc(list) read the caller\'s list after returning) was repaired in /repo by '
            'df316c0 and is an ordinary case now (trunc of a list followed by reverse/overwrite of the caller\'s list).',
    'technique': 'Coq proof over scaled-integer model + multi-party simulator correspondence (vm_compute) + exact rational oracle',
}

TYPES = [(32, 16), (16, 8), (24, 5), (64, 32), (8, 4)]
# envelope constant of the known division defect F-C02-1: error <= 16(1+|x|) + DIV_C (1+|x|)/|y| units.  Dense sweep, m=1
# ((8,4) exhaustive, (16,8) all |y|<2 + samples, (32,16) 35819 and (64,32) 9367 sampled divisions): the excess over
# 16(1+|x|), times |y|/(1+|x|), was at most 1.65 for x/y and 0.74 for 1/y; 4 leaves a margin of 2.4.
DIV_C = 4
CONFIGS = [(1, 0, False), (1, 0, True), (3, 1, False), (3, 1, True), (5, 2, False), (5, 2, True)]


def gen_cases(rng, l, f, n):
    """Operation instances (op, operands as scaled ints / public values), all with in-range results."""
    U = 2 ** f
    R = 2 ** (l - 1)            # scaled values must satisfy |X| < R
    top = l - f - 1             # |x| < 2^top
    out = []

    def rnd_scaled(maxabs=None):
        maxabs = min(maxabs or R - 1, R - 1)
        c = rng.random()
        if c < 0.15:
            return rng.choice([0, 1, -1, U, -U, U - 1, U + 1, -U - 1, 3, -3, maxabs, -maxabs])
        if c < 0.35:
            return rng.randint(-min(maxabs, 4 * U), min(maxabs, 4 * U))
        if c < 0.5:
            return rng.randint(-8, 8) * U if 8 * U <= maxabs else rng.randint(-maxabs, maxabs)
        e = rng.randint(0, maxabs.bit_length())
        return rng.randint(-min(maxabs, 2 ** e), min(maxabs, 2 ** e))

    def clampv(v):
        return max(-(R - 1), min(R - 1, v))
    for _ in range(n):
        op = rng.choice(['add', 'sub', 'neg', 'lt', 'eq', 'ge', 'mul', 'mul', 'mul', 'mul_int', 'mul_float', 'mul_float',
                         'div', 'div', 'div', 'rec', 'rec', 'div_pub', 'pow', 'pow', 'trunc', 'sincos'])
        if op in ('add', 'sub'):
            a, b = rnd_scaled(R // 2 - 1), rnd_scaled(R // 2 - 1)
            out.append((op, [a, b], None))
        elif op == 'neg':
            out.append((op, [rnd_scaled()], None))
        elif op in ('lt', 'eq', 'ge'):
            a = rnd_scaled(R // 2 - 1)
            b = a if rng.random() < 0.2 else (a + rng.choice([1, -1]) if rng.random() < 0.3 else rnd_scaled(R // 2 - 1))
            out.append((op, [a, clampv(b)], None))
        elif op == 'mul':
            a = rnd_scaled(2 ** ((l + f) // 2 - 1))
            lim = (R * U - 1) // max(1, abs(a)) - 1
            b = rnd_scaled(max(1, min(R - 1, lim)))
            if abs(a * b) < (R - 1) * U:
                out.append((op, [a, b], None))
        elif op == 'mul_int':
            a = rnd_scaled(R // 16)
            k = rng.choice([0, 1, -1, 2, 3, -7, 10])
            if abs(a * k) < R:
                out.append((op, [a], k))
        elif op == 'mul_float':
            a = rnd_scaled(R // 16)
            b = rng.choice([0.5, 0.375, 2.0, -3.0, 0.1, 1 / 3, 1.0, 0.0, 2.0 ** -f, 1.25, -0.75, 3 * 2.0 ** -f, math.pi / 4,
                            rng.uniform(-4, 4), rng.uniform(-1, 1) * 2.0 ** -(f // 2)])
            if abs(Fr(a) * Fr(b)) < R - 2:
                out.append((op, [a], b))
        elif op in ('div', 'rec'):
            # divisor magnitude bucket j: 2^-(j+1) <= |y| < 2^-j  (j may be negative)
            j = rng.randint(-(top - 1), f - 1)
            lo, hi = Fr(2) ** (-(j + 1)), Fr(2) ** (-j)
            ylo, yhi = max(1, math.ceil(lo * U)), max(1, math.ceil(hi * U) - 1)
            y = rng.choice([ylo, yhi, rng.randint(ylo, yhi), rng.randint(ylo, yhi)]) * rng.choice([1, -1])
            if op == 'rec':
                if Fr(U * U, abs(y)) < R - 2:
                    out.append(('rec', [y], None))
            else:
                xmax = min(R - 1, (abs(y) * (R - 2)) // U)
                if xmax >= 1:
                    x = rnd_scaled(xmax)
                    out.append(('div', [x, y], None))
        elif op == 'div_pub':
            a = rnd_scaled(R // 16)
            b = rng.choice([2, 3, -4, 7, 10, 0.5, 1.5, -0.3])
            if abs(Fr(a) / Fr(b)) < R - 2:
                out.append((op, [a], b))
        elif op == 'pow':
            n_ = rng.choice([1, 2, 2, 3, 4, 5, 7, 8])
            lim = int((R - 1) ** (1.0 / n_) * U ** (1 - 1.0 / n_) * 0.9)
            a = rnd_scaled(max(1, min(lim, R - 1)))
            if abs(Fr(a, U) ** n_) * U < (R - 1) // 2:
                out.append((op, [a], n_))
        elif op == 'trunc':
            out.append((op, [rnd_scaled()], None))
        elif op == 'sincos':
            # float-exact arguments only (|X| < 2^52); most volume below |x| = 128
            c = rng.random()
            a = rnd_scaled(min(R - 1, 2 ** 52)) if c < 0.2 else (rnd_scaled(min(R - 1, 128 * U - 1)) if c < 0.6 else rnd_scaled(min(R - 1, 8 * U)))
            out.append((op, [a], None))
    return out


def make_prog(l, f, cases, results):
    U = 2 ** f

    async def prog(mpc, mods, pid):
        types = {}
        out = []
        for case in cases:
            op, xs, pub = case[:3]
            lf = tuple(case[3]) if len(case) > 3 else (l, f)     # per-case type: interleaved streams
            if lf not in types:
                types[lf] = mpc.SecFxp(*lf)
            secfxp = types[lf]
            U = 2 ** lf[1]
            try:
                # genuinely shared operands (sender 0); all parties pass the same public placeholder value
                ins = [mpc.input(secfxp(secfxp.field(x)) if x % U else secfxp(x // U), senders=0) for x in xs]
                fl_in = [bool(a.integral) for a in ins]
                if op == 'add':
                    z = [ins[0] + ins[1]]
                elif op == 'sub':
                    z = [ins[0] - ins[1]]
                elif op == 'neg':
                    z = [-ins[0]]
                elif op == 'lt':
                    z = [ins[0] < ins[1]]
                elif op == 'eq':
                    z = [ins[0] == ins[1]]
                elif op == 'ne':
                    z = [ins[0] != ins[1]]
                elif op == 'ge':
                    z = [ins[0] >= ins[1]]
                elif op == 'mul':
                    z = [ins[0] * ins[1]]
                elif op in ('mul_int', 'mul_float'):
                    z = [ins[0] * pub]
                elif op == 'div':
                    z = [ins[0] / ins[1]]
                elif op == 'rec':
                    z = [1 / ins[0]]
                elif op == 'div_pub':
                    z = [ins[0] / pub]
                elif op == 'pow':
                    z = [ins[0] ** pub]
                elif op == 'trunc':
                    z = [mpc.trunc(ins[0])]
                elif op == 'sincos':
                    z = list(mpc.sincos(ins[0]))
                vals = [int(await mpc.output(a, raw=True)) for a in z]
                flags = [bool(getattr(a, 'integral', False)) for a in z]
                out.append([vals, flags, fl_in])
            except Exception as exc:  # noqa
                out.append(['EXC', repr(exc)[:200]])
        if pid == 0:
            results.extend(out)
        return out
    return prog


def bucket(y, f):
    """magnitude bucket of the divisor: j with 2^-(j+1) <= |y| < 2^-j"""
    a = Fr(abs(y), 2 ** f)
    j = 0
    while a >= Fr(2) ** (-j):
        j -= 1
    while a < Fr(2) ** (-(j + 1)):
        j += 1
    return j


def check_case(ctx, cfg, l, f, case, res, stats):
    """Property oracle (exact rationals, units of 2^-f) on one opened result."""
    U = 2 ** f
    op, xs, pub = case
    m, t, noprss = cfg
    if res[0] == 'EXC':
        ctx.violation('exception op=%s' % op, {'cfg': cfg, 'type': [l, f], 'case': case, 'exc': res[1]})
        return False
    vals = res[0]
    X = [Fr(x) for x in xs]
    base = {'cfg': list(cfg), 'type': [l, f], 'op': op, 'operands_scaled': xs, 'public': pub, 'got_scaled': vals}

    def fail(sig, exact, bound, err):
        base.update({'exact_scaled': str(exact), 'bound_units': str(bound), 'error_units': float(err)})
        ctx.violation(sig, base)
        return False

    def within(v, exact, bound, sig):
        err = abs(Fr(v) - exact)
        key = op
        stats[key] = max(stats.get(key, 0.0), float(err / bound) if bound else float(err))
        if err > bound:
            return fail(sig, exact, bound, err)
        return True
    if op in ('add', 'sub', 'neg'):
        ex = {'add': lambda: X[0] + X[1], 'sub': lambda: X[0] - X[1], 'neg': lambda: -X[0]}[op]()
        return vals[0] == ex or fail('not-exact op=%s' % op, ex, 0, abs(vals[0] - ex))
    if op in ('lt', 'eq', 'ge', 'ne'):
        ex = U * int({'lt': X[0] < X[1], 'eq': X[0] == X[1], 'ge': X[0] >= X[1], 'ne': X[0] != X[1]}[op])
        return vals[0] == ex or fail('not-exact op=%s' % op, ex, 0, abs(vals[0] - ex))
    if op == 'mul':
        return within(vals[0], X[0] * X[1] / U, 1, 'mul-bound op=mul')
    if op == 'mul_int':
        return within(vals[0], X[0] * pub, 1, 'mul-bound op=mul_int')
    if op == 'mul_float':
        return within(vals[0], X[0] * Fr(pub), 2 * (1 + abs(X[0]) / U), 'mul-bound op=mul_float')
    if op in ('div', 'rec', 'div_pub'):
        if op == 'div':
            x, y = X[0], X[1]
        elif op == 'rec':
            x, y = Fr(U), X[0]
        else:
            x, y = X[0], Fr(pub) * U
        j = bucket(y, f)
        opn = {'div': 'div', 'rec': 'reciprocal', 'div_pub': 'div-public'}[op]
        exact = x * U / y
        bound = 16 * (1 + abs(x) / U)
        err = abs(Fr(vals[0]) - exact)
        k = 'div j=%d' % j
        stats[k] = max(stats.get(k, 0.0), float(err / bound))
        if err <= bound:
            return True
        if l > 2 * f + 1:            # F-C02-2: normalisation constant rounds to 0 on these types
            return fail('div-bound op=%s |y|%s2^-5 (2^%d<=|y|<2^%d) type=l>2f+1' % (opn, '<' if j >= 5 else '>=', -(j + 1), -j),
                        exact, bound, err)
        # F-C02-1 by mechanism: the normalise-Newton-rescale reciprocal carries an error proportional to 1/|y|.
        # Envelope E(x,y) = 16(1+|x|) + DIV_C (1+|x|)/|y| units (x, y as values); measured need: c <= 1.65 (div), 0.74 (1/y).
        env = bound + DIV_C * (1 + abs(x) / U) * U / abs(y)
        base['envelope_units'] = str(env)
        stats['div excess*|y|/(1+|x|)'] = max(stats.get('div excess*|y|/(1+|x|)', 0.0),
                                              float((err - bound) * abs(y) / U / (1 + abs(x) / U)))
        if op != 'div_pub' and err <= env:
            return fail('div-bound op=%s error<=envelope(1/|y|)' % opn, exact, bound, err)
        return fail('div-bound op=%s error>envelope(1/|y|) (2^%d<=|y|<2^%d)' % (opn, -(j + 1), -j), exact, env, err)
    if op == 'pow':
        x = X[0] / U
        return within(vals[0], x ** pub * U, pub * (1 + abs(x)) ** (pub - 1), 'pow-bound n=%d' % pub)
    if op == 'trunc':
        fl = xs[0] // U
        ce = -((-xs[0]) // U)
        return vals[0] in (fl, ce) or fail('trunc-not-floor-or-ceil', Fr(xs[0], U), 0, abs(vals[0] - Fr(xs[0], U)))
    if op == 'sincos':
        x = xs[0] / U
        s, c = math.sin(x), math.cos(x)
        ok = True
        for name, v, e in (('sin', vals[0], s), ('cos', vals[1], c)):
            err = abs(v - e * U)
            stats[name] = max(stats.get(name, 0.0), err / 4)
            if err > 4 + 1e-3 * (1 + abs(x) * 2.0 ** -20):
                # known cause (F-C02-3): the argument reduction multiplies by 1/(2 pi) rounded to f+6 bits, which adds an
                # error of about |x|/64 units whatever f is; anything beyond twice that is a different failure
                cls = 'arg-reduction-error<=|x|/32' if err <= 4 + abs(x) / 32 else 'excess'
                ok = fail('sincos-bound fn=%s %s' % (name, cls), e * U, 4, err) and ok
        return ok
    return True


def model_expr(case, res, l, f, p):
    op, xs, pub = case
    if res[0] == 'EXC':
        return None
    fl = res[2]
    fx = lambda i: [xs[i], fl[i]]
    rec = {'t': [l, f], 'ins': [fx(i) for i in range(len(xs))], 'extra': None}
    if op in ('add', 'sub', 'neg', 'mul'):
        rec['op'] = op
    elif op == 'mul_int':
        rec['op'], rec['extra'] = 'mul_int', pub
    elif op == 'mul_float':
        rec['op'], rec['extra'] = 'mul_float', round(pub * 2 ** f)
    elif op == 'pow':
        rec['op'], rec['extra'] = 'pow', pub
    elif op == 'trunc':
        return '[(truncb %s false %s, false); (truncb %s true %s, false)]' % (zlit(f), zlit(xs[0]), zlit(f), zlit(xs[0]))
    else:
        return None
    return H.model_expr(rec, p)


def alias_stream(ctx, Sim):
    """mpc.trunc on a LIST: the result must be the rounding of the argument as passed at call time, also
    when the caller modifies its list afterwards (reverse / element replaced) before the result is used."""
    for (m, t) in [(1, 0), (3, 1)]:
        for (l, f) in [(32, 16), (16, 8)]:
            U = 2 ** f
            vals = [3 * U // 2, -(9 * U // 4) - 1, 3 * U, 5, -U + 3]
            out = {}

            async def prog(mpc, mods, pid, l=l, f=f, vals=vals, out=out):
                secfxp = mpc.SecFxp(l, f)
                res = {}
                for mutation in ('none', 'reverse', 'replace'):
                    x = [mpc.input(secfxp(secfxp.field(v)), senders=0) for v in vals]
                    y = mpc.trunc(x, f=f // 2)
                    if mutation == 'reverse':
                        x.reverse()
                    elif mutation == 'replace':
                        x[0] = secfxp(1)
                    res[mutation] = [int(v) for v in await mpc.output(y, raw=True)]
                if pid == 0:
                    out.update(res)
                return res
            sim = Sim(m=m, t=t, seed=ctx.seed + 3)
            try:
                sim.start()
                r = H.run_limited(sim, prog, 120, idle_limit=3000, spins=(50 if m == 1 else 1))
            finally:
                H.quiet_close(sim)
            if r is None or any(not isinstance(x, dict) for x in r):
                ctx.broken.append({'kind': 'run', 'what': 'trunc aliasing program did not complete', 'cfg': [m, t], 'res': str(r)[:200]})
                continue
            k = f // 2
            for mutation, got in out.items():
                ctx.case({'alias': mutation, 'cfg': [m, t], 't': [l, f]}, nontrivial=mutation != 'none', kind='trunc-list ' + mutation)
                bad = [i for i, (v, g) in enumerate(zip(vals, got)) if g not in (v // 2 ** k, -((-v) // 2 ** k))]
                if bad:
                    ctx.violation('trunc-list-aliasing mutation=%s' % mutation if mutation != 'none' else 'trunc-not-floor-or-ceil list',
                                  {'cfg': [m, t], 'type': [l, f], 'argument_scaled_at_call': vals, 'trunc_bits': k,
                                   'caller_mutation_after_call': mutation, 'got': got,
                                   'expected_floor': [v // 2 ** k for v in vals], 'wrong_positions': bad})


# --------------------------------------------------------------------------------------------
# compositions: results of n-ary operations and chains against the composed C02 bounds

def comp_values(l, f, n, mask, shift=0):
    """bit i of mask set -> position i a whole number, else a generic fraction (scaled ints)"""
    U = 2 ** f
    W = [3, -1, 2, 1, -2, 1, 2]
    F = [U // 10 + 1, (3 * U) // 10 + 1, (7 * U) // 10 + 1, U + U // 10 + 1, -(U - U // 10 - 1), (3 * U) // 4 + 1, -(U + U // 4) - 1]
    out = []
    for i in range(n):
        j = (i + shift) % 7
        out.append(W[j] * U if (mask >> i) & 1 else F[j])
    return out


def prod_bound(xs, U):
    """Exact product (scaled) and the composed bound in units along the pairing tree of runtime.prod:
    each multiplication adds at most one unit and propagates |a| e_b + |b| e_a + e_a e_b."""
    vals = [(Fr(x, U), Fr(0)) for x in xs]          # (true value, error bound in units of 2^-f... as value*U)
    n = len(vals)
    while n > 1:
        h = []
        for i in range(n % 2, n, 2):
            (a, ea), (b, eb) = vals[i], vals[i + 1]
            h.append((a * b, abs(a) * eb + abs(b) * ea + ea * eb / U + 1))
        vals[n % 2:] = h
        n = len(vals)
    return vals[0][0] * U, vals[0][1]


def make_comp_prog(l, f, nmax, nlist, shared, results):
    U = 2 ** f

    async def prog(mpc, mods, pid):
        secfxp = mpc.SecFxp(l, f)
        out = []

        def mk(v):
            a = secfxp(v // U) if v % U == 0 else secfxp(secfxp.field(v))
            return mpc.input(a, senders=0) if shared else a

        async def emit(op, ins, z, extra=None):
            zs = z if isinstance(z, list) else [z]
            flat = [a for r in zs for a in (r if isinstance(r, list) else [r])]
            out.append([op, ins, [int(v) for v in await mpc.output(flat, raw=True)], extra])
        for n in range(2, nmax + 1):
            for mask in range(2 ** n):
                xs = comp_values(l, f, n, mask)
                ys = comp_values(l, f, n, (mask * 3 + 1) % (2 ** n), shift=2)
                try:
                    X = [mk(v) for v in xs]
                    await emit('prod', xs, mpc.prod(X))
                    if n <= nlist:
                        Y = [mk(v) for v in ys]
                        await emit('sum', xs, mpc.sum(X))
                        await emit('in_prod', [xs, ys], mpc.in_prod(X, Y))
                        await emit('schur_prod', [xs, ys], mpc.schur_prod(X, Y))
                        await emit('scalar_mul', [ys[0], xs], mpc.scalar_mul(mk(ys[0]), X))
                        if n == 2:
                            A = [xs, ys]
                            B = [ys, comp_values(l, f, 2, mask ^ 1, shift=4)]
                            await emit('matrix_prod', [A, B], mpc.matrix_prod([[mk(v) for v in r] for r in A], [[mk(v) for v in r] for r in B]))
                        if n == 3:
                            a, b, c = X
                            await emit('chain (a*b)*c', xs, (a * b) * c)
                            await emit('chain a*(b*c)', xs, a * (b * c))
                            if abs(xs[2]) >= U // 4 and l <= 2 * f + 1:
                                await emit('chain (a*b)/c', xs, (a * b) / c)
                except Exception as exc:  # noqa
                    out.append(['EXC', [n, mask], repr(exc)[:200], None])
        for x in comp_values(l, f, 7, 0) + comp_values(l, f, 7, 127):
            for k in range(1, 7):
                if abs(Fr(x, U)) ** k < 2 ** (l - f - 3):
                    try:
                        await emit('pow', [x], mk(x) ** k, extra=k)
                    except Exception as exc:  # noqa
                        out.append(['EXC', [x, k], repr(exc)[:200], None])
        if pid == 0:
            results.extend(out)
        return out
    return prog


def check_comp(ctx, cfg, l, f, rec, stats):
    U = 2 ** f
    op, ins, vals, extra = rec
    base = {'cfg': list(cfg), 'type': [l, f], 'op': op, 'operands_scaled': ins, 'got_scaled': vals, 'extra': extra}
    if op == 'EXC':
        ctx.violation('exception op=composition', base)
        return

    def within(i, exact, bound, sig):
        err = abs(Fr(vals[i]) - exact)
        stats[op] = max(stats.get(op, 0.0), float(err / bound) if bound else float(err))
        if err > bound:
            base.update({'position': i, 'exact_scaled': str(exact), 'bound_units': str(bound), 'error_units': float(err)})
            ctx.violation(sig, base)
    if op == 'prod':
        exact, bound = prod_bound(ins, U)
        within(0, exact, bound, 'compose-bound op=prod n=%d' % len(ins))
    elif op == 'sum':
        within(0, Fr(sum(ins)), 0, 'not-exact op=sum')
    elif op == 'in_prod':
        within(0, Fr(sum(a * b for a, b in zip(*ins)), U), 1, 'compose-bound op=in_prod')
    elif op == 'schur_prod':
        for i, (a, b) in enumerate(zip(*ins)):
            within(i, Fr(a * b, U), 1, 'compose-bound op=schur_prod')
    elif op == 'scalar_mul':
        for i, b in enumerate(ins[1]):
            within(i, Fr(ins[0] * b, U), 1, 'compose-bound op=scalar_mul')
    elif op == 'matrix_prod':
        A, B = ins
        k = 0
        for i in range(2):
            for j in range(2):
                within(k, Fr(sum(A[i][h] * B[h][j] for h in range(2)), U), 1, 'compose-bound op=matrix_prod')
                k += 1
    elif op == 'pow':
        x = Fr(ins[0], U)
        within(0, x ** extra * U, extra * (1 + abs(x)) ** (extra - 1), 'pow-bound n=%d' % extra)
    elif op == 'chain (a*b)*c':
        a, b, c = (Fr(v, U) for v in ins)
        within(0, a * b * c * U, 1 + abs(c), 'compose-bound op=chain-mul')
    elif op == 'chain a*(b*c)':
        a, b, c = (Fr(v, U) for v in ins)
        within(0, a * b * c * U, 1 + abs(a), 'compose-bound op=chain-mul')
    elif op == 'chain (a*b)/c':
        a, b, c = (Fr(v, U) for v in ins)
        exact = a * b / c * U
        bound = 16 * (1 + abs(a * b) + Fr(1, U)) + 1 / abs(c)
        err = abs(Fr(vals[0]) - exact)
        stats[op] = max(stats.get(op, 0.0), float(err / bound))
        if err > bound:
            env = bound + DIV_C * (1 + abs(a * b) + Fr(1, U)) / abs(c)
            base.update({'exact_scaled': str(exact), 'bound_units': str(bound), 'envelope_units': str(env), 'error_units': float(err)})
            ctx.violation('div-bound op=div error<=envelope(1/|y|)' if err <= env else
                          'div-bound op=div error>envelope(1/|y|) chain', base)


def composition_stream(ctx, Sim, stats_all):
    plan = [((1, 0, False), 32, 16, 6, 4, False), ((1, 0, False), 16, 8, ctx.n(4, 6), 3, False),
            ((1, 0, False), 64, 32, ctx.n(4, 6), 3, False),
            ((3, 1, False), 32, 16, ctx.n(4, 5), 3, True), ((3, 1, True), 16, 8, ctx.n(3, 4), 2, True)]
    n0 = ctx.evaluations
    for (cfg, l, f, nmax, nlist, shared) in plan:
        m, t, noprss = cfg
        results = []
        sim = Sim(m=m, t=t, no_prss=noprss, seed=ctx.seed * 19 + 5)
        try:
            sim.start()
            res = H.run_limited(sim, make_comp_prog(l, f, nmax, nlist, shared, results), 900,
                                idle_limit=8000, spins=(300 if m == 1 else 1))
        finally:
            H.quiet_close(sim)
        if res is None or any(not isinstance(r, list) for r in res):
            ctx.broken.append({'kind': 'run', 'what': 'composition program did not complete', 'cfg': list(cfg), 'type': [l, f],
                               'res': str(res)[:200]})
            continue
        if any(r != res[0] for r in res[1:]):
            ctx.violation('parties-disagree', {'cfg': list(cfg), 'type': [l, f], 'stream': 'composition'})
        stats = {}
        for rec in results:
            check_comp(ctx, cfg, l, f, rec, stats)
            ctx.case({'comp': rec[0], 'cfg': list(cfg), 't': [l, f], 'ins': rec[1], 'x': rec[3]}, nontrivial=True,
                     kind='m=%d comp %s' % (m, rec[0]))
        for k, v in stats.items():
            kk = 'comp %s (%d,%d)' % (k, l, f)
            stats_all[kk] = max(stats_all.get(kk, 0.0), round(v, 3))
    ctx.extra['composition_cases'] = ctx.evaluations - n0
    ctx.log('%d composition cases (prod patterns n=2..6, list ops, pow, chains)' % (ctx.evaluations - n0))


def wide_config_stream(ctx, Sim, stats_all):
    """Reduced budget on the larger PRSS configurations m=7,t=3 (35 PRSS subsets) and m=6,t=2: a few products,
    public-float factors, x**3, truncations per type, and in_prod/schur_prod/matrix_prod on one type."""
    rng = ctx.rng
    n0 = ctx.evaluations
    for cfg in [(7, 3, False), (6, 2, False)]:
        m, t, noprss = cfg
        for (l, f) in [(32, 16), (16, 8), (64, 32)]:
            pool = gen_cases(rng, l, f, 120)
            want = {'mul': 3, 'mul_float': 1, 'pow': 1, 'trunc': 2, 'mul_int': 1, 'lt': 1}
            cases = []
            for c in pool:
                if want.get(c[0], 0) > 0 and (c[0] != 'pow' or c[2] >= 3):
                    want[c[0]] -= 1
                    cases.append(c)
            results, comp = [], []
            sim = Sim(m=m, t=t, no_prss=noprss, seed=ctx.seed * 23 + m)
            try:
                sim.start()
                res = H.run_limited(sim, make_prog(l, f, cases, results), 300, idle_limit=8000)
                res2 = H.run_limited(sim, make_comp_prog(l, f, 2, 2, True, comp), 300, idle_limit=8000) if (l, f) == (32, 16) else []
            finally:
                H.quiet_close(sim)
            if res is None or res2 is None or any(not isinstance(r, list) for r in list(res) + list(res2)):
                ctx.broken.append({'kind': 'run', 'what': 'wide-configuration program did not complete', 'cfg': list(cfg),
                                   'type': [l, f], 'res': str(res)[:200]})
                continue
            if any(r != res[0] for r in res[1:]):
                ctx.violation('parties-disagree', {'cfg': list(cfg), 'type': [l, f], 'stream': 'wide'})
            stats = {}
            for case, r in zip(cases, results):
                check_case(ctx, cfg, l, f, case, r, stats)
                ctx.case({'cfg': list(cfg), 't': [l, f], 'case': [case[0], case[1], str(case[2])]}, nontrivial=True,
                         kind='m=%d %s' % (m, case[0]))
            for rec in comp:
                check_comp(ctx, cfg, l, f, rec, stats)
                ctx.case({'comp': rec[0], 'cfg': list(cfg), 't': [l, f], 'ins': rec[1]}, nontrivial=True, kind='m=%d comp %s' % (m, rec[0]))
            for k, v in stats.items():
                kk = 'm=%d %s (%d,%d)' % (m, k, l, f)
                stats_all[kk] = max(stats_all.get(kk, 0.0), round(v, 3))
    ctx.log('%d cases on m=7,t=3 and m=6,t=2 (PRSS on)' % (ctx.evaluations - n0))


def numpy_stream(ctx, stats_all):
    """Secure fixed-point ARRAY operations (np_multiply, matmul, outer, comparisons, np_trunc) under the NumPy
    interpreter (subprocess), m=3 and m=1, same unit bounds as the scalar operations."""
    rng = ctx.rng
    items = []
    for (m, t, noprss) in [(3, 1, False), (1, 0, False), (3, 1, True)]:
        for (l, f) in ([(32, 16), (16, 8)] if not noprss else [(32, 16)]):
            U = 2 ** f
            lim = 2 ** ((l - f) // 2 - 2) * U
            A = [rng.randint(-lim, lim) for _ in range(6)]
            B = [rng.randint(-lim, lim) for _ in range(6)]
            A[0], B[1] = 3, U + 1
            C = [1.3125 + 2.0 ** -f, -0.4375, 2.5, 0.75 - 2.0 ** -f, 0.1, 1 / 3]
            items.append({'cfg': [m, t, noprss, l, f], 'A': A, 'B': B, 'C': C})
    res, prob = H.run_np_job({'kind': 'c02', 'seed': ctx.seed, 'items': items})
    if res is None:
        ctx.broken.append({'kind': 'run', 'what': 'NumPy array stream did not run', 'detail': prob})
        return
    n0 = ctx.evaluations
    for item, spec in zip(res, items):
        m, t, noprss, l, f = item['cfg']
        U = 2 ** f
        A, B, C = [Fr(x) for x in spec['A']], [Fr(x) for x in spec['B']], [Fr(c) for c in spec['C']]
        parties = item['parties']
        if any(not isinstance(x, list) for x in parties):
            ctx.broken.append({'kind': 'run', 'what': 'NumPy array program did not complete', 'cfg': item['cfg'], 'res': str(parties)[:300]})
            continue
        if any(x != parties[0] for x in parties[1:]):
            ctx.violation('parties-disagree', {'cfg': item['cfg'], 'stream': 'numpy'})
        Ai = [U * (x // U) for x in A]
        k = f // 2
        exp = {
            'add': ([a + b for a, b in zip(A, B)], [0] * 6), 'sub': ([a - b for a, b in zip(A, B)], [0] * 6),
            'mul': ([a * b / U for a, b in zip(A, B)], [1] * 6), 'mul_int_arr': ([a * b / U for a, b in zip(Ai, B)], [1] * 6),
            'mul_float': ([a * c for a, c in zip(A, C)], [2 * (1 + abs(a) / U) for a in A]),
            'matmul': ([sum(A[3 * i + h] * B[2 * h + j] for h in range(3)) / U for i in range(2) for j in range(2)], [1] * 4),
            'outer': ([a * b / U for a in A[:3] for b in B[:3]], [1] * 9),
            'lt': ([Fr(U * int(a < b)) for a, b in zip(A, B)], [0] * 6), 'eq': ([Fr(U)] * 6, [0] * 6),
        }
        for rec in parties[0]:
            op, vals = rec[0], rec[1]
            ctx.case({'np': op, 'cfg': item['cfg'], 'A': spec['A'], 'B': spec['B']}, nontrivial=op not in ('add', 'sub'), kind='m=%d np %s' % (m, op))
            base = {'cfg': item['cfg'], 'type': [l, f], 'op': 'np ' + op, 'A_scaled': spec['A'], 'B_scaled': spec['B'],
                    'C': spec['C'], 'got_scaled': vals}
            if op == 'EXC':
                ctx.violation('exception op=numpy-array', base)
                continue
            if op == 'trunc':
                bad = [i for i, (a, v) in enumerate(zip(spec['A'], vals)) if v not in (a // 2 ** k, -((-a) // 2 ** k))]
                if bad:
                    base['wrong_positions'] = bad
                    ctx.violation('trunc-not-floor-or-ceil np_trunc', base)
                continue
            exact, bound = exp[op]
            worst = 0.0
            for i, (v, e, b) in enumerate(zip(vals, exact, bound)):
                err = abs(Fr(v) - e)
                worst = max(worst, float(err / b) if b else float(err))
                if err > b or len(vals) != len(exact):
                    base.update({'position': i, 'exact_scaled': str(e), 'bound_units': str(b), 'error_units': float(err)})
                    ctx.violation(('mul-bound op=np_%s' % op) if b else ('not-exact op=np_%s' % op), base)
                    break
            kk = 'np %s (%d,%d)' % (op, l, f)
            stats_all[kk] = max(stats_all.get(kk, 0.0), round(worst, 3))
    ctx.log('%d NumPy array cases' % (ctx.evaluations - n0))


def interleaved_stream(ctx, Sim, stats_all):
    """Types with the SAME f and different l (and one with equal l+f) used ALTERNATELY call by call in one process:
    per-field caches (e.g. the inverse of 2^n used by >> in trunc and by the whole-number shortcut of mul) must
    not leak between fields."""
    rng = ctx.rng
    groups = [[(32, 16), (33, 16), (48, 16)], [(16, 8), (17, 8), (24, 8)], [(64, 32), (65, 32), (48, 16)]]
    n0 = ctx.evaluations
    for (m, t) in [(1, 0), (3, 1)]:
        for group in groups:
            per = {}
            for (l, f) in group:
                U = 2 ** f
                cs = [c for c in gen_cases(rng, l, f, 60) if c[0] in ('mul', 'trunc', 'mul_float', 'pow', 'mul_int')
                      or (c[0] in ('div', 'rec') and l <= 2 * f + 1)][:ctx.n(8, 24) if m == 1 else ctx.n(4, 10)]
                cs += [('mul', [3 * U, 5], None), ('mul', [2 * U, -3 * U], None), ('trunc', [7 * U + 1], None)]
                per[(l, f)] = cs
            cases = []
            for i in range(max(len(v) for v in per.values())):
                for lf in group:                      # alternate the types call by call
                    if i < len(per[lf]):
                        cases.append(per[lf][i] + (lf,))
            results = []
            sim = Sim(m=m, t=t, seed=ctx.seed * 29 + m)
            try:
                sim.start()
                res = H.run_limited(sim, make_prog(group[0][0], group[0][1], cases, results), 300,
                                    idle_limit=8000, spins=(300 if m == 1 else 1))
            finally:
                H.quiet_close(sim)
            if res is None or any(not isinstance(r, list) for r in res):
                ctx.broken.append({'kind': 'run', 'what': 'interleaved program did not complete', 'cfg': [m, t], 'group': group,
                                   'res': str(res)[:200]})
                continue
            stats = {}
            for case, r in zip(cases, results):
                l, f = case[3]
                check_case(ctx, (m, t, False), l, f, case[:3], r, stats)
                ctx.case({'interleaved': group, 'cfg': [m, t], 't': [l, f], 'case': [case[0], case[1], str(case[2])]},
                         nontrivial=True, kind='m=%d interleaved %s' % (m, case[0]))
    ctx.log('%d interleaved-type cases' % (ctx.evaluations - n0))


def sec_param_stream(ctx, Sim):
    """Non-default security parameter: == and != (exact per C02) on many equal and unequal pairs with -K 4, and
    with -K 8 / -K 40 where the zero test is deterministic.  (For 8 <= K < l/2 and p = 3 mod 4 the implementation
    uses a probabilistic zero test with one-sided error 2^-K on UNEQUAL operands by design; those combinations are
    exercised on equal pairs only.)"""
    rng = ctx.rng
    n0 = ctx.evaluations
    plan = [(1, 0, 4, (32, 16), ctx.n(320, 800)), (1, 0, 4, (64, 32), 60), (1, 0, 4, (16, 8), 60), (3, 1, 4, (32, 16), 40),
            (1, 0, 8, (16, 8), 80), (1, 0, 8, (32, 16), 40), (1, 0, 40, (32, 16), 40)]
    for (m, t, K, (l, f), npairs) in plan:
        U = 2 ** f
        R = 2 ** (l - 2)
        probabilistic = 8 <= K < l / 2
        cases = []
        for i in range(npairs):
            a = rng.choice([0, 1, -1, U, 3 * U + 1, rng.randint(-R + 1, R - 1), rng.randint(-4 * U, 4 * U)])
            kind = i % 4
            if kind == 0 or probabilistic:
                b = a
            elif kind == 1:
                b = a + rng.choice([1, -1])
            elif kind == 2:
                b = -a if a else 1
            else:
                b = rng.randint(-R + 1, R - 1)
            b = max(-R + 1, min(R - 1, b))
            cases.append((rng.choice(['eq', 'ne']), [a, b], None))
        results = []
        sim = Sim(m=m, t=t, seed=ctx.seed * 31 + K, extra=('-K', str(K)))
        try:
            sim.start()
            res = H.run_limited(sim, make_prog(l, f, cases, results), 400, idle_limit=8000, spins=(300 if m == 1 else 1))
        finally:
            H.quiet_close(sim)
        if res is None or any(not isinstance(r, list) for r in res):
            ctx.broken.append({'kind': 'run', 'what': 'sec_param program did not complete', 'K': K, 'cfg': [m, t], 'type': [l, f],
                               'res': str(res)[:200]})
            continue
        stats = {}
        for case, r in zip(cases, results):
            ok = check_case(ctx, (m, t, False), l, f, case, r, stats)
            ctx.case({'K': K, 'cfg': [m, t], 't': [l, f], 'case': [case[0], case[1]]}, nontrivial=case[1][0] != case[1][1],
                     kind='K=%d %s %s' % (K, case[0], 'equal' if case[1][0] == case[1][1] else 'unequal'))
    ctx.log('%d comparison cases with -K 4 / 8 / 40' % (ctx.evaluations - n0))


def run(ctx):
    from lib.sim import Sim
    ok = ctx.build(['MPyC.Fxp']) and ctx.check_props()
    ctx.rule = ('case = (configuration, type (l,f), operation, operands as scaled integers shared by mpc.input, public factor); '
                'non-trivial when a rounding/truncation or Newton iteration is involved; divisors stratified by magnitude bucket')
    ctx.explanation = ('bounds for trunc/mul proved in Coq for all inputs and tapes; every operation of the property run on the '
                       'real multi-party implementation and compared with exact rationals; modelled operations compared with Coq')
    rng = ctx.rng
    moduli = H.field_modulus(Sim, ctx.seed)
    stats_all = {}
    exprs, meta = [], []
    ncase = 0
    for ci, cfg in enumerate(CONFIGS):
        m, t, noprss = cfg
        for (l, f) in TYPES:
            if m == 1:
                n = ctx.n(70, 400) if not noprss else ctx.n(30, 150)
            elif m == 3:
                n = ctx.n(36, 200) if not noprss else ctx.n(20, 100)
            else:
                n = ctx.n(10, 60) if (l, f) in ((32, 16), (16, 8)) else ctx.n(5, 30)
            cases = gen_cases(rng, l, f, n)
            if ci == 0 and (l, f) == (32, 16):
                # DESIGN F-C02 witness and the boundary of the divisor range
                cases += [('div', [2 ** 16, 3], None), ('rec', [3], None), ('div', [2 ** 16, 2 ** 11], None),
                          ('div', [2 ** 16, 2 ** 11 - 1], None), ('rec', [2 ** 11], None), ('mul', [3, 3], None),
                          ('div', [2 ** 30, 2 ** 16 - 1], None), ('sincos', [300 * 2 ** 16], None),
                          ('sincos', [127 * 2 ** 16 + 12345], None), ('sincos', [-20000 * 2 ** 16 - 1], None)]
            if m > 1:
                cases = [c for c in cases if c[0] != 'sincos' or rng.random() < 0.5]
            results = []
            sim = Sim(m=m, t=t, no_prss=noprss, seed=ctx.seed * 17 + ci)
            try:
                st = sim.start()
                res = sim.run(make_prog(l, f, cases, results), idle_limit=6000, spins=(300 if m == 1 else 1))
            finally:
                H.quiet_close(sim)
            if any(not isinstance(r, list) for r in res):
                ctx.broken.append({'kind': 'run', 'what': 'program did not complete', 'cfg': list(cfg), 'type': [l, f],
                                   'res': str(res)[:300]})
                continue
            if any(r != res[0] for r in res[1:]):
                ctx.violation('parties-disagree', {'cfg': list(cfg), 'type': [l, f],
                                                   'first_difference': next(([c, [r[i] for r in res]] for i, c in enumerate(cases)
                                                                             if any(r[i] != res[0][i] for r in res)), None)})
            stats = {}
            for case, r in zip(cases, results):
                ncase += 1
                good = check_case(ctx, cfg, l, f, case, r, stats)
                op = case[0]
                kind = op
                if op in ('div', 'rec'):
                    j = bucket(case[1][-1], f)
                    kind = '%s |y|%s2^-5' % (op, '<' if j >= 5 else '>=')
                if op == 'sincos':
                    kind = 'sincos |x|%s128' % ('<' if abs(case[1][0]) < 128 * 2 ** f else '>=')
                ctx.case({'cfg': list(cfg), 't': [l, f], 'case': [case[0], case[1], str(case[2])]},
                         nontrivial=op not in ('add', 'sub', 'neg'), kind='m=%d %s' % (m, kind))
                if good:
                    e = model_expr(case, r, l, f, moduli[(l, f)])
                    if e is not None:
                        exprs.append(e)
                        meta.append((cfg, l, f, case, r))
            for k, v in stats.items():
                kk = '%s (%d,%d)' % (k, l, f)
                stats_all[kk] = max(stats_all.get(kk, 0.0), round(v, 3))
        ctx.log('config %s done: %d cases so far' % (cfg, ncase))
    alias_stream(ctx, Sim)
    composition_stream(ctx, Sim, stats_all)
    wide_config_stream(ctx, Sim, stats_all)
    interleaved_stream(ctx, Sim, stats_all)
    sec_param_stream(ctx, Sim)
    numpy_stream(ctx, stats_all)
    ctx.extra['worst_error_over_bound'] = {k: stats_all[k] for k in sorted(stats_all)}
    if ok and exprs:
        res = ctx.coq_eval(['MPyC.Fxp'], exprs, chunk=150)
        mism = 0
        for r, (cfg, l, f, case, got) in zip(res, meta):
            if isinstance(r, tuple) and r and r[0] == 'ERROR':
                mism += 1
                ctx.broken.append({'kind': 'correspondence', 'what': 'coq evaluation failed', 'detail': r[1][:300]})
                continue
            g = (got[0][0], got[1][0])
            if g not in [tuple(x) for x in r]:
                mism += 1
                ctx.broken.append({'kind': 'correspondence', 'what': case[0], 'cfg': list(cfg), 'type': [l, f],
                                   'case': [case[0], case[1], str(case[2])], 'impl': list(g), 'model': str(r)[:300]})
        ctx.extra['traces_validated_against_impl'] = len(exprs) - mism
        ctx.log('model/implementation disagreements: %d of %d' % (mism, len(exprs)))
    ctx.notes.append('division/reciprocal, pow, sin/cos: implementation-level exact-rational oracle only (not modelled in Coq)')
    if ctx.broken and not ctx.violations:
        ctx.unproved('C02 model/proof/correspondence', {'broken': ctx.broken[:5]})
