(** C31 — value-level model of mpyc/seclists.py (class seclist, class secindex) and its
    refinement to Python list semantics on [list Z].

    State = the opened contents of the secure list, a [list Z] (secint: the integers; secfxp: the
    values scaled by 2^f — every product in seclists.py has an integral unit-vector entry as one
    factor, so the scaled arithmetic is plain integer arithmetic; secfld(p): representatives, the
    implementation computes the image of the same ring expressions modulo p).

    Runtime helpers are modelled at value level: in_prod = [dot] (zip-truncating sum of products),
    vector_add/vector_sub/schur_prod = [map2], scalar_mul = [smul], sgn = [Z.sgn],
    a == b / a != b = 1/0 indicators, sum = [zsum], all = product, if_else(c,x,y) = c*(x-y)+y.
    runtime.unit_vector(a, n) is represented by its specification [uvec a n] (C30 ties
    runtime.unit_vector to it for 0 <= a < n). *)
From Coq Require Import ZArith Bool Lia ZifyBool.
Require Import MPyC.Base.
Local Open Scope Z_scope.

(* ------------------------------------------------------------------------------------- *)
(** * Runtime vector helpers, value level *)

Fixpoint map2 (f : Z -> Z -> Z) (x y : list Z) : list Z :=
  match x, y with
  | a :: x', b :: y' => f a b :: map2 f x' y'
  | _, _ => []
  end.

Definition vadd := map2 Z.add.                 (* runtime.vector_add *)
Definition vsub := map2 Z.sub.                 (* runtime.vector_sub *)
Definition schur := map2 Z.mul.                (* runtime.schur_prod *)
Definition smul (a : Z) (x : list Z) : list Z := map (fun b => b * a) x.   (* runtime.scalar_mul(a, x) *)

(** runtime.in_prod: sum(a*b for a, b in zip(x, y)); 0 for x = [] *)
Fixpoint dot (x y : list Z) : Z :=
  match x, y with
  | a :: x', b :: y' => a * b + dot x' y'
  | _, _ => 0
  end.

Fixpoint zsum (x : list Z) : Z := match x with [] => 0 | a :: x' => a + zsum x' end.
Fixpoint zprod (x : list Z) : Z := match x with [] => 1 | a :: x' => a * zprod x' end.

Definition eqz (a b : Z) : Z := if a =? b then 1 else 0.      (* a == b *)
Definition nez (a b : Z) : Z := if a =? b then 0 else 1.      (* a != b *)

(** specification of runtime.unit_vector(a, n) for 0 <= a < n: [0]*a + [1] + [0]*(n-1-a) *)
Definition uvec (a : Z) (n : nat) : list Z :=
  map (fun i => if Z.of_nat i =? a then 1 else 0) (seq 0 n).

Definition iota (n : nat) : list Z := map Z.of_nat (seq 0 n).   (* [field(_) for _ in range(n)] *)

(** the in-place loop  for j in range(1, len(i)): i[j] += i[j-1] *)
Fixpoint psum_from (acc : Z) (l : list Z) : list Z :=
  match l with [] => [] | a :: l' => (acc + a) :: psum_from (acc + a) l' end.
Definition psums (l : list Z) : list Z := psum_from 0 l.

(* ------------------------------------------------------------------------------------- *)
(** * Secret indices *)

Inductive key :=
| KNum (a : Z)                                   (* secure number, converted by unit_vector *)
| KVec (u : list Z)                              (* list of secure numbers given directly *)
| KSec (off : nat) (u : list Z)                  (* secindex(u, offset=off) *)
| KAdd (off1 : nat) (u1 : list Z) (off2 : nat) (u2 : list Z).  (* secindex + secindex *)

(** secindex.__add__ *)
Definition secindex_add (off1 : nat) (u1 : list Z) (off2 : nat) (u2 : list Z) : nat * list Z :=
  let m := length u1 in let n := length u2 in
  let i := dot u1 (iota m) in
  let j := dot u2 (iota n) in
  ((off1 + off2)%nat, uvec (i + j) (m + n - 1)).

(** the unary index list [i] computed at the head of every secret-index method *)
Definition key_vec (k : key) (n : nat) : list Z :=
  match k with
  | KNum a => uvec a n
  | KVec u => u
  | KSec off u => repeat 0 off ++ u
  | KAdd o1 u1 o2 u2 => let r := secindex_add o1 u1 o2 u2 in repeat 0 (fst r) ++ snd r
  end.

Inductive err := EIndex | EValue.
Inductive res (A : Type) := Ok (a : A) | Err (e : err).
Arguments Ok {A}. Arguments Err {A}.

(* ------------------------------------------------------------------------------------- *)
(** * Methods with a secret index, as coded *)

(** __getitem__ *)
Definition getitem (xs : list Z) (k : key) : res Z :=
  let i := key_vec k (length xs) in
  if negb (length i =? length xs)%nat then Err EIndex else
  Ok (dot xs i).

(** __setitem__:  x_i = in_prod(x, i); x = vector_add(x, scalar_mul(value - x_i, i)) *)
Definition setitem (xs : list Z) (k : key) (v : Z) : res (list Z) :=
  let n := length xs in
  let i := key_vec k n in
  if negb (length i =? n)%nat then Err EIndex else
  let x_i := dot xs i in
  Ok (vadd xs (smul (v - x_i) i)).

(** __delitem__: i.pop(); prefix sums; x1 = x[1:]; x.pop(); x + schur_prod(i, x1 - x).
    (i.pop() on an empty index list and len(i) != n-1 both raise IndexError.) *)
Definition delitem (xs : list Z) (k : key) : res (list Z) :=
  let n := length xs in
  let i := key_vec k n in
  match i with
  | [] => Err EIndex
  | _ =>
    let i := removelast i in
    if negb (Z.of_nat (length i) =? Z.of_nat n - 1) then Err EIndex else
    let i := psums i in
    let x1 := tl xs in
    let x := removelast xs in
    let delta := schur i (vsub x1 x) in
    Ok (vadd x delta)
  end.

(** insert *)
Definition insert_sec (xs : list Z) (k : key) (v : Z) : res (list Z) :=
  let n := length xs in
  let i := key_vec k (n + 1) in
  if negb (length i =? n + 1)%nat then Err EIndex else
  let x := 0 :: xs in
  let x_i := dot x i in
  let y := vadd x (smul (v - x_i) i) in
  let x := xs ++ [0] in
  let i := psums i in
  let delta := schur i (vsub y x) in
  Ok (vadd x delta).

(** pop: x_i = in_prod(list(self), i); self.__delitem__(i) — with the index LIST i *)
Definition pop_sec (xs : list Z) (k : key) : res (Z * list Z) :=
  let n := length xs in
  let i := key_vec k n in
  if negb (length i =? n)%nat then Err EIndex else
  let x_i := dot xs i in
  match delitem xs (KVec i) with
  | Ok xs' => Ok (x_i, xs')
  | Err e => Err e
  end.

(* ------------------------------------------------------------------------------------- *)
(** * count / contains / find / index / remove *)

Definition count (xs : list Z) (v : Z) : Z := zsum (map (fun a => eqz a v) xs).
Definition contains (xs : list Z) (v : Z) : Z := nez (count xs v) 0.

(** runtime._if_else_list(a, x, y): a*(x[i]-y[i]) + y[i] *)
Definition ifelse_list (c : Z) (x y : list Z) : list Z := map2 (fun a b => c * (a - b) + b) x y.

(** the closure cl(i, j) of runtime.find with the default f (cs_f(b, i) = [i + b]);
    x is the list of indicators [b != a for b in x]; fuel = recursion depth *)
Fixpoint find_cl (fuel : nat) (x : list Z) (i j : nat) : list Z :=
  match fuel with
  | O => []
  | S fuel' =>
    let n := (j - i)%nat in
    if (n =? 1)%nat then
      let b := nth i x 0 in [b; Z.of_nat i + b]
    else
      let h := (i + Nat.div n 2)%nat in
      let nf := find_cl fuel' x i h in
      ifelse_list (hd 0 nf) (find_cl fuel' x h j) nf
  end.

(** seclist.find = runtime.find(list(self), value, bits=False, e=-1), -1 for the empty list *)
Definition find (xs : list Z) (v : Z) : Z :=
  match xs with
  | [] => -1
  | _ =>
    let x := map (fun b => nez b v) xs in
    let r := find_cl (length x) x 0 (length x) in
    let nf := hd 0 r in
    let f_ix := tl r in
    hd 0 (ifelse_list nf [-1] f_ix)
  end.

(** seclist.index = runtime.indexOf: ValueError for the empty list or when find gives -1 *)
Definition index (xs : list Z) (v : Z) : res Z :=
  match xs with
  | [] => Err EValue
  | _ => let ix := find xs v in if ix =? -1 then Err EValue else Ok ix
  end.

(** seclist.remove: i = self.find(value); ValueError if i == -1; self.__delitem__(i) *)
Definition remove (xs : list Z) (v : Z) : res (list Z) :=
  let i := find xs v in
  if i =? -1 then Err EValue else delitem xs (KNum i).

(* ------------------------------------------------------------------------------------- *)
(** * Comparisons *)

(** seclist._norm(stype, x, x2, EQ) with x2 = x*x entrywise; fuel = recursion depth *)
Fixpoint norm (fuel : nat) (x x2 : list Z) (EQ : bool) : Z * Z :=
  match fuel with
  | O => (0, 0)
  | S fuel' =>
    let n := length x in
    if (n =? 1)%nat then
      let a := if EQ then 1 - (hd 0 x2 + hd 0 x) / 2 else (hd 0 x2 - hd 0 x) / 2 in
      (a, hd 0 x2)
    else
      let h := Nat.div n 2 in
      let '(lte0, nz0) := norm fuel' (firstn h x) (firstn h x2) EQ in
      let '(lte1, nz1) := norm fuel' (skipn h x) (skipn h x2) EQ in
      (nz0 * (lte0 - lte1) + lte1, nz0 * (nz0 - nz1) + nz1)
  end.

(** seclist._less_than(stype, x, y) *)
Definition less_than (x y : list Z) : Z :=
  let s := map2 (fun a b => Z.sgn (a - b)) x y in
  match s with
  | [] => match y with [] => 0 | _ => 1 end
  | _ =>
    let s2 := schur s s in
    let EQ := (length x <? length y)%nat in
    fst (norm (length s) s s2 EQ)
  end.

(** seclist.__eq__ *)
Definition list_eq (x y : list Z) : Z :=
  if negb (length x =? length y)%nat then 0 else zprod (map2 eqz x y).

Inductive cmpop := CLt | CLe | CEq | CNe | CGe | CGt.

Definition compare_op (c : cmpop) (x y : list Z) : Z :=
  match c with
  | CLt => less_than x y
  | CLe => 1 - less_than y x
  | CEq => list_eq x y
  | CNe => 1 - list_eq x y
  | CGe => 1 - less_than x y
  | CGt => less_than y x
  end.

(* ------------------------------------------------------------------------------------- *)
(** * Methods delegated to Python's list (public int index, slices, append, ...):
      the model of these IS the list operation *)

Definition norm_index (i : Z) (n : nat) : option nat :=
  let j := if i <? 0 then i + Z.of_nat n else i in
  if (0 <=? j) && (j <? Z.of_nat n) then Some (Z.to_nat j) else None.

(** list.insert clamps its index *)
Definition clamp_index (i : Z) (n : nat) : nat :=
  let j := if i <? 0 then i + Z.of_nat n else i in
  if j <? 0 then O else if Z.of_nat n <? j then n else Z.to_nat j.

Definition upd (xs : list Z) (i : nat) (v : Z) : list Z := firstn i xs ++ v :: skipn (S i) xs.
Definition remove_nth (xs : list Z) (i : nat) : list Z := firstn i xs ++ skipn (S i) xs.
Definition insert_at (xs : list Z) (i : nat) (v : Z) : list Z := firstn i xs ++ v :: skipn i xs.

(** slices are given normalised (start, stop) = slice.indices(len)[:2], step 1 *)
Definition get_slice (xs : list Z) (a b : nat) : list Z := firstn (b - a) (skipn a xs).
Definition set_slice (xs : list Z) (a b : nat) (ys : list Z) : list Z :=
  firstn a xs ++ ys ++ skipn (Nat.max a b) xs.
Definition del_slice (xs : list Z) (a b : nat) : list Z := firstn a xs ++ skipn (Nat.max a b) xs.

Fixpoint sort_insert (a : Z) (l : list Z) : list Z :=
  match l with [] => [a] | b :: l' => if a <=? b then a :: l else b :: sort_insert a l' end.
(** list.sort at specification level (runtime._sort itself is the subject of C29) *)
Fixpoint sort_spec (l : list Z) : list Z :=
  match l with [] => [] | a :: l' => sort_insert a (sort_spec l') end.

(* ------------------------------------------------------------------------------------- *)
(** * Operation histories *)

Inductive op :=
| Get (k : key) | SetK (k : key) (v : Z) | Del (k : key) | Insert (k : key) (v : Z) | Pop (k : key)
| GetPub (i : Z) | SetPub (i v : Z) | DelPub (i : Z) | InsertPub (i v : Z) | PopPub (i : Z)
| GetSlice (a b : nat) | SetSlice (a b : nat) (ys : list Z) | DelSlice (a b : nat)
| Append (v : Z) | Extend (ys : list Z) | AddR (ys : list Z) | AddL (ys : list Z)
| Mul (k : Z) | Copy | Reverse | Sort
| Count (v : Z) | Contains (v : Z) | Find (v : Z) | Index (v : Z) | Remove (v : Z)
| Cmp (c : cmpop) (swap : bool) (ys : list Z).

Inductive out := ONone | OZ (z : Z) | OL (l : list Z) | OErr (e : err).

Definition upd_res (xs : list Z) (r : res (list Z)) : list Z * out :=
  match r with Ok xs' => (xs', ONone) | Err e => (xs, OErr e) end.

(** operations that do not involve a secret index, a search or a comparison: Python's list *)
Definition step_public (xs : list Z) (o : op) : list Z * out :=
  let n := length xs in
  match o with
  | GetPub i => match norm_index i n with Some j => (xs, OZ (nth j xs 0)) | None => (xs, OErr EIndex) end
  | SetPub i v => match norm_index i n with Some j => (upd xs j v, ONone) | None => (xs, OErr EIndex) end
  | DelPub i => match norm_index i n with Some j => (remove_nth xs j, ONone) | None => (xs, OErr EIndex) end
  | InsertPub i v => (insert_at xs (clamp_index i n) v, ONone)
  | PopPub i => match norm_index i n with Some j => (remove_nth xs j, OZ (nth j xs 0)) | None => (xs, OErr EIndex) end
  | GetSlice a b => (xs, OL (get_slice xs a b))
  | SetSlice a b ys => (set_slice xs a b ys, ONone)
  | DelSlice a b => (del_slice xs a b, ONone)
  | Append v => (xs ++ [v], ONone)
  | Extend ys => (xs ++ ys, ONone)
  | AddR ys => (xs ++ ys, ONone)
  | AddL ys => (ys ++ xs, ONone)
  | Mul k => (concat (repeat xs (Z.to_nat k)), ONone)
  | Copy => (xs, OL xs)
  | Reverse => (rev xs, ONone)
  | Sort => (sort_spec xs, ONone)
  | _ => (xs, ONone)
  end.

(** the model: one seclist operation on the opened contents *)
Definition step (xs : list Z) (o : op) : list Z * out :=
  match o with
  | Get k => match getitem xs k with Ok z => (xs, OZ z) | Err e => (xs, OErr e) end
  | SetK k v => upd_res xs (setitem xs k v)
  | Del k => upd_res xs (delitem xs k)
  | Insert k v => upd_res xs (insert_sec xs k v)
  | Pop k => match pop_sec xs k with Ok (z, xs') => (xs', OZ z) | Err e => (xs, OErr e) end
  | Count v => (xs, OZ (count xs v))
  | Contains v => (xs, OZ (contains xs v))
  | Find v => (xs, OZ (find xs v))
  | Index v => match index xs v with Ok z => (xs, OZ z) | Err e => (xs, OErr e) end
  | Remove v => upd_res xs (remove xs v)
  | Cmp c swap ys => (xs, OZ (if swap then compare_op c ys xs else compare_op c xs ys))
  | _ => step_public xs o
  end.

(** a history: the state and output after every operation *)
Fixpoint run (f : list Z -> op -> list Z * out) (xs : list Z) (ops : list op) : list (list Z * out) :=
  match ops with
  | [] => []
  | o :: ops' => let r := f xs o in r :: run f (fst r) ops'
  end.

(* ------------------------------------------------------------------------------------- *)
(** * The abstract Python-list interpreter *)

Fixpoint py_count (xs : list Z) (v : Z) : Z :=
  match xs with [] => 0 | a :: r => (if a =? v then 1 else 0) + py_count r v end.

(** index of the first occurrence, -1 if absent *)
Fixpoint py_find (xs : list Z) (v : Z) : Z :=
  match xs with
  | [] => -1
  | a :: r => if a =? v then 0 else let i := py_find r v in if i =? -1 then -1 else i + 1
  end.

Fixpoint py_inb (xs : list Z) (v : Z) : bool :=
  match xs with [] => false | a :: r => (a =? v) || py_inb r v end.

(** list.remove(v): delete the first occurrence *)
Fixpoint py_remove (xs : list Z) (v : Z) : option (list Z) :=
  match xs with
  | [] => None
  | a :: r => if a =? v then Some r else match py_remove r v with Some r' => Some (a :: r') | None => None end
  end.

(** Python's lexicographic list < *)
Fixpoint py_lt (x y : list Z) : bool :=
  match x, y with
  | [], [] => false
  | [], _ :: _ => true
  | _ :: _, [] => false
  | a :: x', b :: y' => if a <? b then true else if b <? a then false else py_lt x' y'
  end.

Fixpoint py_eqb (x y : list Z) : bool :=
  match x, y with
  | [], [] => true
  | a :: x', b :: y' => (a =? b) && py_eqb x' y'
  | _, _ => false
  end.

Definition b2z (b : bool) : Z := if b then 1 else 0.

Definition py_compare (c : cmpop) (x y : list Z) : bool :=
  match c with
  | CLt => py_lt x y
  | CLe => negb (py_lt y x)
  | CEq => py_eqb x y
  | CNe => negb (py_eqb x y)
  | CGe => negb (py_lt x y)
  | CGt => py_lt y x
  end.

(** the position a secret index denotes: sum_j j*u_j (+ offset) *)
Definition key_index (k : key) : Z :=
  match k with
  | KNum a => a
  | KVec u => dot u (iota (length u))
  | KSec off u => Z.of_nat off + dot u (iota (length u))
  | KAdd o1 u1 o2 u2 => Z.of_nat o1 + Z.of_nat o2 + dot u1 (iota (length u1)) + dot u2 (iota (length u2))
  end.

(** in-range secret index for a list of length n: its unary form is the a-th unit vector of
    length n with 0 <= a < n (a = key_index k) *)
Definition valid_key (k : key) (n : nat) : Prop :=
  0 <= key_index k < Z.of_nat n /\ key_vec k n = uvec (key_index k) n.

Definition valid_keyb (k : key) (n : nat) : bool :=
  (0 <=? key_index k) && (key_index k <? Z.of_nat n) &&
  (if list_eq_dec Z.eq_dec (key_vec k n) (uvec (key_index k) n) then true else false).

Definition pystep (xs : list Z) (o : op) : list Z * out :=
  match o with
  | Get k => (xs, OZ (nth (Z.to_nat (key_index k)) xs 0))
  | SetK k v => (upd xs (Z.to_nat (key_index k)) v, ONone)
  | Del k => (remove_nth xs (Z.to_nat (key_index k)), ONone)
  | Insert k v => (insert_at xs (Z.to_nat (key_index k)) v, ONone)
  | Pop k => (remove_nth xs (Z.to_nat (key_index k)), OZ (nth (Z.to_nat (key_index k)) xs 0))
  | Count v => (xs, OZ (py_count xs v))
  | Contains v => (xs, OZ (b2z (py_inb xs v)))
  | Find v => (xs, OZ (py_find xs v))
  | Index v => if py_inb xs v then (xs, OZ (py_find xs v)) else (xs, OErr EValue)
  | Remove v => match py_remove xs v with Some xs' => (xs', ONone) | None => (xs, OErr EValue) end
  | Cmp c swap ys => (xs, OZ (b2z (if swap then py_compare c ys xs else py_compare c xs ys)))
  | _ => step_public xs o
  end.

(** in-range condition of one operation on the current list (only secret indices can be
    out of range in a way the Python list does not define; insert allows position len) *)
Definition valid_op (xs : list Z) (o : op) : Prop :=
  match o with
  | Get k | SetK k _ | Del k | Pop k => valid_key k (length xs)
  | Insert k _ => valid_key k (length xs + 1)
  | _ => True
  end.

Definition valid_opb (xs : list Z) (o : op) : bool :=
  match o with
  | Get k | SetK k _ | Del k | Pop k => valid_keyb k (length xs)
  | Insert k _ => valid_keyb k (length xs + 1)
  | _ => true
  end.

Fixpoint valid_hist (xs : list Z) (ops : list op) : Prop :=
  match ops with
  | [] => True
  | o :: ops' => valid_op xs o /\ valid_hist (fst (pystep xs o)) ops'
  end.

(* ===================================================================================== *)
(** * PROOFS: refinement of the model to Python list semantics *)

(** * Unit vectors *)
Lemma uvec_length a n : length (uvec a n) = n.
Proof. unfold uvec. apply map_seq_length. Qed.

Lemma uvec_cons a n : uvec a (S n) = (if a =? 0 then 1 else 0) :: uvec (a - 1) n.
Proof.
  unfold uvec. simpl seq. rewrite <- seq_shift. cbn [map]. rewrite map_map. f_equal.
  apply map_ext. intros i.
    destruct (Z.of_nat (S i) =? a) eqn:E; destruct (Z.of_nat i =? a - 1) eqn:E'; lia.
Qed.

Lemma uvec_out a n : a < 0 -> uvec a n = repeat 0 n.
Proof.
  revert a. induction n as [|n IH]; intros a Ha; [reflexivity|].
  rewrite uvec_cons. destruct (a =? 0) eqn:E; [lia|]. simpl. f_equal. apply IH. lia.
Qed.

Lemma uvec_O n : uvec 0 (S n) = 1 :: repeat 0 n.
Proof. rewrite uvec_cons. simpl. f_equal. apply uvec_out. lia. Qed.

Lemma uvec_S a n : uvec (Z.of_nat (S a)) (S n) = 0 :: uvec (Z.of_nat a) n.
Proof.
  rewrite uvec_cons. destruct (Z.of_nat (S a) =? 0) eqn:E; [lia|].
  f_equal. f_equal. lia.
Qed.

Lemma uvec_removelast a n : removelast (uvec a (S n)) = uvec a n.
Proof.
  unfold uvec. rewrite seq_S, map_app. simpl. apply removelast_last.
Qed.

Lemma dot_zeros xs n : dot xs (repeat 0 n) = 0.
Proof. revert n. induction xs as [|x xs IH]; intros [|n]; simpl; auto. rewrite IH. lia. Qed.

Lemma dot_zeros_l xs n : dot (repeat 0 n) xs = 0.
Proof. revert xs. induction n as [|n IH]; intros [|x xs]; simpl; auto. Qed.

Lemma dot_uvec xs a : (a < length xs)%nat -> dot xs (uvec (Z.of_nat a) (length xs)) = nth a xs 0.
Proof.
  revert a. induction xs as [|x xs IH]; intros a Ha; simpl in Ha; [lia|].
  simpl length. destruct a as [|a].
  - change (Z.of_nat 0) with 0. rewrite uvec_O. cbn [dot nth]. rewrite dot_zeros. lia.
  - rewrite uvec_S. cbn [dot nth]. rewrite IH by lia. lia.
Qed.

Lemma dot_uvec_l xs a : (a < length xs)%nat -> dot (uvec (Z.of_nat a) (length xs)) xs = nth a xs 0.
Proof.
  revert a. induction xs as [|x xs IH]; intros a Ha; simpl in Ha; [lia|].
  simpl length. destruct a as [|a].
  - change (Z.of_nat 0) with 0. rewrite uvec_O. cbn [dot nth]. rewrite dot_zeros_l. lia.
  - rewrite uvec_S. cbn [dot nth]. rewrite IH by lia. lia.
Qed.

(** * set *)
Lemma vadd_zeros xs c n : length xs = n -> vadd xs (smul c (repeat 0 n)) = xs.
Proof.
  revert n. induction xs as [|x xs IH]; intros n Hn; [reflexivity|].
  destruct n as [|n]; simpl in Hn; [lia|]. unfold vadd, smul in *. cbn [repeat map map2].
  rewrite IH by lia. f_equal. lia.
Qed.

Lemma set_core xs a c : (a < length xs)%nat ->
  vadd xs (smul c (uvec (Z.of_nat a) (length xs))) = upd xs a (nth a xs 0 + c).
Proof.
  revert a. induction xs as [|x xs IH]; intros a Ha; simpl in Ha; [lia|].
  simpl length. destruct a as [|a].
  - change (Z.of_nat 0) with 0. rewrite uvec_O. unfold upd. cbn [firstn skipn nth app].
    pose proof (vadd_zeros xs c (length xs) eq_refl) as H.
    unfold vadd, smul in *. cbn [map map2]. rewrite H. f_equal. lia.
  - rewrite uvec_S. specialize (IH a ltac:(lia)). unfold upd, vadd, smul in *.
    cbn [firstn skipn nth app map map2]. rewrite IH. f_equal. lia.
Qed.

(** * del *)
Definition delcore (acc : Z) (i xs : list Z) : list Z :=
  vadd (removelast xs) (schur (psum_from acc i) (vsub (tl xs) (removelast xs))).

Lemma delcore_cons acc b i x y r :
  delcore acc (b :: i) (x :: y :: r) = (x + (acc + b) * (y - x)) :: delcore (acc + b) i (y :: r).
Proof. reflexivity. Qed.

Lemma delcore_ones xs : delcore 1 (repeat 0 (length xs - 1)) xs = tl xs.
Proof.
  induction xs as [|x xs IH]; [reflexivity|].
  destruct xs as [|y r]; [reflexivity|].
  replace (length (x :: y :: r) - 1)%nat with (S (length (y :: r) - 1)) by (simpl; lia).
  cbn [repeat]. rewrite delcore_cons. replace (1 + 0) with 1 by lia. rewrite IH. cbn [tl]. f_equal. lia.
Qed.

Lemma del_core xs a : (a < length xs)%nat ->
  delcore 0 (uvec (Z.of_nat a) (length xs - 1)) xs = remove_nth xs a.
Proof.
  revert a. induction xs as [|x xs IH]; intros a Ha; simpl in Ha; [lia|].
  destruct xs as [|y r].
  - assert (a = O) by (simpl in Ha; lia). subst. reflexivity.
  - replace (length (x :: y :: r) - 1)%nat with (S (length (y :: r) - 1)) by (simpl; lia).
    destruct a as [|a].
    + change (Z.of_nat 0) with 0. rewrite uvec_O, delcore_cons.
      replace (0 + 1) with 1 by lia. rewrite delcore_ones. unfold remove_nth. cbn [firstn skipn app tl]. f_equal. lia.
    + rewrite uvec_S, delcore_cons. replace (0 + 0) with 0 by lia. rewrite IH by (simpl in *; lia).
      unfold remove_nth. cbn [firstn skipn app tl]. f_equal. lia.
Qed.

(** * insert *)
Definition inscore (acc : Z) (i y x : list Z) : list Z := vadd x (schur (psum_from acc i) (vsub y x)).

Lemma inscore_ones y x : length y = length x -> inscore 1 (repeat 0 (length x)) y x = y.
Proof.
  revert x. induction y as [|b y IH]; intros [|a x] H; simpl in H; try lia; [reflexivity|].
  specialize (IH x ltac:(lia)). unfold inscore, vadd, schur, vsub in *.
  cbn [length repeat psum_from map2]. replace (1 + 0) with 1 by lia. rewrite IH. f_equal. lia.
Qed.

Lemma ins_core xs a z w v : (a <= length xs)%nat ->
  inscore 0 (uvec (Z.of_nat a) (S (length xs))) (upd (z :: xs) a v) (xs ++ [w]) = insert_at xs a v.
Proof.
  revert a z. induction xs as [|x r IH]; intros a z Ha; simpl in Ha.
  - assert (a = O) by lia. subst. unfold inscore, insert_at, upd, vadd, schur, vsub.
    change (Z.of_nat 0) with 0. rewrite uvec_O.
    cbn [length repeat psum_from map2 firstn skipn app]. f_equal. lia.
  - destruct a as [|a].
    + change (Z.of_nat 0) with 0. rewrite uvec_O.
      pose proof (inscore_ones (x :: r) (r ++ [w])) as H.
      rewrite app_length in H. cbn [length] in H.
      replace (length r + 1)%nat with (S (length r)) in H by lia. specialize (H eq_refl).
      unfold inscore, upd, insert_at, vadd, schur, vsub in *.
      cbn [length firstn skipn app psum_from map2] in *. replace (0 + 1) with 1 by lia.
      rewrite H. f_equal. lia.
    + cbn [length]. rewrite uvec_S.
      specialize (IH a x ltac:(lia)). unfold inscore, upd, insert_at, vadd, schur, vsub in *.
      cbn [length firstn skipn app psum_from map2] in *. replace (0 + 0) with 0 by lia.
      rewrite IH. f_equal. lia.
Qed.

Lemma valid_key_nat k n : valid_key k n ->
  exists a, (a < n)%nat /\ key_index k = Z.of_nat a /\ key_vec k n = uvec (Z.of_nat a) n.
Proof.
  intros [Hr Hv]. exists (Z.to_nat (key_index k)). rewrite Z2Nat.id by lia.
  split; [lia|]. auto.
Qed.

Lemma getitem_vec xs k a : (a < length xs)%nat -> key_vec k (length xs) = uvec (Z.of_nat a) (length xs) ->
  getitem xs k = Ok (nth a xs 0).
Proof.
  intros Ha Hv. unfold getitem. rewrite Hv, uvec_length, Nat.eqb_refl. cbn [negb].
  f_equal. apply dot_uvec; auto.
Qed.

Theorem get_refines xs k : valid_key k (length xs) ->
  getitem xs k = Ok (nth (Z.to_nat (key_index k)) xs 0).
Proof.
  intros H. destruct (valid_key_nat _ _ H) as [a [Ha [Hi Hv]]].
  rewrite Hi, Nat2Z.id. apply getitem_vec; auto.
Qed.

Lemma upd_same_index xs a v w : v = w -> upd xs a v = upd xs a w.
Proof. intros; subst; reflexivity. Qed.

Lemma setitem_vec xs k a v : (a < length xs)%nat -> key_vec k (length xs) = uvec (Z.of_nat a) (length xs) ->
  setitem xs k v = Ok (upd xs a v).
Proof.
  intros Ha Hv. unfold setitem. rewrite Hv, uvec_length, Nat.eqb_refl. cbn [negb].
  f_equal. rewrite dot_uvec by auto. rewrite set_core by auto. apply upd_same_index. lia.
Qed.

Theorem set_refines xs k v : valid_key k (length xs) ->
  setitem xs k v = Ok (upd xs (Z.to_nat (key_index k)) v).
Proof.
  intros H. destruct (valid_key_nat _ _ H) as [a [Ha [Hi Hv]]].
  rewrite Hi, Nat2Z.id. apply setitem_vec; auto.
Qed.

Lemma delitem_unfold xs k : key_vec k (length xs) <> [] ->
  delitem xs k =
    let i := removelast (key_vec k (length xs)) in
    if negb (Z.of_nat (length i) =? Z.of_nat (length xs) - 1) then Err EIndex
    else Ok (delcore 0 i xs).
Proof.
  intros H. unfold delitem. destruct (key_vec k (length xs)) eqn:E; [congruence|]. reflexivity.
Qed.

Lemma delitem_vec xs k a : (a < length xs)%nat -> key_vec k (length xs) = uvec (Z.of_nat a) (length xs) ->
  delitem xs k = Ok (remove_nth xs a).
Proof.
  intros Ha Hv. rewrite delitem_unfold.
  2:{ rewrite Hv. intros E. apply (f_equal (@length Z)) in E. rewrite uvec_length in E. simpl in E. lia. }
  rewrite Hv. destruct (length xs) as [|m] eqn:El; [lia|].
  cbv zeta. rewrite uvec_removelast, uvec_length.
  replace (Z.of_nat m =? Z.of_nat (S m) - 1) with true by lia. cbn [negb]. f_equal.
  replace m with (length xs - 1)%nat by lia. apply del_core. lia.
Qed.

Theorem del_refines xs k : valid_key k (length xs) ->
  delitem xs k = Ok (remove_nth xs (Z.to_nat (key_index k))).
Proof.
  intros H. destruct (valid_key_nat _ _ H) as [a [Ha [Hi Hv]]].
  rewrite Hi, Nat2Z.id. apply delitem_vec; auto.
Qed.

Theorem pop_refines xs k : valid_key k (length xs) ->
  pop_sec xs k = Ok (nth (Z.to_nat (key_index k)) xs 0, remove_nth xs (Z.to_nat (key_index k))).
Proof.
  intros H. destruct (valid_key_nat _ _ H) as [a [Ha [Hi Hv]]].
  rewrite Hi, Nat2Z.id. unfold pop_sec. rewrite Hv, uvec_length, Nat.eqb_refl. cbn [negb].
  rewrite (delitem_vec xs (KVec (uvec (Z.of_nat a) (length xs))) a) by auto.
  rewrite dot_uvec by auto. reflexivity.
Qed.

Lemma insert_vec xs k a v : (a <= length xs)%nat ->
  key_vec k (length xs + 1) = uvec (Z.of_nat a) (length xs + 1) ->
  insert_sec xs k v = Ok (insert_at xs a v).
Proof.
  intros Ha Hv. unfold insert_sec. rewrite Hv, uvec_length, Nat.eqb_refl. cbn [negb].
  f_equal. replace (length xs + 1)%nat with (length (0 :: xs)) by (simpl; lia).
  rewrite dot_uvec by (simpl; lia). rewrite set_core by (simpl; lia).
  rewrite (upd_same_index _ _ _ v) by lia.
  cbn [length]. apply (ins_core xs a 0 0 v). exact Ha.
Qed.

Theorem insert_refines xs k v : valid_key k (length xs + 1) ->
  insert_sec xs k v = Ok (insert_at xs (Z.to_nat (key_index k)) v).
Proof.
  intros H. destruct (valid_key_nat _ _ H) as [a [Ha [Hi Hv]]].
  rewrite Hi, Nat2Z.id. apply insert_vec; auto. lia.
Qed.

(** * which secret indices are valid: the four kinds *)
Lemma iota_length n : length (iota n) = n.
Proof. unfold iota. apply map_seq_length. Qed.

Lemma dot_uvec_iota a n : (a < n)%nat -> dot (uvec (Z.of_nat a) n) (iota n) = Z.of_nat a.
Proof.
  intros Ha. pose proof (dot_uvec_l (iota n) a) as H. rewrite iota_length in H.
  rewrite H by auto. unfold iota. rewrite nth_map_seq by auto. reflexivity.
Qed.

Lemma zeros_app_uvec off b m :
  repeat 0 off ++ uvec (Z.of_nat b) m = uvec (Z.of_nat (off + b)) (off + m).
Proof.
  induction off as [|off IH]; [reflexivity|].
  cbn [repeat app plus]. rewrite uvec_S, IH. reflexivity.
Qed.

Theorem valid_key_num a n : 0 <= a < Z.of_nat n -> valid_key (KNum a) n.
Proof. intros H. split; auto. Qed.

Theorem valid_key_vec a n : (a < n)%nat -> valid_key (KVec (uvec (Z.of_nat a) n)) n.
Proof.
  intros H. unfold valid_key. cbn [key_index key_vec]. rewrite uvec_length, dot_uvec_iota by auto.
  split; [lia|reflexivity].
Qed.

Theorem valid_key_sec off b m : (b < m)%nat -> valid_key (KSec off (uvec (Z.of_nat b) m)) (off + m).
Proof.
  intros H. unfold valid_key. cbn [key_index key_vec]. rewrite uvec_length, dot_uvec_iota by auto.
  rewrite zeros_app_uvec. split; [lia|]. f_equal. lia.
Qed.

Theorem valid_key_add o1 i m o2 j n2 : (i < m)%nat -> (j < n2)%nat ->
  valid_key (KAdd o1 (uvec (Z.of_nat i) m) o2 (uvec (Z.of_nat j) n2)) (o1 + o2 + (m + n2 - 1)).
Proof.
  intros Hi Hj. unfold valid_key. cbn [key_index key_vec secindex_add fst snd].
  rewrite !uvec_length, !dot_uvec_iota by auto.
  replace (Z.of_nat i + Z.of_nat j) with (Z.of_nat (i + j)) by lia.
  rewrite zeros_app_uvec. split; [lia|]. f_equal. lia.
Qed.

(** * count / contains *)
Theorem count_refines xs v : count xs v = py_count xs v.
Proof.
  unfold count. induction xs as [|a xs IH]; [reflexivity|].
  cbn [map zsum py_count]. rewrite IH. reflexivity.
Qed.

Lemma py_count_inb xs v : 0 <= py_count xs v /\ (py_inb xs v = true <-> 0 < py_count xs v).
Proof.
  induction xs as [|a xs [IH1 IH2]]; cbn [py_count py_inb]; [split; [lia|split; [discriminate|lia]]|].
  destruct (a =? v) eqn:E; cbn [orb]; split; try lia.
  all: try (rewrite IH2; lia). all: try (split; [lia|reflexivity]).
Qed.

Theorem contains_refines xs v : contains xs v = b2z (py_inb xs v).
Proof.
  unfold contains, nez. rewrite count_refines.
  destruct (py_count_inb xs v) as [H0 H1].
  destruct (py_inb xs v) eqn:E; cbn [b2z].
  - assert (0 < py_count xs v) by (apply H1; reflexivity).
    destruct (py_count xs v =? 0) eqn:E'; [lia|reflexivity].
  - destruct (py_count xs v =? 0) eqn:E'; [reflexivity|].
    assert (false = true) by (apply H1; lia). discriminate.
Qed.

(** * find: the divide-and-conquer closure computes the first zero *)

(** first index k in [i, i+n) with x[k] = 0, else i+n *)
Fixpoint fz (x : list Z) (i n : nat) : nat :=
  match n with
  | O => i
  | S n' => if nth i x 0 =? 0 then i else fz x (S i) n'
  end.

Lemma fz_range x i n : (i <= fz x i n <= i + n)%nat.
Proof.
  revert i. induction n as [|n IH]; intros i; cbn [fz]; [lia|].
  destruct (nth i x 0 =? 0); [lia|]. specialize (IH (S i)). lia.
Qed.

Lemma fz_split x i a b :
  fz x i (a + b) = if (fz x i a =? i + a)%nat then fz x (i + a) b else fz x i a.
Proof.
  revert i. induction a as [|a IH]; intros i.
  - cbn [plus fz]. rewrite Nat.add_0_r, Nat.eqb_refl. reflexivity.
  - cbn [plus fz]. destruct (nth i x 0 =? 0) eqn:E.
    + destruct (i =? i + S a)%nat eqn:E'; [lia|reflexivity].
    + rewrite IH. replace (S i + a)%nat with (i + S a)%nat by lia. reflexivity.
Qed.

Definition binary (x : list Z) : Prop := forall k, nth k x 0 = 0 \/ nth k x 0 = 1.

Lemma find_cl_spec x : binary x -> forall fuel n i, (1 <= n <= fuel)%nat ->
  find_cl fuel x i (i + n) =
    [ (if (fz x i n =? i + n)%nat then 1 else 0); Z.of_nat (fz x i n) ].
Proof.
  intros Hb. induction fuel as [|fuel IH]; intros n i Hn; [lia|].
  cbn [find_cl]. replace (i + n - i)%nat with n by lia.
  destruct (n =? 1)%nat eqn:E1.
  - assert (n = 1%nat) by lia. subst n. cbn [fz].
    destruct (Hb i) as [H0|H1].
    + rewrite H0. change (0 =? 0) with true. cbv iota.
      destruct (i =? i + 1)%nat eqn:E; [lia|]. f_equal. f_equal. lia.
    + rewrite H1. change (1 =? 0) with false. cbv iota.
      replace (S i =? i + 1)%nat with true by lia. f_equal. f_equal. lia.
  - assert (Hh : (1 <= Nat.div n 2 < n)%nat).
    { pose proof (Nat.div_mod n 2 ltac:(lia)). pose proof (Nat.mod_upper_bound n 2 ltac:(lia)). lia. }
    set (h := Nat.div n 2) in *.
    rewrite (IH h i) by lia.
    replace (i + n)%nat with ((i + h) + (n - h))%nat by lia.
    rewrite (IH (n - h)%nat (i + h)%nat) by lia.
    replace (i + h + (n - h))%nat with (i + n)%nat by lia.
    assert (Hs : fz x i n = if (fz x i h =? i + h)%nat then fz x (i + h) (n - h) else fz x i h).
    { rewrite <- fz_split. f_equal. lia. }
    rewrite Hs.
    cbn [hd]. destruct (fz x i h =? i + h)%nat eqn:E.
    + unfold ifelse_list. cbn [map2]. repeat (f_equal; try lia).
    + unfold ifelse_list. cbn [map2].
      pose proof (fz_range x i h).
      destruct (fz x i h =? i + n)%nat eqn:E'; [lia|]. repeat (f_equal; try lia).
Qed.

Lemma fz_shift a x i n : fz (a :: x) (S i) n = S (fz x i n).
Proof.
  revert i. induction n as [|n IH]; intros i; cbn [fz]; [reflexivity|].
  cbn [nth]. destruct (nth i x 0 =? 0); [reflexivity|]. apply IH.
Qed.

Lemma fz_py_find xs v :
  let x := map (fun b => nez b v) xs in
  (fz x 0 (length x) = length x /\ py_find xs v = -1) \/
  ((fz x 0 (length x) < length x)%nat /\ py_find xs v = Z.of_nat (fz x 0 (length x))).
Proof.
  induction xs as [|a xs IH]; cbn zeta in *.
  - left. split; reflexivity.
  - cbn [map length fz nth py_find].
    assert (Hn : nez a v = if a =? v then 0 else 1) by reflexivity. rewrite Hn. clear Hn.
    destruct (a =? v) eqn:E.
    + right. change (0 =? 0) with true. cbv iota. split; [lia|reflexivity].
    + change (1 =? 0) with false. cbv iota. rewrite fz_shift. destruct IH as [[H1 H2]|[H1 H2]].
      * left. rewrite H1, H2. split; reflexivity.
      * right. rewrite H2. split; [lia|].
        destruct (Z.of_nat (fz (map (fun b => nez b v) xs) 0 (length (map (fun b => nez b v) xs))) =? -1) eqn:E'; lia.
Qed.

Lemma binary_nez xs v : binary (map (fun b => nez b v) xs).
Proof.
  intros k. revert k. induction xs as [|a xs IH]; intros k; cbn [map].
  - destruct k; left; reflexivity.
  - destruct k as [|k]; cbn [nth]; [|apply IH]. unfold nez. destruct (a =? v); auto.
Qed.

Theorem find_refines xs v : find xs v = py_find xs v.
Proof.
  destruct xs as [|a xs]; [reflexivity|].
  unfold find. set (ys := a :: xs). set (x := map (fun b => nez b v) ys).
  pose proof (find_cl_spec x (binary_nez ys v) (length x) (length x) 0%nat) as H.
  assert (Hl : (1 <= length x)%nat) by (subst x ys; cbn; lia).
  specialize (H ltac:(lia)). cbn [plus] in H. rewrite H.
  pose proof (fz_py_find ys v) as Hf. cbn zeta in Hf. fold x in Hf.
  cbn [hd tl]. unfold ifelse_list. cbn [map2 hd].
  destruct Hf as [[H1 H2]|[H1 H2]].
  - rewrite H1, Nat.eqb_refl, H2. lia.
  - destruct (fz x 0 (length x) =? length x)%nat eqn:E; [lia|]. rewrite H2. lia.
Qed.

Lemma py_find_range xs v :
  (py_inb xs v = false /\ py_find xs v = -1) \/
  (py_inb xs v = true /\ 0 <= py_find xs v < Z.of_nat (length xs)).
Proof.
  induction xs as [|a xs IH]; cbn [py_inb py_find length]; [left; auto|].
  destruct (a =? v) eqn:E; cbn [orb]; [right; split; [reflexivity|lia]|].
  destruct IH as [[H1 H2]|[H1 H2]].
  - left. rewrite H1, H2. auto.
  - right. rewrite H1. split; [reflexivity|]. destruct (py_find xs v =? -1) eqn:E'; lia.
Qed.

Theorem index_refines xs v :
  index xs v = if py_inb xs v then Ok (py_find xs v) else Err EValue.
Proof.
  destruct xs as [|a xs]; [reflexivity|]. unfold index. rewrite find_refines.
  destruct (py_find_range (a :: xs) v) as [[H1 H2]|[H1 H2]]; rewrite H1.
  - rewrite H2. reflexivity.
  - destruct (py_find (a :: xs) v =? -1) eqn:E; [lia|reflexivity].
Qed.

Lemma py_remove_find xs v : py_inb xs v = true ->
  py_remove xs v = Some (remove_nth xs (Z.to_nat (py_find xs v))).
Proof.
  induction xs as [|a xs IH]; cbn [py_inb py_remove py_find]; [discriminate|].
  destruct (a =? v) eqn:E; cbn [orb]; [reflexivity|]. intros H. rewrite (IH H).
  destruct (py_find_range xs v) as [[H1 H2]|[H1 H2]]; [congruence|].
  destruct (py_find xs v =? -1) eqn:E'; [lia|].
  replace (Z.to_nat (py_find xs v + 1)) with (S (Z.to_nat (py_find xs v))) by lia.
  reflexivity.
Qed.

Lemma py_remove_none xs v : py_inb xs v = false -> py_remove xs v = None.
Proof.
  induction xs as [|a xs IH]; cbn [py_inb py_remove]; [reflexivity|].
  destruct (a =? v); cbn [orb]; [discriminate|]. intros H. rewrite (IH H). reflexivity.
Qed.

Theorem remove_refines xs v :
  remove xs v = match py_remove xs v with Some xs' => Ok xs' | None => Err EValue end.
Proof.
  unfold remove. rewrite find_refines.
  destruct (py_find_range xs v) as [[H1 H2]|[H1 H2]].
  - rewrite H2, (py_remove_none _ _ H1). reflexivity.
  - destruct (py_find xs v =? -1) eqn:E; [lia|].
    rewrite (py_remove_find _ _ H1).
    rewrite (del_refines xs (KNum (py_find xs v))) by (apply valid_key_num; lia).
    reflexivity.
Qed.

(** * comparisons *)
Definition ternary (s : list Z) : Prop := Forall (fun a => a = -1 \/ a = 0 \/ a = 1) s.

(** value of the first nonzero sign: 1 if it is -1, 0 if it is +1; EQ if all signs are 0 *)
Fixpoint lex (s : list Z) (EQ : bool) : Z :=
  match s with
  | [] => b2z EQ
  | a :: r => if a =? 0 then lex r EQ else if a <? 0 then 1 else 0
  end.
Fixpoint nzf (s : list Z) : Z :=
  match s with [] => 0 | a :: r => if a =? 0 then nzf r else 1 end.

Lemma nzf_01 s : nzf s = 0 \/ nzf s = 1.
Proof. induction s as [|a s IH]; cbn [nzf]; [auto|]. destruct (a =? 0); auto. Qed.

Lemma lex_app l1 l2 EQ : lex (l1 ++ l2) EQ = if nzf l1 =? 0 then lex l2 EQ else lex l1 EQ.
Proof.
  induction l1 as [|a l1 IH]; cbn [app lex nzf]; [reflexivity|].
  destruct (a =? 0); [exact IH|reflexivity].
Qed.

Lemma nzf_app l1 l2 : nzf (l1 ++ l2) = if nzf l1 =? 0 then nzf l2 else 1.
Proof.
  induction l1 as [|a l1 IH]; cbn [app nzf]; [reflexivity|].
  destruct (a =? 0); [exact IH|reflexivity].
Qed.

Lemma map2_firstn f h s t : map2 f (firstn h s) (firstn h t) = firstn h (map2 f s t).
Proof.
  revert s t. induction h as [|h IH]; intros [|a s] [|b t]; cbn [firstn map2]; try reflexivity.
  f_equal. apply IH.
Qed.

Lemma map2_skipn f h s t : map2 f (skipn h s) (skipn h t) = skipn h (map2 f s t).
Proof.
  revert s t. induction h as [|h IH]; intros [|a s] [|b t]; cbn [skipn map2]; try reflexivity.
  - destruct (skipn h s); reflexivity.
  - apply IH.
Qed.

Lemma norm_spec : forall fuel s EQ, ternary s -> (1 <= length s <= fuel)%nat ->
  norm fuel s (schur s s) EQ = (lex s EQ, nzf s).
Proof.
  induction fuel as [|fuel IH]; intros s EQ Ht Hl; [lia|].
  cbn [norm]. destruct (length s =? 1)%nat eqn:E1.
  - destruct s as [|a [|b s]]; cbn [length] in *; try lia.
    inversion Ht as [|? ? Ha _]; subst.
    destruct Ha as [Ha|[Ha|Ha]]; subst; destruct EQ; reflexivity.
  - assert (Hh : (1 <= Nat.div (length s) 2 < length s)%nat).
    { pose proof (Nat.div_mod (length s) 2 ltac:(lia)).
      pose proof (Nat.mod_upper_bound (length s) 2 ltac:(lia)). lia. }
    set (h := Nat.div (length s) 2) in *.
    unfold schur. rewrite <- map2_firstn, <- map2_skipn. fold schur.
    assert (Hs : s = firstn h s ++ skipn h s) by (symmetry; apply firstn_skipn).
    assert (Ht' : ternary (firstn h s) /\ ternary (skipn h s)).
    { unfold ternary in *. rewrite Hs in Ht. apply Forall_app in Ht. exact Ht. }
    destruct Ht' as [Ht1 Ht2].
    rewrite (IH (firstn h s) EQ Ht1) by (rewrite firstn_length; lia).
    rewrite (IH (skipn h s) EQ Ht2) by (rewrite skipn_length; lia).
    assert (HL : lex s EQ = if nzf (firstn h s) =? 0 then lex (skipn h s) EQ else lex (firstn h s) EQ)
      by (rewrite <- lex_app, firstn_skipn; reflexivity).
    assert (HN : nzf s = if nzf (firstn h s) =? 0 then nzf (skipn h s) else 1)
      by (rewrite <- nzf_app, firstn_skipn; reflexivity).
    rewrite HL, HN.
    destruct (nzf_01 (firstn h s)) as [H0|H0]; rewrite H0; cbn [Z.eqb]; f_equal; lia.
Qed.

Definition sgns (x y : list Z) : list Z := map2 (fun a b => Z.sgn (a - b)) x y.

Lemma sgns_ternary x y : ternary (sgns x y).
Proof.
  revert y. induction x as [|a x IH]; intros [|b y]; cbn [sgns map2]; try constructor.
  - destruct (Z.lt_trichotomy (a - b) 0) as [H|[H|H]].
    + left. apply Z.sgn_neg. exact H.
    + right; left. rewrite H. reflexivity.
    + right; right. apply Z.sgn_pos. lia.
  - apply IH.
Qed.

Lemma lex_py_lt x y : lex (sgns x y) (length x <? length y)%nat = b2z (py_lt x y).
Proof.
  revert y. induction x as [|a x IH]; intros [|b y]; try reflexivity.
  cbn [sgns map2 lex py_lt length]. fold (sgns x y).
  change (S (length x) <? S (length y))%nat with (length x <? length y)%nat.
  destruct (Z.lt_trichotomy a b) as [H|[H|H]].
  - rewrite (Z.sgn_neg (a - b)) by lia. cbn. replace (a <? b) with true by lia. reflexivity.
  - subst. rewrite Z.sub_diag. cbn [Z.sgn Z.eqb]. rewrite Z.ltb_irrefl. apply IH.
  - rewrite (Z.sgn_pos (a - b)) by lia. cbn. replace (a <? b) with false by lia.
    replace (b <? a) with true by lia. reflexivity.
Qed.

Theorem lexicographic_lt_correct x y : less_than x y = b2z (py_lt x y).
Proof.
  unfold less_than. fold (sgns x y). destruct (sgns x y) as [|c s'] eqn:E.
  - destruct x, y; cbn in E; try discriminate; reflexivity.
  - rewrite <- E. rewrite norm_spec.
    + cbn [fst]. apply lex_py_lt.
    + apply sgns_ternary.
    + rewrite E. cbn [length]. lia.
Qed.

Theorem list_eq_correct x y : list_eq x y = b2z (py_eqb x y).
Proof.
  revert y. induction x as [|a x IH]; intros [|b y]; try reflexivity.
  specialize (IH y). unfold list_eq in *. cbn [length py_eqb map2 zprod].
  change (S (length x) =? S (length y))%nat with (length x =? length y)%nat.
  destruct (length x =? length y)%nat; cbn [negb] in *.
  - rewrite IH. unfold eqz. destruct (a =? b); destruct (py_eqb x y); reflexivity.
  - destruct (py_eqb x y); [discriminate|]. rewrite andb_false_r. reflexivity.
Qed.

Lemma one_minus_b2z b : 1 - b2z b = b2z (negb b).
Proof. destruct b; reflexivity. Qed.

Theorem compare_correct c x y : compare_op c x y = b2z (py_compare c x y).
Proof.
  destruct c; cbn [compare_op py_compare];
    rewrite ?lexicographic_lt_correct, ?list_eq_correct, ?one_minus_b2z; reflexivity.
Qed.

(** * one step and whole histories *)
Theorem step_refines xs o : valid_op xs o -> step xs o = pystep xs o.
Proof.
  destruct o; cbn [valid_op step pystep]; intros H; try reflexivity.
  - rewrite get_refines by exact H. reflexivity.
  - rewrite set_refines by exact H. reflexivity.
  - rewrite del_refines by exact H. reflexivity.
  - rewrite insert_refines by exact H. reflexivity.
  - rewrite pop_refines by exact H. reflexivity.
  - rewrite count_refines. reflexivity.
  - rewrite contains_refines. reflexivity.
  - rewrite find_refines. reflexivity.
  - rewrite index_refines. destruct (py_inb xs v); reflexivity.
  - rewrite remove_refines. destruct (py_remove xs v); reflexivity.
  - destruct swap; rewrite compare_correct; reflexivity.
Qed.

Theorem history_refines ops : forall xs, valid_hist xs ops -> run step xs ops = run pystep xs ops.
Proof.
  induction ops as [|o ops IH]; intros xs H; [reflexivity|].
  cbn [valid_hist] in H. destruct H as [Ho Hr].
  cbn [run]. rewrite (step_refines xs o Ho). f_equal. apply IH. exact Hr.
Qed.

(** the same statement with fold_left: (state, outputs so far) threaded through the history *)
Definition run_fold (f : list Z -> op -> list Z * out) (xs : list Z) (ops : list op) : list Z * list out :=
  fold_left (fun (acc : list Z * list out) o => let r := f (fst acc) o in (fst r, snd acc ++ [snd r])) ops (xs, []).

Lemma last_cons {A} (l : list A) : forall a d, last (a :: l) d = last l a.
Proof.
  induction l as [|b l IH]; intros a d; [reflexivity|].
  change (last (a :: b :: l) d) with (last (b :: l) d). rewrite !IH. reflexivity.
Qed.

Lemma run_fold_run f ops : forall xs outs,
  fold_left (fun (acc : list Z * list out) o => let r := f (fst acc) o in (fst r, snd acc ++ [snd r])) ops (xs, outs)
  = (last (map fst (run f xs ops)) xs, outs ++ map snd (run f xs ops)).
Proof.
  induction ops as [|o ops IH]; intros xs outs; cbn [fold_left run map].
  - rewrite app_nil_r. reflexivity.
  - cbv zeta. cbn [fst snd]. rewrite IH. f_equal.
    + rewrite last_cons. reflexivity.
    + rewrite <- app_assoc. reflexivity.
Qed.

Theorem history_refines_fold ops xs : valid_hist xs ops -> run_fold step xs ops = run_fold pystep xs ops.
Proof.
  intros H. unfold run_fold. rewrite !run_fold_run, (history_refines ops xs H). reflexivity.
Qed.

(** * secindex sums denote the sum of the positions; the boolean validity test is sound *)
Theorem valid_key_add_index o1 i m o2 j n2 : (i < m)%nat -> (j < n2)%nat ->
  valid_key (KAdd o1 (uvec (Z.of_nat i) m) o2 (uvec (Z.of_nat j) n2)) (o1 + o2 + (m + n2 - 1)) /\
  key_index (KAdd o1 (uvec (Z.of_nat i) m) o2 (uvec (Z.of_nat j) n2)) = Z.of_nat (o1 + o2 + i + j).
Proof.
  intros Hi Hj. split; [apply valid_key_add; assumption|].
  cbn [key_index]. rewrite !uvec_length, !dot_uvec_iota by assumption. lia.
Qed.

Lemma valid_keyb_sound k n : valid_keyb k n = true -> valid_key k n.
Proof.
  unfold valid_keyb, valid_key. intros H.
  apply andb_prop in H. destruct H as [H H3]. apply andb_prop in H. destruct H as [H1 H2].
  destruct (list_eq_dec Z.eq_dec (key_vec k n) (uvec (key_index k) n)) as [E|E]; [|discriminate].
  split; [lia|exact E].
Qed.

Theorem get_number_and_unit_vector (xs : list Z) (a : nat) : (a < length xs)%nat ->
  getitem xs (KNum (Z.of_nat a)) = Ok (nth a xs 0) /\
  getitem xs (KVec (uvec (Z.of_nat a) (length xs))) = Ok (nth a xs 0).
Proof. intros H. split; apply getitem_vec; auto. Qed.

(** boolean form of the in-range condition of a whole history (used by the examples and evaluated
    by the correspondence run on every generated history) *)
Fixpoint valid_histb (xs : list Z) (ops : list op) : bool :=
  match ops with
  | [] => true
  | o :: ops' => valid_opb xs o && valid_histb (fst (pystep xs o)) ops'
  end.

Lemma valid_opb_sound xs o : valid_opb xs o = true -> valid_op xs o.
Proof. destruct o; cbn [valid_opb valid_op]; auto; apply valid_keyb_sound. Qed.

Lemma valid_histb_sound ops : forall xs, valid_histb xs ops = true -> valid_hist xs ops.
Proof.
  induction ops as [|o ops IH]; intros xs H; cbn [valid_histb valid_hist] in *; [exact I|].
  apply andb_prop in H. destruct H as [H1 H2]. split; [apply valid_opb_sound; exact H1|apply IH; exact H2].
Qed.

(** * contains over a field of characteristic p: the length guard (boundary of finding F-C31-2)

    seclist.count sums the equality bits IN THE ELEMENT FIELD, so over GF(p^k) its value is the number
    of occurrences modulo the characteristic p, and contains = (count != 0).  It equals list
    membership for every list SHORTER than the characteristic; at length p it can fail. *)
Definition count_mod (p : Z) (xs : list Z) (v : Z) : Z := (count xs v) mod p.
Definition contains_mod (p : Z) (xs : list Z) (v : Z) : Z := nez (count_mod p xs v) 0.

Lemma py_count_bounds xs v : 0 <= py_count xs v <= Z.of_nat (length xs).
Proof.
  induction xs as [|a xs IH]; cbn [py_count length]; [lia|].
  destruct (a =? v); lia.
Qed.

Theorem contains_char_guard p xs v : Z.of_nat (length xs) < p ->
  count_mod p xs v = py_count xs v /\ contains_mod p xs v = b2z (py_inb xs v).
Proof.
  intros Hp. pose proof (py_count_bounds xs v) as Hb.
  assert (E : count_mod p xs v = py_count xs v).
  { unfold count_mod. rewrite count_refines. apply Z.mod_small. lia. }
  split; [exact E|]. unfold contains_mod. rewrite E.
  pose proof (contains_refines xs v) as H. unfold contains in H. rewrite count_refines in H. exact H.
Qed.

Lemma py_count_repeat v n : py_count (repeat v n) v = Z.of_nat n.
Proof.
  induction n as [|n IH]; [reflexivity|]. cbn [repeat py_count]. rewrite Z.eqb_refl, IH. lia.
Qed.

Lemma py_inb_repeat v n : py_inb (repeat v (S n)) v = true.
Proof. cbn [repeat py_inb]. rewrite Z.eqb_refl. reflexivity. Qed.

(** the guard is tight: a list of exactly p copies of v contains v, but contains_mod says 0 *)
Theorem contains_char_boundary p v : 0 < p ->
  let xs := repeat v (Z.to_nat p) in
  Z.of_nat (length xs) = p /\ py_inb xs v = true /\ contains_mod p xs v = 0.
Proof.
  intros Hp xs. subst xs. rewrite repeat_length, Z2Nat.id by lia. split; [reflexivity|]. split.
  - destruct (Z.to_nat p) as [|n] eqn:E; [lia|]. apply py_inb_repeat.
  - unfold contains_mod, count_mod. rewrite count_refines, py_count_repeat, Z2Nat.id by lia.
    rewrite Z.mod_same by lia. reflexivity.
Qed.
