(** C36, concrete instance of Crash.v: a message-level, executable model of m parties running a
    straight-line program over Z_p without PRSS, as runtime.py executes it:

      Input s        mpc.input(x, senders=s)   (_distribute: the sender deals, to peers 0..m-1 in order)
      Add i j        local
      Mul pc i j     mpc.mul: local product, then (if t > 0) _reshare labelled pc: the 2t+1 dealers
                     dealers m t (pc mod m) each deal their product share to all peers (0..m-1 in order);
                     every party recombines the 2t+1 sub-shares (its own included if it is a dealer)
      Output i rcv   mpc.output(x, receivers=rcv): a party sends its share to the receivers among its t
                     successors (in the order of rcv); a receiver recombines the shares of its t
                     predecessors and its own.

    All operations of a program are issued at once (MPyC's asynchronous evaluation); the send part of
    an operation is executed by a party as soon as the shares it needs are available at that party.
    A message is (src, dst, label, payload); the label is the index of the operation in the program
    (standing for its unique program counter, C08/C09).

    The ORDER in which one party emits the messages of different operations is decided by asyncio's
    callback scheduling in the implementation (e.g. the operands of x*x are gathered one loop iteration
    earlier than those of x*y), not by program order; the crashed system therefore takes the crashing
    party's send order as a parameter ([prefix_keep order k]: the first k messages of [order]), all theorems
    hold for every order (indeed for every subset of its messages), and the correspondence run feeds the
    order observed in the implementation's crash-free frame log.

    A party's knowledge is the list D of messages delivered to it.  To make the model monotone for
    ARBITRARY lists D (as Crash.v's hypotheses demand), the share of an operation at a party is the
    LIST of all values derivable from D (at most one distinct value when D holds at most one message
    per (src, dst, label), which is an invariant of every run from the empty network: [functional]).

    Main results (all for every program, inputs, tapes, modulus, m, t):
      sends_mono / results_mono    monotonicity in the delivered list (incl)
      crash_sub_behaviour          a party sending only part (e.g. a prefix in its send order) of its
                                   messages is a sub-behaviour
      crash_exec_safe              instance of Crash.crash_safe: any output completed under any schedule
                                   of the crashed system is completed identically in the crash-free run
      cf_closed, cf_functional     the crash-free closure (fuel = number of operations) is a closed,
                                   functional run; results there are single valued
      crash_exec_no_wrong_value    a survivor never outputs a value different from the crash-free one
      run_closed                   executable: outputs completed by survivors when party c stops after
                                   the first k messages of its send order and everything sent is delivered;
      crashed_closure_closed / crashed_closure_reachable   it is the final state of every fair schedule *)
Require Import MPyC.Base MPyC.Proto MPyC.Exec MPyC.Crash.
From Coq Require Import ZArith Bool.
Local Open Scope nat_scope.

(** ------------------------------------------------------------------ generic list facts *)
Section ListFacts.
Context {A B : Type}.

Lemma incl_flat_map2 (f g : A -> list B) (l l' : list A) :
  incl l l' -> (forall a, incl (f a) (g a)) -> incl (flat_map f l) (flat_map g l').
Proof.
  intros Hl Hf x Hx. apply in_flat_map in Hx. destruct Hx as [a [Ha Hxa]].
  apply in_flat_map. exists a. split; [apply Hl, Ha|apply Hf, Hxa].
Qed.

Lemma incl_map2 (f : A -> B) (l l' : list A) : incl l l' -> incl (map f l) (map f l').
Proof. intros H. apply incl_map. exact H. Qed.

Lemma incl_filter2 (f : A -> bool) (l l' : list A) : incl l l' -> incl (filter f l) (filter f l').
Proof.
  intros H x Hx. apply filter_In in Hx. destruct Hx as [Hx Hf]. apply filter_In. split; [apply H, Hx|exact Hf].
Qed.

Lemma filter_filter_imp (f g : A -> bool) (l : list A) :
  (forall x, f x = true -> g x = true) -> filter f (filter g l) = filter f l.
Proof.
  intros H. induction l as [|x l IH]; simpl; [reflexivity|].
  destruct (g x) eqn:Eg; simpl.
  - destruct (f x); [rewrite IH|]; auto.
  - destruct (f x) eqn:Ef; [apply H in Ef; congruence|exact IH].
Qed.

Lemma filter_comm (f g : A -> bool) (l : list A) : filter f (filter g l) = filter g (filter f l).
Proof.
  induction l as [|x l IH]; simpl; [reflexivity|].
  destruct (g x) eqn:Eg; destruct (f x) eqn:Ef; simpl; rewrite ?Eg, ?Ef, ?IH; reflexivity.
Qed.

Lemma filter_none (f : A -> bool) (l : list A) : (forall x, In x l -> f x = false) -> filter f l = [].
Proof.
  induction l as [|x l IH]; intros H; simpl; [reflexivity|].
  rewrite (H x) by (left; reflexivity). apply IH. intros y Hy. apply H. right. exact Hy.
Qed.

Lemma filter_all (f : A -> bool) (l : list A) : (forall x, In x l -> f x = true) -> filter f l = l.
Proof.
  induction l as [|x l IH]; intros H; simpl; [reflexivity|].
  rewrite (H x) by (left; reflexivity). rewrite IH; [reflexivity|]. intros y Hy. apply H. right. exact Hy.
Qed.

Lemma filter_flat_map (f : B -> bool) (g : A -> list B) (l : list A) :
  filter f (flat_map g l) = flat_map (fun a => filter f (g a)) l.
Proof. induction l as [|x l IH]; simpl; [reflexivity|]. rewrite filter_app, IH. reflexivity. Qed.
End ListFacts.

(** all ways of picking one element from each list (cartesian product) *)
Fixpoint combos {A} (ls : list (list A)) : list (list A) :=
  match ls with
  | [] => [[]]
  | l :: rest => flat_map (fun a => map (cons a) (combos rest)) l
  end.

Lemma combos_mono {A} (ls ls' : list (list A)) : Forall2 (@incl A) ls ls' -> incl (combos ls) (combos ls').
Proof.
  induction 1 as [|l l' ls ls' Hl _ IH]; simpl; [apply incl_refl|].
  apply incl_flat_map2; [exact Hl|]. intros a. apply incl_map. exact IH.
Qed.

Lemma Forall2_map_same {A B} (R : B -> B -> Prop) (f g : A -> B) (l : list A) :
  (forall a, R (f a) (g a)) -> Forall2 R (map f l) (map g l).
Proof. intros H. induction l; simpl; constructor; auto. Qed.

Lemma nth_env_mono {A} (e e' : list (list A)) i : Forall2 (@incl A) e e' -> incl (nth i e []) (nth i e' []).
Proof.
  intros H. revert i. induction H as [|l l' e e' Hl _ IH]; intros [|i]; simpl; try apply incl_refl; auto.
Qed.

Lemma Forall2_snoc {A} (R : A -> A -> Prop) e e' x x' : Forall2 R e e' -> R x x' -> Forall2 R (e ++ [x]) (e' ++ [x']).
Proof. intros H Hx. apply Forall2_app; [exact H|constructor; [exact Hx|constructor]]. Qed.

Definition lift2 {A} (f : A -> A -> A) (l1 l2 : list A) : list A := flat_map (fun a => map (f a) l2) l1.

Lemma lift2_mono {A} (f : A -> A -> A) l1 l1' l2 l2' : incl l1 l1' -> incl l2 l2' -> incl (lift2 f l1 l2) (lift2 f l1' l2').
Proof. intros H1 H2. apply incl_flat_map2; [exact H1|]. intros a. apply incl_map. exact H2. Qed.

Definition memb (x : nat) (l : list nat) : bool := existsb (Nat.eqb x) l.

(** ------------------------------------------------------------------ the model *)
Definition msg := (nat * nat * nat * Z)%type.      (* (src, dst, label, payload) *)
Definition msrc (x : msg) : nat := fst (fst (fst x)).
Definition mdst (x : msg) : nat := snd (fst (fst x)).
Definition mlab (x : msg) : nat := snd (fst x).
Definition mval (x : msg) : Z := snd x.
Definition outp := (nat * nat * Z)%type.           (* (party, output id = label of the Output op, value) *)
Definition opid (o : outp) : nat := fst (fst o).
Definition olab (o : outp) : nat := snd (fst o).
Definition oval (o : outp) : Z := snd o.

Inductive op : Type :=
| Input (s : nat)
| Add (i j : nat)
| Mul (pc : Z) (i j : nat)
| Output (i : nat) (rcv : list nat).

Section Model.
Variable p : Z.                        (* field modulus *)
Variables m t : nat.                   (* parties, threshold *)
Variable inp : nat -> Z.               (* label of an Input op -> the sender's secret *)
Variable tape : nat -> nat -> list Z.  (* label, dealer -> the t coefficients it draws for that dealing *)
Variable prog : list op.

(** values: Exec.v's Z_p instances of thresha.random_split / recombine (opaque to the proofs below) *)
Definition deal (c : list Z) (s : Z) (d : nat) : Z := nth d (zp_split_col p m c s) 0%Z.
Definition recomb (pts : list (nat * Z)) : Z :=
  hd 0%Z (zp_recombine p (map (fun xv => (fst xv, [snd xv])) pts) 0%Z).
Definition fadd (a b : Z) : Z := ((a + b) mod p)%Z.
Definition fmul (a b : Z) : Z := ((a * b) mod p)%Z.
Definition uci (pc : Z) : nat := Z.to_nat (pc mod Z.of_nat m).

Definition others (pid : nat) : list nat := filter (fun d => negb (d =? pid)) (seq 0 m).

(** payloads of the messages labelled k from s to d among the delivered messages D *)
Definition recv (D : list msg) (s d k : nat) : list Z :=
  map mval (filter (fun x => (msrc x =? s) && (mdst x =? d) && (mlab x =? k)) D).

(** output: the t predecessors of a receiver, in the order the code awaits them *)
Definition preds (pid : nat) : list nat := map (fun j => (pid + m - t + j) mod m) (seq 0 t).

(** share(s) of operation k at party pid, given the shares env of operations 0..k-1 *)
Definition opval (D : list msg) (pid k : nat) (o : op) (env : list (list Z)) : list Z :=
  match o with
  | Input s => if pid =? s then [deal (tape k s) (inp k) pid] else recv D s pid k
  | Add i j => lift2 fadd (nth i env []) (nth j env [])
  | Mul pc i j =>
      if t =? 0 then lift2 fmul (nth i env []) (nth j env []) else      (* _reshare: "if t == 0: return x" *)
      let ds := dealers m t (uci pc) in
      let oth := filter (fun d => negb (d =? pid)) ds in
      flat_map (fun z =>
          map (fun sub => recomb (combine (map S oth) sub ++
                                  (if memb pid ds then [(S pid, deal (tape k pid) z pid)] else [])))
              (combos (map (fun d => recv D d pid k) oth)))
        (lift2 fmul (nth i env []) (nth j env []))
  | Output _ _ => []
  end.

(** messages of operation k sent by party pid (in the order the code sends them) *)
Definition opsend (pid k : nat) (o : op) (env : list (list Z)) : list msg :=
  match o with
  | Input s => if pid =? s then map (fun d => (pid, d, k, deal (tape k s) (inp k) d)) (others pid) else []
  | Add _ _ => []
  | Mul pc i j =>
      if negb (t =? 0) && memb pid (dealers m t (uci pc)) then
        flat_map (fun z => map (fun d => (pid, d, k, deal (tape k pid) z d)) (others pid))
                 (lift2 fmul (nth i env []) (nth j env []))
      else []
  | Output i rcv =>
      flat_map (fun x => map (fun r => (pid, r, k, x))
                             (filter (fun r => let dl := (r + m - pid) mod m in (0 <? dl) && (dl <=? t)) rcv))
               (nth i env [])
  end.

(** outputs of operation k completed by party pid *)
Definition opres (D : list msg) (pid k : nat) (o : op) (env : list (list Z)) : list outp :=
  match o with
  | Output i rcv =>
      if memb pid rcv then
        flat_map (fun x =>
            map (fun sub => (pid, k, recomb (combine (map S (preds pid)) sub ++ [(S pid, x)])))
                (combos (map (fun q => recv D q pid k) (preds pid))))
          (nth i env [])
      else []
  | _ => []
  end.

Fixpoint sends_from (D : list msg) (pid k : nat) (ops : list op) (env : list (list Z)) : list msg :=
  match ops with
  | [] => []
  | o :: rest => opsend pid k o env ++ sends_from D pid (S k) rest (env ++ [opval D pid k o env])
  end.

Fixpoint results_from (D : list msg) (pid k : nat) (ops : list op) (env : list (list Z)) : list outp :=
  match ops with
  | [] => []
  | o :: rest => opres D pid k o env ++ results_from D pid (S k) rest (env ++ [opval D pid k o env])
  end.

(** what party pid has sent / output once exactly the messages D have been delivered (to anyone:
    only those addressed to pid matter) *)
Definition sends (D : list msg) (pid : nat) : list msg := sends_from D pid 0 prog [].
Definition results (D : list msg) (pid : nat) : list outp := results_from D pid 0 prog [].
Definition sends_all (D : list msg) : list msg := flat_map (sends D) (seq 0 m).
Definition results_all (D : list msg) : list outp := flat_map (results D) (seq 0 m).

(** ---------------------------------------------------------------- monotonicity *)
Lemma recv_mono D D' s d k : incl D D' -> incl (recv D s d k) (recv D' s d k).
Proof. intros H. unfold recv. apply incl_map. apply incl_filter2. exact H. Qed.

Definition env_le (e e' : list (list Z)) : Prop := Forall2 (@incl Z) e e'.

Lemma opval_mono D D' pid k o e e' : incl D D' -> env_le e e' -> incl (opval D pid k o e) (opval D' pid k o e').
Proof.
  intros HD He. destruct o as [s|i j|pc i j|i rcv]; simpl.
  - destruct (pid =? s); [apply incl_refl|apply recv_mono, HD].
  - apply lift2_mono; apply nth_env_mono; exact He.
  - destruct (t =? 0); [apply lift2_mono; apply nth_env_mono; exact He|].
    apply incl_flat_map2.
    + apply lift2_mono; apply nth_env_mono; exact He.
    + intros z. apply incl_map. apply combos_mono. apply Forall2_map_same. intros d. apply recv_mono, HD.
  - apply incl_refl.
Qed.

Lemma opsend_mono pid k o e e' : env_le e e' -> incl (opsend pid k o e) (opsend pid k o e').
Proof.
  intros He. destruct o as [s|i j|pc i j|i rcv]; simpl; try apply incl_refl.
  - destruct (negb (t =? 0) && memb pid (dealers m t (uci pc))); [|apply incl_refl].
    apply incl_flat_map2; [|intros z; apply incl_refl]. apply lift2_mono; apply nth_env_mono; exact He.
  - apply incl_flat_map2; [|intros z; apply incl_refl]. apply nth_env_mono; exact He.
Qed.

Lemma opres_mono D D' pid k o e e' : incl D D' -> env_le e e' -> incl (opres D pid k o e) (opres D' pid k o e').
Proof.
  intros HD He. destruct o as [s|i j|pc i j|i rcv]; simpl; try apply incl_refl.
  destruct (memb pid rcv); [|apply incl_refl].
  apply incl_flat_map2; [apply nth_env_mono; exact He|].
  intros x. apply incl_map. apply combos_mono. apply Forall2_map_same. intros q. apply recv_mono, HD.
Qed.

Lemma sends_from_mono D D' pid ops : incl D D' -> forall k e e', env_le e e' ->
  incl (sends_from D pid k ops e) (sends_from D' pid k ops e').
Proof.
  intros HD. induction ops as [|o rest IH]; intros k e e' He; simpl; [apply incl_refl|].
  apply incl_app_app; [apply opsend_mono, He|].
  apply IH. apply Forall2_snoc; [exact He|apply opval_mono; assumption].
Qed.

Lemma results_from_mono D D' pid ops : incl D D' -> forall k e e', env_le e e' ->
  incl (results_from D pid k ops e) (results_from D' pid k ops e').
Proof.
  intros HD. induction ops as [|o rest IH]; intros k e e' He; simpl; [apply incl_refl|].
  apply incl_app_app; [apply opres_mono; assumption|].
  apply IH. apply Forall2_snoc; [exact He|apply opval_mono; assumption].
Qed.

Theorem sends_mono D D' pid : incl D D' -> incl (sends D pid) (sends D' pid).
Proof. intros H. apply sends_from_mono; [exact H|constructor]. Qed.

Theorem results_mono D D' pid : incl D D' -> incl (results D pid) (results D' pid).
Proof. intros H. apply results_from_mono; [exact H|constructor]. Qed.

Theorem sends_all_mono D D' : incl D D' -> incl (sends_all D) (sends_all D').
Proof. intros H. apply incl_flat_map2; [apply incl_refl|]. intros pid. apply sends_mono, H. Qed.

Theorem results_all_mono D D' : incl D D' -> incl (results_all D) (results_all D').
Proof. intros H. apply incl_flat_map2; [apply incl_refl|]. intros pid. apply results_mono, H. Qed.

(** ---------------------------------------------------------------- the crashed system *)
(** Party c emits only those of its messages that satisfy [keep] (any predicate: any subset of its
    messages, in particular a prefix of its send order); everybody else behaves as before. *)
Definition crash_filter (keep : msg -> bool) (c : nat) (x : msg) : bool := negb (msrc x =? c) || keep x.
Definition step (f : msg -> bool) (D : list msg) : list msg := filter f (sends_all D).
Definition sends_crashed (keep : msg -> bool) (c : nat) (D : list msg) : list msg := step (crash_filter keep c) D.

(** the first kcut messages, identified by (label, dst), of the send order [order] of the crashing party *)
Definition prefix_keep (order : list (nat * nat)) (kcut : nat) (x : msg) : bool :=
  existsb (fun q => (fst q =? mlab x) && (snd q =? mdst x)) (firstn kcut order).

Theorem crash_sub_behaviour keep c D : incl (sends_crashed keep c D) (sends_all D).
Proof. apply incl_filter. Qed.

Lemma step_mono f D D' : incl D D' -> incl (step f D) (step f D').
Proof. intros H. apply incl_filter2. apply sends_all_mono, H. Qed.

(** delivered lists reachable under ANY schedule: deliver, one at a time, any message that has been sent *)
Inductive lreach (snd : list msg -> list msg) : list msg -> Prop :=
| lreach_nil : lreach snd []
| lreach_cons : forall D x, lreach snd D -> In x (snd D) -> lreach snd (x :: D).

(** ---- instance of Crash.v: message sets generated by finite delivered lists *)
Definition below (D : list msg) (A : msg -> Prop) : Prop := forall x, In x D -> A x.
Definition Send (A : msg -> Prop) (x : msg) : Prop := exists D, below D A /\ In x (sends_all D).
Definition Send' (keep : msg -> bool) (c : nat) (A : msg -> Prop) (x : msg) : Prop :=
  exists D, below D A /\ In x (sends_crashed keep c D).
Definition Res (A : msg -> Prop) (o : outp) : Prop := exists D, below D A /\ In o (results_all D).

Lemma Send_mono A B : sub msg A B -> sub msg (Send A) (Send B).
Proof. intros H x [D [HD Hx]]. exists D. split; [intros y Hy; apply H, HD, Hy|exact Hx]. Qed.
Lemma Res_mono A B : sub msg A B -> forall o, Res A o -> Res B o.
Proof. intros H o [D [HD Ho]]. exists D. split; [intros y Hy; apply H, HD, Hy|exact Ho]. Qed.
Lemma Send'_sub keep c A : sub msg (Send' keep c A) (Send A).
Proof. intros x [D [HD Hx]]. exists D. split; [exact HD|]. apply (crash_sub_behaviour keep c D), Hx. Qed.

(** on a finite list the set-level system is exactly the list-level one (this is where monotonicity is used) *)
Lemma Send_list D x : Send (fun y => In y D) x <-> In x (sends_all D).
Proof.
  split.
  - intros [D0 [H0 Hx]]. apply (sends_all_mono D0 D); [exact H0|exact Hx].
  - intros Hx. exists D. split; [intros y Hy; exact Hy|exact Hx].
Qed.
Lemma Res_list D o : Res (fun y => In y D) o <-> In o (results_all D).
Proof.
  split.
  - intros [D0 [H0 Ho]]. apply (results_all_mono D0 D); [exact H0|exact Ho].
  - intros Ho. exists D. split; [intros y Hy; exact Hy|exact Ho].
Qed.

Lemma closed_list S : incl (sends_all S) S -> closed msg Send (fun y => In y S).
Proof. intros H x Hx. apply H. apply Send_list. exact Hx. Qed.

Lemma lreach_reach keep c D : lreach (sends_crashed keep c) D ->
  exists A, reach msg (Send' keep c) A /\ forall x, A x <-> In x D.
Proof.
  induction 1 as [|D x _ [A [HA HAD]] Hx].
  - exists (fun _ => False). split; [constructor|]. intros x. simpl. tauto.
  - exists (fun y => A y \/ y = x). split.
    + apply reach_deliver; [exact HA|]. exists D. split; [intros y Hy; apply HAD, Hy|exact Hx].
    + intros y. simpl. rewrite HAD. split; intros [H|H]; auto.
Qed.

(** C36 for the executable model, by instantiating Crash.crash_safe: whatever any party outputs after
    ANY schedule of the crashed system is output, with the same value, in every completed crash-free run S *)
Theorem crash_exec_safe keep c S : incl (sends_all S) S ->
  forall D, lreach (sends_crashed keep c) D -> forall o, In o (results_all D) -> In o (results_all S).
Proof.
  intros HS D HD o Ho.
  destruct (lreach_reach keep c D HD) as [A [HA HAD]].
  apply Res_list.
  apply (crash_safe msg outp Send (Send' keep c) Res Send_mono Res_mono (Send'_sub keep c)
                    (fun y => In y S) (closed_list S HS) A HA o).
  exists D. split; [intros y Hy; apply HAD, Hy|exact Ho].
Qed.

(** everything delivered in the crashed system is delivered in the completed crash-free run *)
Theorem crash_exec_delivered_subset keep c S : incl (sends_all S) S ->
  forall D, lreach (sends_crashed keep c) D -> incl D S.
Proof.
  intros HS D HD x Hx.
  destruct (lreach_reach keep c D HD) as [A [HA HAD]].
  apply (crashed_run_delivers_subset msg Send (Send' keep c) Send_mono (Send'_sub keep c)
           (fun y => In y S) (closed_list S HS) A HA x). apply HAD, Hx.
Qed.

(** ---------------------------------------------------------------- closure by iteration *)
Fixpoint iter (f : msg -> bool) (n : nat) : list msg :=
  match n with O => [] | S n' => step f (iter f n') end.

Definition restrict (n : nat) (D : list msg) : list msg := filter (fun x => mlab x <? n) D.

Lemma restrict_app n D1 D2 : restrict n (D1 ++ D2) = restrict n D1 ++ restrict n D2.
Proof. apply filter_app. Qed.
Lemma restrict_none n D : (forall x, In x D -> n <= mlab x) -> restrict n D = [].
Proof. intros H. apply filter_none. intros x Hx. apply Nat.ltb_ge. apply H, Hx. Qed.

Lemma restrict_flat_map {A} n (g : A -> list msg) l : restrict n (flat_map g l) = flat_map (fun a => restrict n (g a)) l.
Proof. apply filter_flat_map. Qed.
Lemma restrict_filter n f D : restrict n (filter f D) = filter f (restrict n D).
Proof. apply filter_comm. Qed.

Lemma recv_restrict D n s d k : k < n -> recv (restrict n D) s d k = recv D s d k.
Proof.
  intros H. unfold recv, restrict. f_equal. apply filter_filter_imp.
  intros x Hx. apply andb_true_iff in Hx. destruct Hx as [_ Hk]. apply Nat.eqb_eq in Hk.
  apply Nat.ltb_lt. lia.
Qed.

Lemma opval_restrict D n pid k o e : k < n -> opval (restrict n D) pid k o e = opval D pid k o e.
Proof.
  intros H. destruct o as [s|i j|pc i j|i rcv]; simpl; try reflexivity.
  - rewrite recv_restrict by exact H. reflexivity.
  - destruct (t =? 0); [reflexivity|].
    apply flat_map_ext. intros z. f_equal. f_equal. apply map_ext. intros d. apply recv_restrict, H.
Qed.

Lemma opsend_lab pid k o e x : In x (opsend pid k o e) -> mlab x = k /\ msrc x = pid.
Proof.
  destruct o as [s|i j|pc i j|i rcv]; simpl.
  - destruct (pid =? s); [|intros []]. intros H. apply in_map_iff in H. destruct H as [d [<- _]]. split; reflexivity.
  - intros [].
  - destruct (negb (t =? 0) && memb pid _); [|intros []]. intros H. apply in_flat_map in H. destruct H as [z [_ H]].
    apply in_map_iff in H. destruct H as [d [<- _]]. split; reflexivity.
  - intros H. apply in_flat_map in H. destruct H as [z [_ H]].
    apply in_map_iff in H. destruct H as [d [<- _]]. split; reflexivity.
Qed.

Lemma sends_from_lab D pid ops : forall k e x, In x (sends_from D pid k ops e) ->
  k <= mlab x /\ mlab x < k + length ops /\ msrc x = pid.
Proof.
  induction ops as [|o rest IH]; intros k e x H; simpl in H; [destruct H|].
  apply in_app_iff in H. destruct H as [H|H].
  - apply opsend_lab in H. simpl. lia.
  - apply IH in H. simpl. lia.
Qed.

Lemma sends_from_restrict D pid n ops : forall k e,
  restrict (S n) (sends_from D pid k ops e) = restrict (S n) (sends_from (restrict n D) pid k ops e).
Proof.
  induction ops as [|o rest IH]; intros k e; simpl; [reflexivity|].
  rewrite !restrict_app. f_equal.
  destruct (Nat.ltb_spec k n) as [Hk|Hk].
  - rewrite (opval_restrict D n pid k o e Hk). apply IH.
  - rewrite !restrict_none; [reflexivity| |].
    + intros x Hx. apply sends_from_lab in Hx. lia.
    + intros x Hx. apply sends_from_lab in Hx. lia.
Qed.

Lemma sends_all_restrict D n : restrict (S n) (sends_all D) = restrict (S n) (sends_all (restrict n D)).
Proof.
  unfold sends_all. rewrite !restrict_flat_map. apply flat_map_ext. intros pid.
  apply (sends_from_restrict D pid n prog 0 []).
Qed.

Lemma step_restrict f D n : restrict (S n) (step f D) = restrict (S n) (step f (restrict n D)).
Proof.
  unfold step. rewrite !restrict_filter. f_equal. apply sends_all_restrict.
Qed.

Lemma iter_stable f n : forall n', n <= n' -> restrict n (iter f n') = restrict n (iter f n).
Proof.
  induction n as [|n IH]; intros n' H.
  - unfold restrict. rewrite !filter_none; auto.
  - destruct n' as [|n']; [lia|]. simpl.
    rewrite step_restrict, (IH n') by lia. rewrite <- step_restrict. reflexivity.
Qed.

Lemma sends_all_lab D x : In x (sends_all D) -> mlab x < length prog /\ msrc x < m.
Proof.
  intros H. apply in_flat_map in H. destruct H as [pid [Hp H]]. apply in_seq in Hp.
  apply sends_from_lab in H. lia.
Qed.

Lemma restrict_ge f D n : length prog <= n -> restrict n (step f D) = step f D.
Proof.
  intros Hn. apply filter_all. intros x Hx. apply filter_In in Hx. destruct Hx as [Hx _].
  apply sends_all_lab in Hx. apply Nat.ltb_lt. lia.
Qed.

Lemma restrict_iter f n k : length prog <= n -> restrict n (iter f k) = iter f k.
Proof. intros Hn. destruct k; [reflexivity|]. simpl. apply restrict_ge, Hn. Qed.

(** the iteration has converged after (number of operations) rounds: round n settles label n-1 *)
Theorem iter_fixpoint f : step f (iter f (length prog)) = iter f (length prog).
Proof.
  change (iter f (S (length prog)) = iter f (length prog)).
  transitivity (restrict (length prog) (iter f (S (length prog)))).
  - symmetry. apply restrict_iter. lia.
  - rewrite (iter_stable f (length prog) (S (length prog))) by lia. apply restrict_iter. lia.
Qed.

Lemma iter_lreach_aux f L : forall D, lreach (step f) D -> incl L (step f D) ->
  lreach (step f) (rev L ++ D).
Proof.
  induction L as [|x L IH]; intros D HD HL; simpl; [exact HD|].
  rewrite <- app_assoc. simpl. apply IH.
  - constructor; [exact HD|]. apply HL. left. reflexivity.
  - intros y Hy. apply (step_mono f D (x :: D)); [intros z Hz; right; exact Hz|]. apply HL. right. exact Hy.
Qed.

(** the closure is the delivered set of an actual (fair) schedule: some reachable list has the same elements *)
Theorem iter_reachable f n : exists D, lreach (step f) D /\ incl D (iter f n) /\ incl (iter f n) D.
Proof.
  induction n as [|n [D [HD [H1 H2]]]].
  - exists []. repeat split; [constructor|apply incl_refl|apply incl_refl].
  - exists (rev (iter f (S n)) ++ D). repeat split.
    + apply iter_lreach_aux; [exact HD|]. simpl. apply step_mono. exact H2.
    + intros x Hx. apply in_app_iff in Hx. destruct Hx as [Hx|Hx]; [apply in_rev in Hx; exact Hx|].
      (* iter is increasing *)
      assert (Hinc : forall k, incl (iter f k) (iter f (S k))).
      { induction k as [|k IHk]; [intros y []|]. simpl. apply step_mono. exact IHk. }
      apply Hinc, H1, Hx.
    + intros x Hx. apply in_app_iff. left. apply -> in_rev. exact Hx.
Qed.

(** crash-free closure and its results *)
Definition cf : list msg := iter (fun _ => true) (length prog).

Lemma step_true D : step (fun _ => true) D = sends_all D.
Proof. apply filter_all. reflexivity. Qed.

Theorem cf_closed : incl (sends_all cf) cf.
Proof. unfold cf. rewrite <- step_true, iter_fixpoint. apply incl_refl. Qed.

(** closure of the crashed system *)
Definition crashed_closure (keep : msg -> bool) (c : nat) : list msg := iter (crash_filter keep c) (length prog).

Theorem crashed_closure_closed keep c :
  sends_crashed keep c (crashed_closure keep c) = crashed_closure keep c.
Proof. apply iter_fixpoint. Qed.

Theorem crashed_closure_reachable keep c : exists D, lreach (sends_crashed keep c) D /\
  incl D (crashed_closure keep c) /\ incl (crashed_closure keep c) D.
Proof. apply iter_reachable. Qed.

(** every schedule of the crashed system stays below the closure *)
Theorem crashed_closure_max keep c D : lreach (sends_crashed keep c) D -> incl D (crashed_closure keep c).
Proof.
  induction 1 as [|D x _ IH Hx]; [intros y []|].
  intros y [<-|Hy]; [|apply IH, Hy].
  rewrite <- crashed_closure_closed. apply (step_mono _ D); assumption.
Qed.

(** ---------------------------------------------------------------- single-valuedness *)
Definition single {A} (l : list A) : Prop := forall a b, In a l -> In b l -> a = b.
Definition functional (D : list msg) : Prop :=
  forall x y, In x D -> In y D -> msrc x = msrc y -> mdst x = mdst y -> mlab x = mlab y -> x = y.

Lemma single_nil {A} : single (@nil A). Proof. intros a b []. Qed.
Lemma single_one {A} (a : A) : single [a].
Proof. intros x y [<-|[]] [<-|[]]. reflexivity. Qed.
Lemma single_map {A B} (f : A -> B) l : single l -> single (map f l).
Proof.
  intros H a b Ha Hb. apply in_map_iff in Ha. apply in_map_iff in Hb.
  destruct Ha as [x [<- Hx]]. destruct Hb as [y [<- Hy]]. f_equal. apply H; assumption.
Qed.
Lemma single_lift2 {A} (f : A -> A -> A) l1 l2 : single l1 -> single l2 -> single (lift2 f l1 l2).
Proof.
  intros H1 H2 a b Ha Hb. apply in_flat_map in Ha. apply in_flat_map in Hb.
  destruct Ha as [x [Hx Ha]]. destruct Hb as [y [Hy Hb]].
  apply in_map_iff in Ha. apply in_map_iff in Hb.
  destruct Ha as [x' [<- Hx']]. destruct Hb as [y' [<- Hy']].
  rewrite (H1 x y Hx Hy), (H2 x' y' Hx' Hy'). reflexivity.
Qed.
Lemma single_combos {A} (ls : list (list A)) : Forall single ls -> single (combos ls).
Proof.
  induction 1 as [|l ls Hl _ IH]; simpl; [apply single_one|].
  intros a b Ha Hb. apply in_flat_map in Ha. apply in_flat_map in Hb.
  destruct Ha as [x [Hx Ha]]. destruct Hb as [y [Hy Hb]].
  apply in_map_iff in Ha. apply in_map_iff in Hb.
  destruct Ha as [x' [<- Hx']]. destruct Hb as [y' [<- Hy']].
  rewrite (Hl x y Hx Hy), (IH x' y' Hx' Hy'). reflexivity.
Qed.
Lemma single_nth {A} (e : list (list A)) i : Forall single e -> single (nth i e []).
Proof.
  intros H. revert i. induction H as [|l e Hl _ IH]; intros [|i]; simpl; auto using single_nil.
Qed.

Lemma msg_eq (x y : msg) : msrc x = msrc y -> mdst x = mdst y -> mlab x = mlab y -> mval x = mval y -> x = y.
Proof.
  destruct x as [[[a b] c] d]. destruct y as [[[a' b'] c'] d']. unfold msrc, mdst, mlab, mval. simpl.
  intros -> -> -> ->. reflexivity.
Qed.

Lemma recv_single D s d k : functional D -> single (recv D s d k).
Proof.
  intros HF a b Ha Hb. unfold recv in *. apply in_map_iff in Ha. apply in_map_iff in Hb.
  destruct Ha as [x [<- Hx]]. destruct Hb as [y [<- Hy]].
  apply filter_In in Hx. apply filter_In in Hy. destruct Hx as [Hx Ex]. destruct Hy as [Hy Ey].
  apply andb_true_iff in Ex. destruct Ex as [Ex Ex3]. apply andb_true_iff in Ex. destruct Ex as [Ex1 Ex2].
  apply andb_true_iff in Ey. destruct Ey as [Ey Ey3]. apply andb_true_iff in Ey. destruct Ey as [Ey1 Ey2].
  apply Nat.eqb_eq in Ex1, Ex2, Ex3, Ey1, Ey2, Ey3.
  f_equal. apply HF; auto; congruence.
Qed.

(** two derivations that pick the same element of single lists agree *)
Lemma single_flat_map_map {A B C} (l : list A) (g : A -> list B) (h : A -> B -> C) :
  single l -> (forall a, single (g a)) -> single (flat_map (fun a => map (h a) (g a)) l).
Proof.
  intros Hl Hg x y Hx Hy. apply in_flat_map in Hx. apply in_flat_map in Hy.
  destruct Hx as [a [Ha Hx]]. destruct Hy as [b [Hb Hy]].
  apply in_map_iff in Hx. apply in_map_iff in Hy.
  destruct Hx as [u [<- Hu]]. destruct Hy as [v [<- Hv]].
  assert (a = b) by (apply Hl; assumption). subst b.
  rewrite (Hg a u v Hu Hv). reflexivity.
Qed.

Lemma opval_single D pid k o e : functional D -> Forall single e -> single (opval D pid k o e).
Proof.
  intros HF He. destruct o as [s|i j|pc i j|i rcv]; simpl.
  - destruct (pid =? s); [apply single_one|apply recv_single, HF].
  - apply single_lift2; apply single_nth; exact He.
  - destruct (t =? 0); [apply single_lift2; apply single_nth; exact He|].
    apply single_flat_map_map.
    + apply single_lift2; apply single_nth; exact He.
    + intros z. apply single_combos. apply Forall_forall. intros l Hl. apply in_map_iff in Hl.
      destruct Hl as [d [<- _]]. apply recv_single, HF.
  - apply single_nil.
Qed.

(** two messages of the same operation, by the same party, to the same destination coincide *)
Lemma opsend_functional pid k o e x y : Forall single e ->
  In x (opsend pid k o e) -> In y (opsend pid k o e) -> mdst x = mdst y -> x = y.
Proof.
  intros He. destruct o as [s|i j|pc i j|i rcv]; simpl.
  - destruct (pid =? s); [|intros []]. intros Hx Hy. apply in_map_iff in Hx. apply in_map_iff in Hy.
    destruct Hx as [d [<- _]]. destruct Hy as [d' [<- _]]. unfold mdst. simpl. intros ->. reflexivity.
  - intros [].
  - destruct (negb (t =? 0) && memb pid _); [|intros []]. intros Hx Hy.
    apply in_flat_map in Hx. apply in_flat_map in Hy.
    destruct Hx as [z [Hz Hx]]. destruct Hy as [z' [Hz' Hy]].
    apply in_map_iff in Hx. apply in_map_iff in Hy.
    destruct Hx as [d [<- _]]. destruct Hy as [d' [<- _]]. unfold mdst. simpl. intros ->.
    assert (z = z') by (eapply (single_lift2 fmul); [apply single_nth, He|apply single_nth, He|exact Hz|exact Hz']).
    subst z'. reflexivity.
  - intros Hx Hy.
    apply in_flat_map in Hx. apply in_flat_map in Hy.
    destruct Hx as [z [Hz Hx]]. destruct Hy as [z' [Hz' Hy]].
    apply in_map_iff in Hx. apply in_map_iff in Hy.
    destruct Hx as [d [<- _]]. destruct Hy as [d' [<- _]]. unfold mdst. simpl. intros ->.
    assert (z = z') by (eapply (single_nth e i He); [exact Hz|exact Hz']).
    subst z'. reflexivity.
Qed.

Lemma sends_from_functional D pid ops : functional D -> forall k e x y, Forall single e ->
  In x (sends_from D pid k ops e) -> In y (sends_from D pid k ops e) ->
  mdst x = mdst y -> mlab x = mlab y -> x = y.
Proof.
  intros HF. induction ops as [|o rest IH]; intros k e x y He Hx Hy Hd Hl; simpl in *; [destruct Hx|].
  apply in_app_iff in Hx. apply in_app_iff in Hy.
  destruct Hx as [Hx|Hx]; destruct Hy as [Hy|Hy].
  - eapply opsend_functional; eauto.
  - apply opsend_lab in Hx. apply sends_from_lab in Hy. lia.
  - apply opsend_lab in Hy. apply sends_from_lab in Hx. lia.
  - eapply IH; [|exact Hx|exact Hy|exact Hd|exact Hl].
    apply Forall_app. split; [exact He|]. constructor; [|constructor]. apply opval_single; assumption.
Qed.

Lemma sends_all_functional D : functional D -> functional (sends_all D).
Proof.
  intros HF x y Hx Hy Hs Hd Hl. apply in_flat_map in Hx. apply in_flat_map in Hy.
  destruct Hx as [pid [_ Hx]]. destruct Hy as [pid' [_ Hy]].
  assert (pid = pid').
  { apply sends_from_lab in Hx. apply sends_from_lab in Hy. lia. }
  subst pid'. eapply (sends_from_functional D pid prog HF 0 []); eauto.
Qed.

Lemma functional_filter f D : functional D -> functional (filter f D).
Proof.
  intros H x y Hx Hy. apply filter_In in Hx. apply filter_In in Hy. apply H; tauto.
Qed.

Theorem iter_functional f n : functional (iter f n).
Proof.
  induction n as [|n IH]; [intros x y []|]. simpl. apply functional_filter, sends_all_functional, IH.
Qed.

Lemma opres_single D pid k o e a b : functional D -> Forall single e ->
  In a (opres D pid k o e) -> In b (opres D pid k o e) -> a = b.
Proof.
  intros HF He. destruct o as [s|i j|pc i j|i rcv]; simpl; try (intros []).
  destruct (memb pid rcv); [|intros []].
  apply single_flat_map_map; [apply single_nth, He|].
  intros z. apply single_combos. apply Forall_forall. intros l Hl. apply in_map_iff in Hl.
  destruct Hl as [d [<- _]]. apply recv_single, HF.
Qed.

Lemma opres_lab D pid k o e a : In a (opres D pid k o e) -> olab a = k /\ opid a = pid.
Proof.
  destruct o as [s|i j|pc i j|i rcv]; simpl; try (intros []).
  destruct (memb pid rcv); [|intros []]. intros H. apply in_flat_map in H. destruct H as [z [_ H]].
  apply in_map_iff in H. destruct H as [sub [<- _]]. split; reflexivity.
Qed.

Lemma results_from_lab D pid ops : forall k e a, In a (results_from D pid k ops e) ->
  k <= olab a /\ olab a < k + length ops /\ opid a = pid.
Proof.
  induction ops as [|o rest IH]; intros k e a H; simpl in H; [destruct H|].
  apply in_app_iff in H. destruct H as [H|H].
  - apply opres_lab in H. simpl. lia.
  - apply IH in H. simpl. lia.
Qed.

Lemma results_from_single D pid ops : functional D -> forall k e a b, Forall single e ->
  In a (results_from D pid k ops e) -> In b (results_from D pid k ops e) -> olab a = olab b -> a = b.
Proof.
  intros HF. induction ops as [|o rest IH]; intros k e a b He Ha Hb Hl; simpl in *; [destruct Ha|].
  apply in_app_iff in Ha. apply in_app_iff in Hb.
  destruct Ha as [Ha|Ha]; destruct Hb as [Hb|Hb].
  - eapply opres_single; eauto.
  - apply opres_lab in Ha. apply results_from_lab in Hb. lia.
  - apply opres_lab in Hb. apply results_from_lab in Ha. lia.
  - eapply IH; [|exact Ha|exact Hb|exact Hl].
    apply Forall_app. split; [exact He|]. constructor; [|constructor]. apply opval_single; assumption.
Qed.

(** in a functional run every (party, output id) has at most one value *)
Theorem results_single_valued D : functional D -> forall a b, In a (results_all D) -> In b (results_all D) ->
  opid a = opid b -> olab a = olab b -> a = b.
Proof.
  intros HF a b Ha Hb Hp Hl. apply in_flat_map in Ha. apply in_flat_map in Hb.
  destruct Ha as [pid [_ Ha]]. destruct Hb as [pid' [_ Hb]].
  assert (pid = pid').
  { apply results_from_lab in Ha. apply results_from_lab in Hb. lia. }
  subst pid'. eapply (results_from_single D pid prog HF 0 []); eauto.
Qed.

Theorem cf_functional : functional cf.
Proof. apply iter_functional. Qed.

(** the crash-free outputs *)
Definition cf_results : list outp := results_all cf.

(** C36, executable model: under ANY schedule of the system in which party c sends only the messages
    selected by keep, every output (pid, id, v) any party completes is a crash-free output, and it has
    the crash-free value: no (pid, id, v') with v' <> v is among the crash-free outputs. *)
Theorem crash_exec_outputs_subset keep c D :
  lreach (sends_crashed keep c) D -> incl (results_all D) cf_results.
Proof. intros HD o Ho. apply (crash_exec_safe keep c cf cf_closed D HD o Ho). Qed.

Theorem crash_exec_no_wrong_value keep c D : lreach (sends_crashed keep c) D ->
  forall pid id v v', In (pid, id, v) (results_all D) -> In (pid, id, v') cf_results -> v = v'.
Proof.
  intros HD pid id v v' Hv Hv'.
  apply (crash_exec_outputs_subset keep c D HD) in Hv.
  assert (E : (pid, id, v) = (pid, id, v')) by (apply (results_single_valued cf cf_functional); auto).
  congruence.
Qed.

(** survivors' outputs when c stops after the first kcut messages of its send order and everything sent
    is eventually delivered *)
Definition survivors_results (c : nat) (D : list msg) : list outp := filter (fun o => negb (opid o =? c)) (results_all D).
Definition run_closed_msgs (c : nat) (order : list (nat * nat)) (kcut : nat) : list msg :=
  crashed_closure (prefix_keep order kcut) c.
Definition run_closed (c : nat) (order : list (nat * nat)) (kcut : nat) : list outp :=
  survivors_results c (run_closed_msgs c order kcut).

(** run_closed is exactly the set of survivor outputs of every fair schedule: it is reached by a schedule,
    that schedule's delivered list is closed, and every other schedule's outputs are among them *)
Theorem run_closed_complete c order kcut D :
  lreach (sends_crashed (prefix_keep order kcut) c) D ->
  incl (survivors_results c D) (run_closed c order kcut).
Proof.
  intros HD. unfold run_closed, survivors_results. apply incl_filter2. apply results_all_mono.
  apply crashed_closure_max. exact HD.
Qed.

Theorem run_closed_attained c order kcut : exists D,
  lreach (sends_crashed (prefix_keep order kcut) c) D /\
  incl (sends_crashed (prefix_keep order kcut) c D) D /\
  incl (run_closed c order kcut) (survivors_results c D) /\ incl (survivors_results c D) (run_closed c order kcut).
Proof.
  destruct (crashed_closure_reachable (prefix_keep order kcut) c) as [D [HD [H1 H2]]].
  exists D. repeat split.
  - exact HD.
  - intros x Hx. apply H2. unfold run_closed_msgs. rewrite <- crashed_closure_closed.
    apply (step_mono _ D); assumption.
  - unfold run_closed, survivors_results. apply incl_filter2. apply results_all_mono. exact H2.
  - apply run_closed_complete. exact HD.
Qed.

Theorem run_closed_correct c order kcut : forall pid id v v',
  In (pid, id, v) (run_closed c order kcut) -> In (pid, id, v') cf_results -> v = v'.
Proof.
  intros pid id v v' Hv Hv'.
  destruct (run_closed_attained c order kcut) as [D [HD [_ [H1 _]]]].
  apply H1 in Hv. apply filter_In in Hv. destruct Hv as [Hv _].
  apply (crash_exec_no_wrong_value _ c D HD pid id v v' Hv Hv').
Qed.

(** program-order send order of party c: its messages in the completed crash-free run *)
Definition prog_order (c : nat) : list (nat * nat) := map (fun x => (mlab x, mdst x)) (sends cf c).

End Model.

(** ------------------------------------------------------------------ executable entry points *)
Definition lookup_inp (l : list (nat * Z)) (k : nat) : Z :=
  match find (fun e => fst e =? k) l with Some e => snd e | None => 0%Z end.
Definition lookup_tape (l : list (nat * nat * list Z)) (k d : nat) : list Z :=
  match find (fun e => (fst (fst e) =? k) && (snd (fst e) =? d)) l with Some e => snd e | None => [] end.

Definition x_cf_msgs p m t prog inputs tapes : list msg :=
  cf p m t (lookup_inp inputs) (lookup_tape tapes) prog.
Definition x_cf_results p m t prog inputs tapes : list outp :=
  cf_results p m t (lookup_inp inputs) (lookup_tape tapes) prog.
Definition x_run_closed p m t prog inputs tapes c order kcut : list outp :=
  run_closed p m t (lookup_inp inputs) (lookup_tape tapes) prog c order kcut.
Definition x_run_closed_msgs p m t prog inputs tapes c order kcut : list msg :=
  run_closed_msgs p m t (lookup_inp inputs) (lookup_tape tapes) prog c order kcut.
Definition x_prog_order p m t prog inputs tapes c : list (nat * nat) :=
  prog_order p m t (lookup_inp inputs) (lookup_tape tapes) prog c.
(** all cuts of one crashing party at once: k = 0 .. length order *)
Definition x_run_all_cuts p m t prog inputs tapes c order : list (list outp) :=
  map (x_run_closed p m t prog inputs tapes c order) (seq 0 (S (length order))).
(** ... with the messages on the wire: (survivors' outputs, delivered messages) for every cut k *)
Definition x_run_all p m t prog inputs tapes c order : list (list outp * list msg) :=
  map (fun k => let D := x_run_closed_msgs p m t prog inputs tapes c order k in
                (survivors_results p m t (lookup_inp inputs) (lookup_tape tapes) prog c D, D))
      (seq 0 (S (length order))).
